import os, shutil, subprocess
def sub(root, path, old, new):
    p=os.path.join(root,path); s=open(p).read()
    assert old in s, (path, old[:50])
    open(p,'w').write(s.replace(old,new,1))
def P9(r):
    sub(r,'group/group.go','''	clients := g.getClientsUnlocked(nil)
	g.mu.Unlock()

	c.Joined(g.Name(), "leave")
	for _, cc := range clients {
		cc.PushClient(
			g.Name(), "delete", c.Id(), c.Username(), nil, nil,
		)
	}
	autoLockKick(g)
}''','''	clients := g.getClientsUnlocked(nil)
	autoLockKick(g)
	g.mu.Unlock()

	c.Joined(g.Name(), "leave")
	for _, cc := range clients {
		cc.PushClient(
			g.Name(), "delete", c.Id(), c.Username(), nil, nil,
		)
	}
}''')
def P10(r):
    sub(r,'group/group.go','''	if !slices.Contains(c.Permissions(), "system") {
		username, perms, err := g.description.GetPermission(
			g.name, creds,
		)
		if err != nil {
			return nil, err
		}

		c.Init(username, perms)
''','''	system := slices.Contains(c.Permissions(), "system")
	var username string
	var perms []string
	if !system {
		var err error
		username, perms, err = g.description.GetPermission(
			g.name, creds,
		)
		if err != nil {
			return nil, err
		}
''')
    sub(r,'group/group.go','''	if g.clients[id] != nil {
		return nil, ProtocolError("duplicate client id")
	}
	g.clients[id] = c''','''	if g.clients[id] != nil {
		return nil, ProtocolError("duplicate client id")
	}
	if !system {
		// only an admitted client gets its username and permissions
		c.Init(username, perms)
	}
	g.clients[id] = c''')
def P23(r):
    sub(r,'group/group.go','''func kickall(g *Group, message string) {
	g.Range(func(c Client) bool {
		c.Kick("", nil, message)
		return true
	})
}''','''func kickall(g *Group, message string) {
	// Kick may call DelClient (WHIP and recording clients): don't hold g.mu
	for _, c := range g.GetClients(nil) {
		c.Kick("", nil, message)
	}
}''')
def P15(r):
    sub(r,'group/description.go','''		if descriptionUnchanged(name, g.description) {
			return g.description, nil
		}''','''		desc := g.Description()
		if descriptionUnchanged(name, desc) {
			return desc, nil
		}''')
def P14(r):
    sub(r,'rtpconn/whipclient.go','''func (c *WhipClient) Close() error {
	c.mu.Lock()
	defer c.mu.Unlock()
	g := c.group
	if g == nil {
		return nil
	}
	if c.connection != nil {
		id := c.connection.Id()
		c.connection.pc.OnICEConnectionStateChange(nil)
		c.connection.pc.Close()
		c.connection = nil
		for _, c := range g.GetClients(c) {
			c.PushConn(g, id, nil, nil, "")
		}
		c.connection = nil
	}
	group.DelClient(c)
	c.group = nil
	return nil
}''','''func (c *WhipClient) Close() error {
	// don't hold c.mu while calling into the group: AddClient and
	// autoLockKick call c.Permissions() with the group locked.
	c.mu.Lock()
	g := c.group
	conn := c.connection
	c.connection = nil
	c.mu.Unlock()
	if g == nil {
		return nil
	}
	if conn != nil {
		id := conn.Id()
		conn.pc.OnICEConnectionStateChange(nil)
		conn.pc.Close()
		for _, cc := range g.GetClients(c) {
			cc.PushConn(g, id, nil, nil, "")
		}
	}
	group.DelClient(c)
	c.mu.Lock()
	c.group = nil
	c.mu.Unlock()
	return nil
}''')
def P16(r):
    sub(r,'rtpconn/whipclient.go','''func (c *WhipClient) Group() *group.Group {
	return c.group
}''','''func (c *WhipClient) Group() *group.Group {
	c.mu.Lock()
	defer c.mu.Unlock()
	return c.group
}''')
    sub(r,'rtpconn/whipclient.go','''func (c *WhipClient) Init(username string, perms []string) {
	c.username = username
	c.permissions = perms
}''','''func (c *WhipClient) Init(username string, perms []string) {
	c.mu.Lock()
	defer c.mu.Unlock()
	c.username = username
	c.permissions = perms
}''')
    sub(r,'rtpconn/whipclient.go','''	if g != c.group {
		return nil
	}

	c.mu.Lock()
	up := c.connection
	c.mu.Unlock()''','''	c.mu.Lock()
	cg := c.group
	up := c.connection
	c.mu.Unlock()
	if g != cg {
		return nil
	}''')
fixes={'P9':[P9],'P10':[P10],'P14':[P14],'P15':[P15],'P23':[P23],'P16':[P14,P16],'all':[P9,P10,P14,P15,P16,P23]}
for name, fs in fixes.items():
    base='/tmp/group-scratch/fx_base'; tgt='/tmp/group-scratch/fx_'+name
    for d in (base,tgt):
        if os.path.exists(d): shutil.rmtree(d)
    shutil.copytree('/repo', base, symlinks=True); shutil.copytree('/repo', tgt, symlinks=True)
    if name=='P16':
        P14(base)   # P16.diff applies on top of P14.diff
    for f in fs: f(tgt)
    r=subprocess.run(['diff','-ru','--exclude=.git', os.path.basename(base), os.path.basename(tgt)], cwd='/tmp/group-scratch', capture_output=True, text=True)
    out=r.stdout.replace('fx_base/','a/').replace('fx_'+name+'/','b/')
    open(f'/tmp/group-scratch/fixes/{name}.diff','w').write(out)
    print(name, len(out.splitlines()), 'lines')
shutil.rmtree('/tmp/group-scratch/fx_base')
