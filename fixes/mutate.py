#!/usr/bin/env python3
"""usage: mutate.py <name> <prop> [--lean]   applies mutation <name> to a fresh copy of /repo and runs ./check"""
import sys, os, shutil, subprocess, re
VERIF='/tmp/build/group/verif'
name, prop = sys.argv[1], sys.argv[2]
lean = '--lean' in sys.argv
dst=f'/tmp/group-scratch/mut/{name}'
if os.path.exists(dst): shutil.rmtree(dst)
shutil.copytree('/repo', dst, symlinks=True)
def sub(path, old, new, count=1):
    p=os.path.join(dst,path); s=open(p).read()
    if old not in s: raise SystemExit(f'pattern not found in {path}: {old[:60]!r}')
    s=s.replace(old,new,count); open(p,'w').write(s)
M={}
def m(f): M[f.__name__]=f; return f
@m
def c10_no_lock_check():
    sub('group/group.go','''			if g.locked != nil {
				m := *g.locked''','''			if false && g.locked != nil {
				m := *g.locked''')
@m
def c10_capacity_off_by_one():
    sub('group/group.go','if len(g.clients) >= g.description.MaxClients {','if len(g.clients) > g.description.MaxClients {')
@m
def c10_no_dup_check():
    sub('group/group.go','if g.clients[id] != nil {','if false && g.clients[id] != nil {')
@m
def c10_notbefore_swapped():
    sub('group/group.go','g.description.NotBefore.After(now) {','g.description.NotBefore.Before(now) {')
@m
def c10_op_not_exempt_capacity():
    sub('group/group.go','''		if !slices.Contains(perms, "op") &&
			g.description.MaxClients > 0 {''','''		if g.description.MaxClients > 0 {''')
@m
def c10_autokick_ignored():
    sub('group/group.go','''				ops := false
				for _, c := range clients {''','''				ops := true
				for _, c := range clients {''')
@m
def c10_del_unknown_client():
    sub('group/group.go','''	if g.clients[c.Id()] != c {
		log.Printf("Deleting unknown client")''','''	if g.clients[c.Id()] == nil {
		log.Printf("Deleting unknown client")''')
@m
def c10_no_autolock_in_add():
    sub('group/group.go','''	autoLockKick(g)

	var clients []Client
	if notify {''','''	var clients []Client
	if notify {''')
@m
def c10_announce_before_checks():
    # announce the newcomer to the members before the duplicate-id check
    sub('group/group.go','''	id := c.Id()
	if id == "" {''','''	for _, cc := range clients {
		cc.PushClient(g.Name(), "add", c.Id(), c.Username(), c.Permissions(), nil)
	}
	id := c.Id()
	if id == "" {''')
@m
def c10_fix_p9():
    sub('group/group.go','''	clients := g.getClientsUnlocked(nil)
	g.mu.Unlock()

	c.Joined(g.Name(), "leave")
	for _, cc := range clients {
		cc.PushClient(
			g.Name(), "delete", c.Id(), c.Username(), nil, nil,
		)
	}
	autoLockKick(g)
}''','''	clients := g.getClientsUnlocked(nil)
	autoLockKick(g)
	g.mu.Unlock()

	c.Joined(g.Name(), "leave")
	for _, cc := range clients {
		cc.PushClient(
			g.Name(), "delete", c.Id(), c.Username(), nil, nil,
		)
	}
}''')
@m
def c13_put_inverted_signal():
    sub('unbounded/unbounded.go','	if empty {\n		select {','	if !empty {\n		select {')
@m
def c13_get_keeps_queue():
    sub('unbounded/unbounded.go','	ch.queue = nil\n','')
@m
def c13_put_prepends():
    sub('unbounded/unbounded.go','ch.queue = append(ch.queue, v)','ch.queue = append([]T{v}, ch.queue...)')
@m
def c13_put_empty_after_append():
    sub('unbounded/unbounded.go','''	empty := len(ch.queue) == 0
	ch.queue = append(ch.queue, v)''','''	ch.queue = append(ch.queue, v)
	empty := len(ch.queue) == 0''')
@m
def c13_put_signal_blocking_drop():
    # signal before the append (a consumer can drain an empty queue and go back to sleep)
    sub('unbounded/unbounded.go','''	ch.mu.Lock()
	empty := len(ch.queue) == 0
	ch.queue = append(ch.queue, v)
	ch.mu.Unlock()

	if empty {
		select {
		case ch.Ch <- struct{}{}:
		default:
		}
	}''','''	ch.mu.Lock()
	empty := len(ch.queue) == 0
	ch.mu.Unlock()
	if empty {
		select {
		case ch.Ch <- struct{}{}:
		default:
		}
	}
	ch.mu.Lock()
	ch.queue = append(ch.queue, v)
	ch.mu.Unlock()''')
@m
def c13_new_lock_inversion():
    sub('group/group.go','''func (g *Group) ClientCount() int {
	g.mu.Lock()
	defer g.mu.Unlock()''','''func (g *Group) ClientCount() int {
	g.mu.Lock()
	defer g.mu.Unlock()
	groups.mu.Lock()
	groups.mu.Unlock()''')
@m
def c13_unlocked_clientcount():
    sub('group/group.go','''func (g *Group) ClientCount() int {
	g.mu.Lock()
	defer g.mu.Unlock()''','''func (g *Group) ClientCount() int {''')
@m
def c13_cache_last_unlocked():
    sub('packetcache/packetcache.go','''func (cache *Cache) Last() (uint16, bool) {
	cache.mu.Lock()
	defer cache.mu.Unlock()''','''func (cache *Cache) Last() (uint16, bool) {''')
@m
def c13_goto_defeats_extractor():
    sub('group/group.go','''func (g *Group) ClientCount() int {
	g.mu.Lock()
	defer g.mu.Unlock()''','''func (g *Group) ClientCount() int {
	g.mu.Lock()
	goto out
out:
	defer g.mu.Unlock()''')
@m
def c13_dynamic_call_defeats_extractor():
    sub('group/group.go','''func (g *Group) ClientCount() int {
	g.mu.Lock()
	defer g.mu.Unlock()''','''var countHook func(g *Group)

func (g *Group) ClientCount() int {
	g.mu.Lock()
	defer g.mu.Unlock()
	if countHook != nil {
		countHook(g)
	}''')
@m
def c13_fix_p15():
    sub('group/description.go','''		if descriptionUnchanged(name, g.description) {
			return g.description, nil
		}''','''		if desc := g.Description(); descriptionUnchanged(name, desc) {
			return desc, nil
		}''')
@m
def c13_whip_webclient_inversion():
    # webClient.PushClient takes c.mu and calls into the group
    sub('unbounded/unbounded.go','''func (ch *Channel[T]) Get() []T {
	ch.mu.Lock()
	defer ch.mu.Unlock()''','''func (ch *Channel[T]) Get() []T {
	ch.mu.Lock()
	defer ch.mu.Unlock()
	if len(ch.queue) > 1000000 {
		ch.Put(ch.queue[0])
	}''')
@m
def c13_fix_cycles():
    sub('group/group.go','''func kickall(g *Group, message string) {
	g.Range(func(c Client) bool {
		c.Kick("", nil, message)
		return true
	})
}''','''func kickall(g *Group, message string) {
	for _, c := range g.GetClients(nil) {
		c.Kick("", nil, message)
	}
}''')
    sub('rtpconn/whipclient.go','''func (c *WhipClient) Close() error {
	c.mu.Lock()
	defer c.mu.Unlock()
	g := c.group
	if g == nil {
		return nil
	}
	if c.connection != nil {
		id := c.connection.Id()
		c.connection.pc.OnICEConnectionStateChange(nil)
		c.connection.pc.Close()
		c.connection = nil
		for _, c := range g.GetClients(c) {
			c.PushConn(g, id, nil, nil, "")
		}
		c.connection = nil
	}
	group.DelClient(c)
	c.group = nil
	return nil
}''','''func (c *WhipClient) Close() error {
	c.mu.Lock()
	g := c.group
	conn := c.connection
	c.connection = nil
	c.mu.Unlock()
	if g == nil {
		return nil
	}
	if conn != nil {
		id := conn.Id()
		conn.pc.OnICEConnectionStateChange(nil)
		conn.pc.Close()
		for _, cc := range g.GetClients(c) {
			cc.PushConn(g, id, nil, nil, "")
		}
	}
	group.DelClient(c)
	c.mu.Lock()
	c.group = nil
	c.mu.Unlock()
	return nil
}''')
M[name]()
env=dict(os.environ, VERIF_REPO=dst)
cmd=['./check', prop] + ([] if lean else ['--no-lean'])
r=subprocess.run(cmd, cwd=VERIF, env=env, capture_output=True, text=True)
out=r.stdout
print(f'=== {name} ({" ".join(cmd)}) exit={r.returncode}')
for line in out.splitlines():
    if line.startswith('KNOWN-FINDING'):
        print('  ', line[:110])
    else:
        print('  ', line[:420])
shutil.rmtree(dst)
