#!/bin/sh
# Regenerate lean/GaleneVerif/Generated/*.lean from $VERIF_REPO (default /repo). Called by ./check before lake build.
set -e
cd "$(dirname "$0")"
mkdir -p ../lean/GaleneVerif/Generated
python3 params.py
for x in ./gen_*.sh; do [ -x "$x" ] && "$x"; done
exit 0
