#!/bin/sh
# Regenerates lean/GaleneVerif/Generated/*.lean from the working tree of $VERIF_REPO (default /repo).
# Called by ./check before the Lean build: `extract/run.sh [generator ...]`.  params.py (constants) always
# runs; each named generator extract/gen-<name> runs too (with no arguments: all of them, as setup does).
# A generator rewrites its file only when the content changes, and fails closed.
set -e
cd "$(dirname "$0")/.."
mkdir -p lean/GaleneVerif/Generated
python3 extract/params.py
if [ $# -eq 0 ]; then
  for g in extract/gen-*; do
    if [ -x "$g" ]; then "$g"; fi
  done
else
  for n in "$@"; do
    [ "$n" = "--none" ] || "extract/gen-$n"
  done
fi
