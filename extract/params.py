#!/usr/bin/env python3
"""Regenerates lean/GaleneVerif/Generated/Params.lean from the constants in /repo's
working tree ($VERIF_REPO).  Fails closed: a constant that cannot be found is emitted as 0
and the consuming side condition (by `decide`) fails."""
import os, re, sys
REPO = os.environ.get("VERIF_REPO", "/repo")
OUT = os.path.join(os.path.dirname(os.path.abspath(__file__)), "..", "lean", "GaleneVerif", "Generated", "Params.lean")


def src(rel):
    try:
        return open(os.path.join(REPO, rel)).read()
    except OSError:
        return ""


def strip_comments(s):
    s = re.sub(r"/\*.*?\*/", "", s, flags=re.S)
    return re.sub(r"//.*", "", s)


def const_expr(text, name):
    """value of `name = <int expr>` / `const name = <int expr>` (literals, *, <<, +, -)."""
    m = re.search(r"\b" + re.escape(name) + r"\s*(?:[A-Za-z0-9_.]+\s*)?=\s*([0-9xXa-fA-F \t*<+\-()]+)", text)
    if not m:
        return 0
    try:
        return int(eval(m.group(1).strip(), {"__builtins__": {}}))
    except Exception:
        return 0


pm = strip_comments(src("packetmap/packetmap.go"))
pc = strip_comments(src("packetcache/packetcache.go"))
rc = strip_comments(src("rtpconn/rtpconn.go"))
gr = strip_comments(src("group/group.go"))

# every literal that plays the role of the re-synchronisation window in packetmap.go
windows = []
for m in re.finditer(r"uint16\([^)]*\)\s*>\s*(\d+\s*\*\s*\d+|\d+)", pm):
    windows.append(int(eval(m.group(1))))
for m in re.finditer(r"\bd\s*<\s*(\d+)", pm):
    windows.append(int(m.group(1)))
for m in re.finditer(r"first:\s*seqno\s*-\s*(\d+)", pm):
    windows.append(int(m.group(1)))
for m in re.finditer(r"count:\s*(\d+)\s*,", pm):
    windows.append(int(m.group(1)))

vals = {
    "pmMaxEntries": const_expr(pm, "maxEntries"),
    "pmMaxCount": const_expr(pm, "maxCount"),
    "bufSize": const_expr(pc, "BufSize"),
    "minLossRate": const_expr(rc, "minLossRate"),
    "initLossRate": const_expr(rc, "initLossRate"),
    "maxLossRate": const_expr(rc, "maxLossRate"),
    "maxChatHistory": const_expr(gr, "maxChatHistory"),
}
m = re.search(r"r\s*=\s*(\d+\s*\*\s*\d+)\s*\n\s*\}\s*\n\s*rr\s*:=", rc)
vals["defaultMaxBitrate"] = int(eval(m.group(1))) if m else 0

with open(OUT, "w") as f:
    f.write("/- GENERATED on every run by extract/params.py from the constants of /repo's working tree. Do not edit. -/\n")
    f.write("namespace Galene.Generated\n\n")
    for k, v in vals.items():
        f.write(f"def {k} : Nat := {v}\n")
    f.write(f"\n/-- every literal used as the re-synchronisation window in packetmap.go -/\n")
    f.write(f"def pmWindows : List Nat := [{', '.join(map(str, windows))}]\n")
    f.write("\nend Galene.Generated\n")
print("params:", vals, "windows:", windows)
