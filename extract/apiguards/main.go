// apiguards: a deliberately simple lexical dominance check over webserver/api.go.
//
// For every function of api.go that serves requests (it has an http.ResponseWriter
// parameter and is not one of the authorisation helpers) it lists every call into the
// packages group, token and stats together with whether, on every path from the function
// entry to that call, a statement
//
//	if !checkAdmin(...) { ...; return }      or      if !checkAdminOrExplicitPassword(...) { ...; return }
//
// has been passed ("must" analysis over if/else and switch; no aliasing, no loops — a loop or
// any statement kind not understood makes everything after it unguarded, so the consuming side
// condition fails closed).  Output: lean/GaleneVerif/Generated/ApiGuards.lean.
//
// usage: go run main.go <repo>/webserver/api.go <out.lean>
package main

import (
	"fmt"
	"go/ast"
	"go/parser"
	"go/token"
	"os"
	"sort"
	"strings"
)

type fact struct {
	fn, callee string
	line       int
	guarded    bool
}

var facts []fact
var fset = token.NewFileSet()
var sensitive = map[string]bool{"group": true, "token": true, "stats": true}
var guards = map[string]bool{"checkAdmin": true, "checkAdminOrExplicitPassword": true}

func record(fn string, n ast.Node, guarded bool) {
	if n == nil {
		return
	}
	ast.Inspect(n, func(x ast.Node) bool {
		if _, ok := x.(*ast.FuncLit); ok {
			// a closure may run anywhere: treat calls inside as unguarded
			ast.Inspect(x, func(y ast.Node) bool {
				if c, ok := y.(*ast.CallExpr); ok {
					if s := sel(c); s != "" {
						facts = append(facts, fact{fn, s, fset.Position(c.Pos()).Line, false})
					}
				}
				return true
			})
			return false
		}
		if c, ok := x.(*ast.CallExpr); ok {
			if s := sel(c); s != "" {
				facts = append(facts, fact{fn, s, fset.Position(c.Pos()).Line, guarded})
			}
		}
		return true
	})
}

func sel(c *ast.CallExpr) string {
	if s, ok := c.Fun.(*ast.SelectorExpr); ok {
		if id, ok := s.X.(*ast.Ident); ok && sensitive[id.Name] && id.Obj == nil {
			return id.Name + "." + s.Sel.Name
		}
	}
	return ""
}

func isGuardIf(s *ast.IfStmt) bool {
	if s.Else != nil || s.Init != nil || len(s.Body.List) == 0 {
		return false
	}
	u, ok := s.Cond.(*ast.UnaryExpr)
	if !ok || u.Op != token.NOT {
		return false
	}
	c, ok := u.X.(*ast.CallExpr)
	if !ok {
		return false
	}
	id, ok := c.Fun.(*ast.Ident)
	if !ok || !guards[id.Name] {
		return false
	}
	_, ret := s.Body.List[len(s.Body.List)-1].(*ast.ReturnStmt)
	return ret
}

// walk returns (guarded at the end, whether the block always returns).
func walk(fn string, stmts []ast.Stmt, guarded bool) (bool, bool) {
	for _, st := range stmts {
		switch s := st.(type) {
		case *ast.ReturnStmt:
			record(fn, s, guarded)
			return guarded, true
		case *ast.IfStmt:
			if isGuardIf(s) {
				record(fn, s.Body, guarded) // the refusal branch itself (failAuthentication is inside the helper)
				guarded = true
				continue
			}
			record(fn, s.Init, guarded)
			record(fn, s.Cond, guarded)
			g1, t1 := walk(fn, s.Body.List, guarded)
			g2, t2 := guarded, false
			switch e := s.Else.(type) {
			case nil:
			case *ast.BlockStmt:
				g2, t2 = walk(fn, e.List, guarded)
			case *ast.IfStmt:
				g2, t2 = walk(fn, []ast.Stmt{e}, guarded)
			default:
				g2, t2 = false, false
			}
			switch {
			case t1 && t2:
				return guarded, true
			case t1:
				guarded = g2
			case t2:
				guarded = g1
			default:
				guarded = g1 && g2
			}
		case *ast.SwitchStmt:
			record(fn, s.Init, guarded)
			record(fn, s.Tag, guarded)
			all, allTerm, hasDefault := true, true, false
			for _, cc := range s.Body.List {
				c := cc.(*ast.CaseClause)
				if c.List == nil {
					hasDefault = true
				}
				for _, e := range c.List {
					record(fn, e, guarded)
				}
				g, t := walk(fn, c.Body, guarded)
				if !t {
					allTerm = false
					all = all && g
				}
			}
			if !hasDefault {
				allTerm = false
				all = all && guarded
			}
			if allTerm {
				return guarded, true
			}
			guarded = all
		case *ast.BlockStmt:
			g, t := walk(fn, s.List, guarded)
			if t {
				return g, true
			}
			guarded = g
		case *ast.ExprStmt, *ast.AssignStmt, *ast.DeclStmt, *ast.IncDecStmt, *ast.EmptyStmt:
			record(fn, s, guarded)
		default:
			// loops, goto, select, defer, go …: not understood — fail closed
			record(fn, s, false)
			guarded = false
		}
	}
	return guarded, false
}

// ---------------------------------------------------------------------------
// Two-phase shape of conditional updates (C18): in the statement list that contains a call
//
//	group.UpdateDescription/DeleteDescription/UpdateUser/DeleteUser(…, etag, …)  or  token.Update/Delete(…, etag)
//
// the tag argument must be the plain identifier `etag`, that identifier must have been assigned in the same
// list, earlier, from group.GetDescriptionTag / group.GetUserTag / token.Get, and `checkPreconditions(w, r, etag)`
// must occur between the two.

type casFact struct {
	fn, callee, source string
	line               int
	sameVar, precond   bool
}

var casFacts []casFact
var casWriters = map[string]int{ // callee -> index of the tag argument
	"group.UpdateDescription": 1, "group.DeleteDescription": 1, "group.UpdateUser": 3, "group.DeleteUser": 3,
	"token.Update": 1, "token.Delete": 1,
}
var casReaders = map[string]bool{"group.GetDescriptionTag": true, "group.GetUserTag": true, "token.Get": true}

func callsIn(n ast.Node) []*ast.CallExpr {
	var out []*ast.CallExpr
	ast.Inspect(n, func(x ast.Node) bool {
		if c, ok := x.(*ast.CallExpr); ok {
			out = append(out, c)
		}
		return true
	})
	return out
}

func casBlock(fn string, stmts []ast.Stmt) {
	source, precond := "", false
	for _, st := range stmts {
		// nested blocks are their own statement lists
		switch s := st.(type) {
		case *ast.IfStmt:
			// the condition/init of an if belongs to this list; its bodies are analysed separately below
			_ = s
		}
		var shallow []ast.Node
		switch s := st.(type) {
		case *ast.IfStmt:
			if s.Init != nil {
				shallow = append(shallow, s.Init)
			}
			shallow = append(shallow, s.Cond)
		case *ast.BlockStmt, *ast.SwitchStmt, *ast.ForStmt, *ast.RangeStmt:
		default:
			shallow = append(shallow, st)
		}
		if a, ok := st.(*ast.AssignStmt); ok && len(a.Rhs) == 1 {
			if c, ok := a.Rhs[0].(*ast.CallExpr); ok && casReaders[sel(c)] {
				for _, l := range a.Lhs {
					if id, ok := l.(*ast.Ident); ok && id.Name == "etag" {
						source, precond = sel(c), false
					}
				}
			}
		}
		for _, n := range shallow {
			for _, c := range callsIn(n) {
				if id, ok := c.Fun.(*ast.Ident); ok && id.Name == "checkPreconditions" && len(c.Args) == 3 {
					if a, ok := c.Args[2].(*ast.Ident); ok && a.Name == "etag" && source != "" {
						precond = true
					}
				}
				if idx, ok := casWriters[sel(c)]; ok {
					f := casFact{fn: fn, callee: sel(c), line: fset.Position(c.Pos()).Line, source: source}
					if idx < len(c.Args) {
						if a, ok := c.Args[idx].(*ast.Ident); ok && a.Name == "etag" && source != "" {
							f.sameVar, f.precond = true, precond
						} else if lit, ok := c.Args[idx].(*ast.BasicLit); ok && lit.Value == `""` {
							// unconditional creation of a fresh name (POST .tokens/): no tag involved
							f.source, f.sameVar, f.precond = "create", true, true
						}
					}
					casFacts = append(casFacts, f)
				}
			}
		}
	}
	// recurse into nested statement lists
	for _, st := range stmts {
		ast.Inspect(st, func(x ast.Node) bool {
			switch b := x.(type) {
			case *ast.BlockStmt:
				if b != nil {
					casBlock(fn, b.List)
				}
				return false
			case *ast.CaseClause:
				casBlock(fn, b.Body)
				return false
			}
			return true
		})
	}
}

func servesRequests(f *ast.FuncDecl) bool {
	if guards[f.Name.Name] || f.Name.Name == "isAdminOrExplicitPassword" || f.Recv != nil {
		return false
	}
	for _, p := range f.Type.Params.List {
		if s, ok := p.Type.(*ast.SelectorExpr); ok && s.Sel.Name == "ResponseWriter" {
			return true
		}
	}
	return false
}

func main() {
	file, err := parser.ParseFile(fset, os.Args[1], nil, 0)
	if err != nil {
		fmt.Fprintln(os.Stderr, err)
		os.Exit(1)
	}
	var fns []string
	for _, d := range file.Decls {
		if f, ok := d.(*ast.FuncDecl); ok && f.Body != nil && servesRequests(f) {
			fns = append(fns, f.Name.Name)
			walk(f.Name.Name, f.Body.List, false)
			casBlock(f.Name.Name, f.Body.List)
		}
	}
	sort.SliceStable(facts, func(i, j int) bool { return facts[i].line < facts[j].line })
	var b strings.Builder
	b.WriteString("/-! GENERATED by extract/apiguards (extract/parts/api_guards.sh) from webserver/api.go of the tree under $VERIF_REPO.\n")
	b.WriteString("Do not edit.  One entry per call into the packages group, token and stats made by a request-serving function of\n")
	b.WriteString("api.go: is it dominated by `if !checkAdmin…(…) { return }`? -/\n")
	b.WriteString("namespace Galene.Generated\n\n")
	b.WriteString("structure ApiCall where\n  fn : String\n  callee : String\n  guarded : Bool\n  deriving DecidableEq, Repr\n\n")
	fmt.Fprintf(&b, "def apiHandlers : List String := [%s]\n\n", quoteAll(fns))
	b.WriteString("def apiCalls : List ApiCall :=\n  [ ")
	for i, f := range facts {
		if i > 0 {
			b.WriteString(",\n    ")
		}
		fmt.Fprintf(&b, "⟨%q, %q, %v⟩", f.fn, f.callee, f.guarded)
	}
	b.WriteString(" ]\n\n")
	b.WriteString("/-- conditional writes: the tag argument is the variable `etag`, assigned in the same statement list from `source`,\nwith `checkPreconditions(w, r, etag)` in between -/\n")
	b.WriteString("structure ApiCas where\n  fn : String\n  callee : String\n  source : String\n  sameVar : Bool\n  precond : Bool\n  deriving DecidableEq, Repr\n\n")
	b.WriteString("def apiCas : List ApiCas :=\n  [ ")
	sort.SliceStable(casFacts, func(i, j int) bool { return casFacts[i].line < casFacts[j].line })
	for i, f := range casFacts {
		if i > 0 {
			b.WriteString(",\n    ")
		}
		fmt.Fprintf(&b, "⟨%q, %q, %q, %v, %v⟩", f.fn, f.callee, f.source, f.sameVar, f.precond)
	}
	b.WriteString(" ]\n\nend Galene.Generated\n")
	old, _ := os.ReadFile(os.Args[2])
	if string(old) != b.String() {
		if err := os.WriteFile(os.Args[2], []byte(b.String()), 0644); err != nil {
			fmt.Fprintln(os.Stderr, err)
			os.Exit(1)
		}
	}
}

func quoteAll(xs []string) string {
	var q []string
	for _, x := range xs {
		q = append(q, fmt.Sprintf("%q", x))
	}
	return strings.Join(q, ", ")
}
