#!/bin/sh
# Build the framework offline from files on disk: Lean models, theorems, driver.
set -e
cd "$(dirname "$0")"
mkdir -p .build evidence replays
./extract/run.sh >/dev/null
(cd lean && lake build 2>&1 | tail -5)
echo setup done
