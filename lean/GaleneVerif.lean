import GaleneVerif.Model.Cache
import GaleneVerif.Model.LossStats
import GaleneVerif.Engine.Common
import GaleneVerif.Engine.Cache
