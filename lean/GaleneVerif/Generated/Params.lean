/- GENERATED on every run by extract/params.py from the constants of /repo's working tree. Do not edit. -/
namespace Galene.Generated

def pmMaxEntries : Nat := 128
def pmMaxCount : Nat := 16384
def bufSize : Nat := 1504
def minLossRate : Nat := 9600
def initLossRate : Nat := 512000
def maxLossRate : Nat := 1073741824
def maxChatHistory : Nat := 50
def defaultMaxBitrate : Nat := 524288

/-- every literal used as the re-synchronisation window in packetmap.go -/
def pmWindows : List Nat := [8192, 8192, 8192, 8192, 8192, 8192]

end Galene.Generated
