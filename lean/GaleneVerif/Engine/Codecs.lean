import GaleneVerif.Model.Codecs
import GaleneVerif.Engine.Common
/-
Engine `codecs`: codecs.PacketFlags / RewritePacket / Keyframe /
KeyframeDimensions and pion's rtp.Packet.Unmarshal (C02, C12).
Ops:
  rtp <hex>                                  => err | marker ext start end
  flags <codec> <hex>                        => err | seqno marker start end kf pid tid sid tidup sidup sidnonref disc
  rewrite <codec> <hex> <setMarker> <seqno> <delta> => ok|err|panic <hex-after>
  keyframe <codec> <payloadhex>              => kf known
  dims <codec> <payloadhex>                  => w h
-/
namespace Galene.Engine.Codecs
open Galene Galene.Engine Galene.Codecs

def flagsS (f : Flags) : String :=
  s!"{f.seqno} {b2s f.marker} {b2s f.start} {b2s f.end_} {b2s f.keyframe} {f.pid} {f.tid} {f.sid} {b2s f.tidUpSync} {b2s f.sidUpSync} {b2s f.sidNonReference} {b2s f.discardable}"

def failS : Fail → String
  | .err => "err"
  | .panic => "panic"

def statusS : Status → String
  | .ok => "ok" | .err => "err" | .panic => "panic"

/-- offsets of the VP8 picture-id bytes of an RTP packet, as an independent
parser sees them (pion's parsers as modelled): [] if none -/
def pidBytes (codec : String) (d : Bytes) : List Nat :=
  if !isCodec codec "video/vp8" then [] else
  match rtpUnmarshal d with
  | .error _ => []
  | .ok pkt =>
    match vp8Unmarshal ((d.take pkt.payloadEnd).drop pkt.payloadStart) with
    | .error _ => []
    | .ok v => if !v.i then [] else if v.m then [pkt.payloadStart + 2, pkt.payloadStart + 3] else [pkt.payloadStart + 2]

def vp8Pid (d : Bytes) : Option (Bool × Nat) :=
  match rtpUnmarshal d with
  | .error _ => none
  | .ok pkt =>
    match vp8Unmarshal ((d.take pkt.payloadEnd).drop pkt.payloadStart) with
    | .error _ => none
    | .ok v => if v.i then some (v.m, v.pictureID) else none

def vp8Parses (d : Bytes) : Bool :=
  match rtpUnmarshal d with
  | .error _ => false
  | .ok pkt =>
    match vp8Unmarshal ((d.take pkt.payloadEnd).drop pkt.payloadStart) with
    | .error _ => false
    | .ok _ => true

/-- C02/C12 oracle on an observed RewritePacket result -/
def rewriteOracle (codec : String) (d : Bytes) (setMarker : Bool) (seqno delta : Nat)
    (status : String) (d' : Bytes) : Option String :=
  if status = "panic" then some "C12: RewritePacket panicked (index out of range)"
  else if d'.length ≠ d.length then some "C02: RewritePacket changed the packet length"
  else if status ≠ "ok" then none
  else if isCodec codec "video/vp8" && (vp8Parses d).not then
    -- the independent parser rejects this packet: it is never forwarded (PacketFlags fails first);
    -- only length and no-panic are claimed for it
    none
  else
    let pb := if delta = 0 then [] else pidBytes codec d
    let changed := (List.range d.length).filter (fun i => d.getD i 0 ≠ d'.getD i 0)
    match changed.find? (fun i => !(i = 1 || i = 2 || i = 3 || pb.contains i)) with
    | some i => some s!"C02: RewritePacket changed byte {i}, which is not seqno, marker or VP8 picture id"
    | none =>
      let b1 := d.getD 1 0
      let b1' := d'.getD 1 0
      if b1' ≠ (if setMarker then b1 ||| 0x80 else b1) then some "C02: marker/payload-type byte wrongly changed"
      else if d'.getD 2 0 * 256 + d'.getD 3 0 ≠ seqno then some "C02: seqno bytes do not encode the requested seqno"
      else if delta = 0 then none
      else
        match vp8Pid d, (if isCodec codec "video/vp8" then vp8Pid d' else none) with
        | some (m, pid), some (m', pid') =>
          let md := if m then 32768 else 128
          if m ≠ m' then some "C02: picture id width changed"
          else if pid' ≠ (pid + delta) % md then some s!"C02: picture id {pid} + delta {delta} became {pid'}"
          else none
        | _, _ => none

def step (st : Unit) (op impl : List String) : Unit × Verdict :=
  match op with
  | ["rtp", h] =>
    match unhex h with
    | some b =>
      (st, cmp (match rtpUnmarshal b with
        | .error f => failS f
        | .ok r => s!"{b2s r.marker} {b2s r.ext} {r.payloadStart} {r.payloadEnd}") impl)
    | none => (st, .badop "rtp")
  | ["flags", codec, h] =>
    match unhex h with
    | some b =>
      let v := cmp (match packetFlags codec b with | .error f => failS f | .ok f => flagsS f) impl
      (st, if impl = ["panic"] then .oracle "C12: PacketFlags panicked" else v)
    | none => (st, .badop "flags")
  | ["rewrite", codec, h, mk, seqno, delta] =>
    match unhex h, bool? mk, nat? seqno, nat? delta with
    | some b, some mk, some seqno, some delta =>
      let (d', s) := rewritePacket codec b mk seqno delta
      let v := cmp s!"{statusS s} {hex d'}" impl
      let ov := match impl with
        | [status, h'] => match unhex h' with
          | some bi => rewriteOracle codec b mk seqno delta status bi
          | none => some "bad impl hex"
        | _ => some "bad impl result"
      (st, match ov with | some m => .oracle m | none => v)
    | _, _, _, _ => (st, .badop "rewrite")
  | ["keyframe", codec, h] =>
    match unhex h with
    | some b =>
      let v := cmp (match keyframe codec b with | .error f => failS f | .ok (k, kn) => s!"{b2s k} {b2s kn}") impl
      (st, if impl = ["panic"] then .oracle "C12: Keyframe panicked" else v)
    | none => (st, .badop "keyframe")
  | ["dims", codec, h] =>
    match unhex h with
    | some b =>
      let v := cmp (match keyframeDimensions codec b with | .error f => failS f | .ok (w, hh) => s!"{w} {hh}") impl
      (st, if impl = ["panic"] then .oracle "C12: KeyframeDimensions panicked" else v)
    | none => (st, .badop "dims")
  | _ => (st, .badop "unknown op")

def engine : EngineDef := { σ := Unit, init := (), step := step }

end Galene.Engine.Codecs
