import GaleneVerif.Engine.Common
/-
Engine `fuzzmisc`: parsers without a Lean model (sdpfrag, pion's RTCP
unmarshaller) run under recover() on structured and malformed inputs.  There
is no model to compare with: the only verdict is the driver's generic rule
that a recovered Go panic is a C12 violation.  This part of C12 is exploration,
not proof, and the evidence says so.
-/
namespace Galene.Engine.FuzzMisc
open Galene.Engine

def step (st : Unit) (op _impl : List String) : Unit × Verdict :=
  match op with
  | ["sdpfrag", _] => (st, .ok)
  | ["rtcp", _] => (st, .ok)
  | _ => (st, .badop "unknown op")

def engine : EngineDef := { σ := Unit, init := (), step := step }

end Galene.Engine.FuzzMisc
