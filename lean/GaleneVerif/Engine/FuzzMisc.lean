import GaleneVerif.Engine.Common
import GaleneVerif.Model.SdpFrag
/-
Engine `fuzzmisc`.

* `sdpparse <hex>` / `sdplong <prefix> <fill> <count> <suffix>`: the real
  `sdpfrag.SDPFrag.Unmarshal` (+ `UFragPwd`, `AllCandidates`, `Marshal`) against
  Model/SdpFrag.lean; the whole parsed structure is compared.  `sdplong` builds
  `prefix ++ fill^count ++ suffix` on both sides so that lines beyond bufio.Scanner's
  64 KiB token limit can be exercised without megabyte trace lines.
* `sdpfrag`, `rtcp`: parsers without a Lean model (sdpfrag's PatchSDP/FromSDP over pion's
  sdp types, pion's RTCP unmarshaller) run under recover() on structured and malformed
  inputs.  There is no model to compare with: the only verdict is the driver's generic
  rule that a recovered Go panic is a C12 violation.  That part of C12 is exploration,
  not proof, and the evidence says so.
-/
namespace Galene.Engine.FuzzMisc
open Galene.Engine
open Galene.Model.SdpFrag

/-- long fields are rendered as `#len:hash` -/
def field (b : Bytes) : String :=
  if b.length ≤ 64 then hex b else s!"#{b.length}:{hashBytes b}"

def optField : Option Bytes → String
  | none => "~"
  | some b => field b

def candTok (c : Cand) : String :=
  s!"{field c.cand},{optField c.ufrag},{match c.idx with | none => "~" | some i => toString i},{optField c.mid}"

def render (f : Frag) : String :=
  let cs := f.cands.map candTok
  let ms := f.medias.flatMap fun m =>
    ["M", field m.mline, field m.mid, field m.ufrag, field m.pwd, toString m.cands.length] ++ m.cands.map candTok
  let (u, p) := ufragPwd f
  " ".intercalate (["ok", s!"u={field f.ufrag}", s!"p={field f.pwd}", s!"nc={f.cands.length}"] ++ cs
    ++ [s!"nm={f.medias.length}"] ++ ms
    ++ [s!"up={field u},{field p}", s!"all={(allCandidates f).length}", s!"ms={field (marshal f)}"])

def parseRes (data : Bytes) : String :=
  match unmarshal data with
  | .ok f => render f
  | .err => "err"
  | .panic => "panic:model"

def step (st : Unit) (op impl : List String) : Unit × Verdict :=
  match op with
  | ["sdpparse", h] =>
    match unhex h with
    | some data => (st, cmp (parseRes data) impl)
    | none => (st, .badop "bad hex")
  | ["sdplong", pre, fill, count, suf] =>
    match unhex pre, nat? fill, nat? count, unhex suf with
    | some p, some f, some n, some s => (st, cmp (parseRes (p ++ List.replicate n f ++ s)) impl)
    | _, _, _, _ => (st, .badop "bad sdplong")
  | ["sdpfrag", _] => (st, .ok)
  | ["rtcp", _] => (st, .ok)
  | _ => (st, .badop "unknown op")

def engine : EngineDef := { σ := Unit, init := (), step := step }

end Galene.Engine.FuzzMisc
