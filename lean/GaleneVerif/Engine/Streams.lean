import GaleneVerif.Model.Streams
import GaleneVerif.Engine.Common
/-
Engine `streams` (C07): scenarios run end to end against galene's real
websocket handler and real PeerConnections (harness/cmd/streams).  Each op is
followed by quiescence of the action queues; its result is the list of
offer/close/abort/disconnect messages that all clients received since the
previous op, sorted by (client, stream id), in arrival order within a stream:

  O<to>/<id>/<label>/<src>/<username>/<replace>/<tracks>   downstream offer; tracks = ids of the tracks the SDP sends
  C<to>/<id>   close          A<to>/<id>   abort          X<to>   connection closed by the server
  env:<why>    environment trouble: the rest of the case is skipped, no verdict

Ops: join c g role | leave c | disc c | request c map | reqstream c sN kinds | abort c sN | close c sN
   | offer c sN label repl spec | track c sN k kind | settle | kick o c | unpresent o c | present o c
   | hold c | unhold c | answer c sN
The model side runs `Streams.step currentFixes` (the model of the repaired code) for the op, then delivers every queued
action and answers offers as the scripted clients do; `settle` lets all delayed
pushes fire first.  The oracle is computed from the ops and the observed
messages only.
-/
namespace Galene.Engine.Streams
open Galene Galene.Engine Galene.Streams

/-! ### token helpers (shared by model printing and oracle parsing) -/

def sid? (s : String) : Option Nat :=
  if s = "-" then some 0 else if s.startsWith "s" then nat? (s.drop 1).toString else none

def sidS (n : Nat) : String := if n = 0 then "-" else s!"s{n}"

def labels : List String := ["-", "cam", "scr", "vid", "mic"]

def label? (s : String) : Option Nat := if s = "_" then some 0 else labels.idxOf? s

def labelS (n : Nat) : String := labels.getD n "?"

def group? (s : String) : Option Nat :=
  match s.toList with
  | [c] => some c.toNat
  | _ => none

def rk? (c : Char) : Option RK :=
  if c = 'a' then some .audio else if c = 'v' then some .video else if c = 'l' then some .videoLow
  else if c = 'x' then some .other else none

def kinds? (s : String) : Option Req := if s = "0" then some [] else s.toList.mapM rk?

def request? (s : String) : Option (List (Nat × Req)) :=
  if s = "-" then some [] else
  (s.splitOn ",").mapM fun kv =>
    match kv.splitOn "=" with
    | [l, k] => do
      let l ← label? l
      let k ← if k = "null" then some [] else kinds? k
      pure (l, k)
    | _ => none

def roleS (r : Nat) : String := if r = 0 then "o" else if r = 1 then "p" else "v"

def role? (s : String) : Option Nat := if s = "o" then some 0 else if s = "p" then some 1 else if s = "v" then some 2 else none

def userCode (role slot joins : Nat) : Nat := role * 10000 + slot * 100 + joins

def userS (u : Nat) : String := s!"{roleS (u / 10000)}{u / 100 % 100}j{u % 100}"

def insertStr (x : String) : List String → List String
  | [] => [x]
  | y :: ys => if x < y then x :: y :: ys else y :: insertStr x ys

def sortStr (xs : List String) : List String := xs.foldr insertStr []

def tracksTok (names : List String) : String := if names.isEmpty then "-" else "+".intercalate (sortStr names)

def trackName (kind : TK) (k owner : Nat) : String := s!"{if kind = .audio then "a" else "v"}{k}c{owner}"

/-! ### model side -/

def eventTok (s : State) : Event → String × String × String
  | .offer to id label src user replace tracks =>
    (toString to, sidS id,
     s!"O{to}/{sidS id}/{labelS label}/{src}/{userS user}/{sidS replace}/{tracksTok (tracks.map fun t => trackName t.kind t.k (s.ups t.up).owner)}")
  | .close to id => (toString to, sidS id, s!"C{to}/{sidS id}")
  | .abort to id => (toString to, sidS id, s!"A{to}/{sidS id}")
  | .dead c => (toString c, "~", s!"X{c}")

/-- stable insertion sort by (client, stream id) -/
def insertRow (x : Nat × String × String) : List (Nat × String × String) → List (Nat × String × String)
  | [] => [x]
  | y :: ys =>
    -- (`foldr` inserts earlier rows later: `≤` keeps rows with equal keys in their original order)
    if x.1 < y.1 || (x.1 = y.1 && !(y.2.1 < x.2.1)) then x :: y :: ys else y :: insertRow x ys

def canon (rows : List (Nat × String × String)) : String :=
  let sorted := rows.foldr insertRow []
  if sorted.isEmpty then "-" else " ".intercalate (sorted.map (·.2.2))

/-- the scripted clients answer every offer at once, unless they `hold` -/
def autoAnswer (hold : List Bool) (s : State) : State × List Event × Bool :=
  (List.range s.n).foldl (fun (acc : State × List Event × Bool) c =>
    if hold.getD c false then acc else
    ((acc.1.clients c).down.filter (·.haveOffer)).foldl (fun (acc : State × List Event × Bool) d =>
      let (s1, e1) := Streams.step currentFixes acc.1 (.answer c d.id)
      (s1, acc.2.1 ++ e1, true)) acc) (s, [], false)

def settleLoop : Nat → List Bool → State → State × List Event
  | 0, _, s => (s, [])
  | fuel + 1, hold, s =>
    let (s1, e1) := drain 10000 s
    let (s2, e2, any) := autoAnswer hold s1
    if any then
      let (s3, e3) := settleLoop fuel hold s2
      (s3, e1 ++ e2 ++ e3)
    else (s2, e1 ++ e2)

/-! ### oracle (from the ops and the observed messages only) -/

structure OStream where
  pub : Nat
  id : Nat
  label : Nat
  group : Nat
  user : String
  tracks : List (String × Bool) := []    -- (track id, is video) in order of arrival at the server
  live : Bool := true
  pending : Bool := true                 -- a delayed push of this stream may still be outstanding
  replacedBy : Nat := 0                  -- ended by an offer with `replace`; 0 = not replaced
  reneg : Bool := false                  -- ... and that offer renegotiated an existing stream (nothing is pushed)
  late : List Nat := []                  -- clients that joined the group while `pending`
  repl : Nat := 0                        -- the `replace` its offer named (0 = none)

structure OView where
  id : Nat
  src : Nat
  user : String
  label : String
  tracks : String

structure OClient where
  alive : Bool := true
  group : Option Nat := none
  present : Bool := false
  op : Bool := false
  user : String := ""
  request : List (Nat × Req) := []
  overrides : List (Nat × Req) := []     -- per-stream requests (requestStream), by stream id
  inherited : List (Nat × Req) := []     -- per-stream request of a stream this one replaced
  view : List OView := []                -- downstreams the client holds, according to its websocket
  aborted : List Nat := []               -- streams the client aborted itself and has not been re-offered
  hold : Bool := false

structure Orc where
  clients : List OClient := List.replicate 6 {}
  streams : List OStream := []           -- newest first
  deriving Inhabited

def Orc.client (o : Orc) (c : Nat) : OClient := o.clients.getD c {}

def Orc.setClient (o : Orc) (c : Nat) (f : OClient → OClient) : Orc :=
  { o with clients := o.clients.modify c f }

def Orc.stream? (o : Orc) (pub id : Nat) : Option OStream := o.streams.find? (fun st => st.pub = pub && st.id = id)

def Orc.modStream (o : Orc) (pub id : Nat) (f : OStream → OStream) : Orc :=
  let rec go : List OStream → List OStream
    | [] => []
    | st :: rest => if st.pub = pub && st.id = id then f st :: rest else st :: go rest
  { o with streams := go o.streams }

/-- the selections the property allows for a request list: first audio track; first video track for
"video", last for "video-low" (either when both are asked for) -/
def specSelect (req : Req) (tracks : List (String × Bool)) : List String :=
  let audio := (tracks.filter (!·.2)).map (·.1)
  let video := (tracks.filter (·.2)).map (·.1)
  let a := if req.contains .audio then audio.head?.toList else []
  let vs : List (List String) :=
    (if req.contains .video then [video.head?.toList] else []) ++
    (if req.contains .videoLow then [video.getLast?.toList] else [])
  let vs := if vs.isEmpty then [[]] else vs
  vs.map fun v => tracksTok (a ++ v)

/-- request lists that may govern what client `cl` gets of stream `st` -/
def candReqs (cl : OClient) (st : OStream) : List Req :=
  match cl.overrides.lookup st.id with
  | some r => [r]
  | none =>
    let m := match cl.request.lookup st.label with
      | some r => r
      | none => (cl.request.lookup 0).getD []
    m :: (cl.inherited.lookup st.id).toList

def acceptable (cl : OClient) (st : OStream) : List String :=
  (candReqs cl st).flatMap fun r => specSelect r st.tracks

/-- every stream of publisher `c` ends (leave, disconnect, kick, loss of `present`) -/
def Orc.endStreamsOf (o : Orc) (c : Nat) : Orc :=
  { o with streams := o.streams.map fun st => if st.pub = c then { st with live := false, replacedBy := 0 } else st }

def Orc.gone (o : Orc) (c : Nat) (dead : Bool) : Orc :=
  let o : Orc := o.endStreamsOf c
  let o : Orc := { o with streams := o.streams.map fun (st : OStream) => { st with late := st.late.filter (· ≠ c) } }
  o.setClient c fun cl => { cl with alive := cl.alive && !dead, group := none, present := false, op := false,
                                    request := [], overrides := [], inherited := [], view := [], aborted := [] }

inductive Ev where
  | offer (to id : Nat) (label : String) (src : Nat) (user : String) (replace : Nat) (tracks : String)
  | close (to id : Nat)
  | abort (to id : Nat)
  | dead (c : Nat)
  | bad (tok : String)

def parseEv (tok : String) : Ev :=
  let parts := tok.splitOn "/"
  let head := parts.headD ""
  let kind := head.take 1 |>.toString
  let who := nat? (head.drop 1).toString
  match kind, who, parts.drop 1 with
  | "O", some to, [id, label, src, user, repl, tracks] =>
    match sid? id, nat? src, sid? repl with
    | some id, some src, some repl => .offer to id label src user repl tracks
    | _, _, _ => .bad tok
  | "C", some to, [id] => match sid? id with | some id => .close to id | none => .bad tok
  | "A", some to, [id] => match sid? id with | some id => .abort to id | none => .bad tok
  | "X", some c, [] => .dead c
  | _, _, _ => .bad tok

/-- apply what the op means at the level of the property (who is a member, what is requested, which
streams exist); `evs` tells whether an offer was refused (abort) -/
def Orc.applyOp (o : Orc) (op : List String) (evs : List Ev) : Orc :=
  let refused (c id : Nat) : Bool := evs.any fun e => match e with | .abort c' id' => c' = c && id' = id | _ => false
  match op with
  | ["join", c, g, role] =>
    match nat? c, group? g, role? role with
    | some c, some g, some r =>
      let cl := o.client c
      if cl.alive && cl.group.isNone then
        let o := o.setClient c fun cl => { cl with group := some g, present := r ≤ 1, op := r = 0, user := "" }
        { o with streams := o.streams.map fun st =>
            if st.live && st.pending && st.group = g then { st with late := c :: st.late } else st }
      else o
    | _, _, _ => o
  | ["leave", c] => match nat? c with | some c => o.gone c false | none => o
  | ["disc", c] => match nat? c with | some c => o.gone c true | none => o
  | ["request", c, m] =>
    match nat? c, request? m with
    | some c, some m =>
      if (o.client c).group.isSome then
        let o : Orc := o.setClient c fun cl => { cl with request := m }
        -- a new request makes every publisher push again: it repairs what a lost push left behind
        { o with streams := o.streams.map fun (st : OStream) =>
            if st.pending then st else { st with late := st.late.filter (· ≠ c) } }
      else o
    | _, _ => o
  | ["reqstream", c, id, k] =>
    match nat? c, sid? id with
    | some c, some id =>
      if (o.client c).view.any (·.id = id) then
        let g := (o.client c).group.getD 0
        let targets := o.streams.filter fun st => st.live && st.id = id && st.group = g
        o.setClient c fun cl =>
          let rest := cl.overrides.filter (·.1 ≠ id)
          -- asking for nothing of a stream closes it at the client's own request, like an abort
          let nothing := match kinds? k with
            | some r => k ≠ "null" && targets.all fun st => (specSelect r st.tracks).all (· = "-")
            | none => false
          { cl with overrides := if k = "null" then rest else match kinds? k with | some r => (id, r) :: rest | none => rest,
                    inherited := cl.inherited.filter (·.1 ≠ id),
                    aborted := if nothing then id :: cl.aborted else cl.aborted }
      else o
    | _, _ => o
  | ["abort", c, id] =>
    match nat? c, sid? id with
    | some c, some id => o.setClient c fun cl => { cl with aborted := id :: cl.aborted }
    | _, _ => o
  | ["answer", c, id] =>
    match nat? c, sid? id with
    | some c, some id =>
      -- an unexpected answer makes the negotiation fail: the downstream is closed by the client's own doing
      if evs.any (fun e => match e with | .close c' id' => c' = c && id' = id | _ => false) then
        o.setClient c fun cl => { cl with aborted := id :: cl.aborted }
      else o
    | _, _ => o
  | ["close", c, id] =>
    match nat? c, sid? id with
    | some c, some id => o.modStream c id fun st => { st with live := false, replacedBy := 0 }
    | _, _ => o
  | ["offer", c, id, label, repl, _spec] =>
    match nat? c, sid? id, label? label, sid? repl with
    | some c, some id, some label, some repl =>
      let cl := o.client c
      match cl.group with
      | none => o
      | some g =>
        if refused c id || !cl.present then o
        else if ((o.stream? c id).map (·.live)).getD false then
          -- renegotiation of an existing stream; a `replace` still ends the named stream
          if repl ≠ 0 && repl ≠ id then
            o.modStream c repl fun st => if st.live then { st with live := false, replacedBy := id, reneg := true } else st
          else o
        else
          let o : Orc := if repl ≠ 0 && repl ≠ id then
              o.modStream c repl fun st => if st.live then { st with live := false, replacedBy := id } else st
            else o
          -- a per-stream request made for the replaced stream may be applied to its replacement
          let o : Orc := if repl ≠ 0 && repl ≠ id then
              { o with clients := o.clients.map fun (cl : OClient) =>
                  match cl.overrides.lookup repl with
                  | some r => { cl with inherited := (id, r) :: cl.inherited.filter (·.1 ≠ id) }
                  | none => cl }
            else o
          { o with streams := { pub := c, id := id, label := label, group := g, user := "", repl := repl } :: o.streams }
    | _, _, _, _ => o
  | ["track", c, id, k, kind] =>
    match nat? c, sid? id, nat? k with
    | some c, some id, some k =>
      o.modStream c id fun st =>
        if st.live then { st with tracks := st.tracks ++ [(s!"{kind}{k}c{c}", decide (kind = "v"))], pending := true } else st
    | _, _, _ => o
  | ["settle"] => { o with streams := o.streams.map fun st => { st with pending := false } }
  | ["kick", k, c] =>
    match nat? k, nat? c with
    | some k, some c =>
      let kl := o.client k
      if kl.alive && kl.op && kl.group.isSome && (o.client c).group = kl.group then o.gone c true else o
    | _, _ => o
  | ["unpresent", k, c] =>
    match nat? k, nat? c with
    | some k, some c =>
      let kl := o.client k
      if kl.alive && kl.op && kl.group.isSome && (o.client c).group = kl.group then
        (o.endStreamsOf c).setClient c fun cl => { cl with present := false }
      else o
    | _, _ => o
  | ["present", k, c] =>
    match nat? k, nat? c with
    | some k, some c =>
      let kl := o.client k
      if kl.alive && kl.op && kl.group.isSome && (o.client c).group = kl.group then
        o.setClient c fun cl => { cl with present := true }
      else o
    | _, _ => o
  | ["hold", c] => match nat? c with | some c => o.setClient c fun cl => { cl with hold := true } | none => o
  | ["unhold", c] => match nat? c with | some c => o.setClient c fun cl => { cl with hold := false } | none => o
  | _ => o

/-- fold the observed messages into the clients' views -/
def Orc.applyEv (o : Orc) : Ev → Orc
  | .offer to id label src user replace tracks =>
    o.setClient to fun cl =>
      let view := cl.view.filter fun v => v.id ≠ id && (replace = 0 || v.id ≠ replace)
      let inh := if replace ≠ 0 then
          match cl.overrides.lookup replace with
          | some r => (id, r) :: cl.inherited.filter (·.1 ≠ id)
          | none => cl.inherited
        else cl.inherited
      { cl with view := { id := id, src := src, user := user, label := label, tracks := tracks } :: view,
                aborted := cl.aborted.filter (· ≠ id), inherited := inh,
                overrides := if replace ≠ 0 then cl.overrides.filter (·.1 ≠ replace) else cl.overrides }
  | .close to id =>
    o.setClient to fun cl => { cl with view := cl.view.filter (·.id ≠ id), overrides := cl.overrides.filter (·.1 ≠ id) }
  | .abort _ _ => o
  | .dead c => o.gone c true
  | .bad _ => o

def firstSome {α} (xs : List α) (f : α → Option String) : Option String := xs.findSome? f

/-- an ended stream was replaced (possibly several times) by a stream whose delayed push is still outstanding:
the close of the replaced stream travels with that push -/
def Orc.replacementPending (o : Orc) : Nat → OStream → Bool
  | 0, _ => false
  | fuel + 1, st =>
    st.replacedBy ≠ 0 &&
    match o.stream? st.pub st.replacedBy with
    | some r => r.pending && (r.live || o.replacementPending fuel r)
    | none => false

/-- check one observed message against the property; `pre`/`post` are the oracle states before the op and
after the op's meaning has been applied (but not yet the messages) -/
def checkEv (pre post : Orc) (op : List String) : Ev → Option String
  | .bad tok => some s!"C07: unparsable message summary {tok}"
  | .dead _ => none
  | .abort _ _ => none
  | .offer to id label src user replace tracks =>
    let clPre := pre.client to
    let clPost := post.client to
    let joined := clPre.group.isSome || clPost.group.isSome
    if !joined then some s!"C07: client {to} has not joined a group but was offered stream {sidS id} of client {src}"
    else
      let stPost := post.stream? src id
      let stPre := pre.stream? src id
      match stPost with
      | none => some s!"C07: client {to} was offered stream {sidS id} labelled with source {src}, which never published a stream of that id"
      | some st =>
        -- (a replaced stream stays in place at the subscribers until the delayed push of its replacement)
        let wasLive := st.live || ((stPre.map (·.live)).getD false) ||
          ((stPre.map fun sp => pre.replacementPending 16 sp).getD false)
        if !wasLive then some s!"C07: client {to} was offered stream {sidS id} of client {src} after that stream had ended"
        else if clPre.group ≠ some st.group && clPost.group ≠ some st.group then
          some s!"C07: client {to} is not in the publisher's group but was offered stream {sidS id} of client {src}"
        else if to = src then some s!"C07: client {to} was offered its own stream {sidS id}"
        else if label ≠ labelS st.label then some s!"C07: offer of {sidS id} to client {to} carries label {label}, the stream's label is {labelS st.label}"
        else if user ≠ (post.client src).user && user ≠ (pre.client src).user then
          some s!"C07: offer of {sidS id} to client {to} carries username {user}, the publisher's is {(post.client src).user}"
        else if ((tracks.splitOn "+").any fun t => !t.endsWith s!"c{src}") then
          let others := ((post.streams.filter fun x => x.id = id && x.group = st.group && x.pub ≠ src).map (·.pub)).eraseDups
          let why := if others.isEmpty then "" else s!" (stream id {sidS id} is also used by publisher {others})"
          some s!"C07: offer of {sidS id} to client {to} is labelled with source {src} but carries tracks {tracks} of another publisher{why}"
        else
          let ok := (acceptable clPost st).contains tracks || (acceptable clPre st).contains tracks ||
            (match stPre with | some sp => (acceptable clPre sp).contains tracks || (acceptable clPost sp).contains tracks | none => false)
          let ok := ok || (replace ≠ 0 &&
            -- the first offer of a replacement stream may apply the per-stream request of the stream it replaces
            match clPre.overrides.lookup replace with
            | some r => (specSelect r st.tracks).contains tracks
            | none => false)
          if tracks = "-" then some s!"C07: offer of {sidS id} to client {to} carries no track"
          else if !ok then
            some s!"C07: client {to} was offered tracks {tracks} of stream {sidS id}; its request selects {(acceptable clPost st)}"
          else none
  | .close to id =>
    -- a close is justified if the stream ended, is not (or was not) selected by the request, or the client aborted it
    if op = ["abort", toString to, sidS id] then none else
    -- an answer that the server cannot apply (none was expected) is a failed negotiation
    if op = ["answer", toString to, sidS id] then none else
    let clPre := pre.client to
    let clPost := post.client to
    match clPre.group, clPost.group with
    | some g, some g' =>
      if g ≠ g' then none else
      let cands := post.streams.filter fun st => st.id = id && st.group = g && st.pub ≠ to
      let pubs := (cands.map (·.pub)).eraseDups
      if pubs.length ≠ 1 then none   -- no such stream (fine), or the id is used by several publishers (ambiguous)
      else
        match post.stream? (pubs.headD 0) id, pre.stream? (pubs.headD 0) id with
        | some st, some sp =>
          if st.live && sp.live &&
             !(acceptable clPost st).contains "-" && !(acceptable clPre sp).contains "-" &&
             -- some earlier stream of this id may have ended in this op
             !(cands.any fun x => !x.live) then
            -- an offer of ANOTHER publisher named this id as `replace`: the subscribers drop the stream
            let thieves := ((post.streams.filter fun x => x.repl = id && x.group = g && x.pub ≠ st.pub).map (·.pub)).eraseDups
            let why := if thieves.isEmpty then "" else s!" (stream id {sidS id} was named as `replace` by publisher {thieves}, which does not own it)"
            some s!"C07: client {to} was sent a close for stream {sidS id} of client {st.pub}, which is live and which it requests ({(acceptable clPost st)}){why}"
          else none
        | _, _ => none
    | _, _ => none

/-- state checks at the end of an op -/
def checkState (o : Orc) : Option String :=
  firstSome (List.range o.clients.length) fun c =>
    let cl := o.client c
    if !cl.alive then none else
    -- teardown: nothing held that has ended
    (firstSome cl.view fun v =>
      match o.stream? v.src v.id with
      | none => none   -- reported by the offer check
      | some st =>
        if st.live then
          if cl.group ≠ some st.group then some s!"C07: client {c} holds stream {sidS v.id} of another group"
          else none
        else if o.replacementPending 16 st then none
        else
          let why := if st.reneg then s!" (it was named as `replace` in a renegotiation of stream {sidS st.replacedBy}, which pushes nothing)" else ""
          some s!"C07: stream {sidS v.id} of client {v.src} has ended but subscriber {c} was not sent a close for it{why}").orElse fun _ =>
    -- offered iff requested, for streams with no delayed push outstanding
    match cl.group with
    | none => if cl.view.isEmpty then none else some s!"C07: client {c} is in no group but holds downstreams"
    | some g =>
      if cl.hold then none else
      firstSome o.streams fun st =>
        if !st.live || st.pending || st.group ≠ g || st.pub = c then none else
        if (o.streams.filter fun x => x.live && x.id = st.id && x.group = g).length ≠ 1 then none else
        let acc := acceptable cl st
        let held := cl.view.find? (fun v => v.id = st.id)
        let late := if st.late.contains c then " (it joined while a delayed push of the stream was pending)" else ""
        -- another publisher of the group used the same stream id: its closes hit this stream too
        let others := ((o.streams.filter fun x => x.id = st.id && x.group = g && x.pub ≠ st.pub).map (·.pub)).eraseDups
        let late := if others.isEmpty then late else late ++ s!" (stream id {sidS st.id} is also used by publisher {others})"
        let thieves := ((o.streams.filter fun x => x.repl = st.id && x.group = g && x.pub ≠ st.pub).map (·.pub)).eraseDups
        let late := if thieves.isEmpty then late
          else late ++ s!" (stream id {sidS st.id} was named as `replace` by publisher {thieves}, which does not own it)"
        match held with
        | none =>
          if acc.contains "-" || cl.aborted.contains st.id then none
          else some s!"C07: member {c} requests {acc} of live stream {sidS st.id} of client {st.pub} but has not been offered it{late}"
        | some v =>
          if v.src ≠ st.pub then none   -- reported by the offer check
          else if acc.contains v.tracks then none
          else if acc.all (· = "-") then
            some s!"C07: member {c} holds {v.tracks} of stream {sidS st.id} of client {st.pub} although its request selects nothing of it"
          else some s!"C07: member {c} holds {v.tracks} of stream {sidS st.id} of client {st.pub} but its request selects {acc}{late}"

/-- an abort or a change of request by `c` must not cause messages to anybody else -/
def checkOwnOnly (op : List String) (evs : List Ev) : Option String :=
  match op with
  | name :: c :: _ =>
    if name = "abort" || name = "request" || name = "reqstream" then
      match nat? c with
      | none => none
      | some c =>
        -- (a protocol error of its own gets the client disconnected; that is a departure, with its consequences)
        if evs.any (fun e => match e with | .dead x => x = c | _ => false) then none else
        evs.findSome? fun e =>
          let to? : Option Nat := match e with
            | .offer to .. => some to | .close to _ => some to | .abort to _ => some to | .dead x => some x | .bad _ => none
          match to? with
          | some to => if to ≠ c then some s!"C07: {name} by client {c} caused a message to client {to}" else none
          | none => none
    else none
  | _ => none

/-- usernames are learnt from the join op (the harness derives them from role, slot and join count) -/
def Orc.noteUser (o : Orc) (op : List String) (joins : List Nat) : Orc :=
  match op with
  | ["join", c, _, role] =>
    match nat? c, role? role with
    | some c, some r =>
      if (o.client c).group.isSome && (o.client c).user = "" then
        let o := o.setClient c fun cl => { cl with user := userS (userCode r c (joins.getD c 0)) }
        o
      else o
    | _, _ => o
  | _ => o

structure St where
  s : State := Streams.init 6
  joins : List Nat := List.replicate 6 0
  hold : List Bool := List.replicate 6 false
  abandoned : Bool := false
  orc : Orc := {}

def parseOp (st : St) (op : List String) : Option (List Op × St) :=
  match op with
  | ["join", c, g, role] => do
    let c ← nat? c; let g ← group? g; let r ← role? role
    let j := st.joins.getD c 0
    pure ([.join c g (userCode r c j) (r ≤ 1) (r = 0)], { st with joins := st.joins.set c (j + 1) })
  | ["leave", c] => do pure ([.leave (← nat? c)], st)
  | ["disc", c] => do pure ([.disc (← nat? c)], st)
  | ["request", c, m] => do pure ([.request (← nat? c) (← request? m)], st)
  | ["reqstream", c, id, k] => do
    let r ← if k = "null" then some none else (kinds? k).map some
    pure ([.reqStream (← nat? c) (← sid? id) r], st)
  | ["abort", c, id] => do pure ([.abort (← nat? c) (← sid? id)], st)
  | ["close", c, id] => do pure ([.close (← nat? c) (← sid? id)], st)
  | ["offer", c, id, label, repl, _] => do pure ([.offer (← nat? c) (← sid? id) (← label? label) (← sid? repl)], st)
  | ["track", c, id, k, kind] => do
    let kind ← if kind = "a" then some TK.audio else if kind = "v" then some TK.video else none
    pure ([.track (← nat? c) (← sid? id) (← nat? k) kind], st)
  | ["settle"] => pure ([], st)
  | ["kick", o, c] => do pure ([.kick (← nat? o) (← nat? c)], st)
  | ["unpresent", o, c] => do pure ([.setPresent (← nat? o) (← nat? c) false], st)
  | ["present", o, c] => do pure ([.setPresent (← nat? o) (← nat? c) true], st)
  | ["hold", c] => do let c ← nat? c; pure ([], { st with hold := st.hold.set c true })
  | ["unhold", c] => do let c ← nat? c; pure ([], { st with hold := st.hold.set c false })
  | ["answer", c, id] => do pure ([.answer (← nat? c) (← sid? id)], st)
  | _ => none

def step (st : St) (op impl : List String) : St × Verdict :=
  if st.abandoned then (st, .ok) else
  if (impl.headD "").startsWith "env:" then ({ st with abandoned := true }, .ok) else
  if op = ["pushrace"] then
    -- self-contained scenario with its own verdict (harness/cmd/streams/pushrace.go); the case ends here
    match impl with
    | ["ok"] => ({ st with abandoned := true }, .ok)
    | [r] =>
      if r.startsWith "bad:" then
        ({ st with abandoned := true }, .oracle s!"C07: a track arrived on the server while the stream's delayed push was being distributed, and the subscriber that requested audio and video was never offered it: {r}")
      else ({ st with abandoned := true }, .mismatch "ok")
    | _ => ({ st with abandoned := true }, .mismatch "ok")
  else
  match parseOp st op with
  | none => (st, .badop "streams: cannot parse op")
  | some (mops, st1) =>
    -- model
    let s0 := if op = ["settle"] then fireAll currentFixes 1000 st1.s else st1.s
    let (s1, e1) := run currentFixes s0 mops
    let (s2, e2) := settleLoop 50 st1.hold s1
    let rows := (e1 ++ e2).map fun e =>
      let (c, id, tok) := eventTok s2 e
      ((nat? c).getD 0, id, tok)
    let modelRes := canon rows
    -- oracle
    let evs := if impl = ["-"] then [] else impl.map parseEv
    let pre := st1.orc
    let mid := (pre.applyOp op evs).noteUser op st.joins
    -- a client whose connection the server closed is gone: its streams have ended
    let mid := evs.foldl (fun (o : Orc) e => match e with | .dead c => o.gone c true | _ => o) mid
    let post := evs.foldl Orc.applyEv mid
    let st2 := { st1 with s := s2, orc := post }
    let bad := (evs.findSome? (checkEv pre mid op)).orElse fun _ =>
      (checkOwnOnly op evs).orElse fun _ => checkState post
    -- once two publishers of a group use the same stream id, the outcome of an op depends on the order in
    -- which their pushes reach a subscriber: the model's result is one of several, only the oracle judges
    let ambiguous := post.streams.any fun x => post.streams.any fun y => x.id = y.id && x.group = y.group && x.pub ≠ y.pub
    match bad with
    | some m => (st2, .oracle m)
    | none => if ambiguous then (st2, .ok) else (st2, cmp modelRes impl)

def engine : EngineDef := { σ := St, init := {}, step := step }

end Galene.Engine.Streams
