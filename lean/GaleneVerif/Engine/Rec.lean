import GaleneVerif.Model.DiskTrack
import GaleneVerif.Engine.Common
/-
Engine `rec`: the disk recorder (diskwriter.diskTrack.Write and friends), C20.

Ops (impl result after `=>`):
  new <mime:rate:channels:cachesize>...        => ok <ntracks> | err
  p trk fid idx n kf w h pk pad pre off hex    => ok           publisher sends packet idx of n of frame fid
                                                               (kept in the publisher's cache); the packet's
                                                               contribution to the recorded sample is
                                                               pre ++ packet[off : len-pad]
  w trk seq                                    => n=<ret> ev=<events> fc=<file events> st=<state>
                                                               the packet reaches diskTrack.Write
  wx trk hex                                   => same, arbitrary bytes
  sr trk ntp rtp                               => ev=- fc=- st=…   SetTimeOffset (sender report)
  so trk ts nowNs / ao trk ts                  => ev=- fc=- st=…   setOrigin / adjustOrigin called directly
  at ms                                        => ok <entry us> <exit us>   real-time delivery: the harness waits until
                                                               ms after the creation of the recorder; its own clock
                                                               on entry and on return (an observed input)
  close kind                                   => ev=… fc=… st=… open=<n> locals=<n> files=<n> F:… T:… B:…

events (ev, comma separated, in order): g<seq>:<n> GetPacket; k RequestKeyframe reached the publisher;
R writeRTP entered; O<trk>:<origin>:<originRemote> setOrigin made the origin valid; S<trk>:<ts>:<npkts> the
builder returned a sample; E<trk>:<ts>:<n> Pop failed (depacketizer error); W<trk>:<kf>:<tm>:<len>:<h1>:<h2>:<file>
a block was handed to the container writer.  fc: I<ext>:<w>x<h> a file was created; C<trk> a writer was closed.
state: lastSeqno per track; origin per track; local origin (z | rt | virtual ns); remote origin; file open.

The model (Model/DiskTrack.lean) predicts everything except what the third-party sample builder
returns (S/E events) and the wall clock (the value in an O event when the local-clock branch of
setOrigin is taken): those are read from the implementation's line.  The oracle (C20) uses only the
ops and the implementation's outputs.
-/
namespace Galene.Engine.Rec
open Galene Galene.Engine Galene.DiskTrack
open Galene.Codecs (Bytes)

def hash2 (bs : List Nat) : Nat := bs.foldl (fun h b => (h * 263 + b + 7) % 998244353) 11

/-! ### oracle data -/

structure SentPkt where
  trk : Nat
  seq : Nat
  fid : Nat
  idx : Nat
  n : Nat
  kf : Bool
  w : Nat
  h : Nat
  pk : String
  pad : Nat
  len : Nat          -- length of the RTP packet
  contrib : Bytes
  ts : Nat
  ord : Nat := 0     -- how many packets of the track the publisher had sent before this one
  deriving Inhabited

structure Frame where
  trk : Nat
  fid : Nat
  n : Nat
  ts : Nat
  kf : Bool
  pkts : List SentPkt := []     -- sorted by idx
  complete : Bool := false
  len : Nat := 0
  h1 : Nat := 0
  h2 : Nat := 0
  deriving Inhabited

structure Block where
  file : Nat
  trk : Nat
  kf : Bool
  tm : Nat
  len : Nat
  h1 : Nat
  h2 : Nat
  fid : Nat
  lo : Nat        -- packets lo..hi of the frame
  hi : Nat
  op : Nat := 0   -- number of the op in which it was written
  deriving Inhabited

structure Reach where
  trk : Nat
  seq : Nat
  late : Nat      -- how far (in seqnos) newer packets had already reached the recorder
  recovered : Bool
  pos : Nat       -- position in the order in which packets (of all tracks) first reached the recorder
  op : Nat        -- number of the op in which it reached the recorder

structure Orc where
  codecs : List String := []
  rates : List Nat := []
  cacheSizes : List Nat := []
  nsent : List Nat := []           -- packets sent so far, per track
  sent : List SentPkt := []
  frames : List Frame := []
  seq0 : List (Option Nat) := []
  maxLin : List (Option Int) := []
  reached : List Reach := []
  delivered : List (Nat × Nat) := []
  recovered : List (Nat × Nat) := []
  blocks : List Block := []        -- newest first
  nblocks : Nat := 0
  nfiles : Nat := 0
  fileSpecs : List (String × Nat × Nat) := []   -- ext, w, h per I event (oldest first)
  srs : List (Nat × Nat × Nat) := []   -- trk, ntp, rtp (newest first)
  srOps : List (Nat × Nat) := []       -- trk, op of every sender report
  srGood : List (Nat × Nat) := []      -- trk, op of every sender report that is a capture-time reference (NTP time not 0)
  fileOps : List Nat := []             -- op of every I event (oldest first)
  srSince : List Bool := []        -- a sender report arrived on the track since its last block
  alignFrom : Nat := 0
  synthetic : Bool := false
  deferred : Option String := none
  /-- (trk, seq): a second copy of the newest packet of the track reached the recorder -/
  dupNewest : List (Nat × Nat × Nat) := []      -- trk, seq, op
  startLin : List (Option Int) := []     -- first packet of the track that reached the recorder
  lastSample : Option (Nat × Nat × Nat) := none   -- trk, ts, npkts of the last S event
  opn : Nat := 0                                  -- ops so far
  pops : List (Nat × Nat × Nat) := []             -- trk, ts, op of every S event
  partialSeen : List (Nat × Nat) := []            -- (trk, fid): the builder returned a partial frame
  -- real-time delivery (op `at`): arrival times according to the harness's clock
  paced : Bool := false
  unpacedArr : Bool := false                      -- a packet reached the recorder before the first `at`
  atExit : Nat := 0                               -- the harness's clock (us) when the last `at` returned
  ts0 : List (Option Nat) := []                   -- timestamp of the first packet sent, per track
  -- packets that reached the recorder since the last `at`: track, media time (us since `ts0`)
  pendArr : List (Nat × Int) := []
  -- per track: least and greatest (arrival time − media time) over the packets that reached the recorder,
  -- with the arrival time taken at the beginning resp. end of its bracket
  agg : List (Option (Int × Int)) := []
  -- pairs of blocks to be judged at the next `at`: track, frame, block time (ms), media time (us), twice
  pendPairs : List ((Nat × Nat × Nat × Int) × (Nat × Nat × Nat × Int)) := []
  deriving Inhabited

structure St where
  conn : Option Conn := none
  caches : List Cache.Ring := []
  pkts : List (Nat × Nat × Bytes) := []    -- trk, seq, bytes (newest first)
  orc : Orc := {}
  deriving Inhabited

/-! ### formatting / parsing -/

def optS (o : Option Nat) : String := match o with | none => "-" | some v => toString v

/-- 2001-09-09T01:46:40Z in ns since the NTP epoch (the shim's virtual-clock base) -/
def baseNs : Int := (2208988800 + 1000000000) * 1000000000

def fmtState (c : Conn) : String :=
  let ls := "/".intercalate (c.tracks.map fun t => optS t.lastSeqno)
  let os := "/".intercalate (c.tracks.map fun t => optS t.origin)
  let ol := match c.originLocal with
    | .zero => "z"
    | .real => "rt"
    | .virt ns => toString (ns - baseNs)
  let ws := "/".intercalate (c.tracks.map fun t => b2s t.writer)
  s!"st={ls};{os};{ol};{c.originRemote};{b2s c.fileOpen};{ws}"

def fmtOut : Out → Option String
  | .fetch s n => some s!"g{s}:{n}"
  | .kfreq => some "k"
  | .rtp => some "R"
  | .origin t o => some s!"O{t}:{o}"
  | .sample t ts => some s!"S{t}:{ts}"
  | .fail t ts => some s!"E{t}:{ts}"
  | .write t kf tm => some s!"W{t}:{b2s kf}:{tm}"
  | .panic w => some s!"PANIC:{w}"
  | _ => none

def fmtFc : Out → Option String
  | .init ext w h => some s!"I{ext}:{w}x{h}"
  | _ => none

def joinOr (xs : List String) : String := if xs.isEmpty then "-" else ",".intercalate xs

def fields (s : String) : List String := s.splitOn ":"

/-- strip the fields of an implementation event that the model does not predict -/
def normEv (e : String) : String :=
  let f := fields e
  match e.front with
  | 'S' | 'E' | 'O' => ":".intercalate (f.take 2)
  | 'W' => ":".intercalate (f.take 3)
  | _ => e

def parseEnv (evs : List String) : List Env :=
  evs.filterMap fun e =>
    let f := fields e
    match e.front, f with
    | 'S', [a, b, _] => match nat? (a.drop 1).toString, nat? b with
      | some t, some ts => some (Env.sample t ts) | _, _ => none
    | 'E', [a, b, _] => match nat? (a.drop 1).toString, nat? b with
      | some t, some ts => some (Env.fail t ts) | _, _ => none
    | 'R', _ => some Env.mark
    | 'O', [a, b, c] => match nat? (a.drop 1).toString, nat? b, nat? c with
      | some t, some o, some r => some (Env.origin t o r) | _, _, _ => none
    | _, _ => none

def evList (tok : String) (pfx : String) : List String :=
  let s := (tok.drop pfx.length).toString
  if s = "-" then [] else s.splitOn ","

def modelLine (n : Option Nat) (out : List Out) (c : Conn) (rest : List Env) : String :=
  let nn := match n with | some n => s!"n={n} " | none => ""
  let un := if rest.isEmpty then "" else s!" unconsumed={rest.length}"
  s!"{nn}ev={joinOr (out.filterMap fmtOut)} fc={joinOr (out.filterMap fmtFc)} {fmtState c}{un}"

def implLine (impl : List String) : String :=
  " ".intercalate (impl.map fun tok =>
    if tok.startsWith "ev=" then "ev=" ++ joinOr ((evList tok "ev=").map normEv) else tok)

/-! ### oracle helpers -/

def lin (o : Orc) (trk seq : Nat) : Int :=
  match (o.seq0.getD trk none) with
  | none => 0
  | some s0 => let d := sub16 seq s0; if d < 32768 then (d : Int) else (d : Int) - 65536

def padBytes (p : SentPkt) : Bytes :=
  let k := bufSize - p.len
  if p.pk = "s" then (List.replicate (k / 2) [0, 0, 0, 1]).flatten else List.replicate k 0

def isRecovered (o : Orc) (p : SentPkt) : Bool := o.recovered.contains (p.trk, p.seq)
def isDelivered (o : Orc) (p : SentPkt) : Bool := o.delivered.contains (p.trk, p.seq)

def variantBytes (ps : List SentPkt) (padded : SentPkt → Bool) : Bytes :=
  (ps.map fun p => if padded p then p.contrib ++ padBytes p else p.contrib).flatten

def variantLen (ps : List SentPkt) (padded : SentPkt → Bool) : Nat :=
  (ps.map fun p => p.contrib.length + (if padded p then (padBytes p).length else 0)).sum

inductive Match where
  | exact (fid : Nat)
  | padded (fid lo hi : Nat) (whole : Bool) (seqs : List Nat) (npad : Nat)
  | part (fid lo hi n : Nat) (aligned : Bool)
  | none

def startsWithStartCode (b : Bytes) : Bool := b.take 4 == [0, 0, 0, 1]

/-- all sub-ranges (lo, hi) of 0..n-1, the whole range first -/
def ranges (n : Nat) : List (Nat × Nat) :=
  (0, n - 1) :: ((List.range n).flatMap fun lo => (List.range n).filterMap fun hi =>
    if lo ≤ hi && !(lo = 0 && hi = n - 1) then some (lo, hi) else none)

def tryFrame (o : Orc) (f : Frame) (len h1 h2 : Nat) : Match :=
  let ps := f.pkts
  let k := ps.length
  let whole := f.complete
  let variants : List (SentPkt → Bool) :=
    [fun _ => false,
     -- the copy that reached the builder first is the one it keeps
     fun p => p.pad = 0 && (o.reached.find? (fun r => r.trk = p.trk && r.seq = p.seq)).map (·.recovered) = some true,
     fun p => isRecovered o p, fun p => isRecovered o p && !isDelivered o p]
  let rec go (rs : List (Nat × Nat)) : Match :=
    match rs with
    | [] => .none
    | (lo, hi) :: rs =>
      let sub := (ps.drop lo).take (hi + 1 - lo)
      -- the packets must be consecutive packets of the frame
      let consecutive := (sub.zipIdx).all fun (p, i) => p.idx = (sub.headD default).idx + i
      if !consecutive then go rs else
      let found := variants.zipIdx.findSome? fun (v, vi) =>
        if variantLen sub v = len then
          let b := variantBytes sub v
          if hashBytes b = h1 && hash2 b = h2 then some vi else none
        else none
      match found with
      | some vi =>
        let isWhole := whole && lo = 0 && hi + 1 = k
        if vi = 0 then
          if isWhole then .exact f.fid
          else
            let first := sub.headD default
            let next := ps.getD (hi + 1) default
            let aligned := startsWithStartCode first.contrib && (hi + 1 ≥ k || startsWithStartCode next.contrib)
            .part f.fid first.idx ((sub.getLastD default).idx) f.n aligned
        else
          let v := variants.getD vi (fun _ => false)
          let padded := sub.filter v
          .padded f.fid ((sub.headD default).idx) ((sub.getLastD default).idx) isWhole (padded.map (·.seq))
            ((padded.map fun p => (padBytes p).length).sum)
      | none => go rs
  go (ranges k)

/-- Which frame is this sample?  Several frames may have the same bytes (one-byte opus frames):
frames after the last one written on the track are preferred, so that a repeated content is not
mistaken for a duplicate or a reordering. -/
def findMatch (o : Orc) (trk len h1 h2 : Nat) (after : Option Nat) : Match :=
  let later (f : Frame) : Bool := match after with | none => true | some a => f.fid > a
  -- fast path: a complete frame with this length and hashes
  let exact (f : Frame) : Bool := f.trk = trk && f.complete && f.len = len && f.h1 = h1 && f.h2 = h2
  -- among frames with these bytes, the one whose timestamp is that of the sample just returned
  let sampleTs : Option Nat := match o.lastSample with
    | some (t, ts, _) => if t = trk then some ts else none
    | none => none
  let pick := match o.frames.find? (fun f => exact f && later f && some f.ts = sampleTs) with
    | some f => some f
    | none => o.frames.find? (fun f => exact f && later f)
  match pick with
  | some f => .exact f.fid
  | none =>
    let rec go (fs : List Frame) : Match :=
      match fs with
      | [] => .none
      | f :: fs =>
        if f.trk ≠ trk then go fs else
        match tryFrame o f len h1 h2 with
        | .none => go fs
        | m => m
    let mine := o.frames.filter (·.trk = trk)
    match after with
    | none => go mine
    | some a =>
      -- the rest of the frame written last (H264 pieces), then later frames, then earlier ones
      let isPiece (m : Match) : Bool := match m with
        | .part .. => true
        | .padded _ _ _ whole _ _ => !whole
        | _ => false
      let same := go (mine.filter (fun f => f.fid = a))
      if isPiece same then same else
      match go (mine.filter (fun f => f.fid > a)) with
      | .none => (match same with | .none => go (mine.filter (fun f => f.fid < a)) | m => m)
      | m => m

def addPkt (o : Orc) (p : SentPkt) : Orc :=
  let p := { p with ord := o.nsent.getD p.trk 0 }
  let o := { o with sent := p :: o.sent, nsent := o.nsent.set p.trk (p.ord + 1) }
  let o := if (o.seq0.getD p.trk none).isNone then { o with seq0 := o.seq0.set p.trk (some p.seq) } else o
  let o := if (o.ts0.getD p.trk none).isNone then { o with ts0 := o.ts0.set p.trk (some p.ts) } else o
  let upd (f : Frame) : Frame :=
    let ps := (f.pkts.filter (·.idx ≠ p.idx))
    let ps := (ps.takeWhile (·.idx < p.idx)) ++ [p] ++ (ps.dropWhile (·.idx < p.idx))
    let complete := ps.length = f.n && (ps.zipIdx).all fun (q, i) => q.idx = i
    if complete then
      let b := (ps.map (·.contrib)).flatten
      { f with pkts := ps, complete := true, len := b.length, h1 := hashBytes b, h2 := hash2 b }
    else { f with pkts := ps, complete := false }
  if o.frames.any (fun f => f.trk = p.trk && f.fid = p.fid) then
    { o with frames := o.frames.map fun f => if f.trk = p.trk && f.fid = p.fid then upd f else f }
  else
    let nf := upd { trk := p.trk, fid := p.fid, n := p.n, ts := p.ts, kf := p.kf }
    let before (f : Frame) : Bool := f.trk < p.trk || (f.trk = p.trk && f.fid < p.fid)
    { o with frames := o.frames.takeWhile before ++ [nf] ++ o.frames.dropWhile before }

def reach (o : Orc) (trk seq : Nat) (recovered : Bool) : Orc :=
  let l := lin o trk seq
  if o.reached.any (fun r => r.trk = trk && r.seq = seq) then
    if o.maxLin.getD trk none = some l then { o with dupNewest := (trk, seq, o.opn) :: o.dupNewest } else o
  else
  let o := if (o.startLin.getD trk none).isNone then { o with startLin := o.startLin.set trk (some l) } else o
  let late := match o.maxLin.getD trk none with
    | none => 0
    | some m => if m > l then (m - l).toNat else 0
  let m' := match o.maxLin.getD trk none with
    | none => l
    | some m => max m l
  { o with reached := { trk, seq, late, recovered, pos := o.reached.length, op := o.opn } :: o.reached, maxLin := o.maxLin.set trk (some m') }

/-- The recorder is handed packet `seq` of track `trk`: every packet between the newest one that has
reached it and this one, if the gap is shorter than 256, that the publisher has sent and that is still
among the last `cachesize` packets sent (the cache's contract, C05) can be recovered from the cache
now: it counts as reaching the recorder, whether or not the implementation asks for it. -/
def noticeGap (o : Orc) (trk seq : Nat) : Orc :=
  match o.maxLin.getD trk none with
  | none => o
  | some m =>
    let l := lin o trk seq
    if l ≤ m + 1 || l - m ≥ 256 then o else
    let cs := o.cacheSizes.getD trk 0
    let n := o.nsent.getD trk 0
    (List.range (l - m - 1).toNat).foldl (fun (o : Orc) (i : Nat) =>
      let want : Int := m + 1 + (i : Int)
      match o.sent.find? (fun p => p.trk = trk && lin o trk p.seq = want) with
      | some p => if n - 1 - p.ord < cs then reach o trk p.seq true else o
      | none => o) o

def isVideoTrk (o : Orc) (trk : Nat) : Bool := isVideo (o.codecs.getD trk "")

def codecName (o : Orc) (trk : Nat) : String := Codecs.lower (o.codecs.getD trk "")

/-- capture instant (ns since the NTP epoch) of timestamp `ts` according to the track's sender reports -/
def capture (o : Orc) (trk ts : Nat) : Option Int :=
  match o.srs.find? (fun s => s.1 = trk) with
  | none => none
  | some (_, ntp, rtp) =>
    let rate := o.rates.getD trk 1
    some (ntpToTime ntp + (i32 (sub32 ts rtp)) * 1000000000 / (rate : Int))

def srConsistent (o : Orc) (trk : Nat) : Bool :=
  match o.srs.filter (fun s => s.1 = trk) with
  | [] => false
  | (_, n0, r0) :: rest =>
    let rate := o.rates.getD trk 1
    rest.all fun (_, n, r) =>
      let d := (ntpToTime n - ntpToTime n0) - (i32 (sub32 r r0)) * 1000000000 / (rate : Int)
      d.natAbs ≤ 2 * 1000000000 / rate + 2

/-- the timestamps of the frames the publisher sent on a track advance by less than 2^24 per frame -/
def regularTrk (o : Orc) (trk : Nat) : Bool :=
  let fs := o.frames.filter (·.trk = trk)
  (fs.zip (fs.drop 1)).all fun (a, b) => let d := sub32 b.ts a.ts; 0 < d && d < 16777216

def defer (o : Orc) (msg : String) : Orc := if o.deferred.isSome then o else { o with deferred := some msg }

/-- media time (us) of timestamp `ts` on the track's own clock, counted from the first timestamp sent -/
def mediaUs (o : Orc) (trk ts : Nat) : Int :=
  i32 (sub32 ts ((o.ts0.getD trk none).getD 0)) * 1000000 / ((o.rates.getD trk 1 : Nat) : Int)

/-- a packet with timestamp `ts` reaches the recorder (delivered or recovered) -/
def arrive (o : Orc) (trk ts : Nat) : Orc :=
  if o.codecs.length ≠ 2 then o
  else if !o.paced then { o with unpacedArr := true }
  else { o with pendArr := (trk, mediaUs o trk ts) :: o.pendArr }

/-- an `at` op: the packets that reached the recorder since the last one did so between its return and
this one's entry -/
def closeBracket (o : Orc) (entry : Nat) : Orc :=
  let agg := o.pendArr.foldl (fun (agg : List (Option (Int × Int))) (trk, m) =>
    let lo : Int := (o.atExit : Int) - m
    let hi : Int := (entry : Int) - m
    agg.set trk (match agg.getD trk none with
      | none => some (lo, hi)
      | some (a, b) => some (min a lo, max b hi))) o.agg
  { o with agg, pendArr := [] }

/-- **Shared origin, by arrival times.**  No sender reports relate the clocks of the two tracks, so the
recorder can only go by when packets arrive.  Every pair (A, V) of an audio and a video packet that has
reached it is evidence that A's and V's capture instants are as far apart as their arrivals; a file in which
the blocks x, y of the two tracks are placed further apart or closer together than EVERY such pair says
(with its arrival bracket) has no single instant as the origin of both tracks. -/
def judgePairs (o : Orc) : Orc × Option String :=
  if !o.pendArr.isEmpty || o.unpacedArr then ({ o with pendPairs := [] }, none) else
  let e := o.pendPairs.findSome? fun ((tx, fx, tmx, mx), (ty, fy, tmy, my)) =>
    match o.agg.getD tx none, o.agg.getD ty none with
    | some (ax, bx), some (ay, byy) =>
      let got : Int := ((tmx : Int) - (tmy : Int)) * 1000
      let lo : Int := (mx - my) + (ax - byy)
      let hi : Int := (mx - my) + (bx - ay)
      if got < lo - 2500 || got > hi + 2500 then
        some s!"C20: audio and video do not share one time origin: no sender reports relate the clocks of the two tracks, only the arrival times do; frames {fx} (track {tx}) and {fy} (track {ty}) are placed {(tmx : Int) - (tmy : Int)} ms apart, but by the arrival times (the harness's clock) of every pair of packets of the two tracks that had reached the recorder they were captured between {lo / 1000} and {hi / 1000} ms apart"
      else none
    | _, _ => none
  ({ o with pendPairs := [] }, e)

/-- one block handed to the container writer -/
def onBlock (o : Orc) (trk : Nat) (kf : Bool) (tm len h1 h2 file : Nat) : Orc × Option String :=
  if o.synthetic then (o, none) else
  let cn := codecName o trk
  let prev := o.blocks.find? (fun b => b.trk = trk)
  let m := findMatch o trk len h1 h2 (prev.map (·.fid))
  let (o, fid, lo, hi, err) : Orc × Nat × Nat × Nat × Option String :=
    match m with
    | .exact fid =>
      let f := (o.frames.find? (fun f => f.trk = trk && f.fid = fid)).getD default
      (o, fid, 0, f.n - 1, none)
    | .padded fid lo hi whole seqs npad =>
      let f := (o.frames.find? (fun f => f.trk = trk && f.fid = fid)).getD default
      let what := if whole then s!"frame {fid}" else s!"packets {lo}..{hi} of the {f.n} packets of frame {fid}"
      (defer o s!"C20: [P22] recorded sample (track {trk}, {cn}, {len} bytes) is {what} with {npad} bytes of zero-buffer padding after the payload of packet(s) {seqs} that were recovered from the publisher's cache: fetch unmarshals the whole 1504-byte buffer instead of the n bytes GetPacket returned",
        fid, lo, hi, none)
    | .part fid lo hi n aligned =>
      if aligned && cn = "video/h264" then
        (defer o s!"C20: [H264-split] recorded sample (track {trk}, video/h264) is only packets {lo}..{hi} of the {n} packets of frame {fid}: the sample builder starts a new sample at every H264 packet that begins a NAL unit, so an access unit of several NAL units is written as several blocks with one timestamp",
          fid, lo, hi, none)
      else
        let f := (o.frames.find? (fun f => f.trk = trk && f.fid = fid)).getD default
        let lates := f.pkts.filter (fun p => match o.reached.find? (fun r => r.trk = trk && r.seq = p.seq) with
          | some r => r.late > 0 | none => false)
        let how := if lates.isEmpty then "its packets reached the recorder in order" else s!"its packet(s) {lates.map (·.seq)} reached the recorder after newer packets"
        (defer { o with partialSeen := (trk, fid) :: o.partialSeen } s!"C20: [SB-partial] recorded sample (track {trk}, {cn}, {len} bytes) is not a complete frame: it consists of packets {lo}..{hi} of the {n} packets of frame {fid} ({how}); samples are assembled by the third-party sample builder from the packets galene pushes unchanged",
          fid, lo, hi, none)
    | .none =>
      -- an H264 frame with FU-A fragments popped in pieces: pion's H264 depacketizer is stateful
      -- (fragments are only emitted with the end fragment), the pieces cannot be matched
      let fua : Option Frame := match o.lastSample with
        | some (t, ts, npk) =>
          if t = trk && cn = "video/h264" then
            o.frames.find? (fun f => f.trk = trk && f.ts = ts && npk ≤ f.n && f.pkts.any (fun p => p.pk = "z" && !startsWithStartCode p.contrib || (p.contrib.length > 4 && p.len > p.contrib.length + 8)))
          else none
        | none => none
      match fua with
      | some f =>
        (defer { o with partialSeen := (trk, f.fid) :: o.partialSeen } s!"C20: [SB-partial] recorded sample (track {trk}, video/h264, {len} bytes) was built from {(o.lastSample.map (·.2.2)).getD 0} of the {f.n} packets of frame {f.fid}, which contains FU-A fragments, and is not identical to the frame: the third-party H264 depacketizer keeps the fragments of an interrupted FU-A sequence and the sample builder returns pieces of frames",
          f.fid, 100000, 100000, none)
      | none =>
      (o, 0, 0, 0, some s!"C20: recorded sample (track {trk}, {cn}, {len} bytes, block time {tm}) is not byte-identical to any frame the publisher sent")
  match err with
  | some e => (o, some e)
  | none =>
  -- order / duplicates
  let orderErr : Option String :=
    match prev with
    | none => none
    | some b =>
      if fid < b.fid then some s!"C20: frame {fid} of track {trk} is written after frame {b.fid}: out of order"
      else if fid = b.fid then
        if lo > b.hi || lo ≥ 100000 || b.hi ≥ 100000 then none
        else some s!"C20: frame {fid} of track {trk} (packets {lo}..{hi}) is written twice (packets {b.lo}..{b.hi} were already written)"
      else none
  match orderErr with
  | some e => (o, some e)
  | none =>
  -- timestamps never decrease within a track (within one file), for a stream whose own timestamps
  -- advance regularly
  let myFrames := o.frames.filter (·.trk = trk)
  let regular := (myFrames.zip (myFrames.drop 1)).all fun (a, b) => let d := sub32 b.ts a.ts; 0 < d && d < 16777216
  let (o, tmErr) : Orc × Option String :=
    match prev with
    | some b =>
      if regular && b.file = file && tm < b.tm then
        if o.srSince.getD trk false then
          (defer o s!"C20: [SR-shift] block time of track {trk} decreases from {b.tm} to {tm} (frames {b.fid}, {fid}) after a sender report moved the origin of the track", none)
        else (o, some s!"C20: block time of track {trk} decreases from {b.tm} to {tm} (frames {b.fid}, {fid})")
      else (o, none)
    | none => (o, none)
  match tmErr with
  | some e => (o, some e)
  | none =>
  -- one origin per track and file: between two blocks of a track in one file, with no sender report for
  -- the track in between, block times advance as the RTP timestamps do (each is the whole number of ms
  -- since the same origin)
  let linErr : Option String :=
    match prev with
    | some b =>
      if regular && b.file = file && !(o.srSince.getD trk false) then
        let fx := (o.frames.find? (fun f => f.trk = trk && f.fid = fid)).getD default
        let fy := (o.frames.find? (fun f => f.trk = trk && f.fid = b.fid)).getD default
        let k := o.rates.getD trk 1000 / 1000
        let dts := sub32 fx.ts fy.ts
        if k = 0 || dts ≥ two31 || tm < b.tm then none
        else if tm - b.tm < dts / k || tm - b.tm > dts / k + 1 then
          some s!"C20: the track does not keep one time origin within the file: frames {b.fid} and {fid} of track {trk} are {dts} ticks ({dts / k} ms) apart but their block times {b.tm} and {tm} differ by {tm - b.tm} ms, and no sender report for the track arrived in between"
        else none
      else none
    | none => none
  match linErr with
  | some e => (o, some e)
  | none =>
  let blk : Block := { file, trk, kf, tm, len, h1, h2, fid, lo, hi, op := o.opn }
  -- shared origin: with sender reports on both tracks, capture instants and block times agree
  -- (the other track's latest block in this file since the last event that may move an origin: a file
  -- is created, an origin is set, a sender report arrives)
  let partner : Option Block :=
    if o.codecs.length = 2 && regularTrk o 0 && regularTrk o 1 then
      (o.blocks.take (o.nblocks - o.alignFrom)).find? (fun b => b.trk = 1 - trk && b.file = file)
    else none
  let bothSR := srConsistent o 0 && srConsistent o 1
  let alignErr : Option String :=
    match partner with
    | some b =>
      if !bothSR then none else
        let other := 1 - trk
        let fx := (o.frames.find? (fun f => f.trk = trk && f.fid = fid)).getD default
        let fy := (o.frames.find? (fun f => f.trk = other && f.fid = b.fid)).getD default
        match capture o trk fx.ts, capture o other fy.ts with
        | some cx, some cy =>
          let d : Int := ((tm : Int) - (b.tm : Int)) * 1000000 - (cx - cy)
          if d.natAbs > 2500000 then
            some s!"C20: audio and video do not share one time origin: frames {fid} (track {trk}) and {b.fid} (track {other}) were captured {(cx - cy) / 1000} us apart according to the sender reports but their block times differ by {(tm : Int) - (b.tm : Int)} ms"
          else none
        | _, _ => none
    | none => none
  match alignErr with
  | some e => (o, some e)
  | none =>
  -- without sender reports for both tracks: by arrival times, when the delivery was in real time
  -- (judged at the next `at`, when the arrival bracket of the packet that caused this block is known)
  let o : Orc :=
    match partner with
    | some b =>
      -- (a track with a sender report that the oracle does not use — NTP time 0, or reports that contradict
      -- each other — is not judged either way)
      if bothSR || !o.paced || o.srOps.any (fun (t, _) => !srConsistent o t) then o else
        let fx := (o.frames.find? (fun f => f.trk = trk && f.fid = fid)).getD default
        let fy := (o.frames.find? (fun f => f.trk = b.trk && f.fid = b.fid)).getD default
        { o with pendPairs := ((trk, fid, tm, mediaUs o trk fx.ts), (b.trk, b.fid, b.tm, mediaUs o b.trk fy.ts)) :: o.pendPairs }
    | none => o
  ({ o with blocks := blk :: o.blocks, nblocks := o.nblocks + 1, srSince := o.srSince.set trk false }, none)

/-- process the events of one implementation line -/
def onEvents (o : Orc) (evs fcs : List String) : Orc × Option String :=
  let o := { o with opn := o.opn + 1 }
  let o := fcs.foldl (fun (o : Orc) e =>
    if e.front = 'I' then
      let f := fields (e.drop 1).toString
      let dims := ((f.getD 1 "0x0").splitOn "x").map (fun s => (nat? s).getD 0)
      { o with nfiles := o.nfiles + 1, fileSpecs := o.fileSpecs ++ [(f.getD 0 "", dims.getD 0 0, dims.getD 1 0)],
               alignFrom := o.nblocks, fileOps := o.fileOps ++ [o.opn] }
    else o) o
  let rec go (o : Orc) (evs : List String) : Orc × Option String :=
    match evs with
    | [] => (o, none)
    | e :: rest =>
      match e.front, fields e with
      | 'W', [a, kf, tm, len, h1, h2, file] =>
        match nat? (a.drop 1).toString, bool? kf, nat? tm, nat? len, nat? h1, nat? h2, nat? file with
        | some t, some kf, some tm, some len, some h1, some h2, some file =>
          match onBlock o t kf tm len h1 h2 file with
          | (o, some e) => (o, some e)
          | (o, none) => go o rest
        | _, _, _, _, _, _, _ => (o, some "C20: unparsable W event")
      | 'O', _ => go { o with alignFrom := o.nblocks } rest
      | 'S', [a, ts, n] =>
        let t := (nat? (a.drop 1).toString).getD 0
        go { o with lastSample := some (t, (nat? ts).getD 0, (nat? n).getD 0), pops := (t, (nat? ts).getD 0, o.opn) :: o.pops } rest
      | 'P', _ => (o, some s!"C20: the recorder panicked ({e})")
      | _, _ => go o rest
  go o evs

/-- safety margins (in sequence numbers) within which the sample builder must not lose a packet:
below its maxLate (32 audio, 256 video) -/
def lateLimit (video : Bool) : Nat := if video then 160 else 20

/-- missing-frame check at close; returns a message for the first obliged frame that is missing -/
def missingCheck (o : Orc) : Orc × Option String :=
  (List.range o.codecs.length).foldl (fun (acc : Orc × Option String) trk =>
    match acc with
    | (o, some e) => (o, some e)
    | (o, none) =>
      let video := isVideoTrk o trk
      let frames := o.frames.filter (·.trk = trk)
      -- regular timestamps: consecutive frames advance by less than 2^24 ticks
      let regularOf (fs : List Frame) : Bool := (fs.zip (fs.drop 1)).all fun (a, b) => let d := sub32 b.ts a.ts; 0 < d && d < 16777216
      -- (of EVERY track of the recording: a sample whose time is invalid makes the writer give up the whole
      -- file, and the other tracks then wait for the next keyframe)
      let regular := regularOf frames && (List.range o.codecs.length).all fun t => regularOf (o.frames.filter (·.trk = t))
      if !regular then (o, none) else
      let reachOf (p : SentPkt) : Option Reach := o.reached.find? (fun r => r.trk = trk && r.seq = p.seq)
      let lim := lateLimit video
      let okPkt (p : SentPkt) : Bool := match reachOf p with | some r => r.late ≤ lim | none => false
      -- every seqno from the first one sent up to the end of frame f was sent and reached the recorder in time
      let sentTrk := o.sent.filter (·.trk = trk)
      let lins := sentTrk.map (fun p => lin o trk p.seq)
      let minLin := match o.startLin.getD trk none with
        | some l => l
        | none => lins.foldl min 0
      let okUpTo (f : Frame) : Bool :=
        f.complete &&
        lin o trk ((f.pkts.headD default).seq) ≥ minLin &&
        (let last := lin o trk ((f.pkts.getLastD default).seq)
         let first := max minLin (lin o trk ((f.pkts.headD default).seq) - 700)
         let window := sentTrk.filter (fun p => let l := lin o trk p.seq; first ≤ l && l ≤ last)
         -- no hole: as many distinct packets as seqnos in the window
         window.length = (last - first + 1).toNat && window.all okPkt)
      let recorded (f : Frame) : Bool := o.blocks.any (fun b => b.trk = trk && b.fid = f.fid)
      let written := frames.filter recorded
      let lastFileIdx := o.nfiles - 1
      -- from where on are frames owed?
      let start : Option Nat :=
        if video then (frames.find? (fun f => f.kf && okUpTo f)).map (·.fid)
        else (written.head?).map (·.fid)
      -- audio beside video: a frame that reaches the recorder while the (last) file is open and whose
      -- capture instant is at least 100 ms after that of the keyframe the file begins with is "after the
      -- first keyframe": it is owed, too, whether or not an earlier audio frame was written.  The capture
      -- instants are related by the sender reports, if both tracks had one when the file was created, else
      -- (real-time delivery only) by the arrival times: the frame must be later than the keyframe by every
      -- pair of packets of the two tracks that reached the recorder.  Not judged when a sender report
      -- arrived after the file was created (it may move an origin: the [SR-shift] finding).
      let owedBySync : Option Nat :=
        if video || o.codecs.length ≠ 2 then none else
        let vt := 1 - trk
        match o.fileOps.getLast?, (o.blocks.filter (fun b => b.trk = vt && b.file = lastFileIdx)).getLast? with
        | some nf, some v0 =>
          if !o.srOps.all (fun (_, sop) => sop ≤ nf) then none else
          let fv := (o.frames.find? (fun f => f.trk = vt && f.fid = v0.fid)).getD default
          let bothSR := srConsistent o 0 && srConsistent o 1 && o.srGood.any (·.1 = 0) && o.srGood.any (·.1 = 1)
          let byArrival := !bothSR && o.paced && !o.unpacedArr && o.pendArr.isEmpty &&
            o.srOps.all (fun (t, _) => srConsistent o t)
          let after (f : Frame) : Bool :=
            if bothSR then
              match capture o trk f.ts, capture o vt fv.ts with
              | some cf, some cv => (v0.tm : Int) * 1000000 + (cf - cv) ≥ 100000000
              | _, _ => false
            else if byArrival then
              match o.agg.getD trk none, o.agg.getD vt none with
              | some (amin, _), some (_, bmax) =>
                (v0.tm : Int) * 1000 + (mediaUs o trk f.ts - mediaUs o vt fv.ts) + (amin - bmax) ≥ 100000
              | _, _ => false
            else false
          let arrivedOpen (f : Frame) : Bool := match f.pkts.head? with
            | some p => (match reachOf p with | some r => r.op ≥ nf | none => false)   -- (reach op n - 1: delivered by op n)
            | none => false
          (frames.find? (fun f => arrivedOpen f && okUpTo f && after f)).map (·.fid)
        | _, _ => none
      let start : Option Nat := match start, owedBySync with
        | some a, some b => some (min a b)
        | none, b => b
        | a, none => a
      -- flush at the end of the recording: a complete frame whose packets all reached the recorder
      -- in time and that is still within the builder's window when the recording ends must be
      -- written (even behind a lost packet), once the track is being written to the file
      let newest : Int := (o.maxLin.getD trk none).getD 0
      let lastFile := o.nfiles - 1
      let tailOK (f : Frame) : Bool :=
        f.complete && f.pkts.all okPkt && lin o trk ((f.pkts.headD default).seq) ≥ minLin &&
        newest - lin o trk ((f.pkts.headD default).seq) ≤ (lim : Int) &&
        o.blocks.any (fun b => b.trk = trk && b.fid < f.fid && b.file = lastFile)
      let s := start.getD 1000000000
      match frames.find? (fun f => ((f.fid ≥ s && okUpTo f) || tailOK f) && !recorded f) with
      | none => (o, none)
      | some f =>
          let cn := codecName o trk
          let recPad := f.pkts.filter (fun p => isRecovered o p && !isDelivered o p && p.pad > 0)
          let kfStart := (frames.filter (fun g => g.kf && g.fid ≤ f.fid)).getLast?
          let kfRecovered := match kfStart with
            | some g => (match g.pkts.head? with | some p => isRecovered o p && !isDelivered o p | none => false)
            | none => false
          -- a sender report arrived on the track, and no block of the track was written between it and
          -- the arrival of this frame
          let freach := ((o.reached.find? (fun r => r.trk = trk && r.seq = (f.pkts.getLastD default).seq)).map (·.op)).getD 0
          let prevOp := ((o.blocks.filter (fun b => b.trk = trk && b.fid < f.fid)).map (·.op)).foldl max 0
          let fpop := ((o.pops.filter (fun x => x.1 = trk && x.2.1 = f.ts)).map (·.2.2)).foldl max freach
          -- (a report that arrives before the track has an origin moves nothing: the origin of a video track
          -- is fixed by the first packet of a keyframe, as sent, that reaches the recorder; that of an audio
          -- track by its first packet, after the video track's if there is one)
          let firstOp (t : Nat) (startOnly : Bool) (frm : Nat) : Option Nat :=
            ((o.reached.filter fun r => r.trk = t && r.op ≥ frm &&
                (!startOnly || o.sent.any (fun p => p.trk = t && p.seq = r.seq && p.kf && p.idx = 0))).map (·.op)).foldl
              (fun (m : Option Nat) x => match m with | none => some x | some y => some (min x y)) none
          let vtrk0 := (List.range o.codecs.length).find? (fun t => isVideoTrk o t)
          let originOpOf (t : Nat) : Option Nat :=
            if isVideoTrk o t then firstOp t true 0
            else match vtrk0 with
              | none => firstOp t false 0
              | some vt => (firstOp vt true 0).bind fun vo => firstOp t false vo
          let srDrop := o.srOps.any (fun (t, sop) => t = trk && sop ≤ fpop && prevOp ≤ sop &&
            (match originOpOf trk with | some oo => oo ≤ sop | none => false))
          -- (diagnosis of a REPAIRED defect, see the end of the chain)
          -- an OLD sample closed the file: a sample (of any track) that the builder returned while a file was
          -- open and that, by the sender reports both tracks had when the file was created, was captured 2^16
          -- ticks of its clock or more (1.37 s of audio, 0.73 s of video) before the keyframe the file begins
          -- with (e.g. audio recovered from the cache through a long gap); nothing has been written on any
          -- track, nor a file been created, from then up to the moment this frame was returned
          let wrapClosed : Option (Nat × Nat × Nat × Int) :=
            match vtrk0 with
            | none => none
            | some vt =>
              if o.codecs.length ≠ 2 then none else
              o.pops.findSome? fun (t', ts', a) =>
                if a > fpop then none else
                match (o.fileOps.zipIdx.filter (fun (nf, _) => nf ≤ a)).getLast? with
                | none => none
                | some (nf, k) =>
                  let srAt (t : Nat) : Bool := o.srGood.any (fun (t2, sop) => t2 = t && sop ≤ nf)
                  if !(srConsistent o 0 && srConsistent o 1 && srAt 0 && srAt 1) then none else
                  match (o.blocks.filter (fun b => b.trk = vt && b.file = k)).getLast? with
                  | none => none
                  | some v0 =>
                    let fv := (o.frames.find? (fun g => g.trk = vt && g.fid = v0.fid)).getD default
                    match capture o t' ts', capture o vt fv.ts with
                    | some cs, some cv =>
                      let e : Int := (v0.tm : Int) * 1000000 + (cs - cv)
                      let lim : Int := 65536 * 1000000000 / ((o.rates.getD t' 1 : Nat) : Int)
                      if e ≤ 3000000 - lim && !o.blocks.any (fun b => a < b.op && b.op ≤ fpop) &&
                          !o.fileOps.any (fun n => a < n && n ≤ fpop)
                      then some (t', ts', a, e / 1000000) else none
                    | _, _ => none
          -- a sender report for ANOTHER track moved that track's origin, and since the first sample of that
          -- track that the builder returned afterwards nothing has been written on any track, nor a file
          -- been created, up to the moment this frame was returned
          let srClosed : Option (Nat × Nat) := o.srOps.findSome? fun (t', sop) =>
            if t' = trk || sop > fpop || !(match originOpOf t' with | some oo => oo ≤ sop | none => false) then none else
            let a := ((o.pops.filter (fun x => x.1 = t' && x.2.2 > sop && x.2.2 ≤ fpop)).map (·.2.2)).foldl min 1000000000
            if a ≤ fpop && !o.blocks.any (fun b => a ≤ b.op && b.op ≤ fpop) && !o.fileOps.any (fun n => a ≤ n && n ≤ fpop)
            then some (t', a) else none
          -- the keyframe that should have opened the file was popped only after the first packet of a
          -- later keyframe had arrived (savedKf remembers one keyframe only)
          let overtaken : Option (Frame × Frame) :=
            if !video then none else
            match kfStart with
            | none => none
            | some k =>
              let popOp := ((o.pops.filter (fun x => x.1 = trk && x.2.1 = k.ts)).map (·.2.2)).foldl max 0
              -- (a later keyframe, or an earlier one whose first packet arrives late: after that of k)
              let kOp := ((k.pkts.head?).bind fun p => (o.reached.find? (fun r => r.trk = trk && r.seq = p.seq)).map (·.op)).getD 0
              (frames.filter (fun g => g.kf && g.fid ≠ k.fid)).findSome? fun g =>
                match g.pkts.head? with
                | some p => match o.reached.find? (fun r => r.trk = trk && r.seq = p.seq) with
                  | some r => if popOp > 0 && r.op ≤ popOp && (g.fid > k.fid || r.op > kOp) then some (k, g) else none
                  | none => none
                | none => none
          let posOf (t seq : Nat) : Option Nat := (o.reached.find? (fun r => r.trk = t && r.seq = seq)).map (·.pos)
          let fpos := (posOf trk ((f.pkts.getLastD default).seq)).getD 0
          -- a duplicate of the newest packet arrived while this frame (or the one the builder was
          -- waiting for) was incomplete
          -- the frame had begun to arrive when a second copy of a packet at least as new arrived
          let dupIn := (o.dupNewest.filter fun (t, sq, _) =>
            t = trk && lin o trk ((f.pkts.headD default).seq) ≤ lin o trk sq &&
              lin o trk sq - lin o trk ((f.pkts.getLastD default).seq) ≤ 600).map (·.2.1)
          -- resolution change: a keyframe whose dimensions differ from the previous keyframe's
          let vtrk := (List.range o.codecs.length).find? (fun t => isVideoTrk o t)
          let blackout : Option (Frame × Frame) := match vtrk with
            | none => none
            | some vt =>
              let kfs := o.frames.filter (fun g => g.trk = vt && g.kf && g.complete)
              let dimsOf (g : Frame) : Nat × Nat := match g.pkts.head? with | some p => (p.w, p.h) | none => (0, 0)
              (kfs.zip (kfs.drop 1)).findSome? fun (a, b) =>
                if dimsOf a ≠ dimsOf b then
                  let bpos := (posOf vt ((b.pkts.getLastD default).seq)).getD 1000000000
                  -- the next keyframe start after b ends the blackout
                  let next := kfs.find? (fun g => g.fid > b.fid)
                  let npos := match next with
                    | some g => (posOf vt ((g.pkts.headD default).seq)).getD 1000000000
                    | none => 1000000000
                  -- the keyframe that changed the dimensions is itself not in the recording
                  if bpos ≤ fpos + f.n && fpos ≤ npos + 1 && !o.blocks.any (fun x => x.trk = vt && x.fid = b.fid) then some (a, b) else none
                else none
          -- an audio frame that reaches the recorder after a further file has been started (file k ≥ 1) and
          -- that is older than the new file's origin: a later frame of the track had already reached the
          -- recorder since the file was started (it fixed the track's new origin), or, by the sender reports
          -- both tracks had when the file was started, the frame was captured before the file's first keyframe
          let fileSwitch : Option (Nat × String) :=
            if video || o.codecs.length ≠ 2 then none else
            let vt := 1 - trk
            match reachOf (f.pkts.headD default) with
            | none => none
            | some rf =>
              (o.fileOps.zipIdx.drop 1).findSome? fun (nf, k) =>
                let nextNf := o.fileOps.getD (k + 1) 1000000000
                -- (a packet delivered by op n has reach op n - 1; events of op n have op n)
                if !(nf ≤ rf.op && rf.op < nextNf) then none else
                let reordered := frames.any fun g => g.fid > f.fid &&
                  (match g.pkts.head? with
                   | some p => (match reachOf p with | some r => nf ≤ r.op && r.op < rf.op | none => false)
                   | none => false)
                let srAt (t : Nat) : Bool := o.srGood.any (fun (t', sop) => t' = t && sop ≤ nf)
                let v0 := (o.blocks.filter (fun b => b.trk = vt && b.file = k)).getLast?
                let early := srConsistent o 0 && srConsistent o 1 && srAt 0 && srAt 1 &&
                  (match v0 with
                   | some v0 =>
                     let fv := (o.frames.find? (fun g => g.trk = vt && g.fid = v0.fid)).getD default
                     (match capture o trk f.ts, capture o vt fv.ts with
                      | some cf, some cv => (v0.tm : Int) * 1000000 + (cf - cv) < 2000000
                      | _, _ => false)
                   | none => false)
                if reordered then some (k, "after a later frame of the track, which fixed the track's origin in the new file")
                else if early then some (k, "was captured, by the sender reports, before the keyframe the file begins with")
                else none
          if !dupIn.isEmpty then
            (defer o s!"C20: [SB-dup-newest] frame {f.fid} of track {trk} ({cn}) is missing from the recording although every packet reached the recorder: a second copy of packet(s) {dupIn}, the newest of the track at that moment, arrived while the frame was still in the third-party sample builder, which discards its whole buffer when the newest packet is repeated", none)
          else if overtaken.isSome then
            let (k, g) := overtaken.getD (default, default)
            (defer o s!"C20: [kf-overtaken] frame {f.fid} of track {trk} ({cn}) is missing from the recording although every packet reached the recorder: keyframe {k.fid} was returned by the sample builder only after the first packet of {if g.fid > k.fid then "the later" else "the earlier (late)"} keyframe {g.fid} had arrived; savedKf remembers only the keyframe start that arrived last, so frame {k.fid} was not treated as a keyframe and it and the frames up to the next keyframe were discarded (no file yet) ", none)
          else if blackout.isSome then
            let (a, b) := blackout.getD (default, default)
            let da := match a.pkts.head? with | some p => s!"{p.w}x{p.h}" | none => "?"
            let db := match b.pkts.head? with | some p => s!"{p.w}x{p.h}" | none => "?"
            (defer o s!"C20: [dim-change] frame {f.fid} of track {trk} ({cn}) is missing from the recording although every packet reached the recorder: keyframe {b.fid} changed the video dimensions from {da} to {db}; initWriter closes the file, which clears every track's origin, so the keyframe itself and every sample of every track up to the next keyframe are discarded (\"Invalid origin\")", none)
          else if o.partialSeen.any (fun (t, pf) => t = trk && pf ≤ f.fid && f.fid ≤ pf + 64) then
            (defer o s!"C20: [SB-partial] frame {f.fid} of track {trk} ({cn}) is missing from the recording although every packet reached the recorder: the third-party sample builder had returned an incomplete frame before and the packets it left behind block or displace the following frame", none)
          else if fileSwitch.isSome then
            let (k, why) := fileSwitch.getD (0, "")
            (defer o s!"C20: [file-switch] frame {f.fid} of track {trk} ({cn}) is missing from the recording although every packet reached the recorder: it reached the recorder after file {k} had been started (keyframe with new dimensions) and {why}: it is before the time origin of the new file, the file it belongs to is closed, and the sample is dropped as late", none)
          else if srDrop then
            (defer o s!"C20: [SR-shift] frame {f.fid} of track {trk} ({cn}) is missing from the recording although every packet reached the recorder: a sender report moved the origin of the track past the frame's timestamp and the sample was dropped as late", none)
          else if srClosed.isSome then
            let (t', a) := srClosed.getD (0, 0)
            (defer o s!"C20: [SR-shift] frame {f.fid} of track {trk} ({cn}) is missing from the recording although every packet reached the recorder: a sender report moved the origin of track {t'} past the timestamps of its samples; nothing at all has been written since its next sample was returned (op {a}): moved by 2^30 ticks or more (2^16 before the repair of the late/wrap threshold), the recorder takes the sample for a timestamp wrap and closes the file, and every track waits for the next keyframe", none)
          -- (P22 was repaired in ce4d658: looked for last, when no known cause explains the loss)
          else if !recPad.isEmpty then
            (defer o s!"C20: [P22] frame {f.fid} of track {trk} ({cn}) is missing from the recording although every packet reached the recorder or was recovered from the cache: its packet(s) {recPad.map (·.seq)} carry RTP padding and were recovered from the cache; fetch unmarshals the whole 1504-byte buffer, whose last byte is 0, so the packet is rejected (invalid padding length)", none)
          else if kfRecovered && cn = "video/h264" then
            (defer o s!"C20: [P22] frame {f.fid} of track {trk} ({cn}) is missing from the recording although every packet was delivered or recovered: the first packet (STAP-A with the SPS) of its keyframe {(kfStart.map (·.fid)).getD 0} was recovered from the cache and, unmarshalled from the whole 1504-byte buffer, is no longer recognised as a keyframe start", none)
          -- (`old-sample-taken-for-wrap` was repaired — the late/wrap threshold is 2^30 ticks now —: looked for
          -- last, to name a regression; never a known finding)
          else if wrapClosed.isSome then
            let (t', ts', a, e) := wrapClosed.getD (0, 0, 0, 0)
            (defer o s!"C20: [wrap-close] frame {f.fid} of track {trk} ({cn}) is missing from the recording although every packet reached the recorder: a sample of track {t'} (timestamp {ts'}), returned by the sample builder in op {a} while a file was open, was captured {-e} ms before the keyframe the file begins with, by the sender reports: 2^16 ticks or more before the track's origin, and nothing has been written since; writeBuffered must drop a sample up to 2^30 ticks before the origin as late — the code before that repair took it for a timestamp that has gone round 2^31, closed the file, and every track waited for the next keyframe", none)
          else
            (o, some s!"C20: frame {f.fid} of track {trk} ({cn}, timestamp {f.ts}, {f.n} packets) is missing from the recording although it and every packet before it reached the recorder or was recovered from the cache (first frame owed: {s})"))
    (o, none)

structure FileB where
  trk : Nat
  tc : Int
  kf : Bool
  len : Nat
  h1 : Nat
  h2 : Nat

structure FileP where
  ext : String
  doctype : String
  scale : Nat
  tracks : List (List String) := []
  blocks : List FileB := []
  bad : Option String := none

def parseFiles (toks : List String) : List FileP :=
  let fs := toks.foldl (fun (acc : List FileP) tok =>
    let f := fields tok
    match f with
    | "F" :: ext :: rest =>
      match rest with
      | [dt, sc] => { ext, doctype := dt, scale := (nat? sc).getD 0 } :: acc
      | _ => { ext, doctype := "", scale := 0, bad := some (":".intercalate rest) } :: acc
    | "T" :: rest =>
      match acc with
      | cur :: more => { cur with tracks := cur.tracks ++ [rest] } :: more
      | [] => acc
    | "B" :: t :: tc :: kf :: len :: h1 :: h2 :: rest =>
      match acc with
      | cur :: more =>
        let cur := if rest.isEmpty then cur else { cur with bad := some "block with lacing / invisible flag" }
        { cur with blocks := { trk := (nat? t).getD 99, tc := (int? tc).getD 0, kf := kf = "1", len := (nat? len).getD 0,
                               h1 := (nat? h1).getD 0, h2 := (nat? h2).getD 0 } :: cur.blocks } :: more
      | [] => acc
    | "X" :: _ =>
      match acc with
      | cur :: more => { cur with bad := some "BlockGroup in a file written with SimpleBlocks" } :: more
      | [] => acc
    | _ => acc) []
  (fs.map fun f => { f with blocks := f.blocks.reverse }).reverse

def insertSorted (lt : α → α → Bool) (x : α) : List α → List α
  | [] => [x]
  | y :: ys => if lt x y then x :: y :: ys else y :: insertSorted lt x ys

def sortBy (lt : α → α → Bool) (xs : List α) : List α := xs.foldl (fun acc x => insertSorted lt x acc) []

def keyLt (a b : Nat × Int × Nat × Nat × Nat) : Bool :=
  a.1 < b.1 || (a.1 = b.1 && (a.2.1 < b.2.1 || (a.2.1 = b.2.1 && (a.2.2.1 < b.2.2.1 || (a.2.2.1 = b.2.2.1 &&
    (a.2.2.2.1 < b.2.2.2.1 || (a.2.2.2.1 = b.2.2.2.1 && a.2.2.2.2 < b.2.2.2.2)))))))

def expectTrack (o : Orc) (i : Nat) (w h : Nat) : List String :=
  let cn := codecName o i
  let rate := o.rates.getD i 0
  if cn = "audio/opus" then [toString (i + 1), "2", "A_OPUS", "0x0", toString rate, "2"]
  else if cn = "video/vp8" then [toString (i + 1), "1", "V_VP8", s!"{w}x{h}", "0", "0"]
  else if cn = "video/vp9" then [toString (i + 1), "1", "V_VP9", s!"{w}x{h}", "0", "0"]
  else [toString (i + 1), "1", "V_MPEG4/ISO/AVC", s!"{w}x{h}", "0", "0"]

/-- well-formedness of the files and agreement with the blocks handed to the writer -/
def filesCheck (o : Orc) (toks : List String) : Option String :=
  let nf := (toks.find? (·.startsWith "files=")).map (fun t => (nat? (t.drop 6).toString).getD 0)
  let files := parseFiles toks
  if nf ≠ some o.nfiles || files.length ≠ o.nfiles then
    some s!"C20: {o.nfiles} files were opened by the recorder but {files.length} are in the recording directory"
  else
    (files.zipIdx).findSome? fun (f, i) =>
      match f.bad with
      | some b => some s!"C20: file {i} (.{f.ext}) is not a well-formed Matroska/WebM document: {b}"
      | none =>
        let h264 := o.codecs.any (fun c => Codecs.lower c = "video/h264")
        let wantDt := if h264 then "matroska" else "webm"
        let wantExt := if h264 then "mkv" else "webm"
        let (_, w, h) := o.fileSpecs.getD i ("", 0, 0)
        let wantTracks := (List.range o.codecs.length).map fun t => expectTrack o t w h
        if f.doctype ≠ wantDt || f.ext ≠ wantExt then some s!"C20: file {i}: DocType {f.doctype} / extension {f.ext}, expected {wantDt} / {wantExt}"
        else if f.scale ≠ 1000000 then some s!"C20: file {i}: TimecodeScale {f.scale}"
        else if f.tracks ≠ wantTracks then some s!"C20: file {i} does not declare the recorded tracks: {f.tracks} instead of {wantTracks}"
        else
          let ws := (o.blocks.filter (·.file = i)).reverse
          -- with timestamps that jump by more than 2^24 ticks the container library discards blocks
          -- that are too old for the current cluster: outside the property's streams
          if !(List.range o.codecs.length).all (regularTrk o) then none
          else if ws.length ≠ f.blocks.length then
            some s!"C20: file {i} contains {f.blocks.length} blocks but {ws.length} were handed to the container writer"
          else if ws.isEmpty then none
          else
            let minW : Int := ws.foldl (fun m b => min m (b.tm : Int)) ((ws.headD default).tm : Int)
            let minF : Int := f.blocks.foldl (fun m b => min m b.tc) ((f.blocks.headD { trk := 0, tc := 0, kf := false, len := 0, h1 := 0, h2 := 0 }).tc)
            let a := sortBy keyLt (ws.map fun b => (b.trk, (b.tm : Int) - minW, b.len, b.h1, b.h2 + (if b.kf then 1000000000 else 0)))
            let b := sortBy keyLt (f.blocks.map fun b => (b.trk, b.tc - minF, b.len, b.h1, b.h2 + (if b.kf then 1000000000 else 0)))
            if a ≠ b then some s!"C20: the blocks of file {i} (track, time, length, hashes, keyframe flag) differ from the blocks handed to the container writer"
            else none

/-! ### the step function -/

def parseSpec (s : String) : Option (Track × Nat) :=
  match s.splitOn ":" with
  | [mime, rate, _, cs] =>
    match nat? rate, nat? cs with
    | some r, some c => some ({ codec := mime, rate := r }, c)
    | _, _ => none
  | _ => none

def isLower (a b : String) : Bool := Codecs.lower a == b

def finish (st : St) (o : Orc) (model impl : String) (orc : Option String) : St × Verdict :=
  match orc with
  | some e => ({ st with orc := o }, .oracle e)
  | none => if model = impl then ({ st with orc := o }, .ok) else ({ st with orc := o }, .mismatch model)

def step (st : St) (op impl : List String) : St × Verdict :=
  match op with
  | "new" :: specs =>
    match specs.mapM parseSpec with
    | none => (st, .badop "new")
    | some ts =>
      if ts.isEmpty then (st, .badop "new: no tracks") else
      let tracks := ts.map (·.1)
      let conn : Conn := { tracks, hasVideo := tracks.any (fun t => isVideo t.codec) }
      let n := tracks.length
      let orc : Orc := { codecs := tracks.map (·.codec), rates := tracks.map (·.rate),
                         cacheSizes := ts.map (·.2), nsent := List.replicate n 0,
                         seq0 := List.replicate n none, maxLin := List.replicate n none, startLin := List.replicate n none, srSince := List.replicate n false,
                         ts0 := List.replicate n none, agg := List.replicate n none }
      ({ conn := some conn, caches := ts.map (fun x => Cache.new x.2), pkts := [], orc }, cmp s!"ok {n}" impl)
  | ["p", trk, fid, idx, n, kf, w, h, pk, pad, pre, off, hx] =>
    match nat? trk, nat? fid, nat? idx, nat? n, bool? kf, nat? w, nat? h, nat? pad, unhex pre, nat? off, unhex hx with
    | some trk, some fid, some idx, some n, some kf, some w, some h, some pad, some pre, some off, some bytes =>
      if st.conn.isNone then (st, cmp "norec" impl) else
      if trk ≥ st.caches.length then (st, cmp "notrack" impl) else
      if bytes.length < 12 || bytes.length > 1504 then (st, cmp "badlen" impl) else
      let seq := be16 bytes 2
      let ts := be32 bytes 4
      let marker := bytes.getD 1 0 ≥ 128
      let ring := (st.caches.getD trk (Cache.new 1))
      let ring := if ring.entries.length = 0 then ring else (Cache.store ring { seqno := seq, marker, ts, bytes }).1
      let contrib := pre ++ ((bytes.take (bytes.length - pad)).drop off)
      let sp : SentPkt := { trk, seq, fid, idx, n, kf, w, h, pk, pad, len := bytes.length, contrib, ts }
      ({ st with caches := st.caches.set trk ring, pkts := (trk, seq, bytes) :: st.pkts, orc := addPkt st.orc sp }, cmp "ok" impl)
    | _, _, _, _, _, _, _, _, _, _, _ => (st, .badop "p")
  | "w" :: trk :: arg :: [] | "wx" :: trk :: arg :: [] =>
    match st.conn, nat? trk with
    | none, _ => (st, cmp "norec" impl)
    | _, none => (st, .badop "w")
    | some c, some trk =>
      if trk ≥ c.tracks.length then (st, cmp "notrack" impl) else
      let raw := op.head? = some "wx"
      let buf? : Option Bytes :=
        if raw then unhex arg
        else match nat? arg with
          | some seq => (st.pkts.find? (fun p => p.1 = trk && p.2.1 = seq)).map (·.2.2)
          | none => none
      match buf? with
      | none => if raw then (st, .badop "wx") else (st, cmp "nopkt" impl)
      | some buf =>
        let evTok := (impl.find? (·.startsWith "ev=")).getD "ev=-"
        let fcTok := (impl.find? (·.startsWith "fc=")).getD "fc=-"
        let evs := evList evTok "ev="
        let fcs := evList fcTok "fc="
        let r := writeOp c (st.caches.getD trk (Cache.new 1)) trk buf (parseEnv evs)
        let model := modelLine (some r.n) r.out r.conn r.rest
        -- oracle bookkeeping
        let o := st.orc
        let o := if raw then { o with synthetic := true } else o
        let o := if raw then o else match nat? arg with
          | some seq => noticeGap o trk seq
          | none => o
        let o := evs.foldl (fun (o : Orc) e =>
          if e.front = 'g' then
            match fields (e.drop 1).toString with
            | [s, n] => match nat? s, nat? n with
              | some s, some n =>
                if n > 0 then
                  let o := match o.sent.find? (fun p => p.trk = trk && p.seq = s) with
                    | some p => arrive o trk p.ts
                    | none => o
                  let o := { o with recovered := (trk, s) :: o.recovered }
                  -- (noticeGap has just counted it as reaching the recorder, in this op: the fetch itself is
                  -- not a second copy of the packet)
                  if o.reached.any (fun r => r.trk = trk && r.seq = s && r.op = o.opn && r.recovered) then o
                  else reach o trk s true
                else o
              | _, _ => o
            | _ => o
          else o) o
        let o := if raw then o else
          match nat? arg with
          | some seq =>
            let o := match o.sent.find? (fun p => p.trk = trk && p.seq = seq) with
              | some p => arrive o trk p.ts
              | none => o
            reach { o with delivered := (trk, seq) :: o.delivered } trk seq false
          | none => o
        let (o, e) := onEvents o evs fcs
        let jump : Int := match st.orc.maxLin.getD trk none, nat? arg with
          | some m, some sq => lin st.orc trk sq - m
          | _, _ => 0
        let e := match e with
          | some e => some e
          | none =>
            let h := impl.head?.getD ""
            if h.startsWith "panic:in:samplebuilder" then
              some s!"C20: [SB-panic] diskTrack.Write panicked inside the third-party sample builder ({h}) when a packet {jump} seqnos ahead of the newest one of track {trk} ({codecName o trk}) arrived; nothing recovers the panic: the server process exits"
            else if h.startsWith "panic" then some s!"C20: Write panicked: {h}" else none
        finish { st with conn := some r.conn } o model (implLine impl) e
  | ["at", _ms] =>
    match st.conn, impl with
    | none, _ => (st, cmp "norec" impl)
    | some _, ["ok", a, b] =>
      match nat? a, nat? b with
      | some entry, some exit =>
        let o := closeBracket st.orc entry
        let (o, e) := judgePairs o
        let o := { o with paced := true, atExit := exit }
        (match e with
         | some e => ({ st with orc := o }, .oracle e)
         | none => ({ st with orc := o }, .ok))
      | _, _ => (st, .badop "at: result")
    | some _, _ => (st, .badop "at: result")
  | ["sr", trk, ntp, rtp] =>
    match st.conn, nat? trk, nat? ntp, nat? rtp with
    | none, _, _, _ => (st, cmp "norec" impl)
    | some c, some trk, some ntp, some rtp =>
      if trk ≥ c.tracks.length then (st, cmp "notrack" impl) else
      let c' := setTimeOffset c trk ntp rtp (c.track trk).rate
      let o := st.orc
      let o := { o with opn := o.opn + 1 }
      -- (a report whose NTP time is 0 says nothing about capture times: rtptime has no such instant and the
      -- recorder takes it for "no report yet")
      let o := { o with srs := if ntp = 0 then o.srs else (trk, ntp, rtp) :: o.srs, srOps := (trk, o.opn) :: o.srOps,
                        srGood := if ntp = 0 then o.srGood else (trk, o.opn) :: o.srGood,
                        srSince := o.srSince.set trk true, alignFrom := o.nblocks }
      finish { st with conn := some c' } o (modelLine none [] c' []) (implLine impl) none
    | _, _, _, _ => (st, .badop "sr")
  | ["so", trk, ts, now] =>
    match st.conn, nat? trk, nat? ts, int? now with
    | none, _, _, _ => (st, cmp "norec" impl)
    | some c, some trk, some ts, some now =>
      if trk ≥ c.tracks.length then (st, cmp "notrack" impl) else
      match c.originLocal with
      | .real => (st, .badop "so after a wall-clock origin: not predictable")
      | ol =>
        let nowNs := baseNs + now
        let el : Int := match ol with | .virt o => nowNs - o | _ => 0
        let c' := setOrigin c trk ts (.virt nowNs) (.ns el) (c.track trk).rate
        finish { st with conn := some c' } { st.orc with synthetic := true } (modelLine none [] c' []) (implLine impl) none
    | _, _, _, _ => (st, .badop "so")
  | ["ao", trk, ts] =>
    match st.conn, nat? trk, nat? ts with
    | none, _, _ => (st, cmp "norec" impl)
    | some c, some trk, some ts =>
      if trk ≥ c.tracks.length then (st, cmp "notrack" impl) else
      let c' := adjustOrigin c trk ts
      finish { st with conn := some c' } { st.orc with synthetic := true } (modelLine none [] c' []) (implLine impl) none
    | _, _, _ => (st, .badop "ao")
  | ["close", _kind] =>
    match st.conn with
    | none => (st, cmp "norec" impl)
    | some c =>
      if (impl.head?.getD "").startsWith "panic:in:samplebuilder" then
        (st, .oracle s!"C20: [SB-panic] closing the recording panicked inside the third-party sample builder ({impl.head?.getD ""})")
      else if (impl.head?.getD "").startsWith "panic" then
        (st, .oracle s!"C20: closing the recording panicked: {impl.head?.getD ""}")
      else
      let evTok := (impl.find? (·.startsWith "ev=")).getD "ev=-"
      let fcTok := (impl.find? (·.startsWith "fc=")).getD "fc=-"
      let evs := evList evTok "ev="
      let fcs := evList fcTok "fc="
      let (c', rest, out) := closeOp c (parseEnv evs)
      let model := modelLine none out c' rest ++ s!" open={(c'.tracks.filter (·.writer)).length} locals=0"
      let implHead := implLine (impl.take 5)
      let (o, e) := onEvents st.orc evs fcs
      let (o, e) : Orc × Option String :=
        match e with
        | some e => (o, some e)
        | none =>
          if impl.getD 3 "" ≠ "open=0" && impl.getD 4 "" = "locals=0" && fcs.any (·.front = 'I') && o.codecs.length = 2 then
            (o, some s!"C20: [close-init] closing the recording left a writer open ({impl.getD 3 ""}) and the file unfinished: the flush inside conn.close() popped a keyframe, initWriter created a file and installed writers on every track, and the writer of the track that close() had already dealt with is never closed")
          else if impl.getD 3 "" ≠ "open=0" || impl.getD 4 "" ≠ "locals=0" then
            (o, some s!"C20: closing the recording left writers open or the recorder attached ({impl.getD 3 ""} {impl.getD 4 ""})")
          else if o.synthetic then (o, none)
          else match filesCheck o impl with
            | some e => (o, some e)
            | none =>
              match judgePairs o with
              | (o, some e) => (o, some e)
              | (o, none) =>
              match missingCheck o with
              | (o, some e) => (o, some e)
              | (o, none) => (o, o.deferred)
      finish { st with conn := none } o model implHead e
  | _ => (st, .badop "unknown op")

def engine : EngineDef := { σ := St, init := {}, step := step }

end Galene.Engine.Rec
