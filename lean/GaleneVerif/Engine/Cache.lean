import GaleneVerif.Model.Cache
import GaleneVerif.Model.LossStats
import GaleneVerif.Engine.Common
/-
Engine `cache`: packetcache.Cache public API (C05, C06).
Ops (impl result after `=>`):
  new cap
  store seq ts kf mk len seed      => first idx
  get seq                          => n hash
  getat seq idx                    => n hash
  resize cap                       =>
  resizecond cap                   => 0|1
  last                             => seq valid
  keyframe                         => seq valid
  bitmapget next                   => found first bitmap
  stats reset                      => received totalReceived expected totalExpected eseqno
  expect n                         =>
  tobitmap s1 s2 ...               => first bitmap remain...
  nackarg seq first rate           => -1 | next        (shimmed readLoop decision)
  stress cap readers ms            => ok | bad:<what a concurrent reader saw>
-/
namespace Galene.Engine.Cache
open Galene Galene.Engine

/-- Oracle state for C05/C06, built only from the ops and the implementation's
observed outputs (independent of the model). -/
structure Orc where
  /-- every packet ever stored: (seqno, len, hash) -/
  stored : List (Nat × Nat × Nat) := []
  /-- capacity window: the newest `window` packets must be retrievable -/
  window : Nat := 0
  cap : Nat := 0
  /-- received seqnos in the current bitmap epoch, newest first -/
  epoch : List Nat := []
  /-- seqnos already named by BitmapGet in this epoch -/
  nacked : List Nat := []
  prevESeqno : Nat := 0
  lastSeq : Option Nat := none
  jumpedBack : Bool := false

structure St where
  ring : Cache.Ring := Cache.new 0
  stats : Loss.Stats := {}
  orc : Orc := {}

def outGet (r : Option Cache.Slot) : String :=
  match r with
  | none => "0 0"
  | some e => if e.bytes.length = 0 then "0 0" else s!"{e.bytes.length} {hashBytes e.bytes}"

def bitmapSeqnos (first bm : Nat) : List Nat :=
  first :: ((List.range 16).filter (fun i => bm / 2 ^ i % 2 = 1)).map (fun i => Loss.add16 first (i + 1))

/-- within ±16384 of `a` modulo 2^16: older entries belong to another cycle of the
16-bit space and say nothing about the packet that carries the number now -/
def near (a s : Nat) : Bool := Loss.sub16 a s < 16384 || Loss.sub16 s a < 16384

def step (st : St) (op impl : List String) : St × Verdict :=
  match op with
  | ["new", cap] =>
    match nat? cap with
    | some c => ({ ring := Cache.new c, stats := {}, orc := { cap := c } }, .ok)
    | none => (st, .badop "new")
  | ["store", seq, ts, kf, mk, len, seed] =>
    match nat? seq, nat? ts, bool? kf, bool? mk, nat? len, nat? seed with
    | some seq, some ts, some kf, some mk, some len, some seed =>
      if len > 1504 || st.ring.entries.length = 0 then (st, .badop "store precondition") else
      let bytes := payload seed len
      let (ring', idx) := Cache.store st.ring { seqno := seq, marker := mk, ts := ts, bytes := bytes }
      let (stats', first) := st.stats.store seq kf
      let o := st.orc
      -- oracle bookkeeping
      let newEpoch := match o.lastSeq with
        | none => true
        | some _ => !st.stats.bitmap.valid || Loss.seqnoInvalid seq st.stats.bitmap.first
      let o' : Orc := { o with
        stored := (seq, len, hashBytes bytes) :: o.stored,
        window := min (o.window + 1) o.cap,
        epoch := if newEpoch then [seq] else seq :: o.epoch.filter (near seq),
        nacked := if newEpoch then [] else o.nacked.filter (near seq),
        lastSeq := some seq }
      ({ ring := ring', stats := stats', orc := o' }, cmp s!"{first} {idx}" impl)
    | _, _, _, _, _, _ => (st, .badop "store")
  | ["get", seq] =>
    match nat? seq with
    | some s =>
      let r := Cache.get st.ring s
      -- oracle: result must be a stored packet with that seqno, or nothing; and
      -- a packet in the live window must be found
      let v := cmp (outGet r) impl
      let ov : Verdict := match impl with
        | [n, h] =>
          match nat? n, nat? h with
          | some n, some h =>
            if n = 0 then
              if (st.orc.stored.take st.orc.window).any (fun p => p.1 = s && p.2.1 > 0) then
                .oracle s!"C05: packet {s} is among the newest {st.orc.window} stored but Get returned nothing"
              else .ok
            else if st.orc.stored.any (fun p => p.1 = s && p.2.1 = n && p.2.2 = h) then .ok
            else .oracle s!"C05: Get({s}) returned {n} bytes hash {h}, never stored under that seqno"
          | _, _ => .badop "get result"
        | _ => .badop "get result"
      (st, match ov with | .ok => v | o => o)
    | none => (st, .badop "get")
  | ["getat", seq, idx] =>
    match nat? seq, nat? idx with
    | some s, some i =>
      let r := Cache.getAt st.ring s i
      let v := cmp (outGet r) impl
      let ov : Verdict := match impl with
        | [n, h] =>
          match nat? n, nat? h with
          | some n, some h =>
            if n = 0 then .ok
            else if st.orc.stored.any (fun p => p.1 = s && p.2.1 = n && p.2.2 = h) then .ok
            else .oracle s!"C05: GetAt({s},{i}) returned {n} bytes hash {h}, never stored under that seqno"
          | _, _ => .badop "getat result"
        | _ => .badop "getat result"
      (st, match ov with | .ok => v | o => o)
    | _, _ => (st, .badop "getat")
  | ["resize", cap] =>
    match nat? cap with
    | some c =>
      if c = 0 || c > 65535 then (st, .badop "resize precondition") else
      ({ st with ring := Cache.resize st.ring c,
                 orc := { st.orc with cap := c, window := min st.orc.window c } }, .ok)
    | none => (st, .badop "resize")
  | ["resizecond", cap] =>
    match nat? cap with
    | some c =>
      if c = 0 || c > 65535 then (st, .badop "resizecond precondition") else
      let (r, b) := Cache.resizeCond st.ring c
      let o := if impl = ["1"] then { st.orc with cap := c, window := min st.orc.window c } else st.orc
      ({ st with ring := r, orc := o }, cmp (b2s b) impl)
    | none => (st, .badop "resizecond")
  | ["last"] =>
    (st, cmp (if st.stats.lastValid then s!"{st.stats.last} 1" else "0 0") impl)
  | ["keyframe"] =>
    (st, cmp (if st.stats.keyframeValid then s!"{st.stats.keyframe} 1" else "0 0") impl)
  | ["bitmapget", next] =>
    match nat? next with
    | some n =>
      let (bm', (found, first, bits)) := st.stats.bitmap.get n
      let v := cmp s!"{b2s found} {first} {bits}" impl
      -- oracle C06: every named seqno was not received in this epoch, lies before
      -- `next`, and was not named before
      let (o', ov) : Orc × Verdict := match impl with
        | ["1", f, b] =>
          match nat? f, nat? b with
          | some f, some b =>
            let named := bitmapSeqnos f b
            let bad := named.find? (fun s => st.orc.epoch.contains s)
            let dup := named.find? (fun s => st.orc.nacked.contains s)
            let late := named.find? (fun s => Loss.sub16 n s = 0 || Loss.sub16 n s ≥ 32768)
            let o' := { st.orc with nacked := named ++ st.orc.nacked }
            match bad, dup, late with
            | some s, _, _ => (o', .oracle s!"C06: BitmapGet({n}) names {s}, which was received")
            | _, some s, _ => (o', .oracle s!"C06: BitmapGet({n}) names {s} a second time")
            | _, _, some s => (o', .oracle s!"C06: BitmapGet({n}) names {s}, at or beyond next")
            | none, none, none => (o', .ok)
          | _, _ => (st.orc, .badop "bitmapget result")
        | _ => (st.orc, .ok)
      ({ st with stats := { st.stats with bitmap := bm' }, orc := o' }, match ov with | .ok => v | o => o)
    | none => (st, .badop "bitmapget")
  | ["stats", reset] =>
    match bool? reset with
    | some r =>
      let (s', o) := st.stats.getStats r
      let v := cmp s!"{o.received} {o.totalReceived} {o.expected} {o.totalExpected} {o.eseqno}" impl
      let ov : Verdict := match impl.map nat? with
        | [some rc, some trc, some ex, some tex, some _es] =>
          if rc > ex then .oracle s!"C06: received {rc} > expected {ex}"
          else if trc > tex then .oracle s!"C06: totalReceived {trc} > totalExpected {tex}"
          else .ok
        | _ => .badop "stats result"
      ({ st with stats := s' }, match ov with | .ok => v | o => o)
    | none => (st, .badop "stats")
  | ["expect", n] =>
    match int? n with
    | some n => ({ st with stats := st.stats.expect n }, .ok)
    | none => (st, .badop "expect")
  | "tobitmap" :: rest =>
    match rest.mapM nat? with
    | some xs =>
      match Loss.toBitmap xs with
      | none => (st, cmp "panic" impl)
      | some (f, bm, rem) =>
        let v := cmp (joinNats (f :: bm :: rem)) impl
        -- oracle: covered ∪ remain = input, remain is a proper suffix
        let ov : Verdict := match impl.mapM nat? with
          | some (f' :: bm' :: rem') =>
            let covered := bitmapSeqnos f' bm'
            let inputCovered := xs.take (xs.length - rem'.length)
            if xs.drop (xs.length - rem'.length) ≠ rem' || rem'.length ≥ xs.length then
              .oracle "C06: ToBitmap remain is not a proper suffix"
            else if inputCovered.all (covered.contains ·) && covered.all (inputCovered.contains ·) then .ok
            else .oracle "C06: ToBitmap bitmap does not cover exactly the consumed prefix"
          | _ => .badop "tobitmap result"
        (st, match ov with | .ok => v | o => o)
    | none => (st, .badop "tobitmap")
  | ["stress", _, _, _] =>
    -- concurrent readers: under the mutex every history is sequential, so every read is sound (C05_get_sound)
    (st, if impl = ["ok"] then .ok else .oracle s!"C05: concurrent reader observed {" ".intercalate impl}")
  | ["nackarg", seq, first, rate] =>
    match nat? seq, nat? first, nat? rate with
    | some s, some f, some r =>
      (st, cmp (match Loss.readLoopNackArg s f r with | none => "-1" | some n => toString n) impl)
    | _, _, _ => (st, .badop "nackarg")
  | _ => (st, .badop "unknown op")

def engine : EngineDef := { σ := St, init := {}, step := step }

end Galene.Engine.Cache
