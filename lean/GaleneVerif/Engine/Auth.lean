import GaleneVerif.Model.Auth
import GaleneVerif.Engine.Common
/-
Engine `auth`: password login and granted permissions (C08).

Ops (impl result after `=>`); <hex> is lowercase hex of the bytes, "-" for the empty string;
<esc> is the string itself if it matches [A-Za-z0-9_-]+, else '%' followed by plain hex:

  roles                                  => <esc role>=<esc perm>+<esc perm>... sorted by role
  desc <R><T><U> <entry>...              => ok | err          (err: the JSON does not decode)
        R allow-recording, T unrestricted-tokens, U emit "users":{} even when empty
        entry   = <kind>,<userhex>,<pwspec>,<permspec>
        kind    = u (key of "users") | w ("wildcard-user") | o | p | x (obsolete "op"/"presenter"/"other" lists)
        pwspec  = a (absent) | n (null) | b (a number) | s:<hex> (string form)
                | j:<type>:<hash>:<key>:<salt>:<iter>     (object form)
                    type, hash, salt: ~ (absent) | @ (null) | =<hex>
                    key:  ~ | @ | =<hex> | P<clearhex>.<keylen>.<mangle> | B<clearhex>.<cost>.<mangle>
                    iter: ~ | @ | <int>
                  P = hex of the real pbkdf2-sha256 key of <clear> under the entry's salt/iterations,
                      mangle 0 none, 1 upper case, 2 last digit dropped, 3 first digit replaced by 'g',
                      4 last key byte xor 1
                  B = a real bcrypt hash of <clear>, mangle 0 none, 1 cut to 40 chars, 2 '#' prefix,
                      3 version '3', 4 cost 99, 5 cost "0x", 6 last character changed
        permspec = a | n | b | r:<esc role name> | l:<esc>+<esc>...
  login <userhex|~> <pwhex>              => ok <esc perm>... | fail <kind> [leak ...]
  join <id> <userhex|~> <pwhex>          => <member?> ok <perm>... | <member?> fail <kind>
  leave <id>                             => <still member?> | nomember
  mod <id> <kind>                        => ok|err <perms before> / <perms after> | nomember   (err: unknown kind)
  makepassword <alg> <iter> <len> <saltlen> <cost> <pwhex> => ok <type> <hash|-> <keystrlen|-> <saltstrlen> <iter> self=<Match of the same password> | err | panic | fatal
  matchmade <pwhex>                      => 0 | 1 | err:<kind> | nomade
  match <pwspec> <pwhex>                 => 0 | 1 | err:<kind> | jsonerr
  valid <userhex>                        => 0 | 1
  ctc <ahex> <bhex>                      => 0 | 1

The P and B keys carry the cleartext because real hashes cannot be computed here: the model runs
with a stand-in `Hash` (`fakeHash`) in which a key "is" a fingerprint of (cleartext, salt,
iterations) resp. the 72-byte bcrypt key stream of the cleartext, while the Go side runs the real
pbkdf2/bcrypt.  Agreement of the two on every op is what ties `Hash`'s assumed behaviour
(C08_hash_roundtrip's hypotheses) to the real libraries on the generated inputs.
-/
namespace Galene.Engine.Auth
open Galene Galene.Engine Galene.Auth

/-! ### tokens -/

def hexPlain (bs : Bytes) : String :=
  String.ofList (bs.flatMap fun b => [hexDigit (b / 16 % 16), hexDigit (b % 16)])

def strBytes (s : String) : Bytes := s.toUTF8.toList.map (·.toNat)

def bytesStr? (b : Bytes) : Option String :=
  String.fromUTF8? (ByteArray.mk (b.map UInt8.ofNat).toArray)

def safeChar (c : Char) : Bool :=
  ('a' ≤ c && c ≤ 'z') || ('A' ≤ c && c ≤ 'Z') || ('0' ≤ c && c ≤ '9') || c = '_' || c = '-'

def esc (s : String) : String :=
  if !s.isEmpty && s.toList.all safeChar then s else "%" ++ hexPlain (strBytes s)

def unesc (s : String) : Option String :=
  if s.startsWith "%" then
    let h := (s.drop 1).toString
    if h.isEmpty then some "" else (unhex h).bind bytesStr?
  else some s

def permsS (l : List String) : String := " ".intercalate (l.map esc)

def withPerms (head : String) (l : List String) : String :=
  if l.isEmpty then head else head ++ " " ++ permsS l

/-- a `~ | @ | =<hex>` field: `none` = malformed, `some none` = absent or null -/
def fieldBytes (tok : String) : Option (Option Bytes) :=
  if tok = "~" || tok = "@" then some none
  else if tok.startsWith "=" then (unhex (tok.drop 1).toString).map some
  else none

def fieldStr (tok : String) : Option (Option String) :=
  match fieldBytes tok with
  | none => none
  | some none => some none
  | some (some b) => (bytesStr? b).map some

def fieldInt (tok : String) : Option (Option Int) :=
  if tok = "~" || tok = "@" then some none else (int? tok).map some

/-! ### the stand-in hash functions -/

def fp (xs : Bytes) : Nat :=
  xs.foldl (fun h b => (h * 1099511628211 + b + 1) % 18446744073709551557) 14695981039346656037

def stripZeros (b : Bytes) : Bytes := (b.reverse.dropWhile (· = 0)).reverse

/-- HMAC pads a key of at most one block (64 bytes for SHA-256) with zero bytes, so trailing NUL
bytes of a password do not matter; longer keys are hashed first (kept apart here by the tag) -/
def hmacKey (pw : Bytes) : Bytes := if pw.length ≤ 64 then 0 :: stripZeros pw else 1 :: pw

/-- stand-in for pbkdf2-sha256: a 64-bit fingerprint of (HMAC key of pw, salt, max iter 1)
stretched to `len` bytes (injective in the fingerprint as soon as `len ≥ 8`).  A fingerprint
collision on generated inputs would show up as a MISMATCH, never pass silently. -/
def fakePbkdf2 (pw salt : Bytes) (iter : Int) (len : Nat) : Bytes :=
  let it : Nat := if iter ≤ 1 then 1 else iter.toNat
  let k := hmacKey pw
  let h := fp (k.length :: k ++ salt.length :: salt ++ [it])
  (List.range len).map fun i => (h / 256 ^ (i % 8) + (i / 8) * 131) % 256

def tagOk : Bytes := [98, 99, 36]      -- "bc$": a well-formed hash
def tagWrong : Bytes := [98, 119, 36]  -- "bw$": a well-formed hash of something else

/-- stand-in for bcrypt: the "hash" is the 72-byte key stream itself -/
def fakeHash : Hash where
  pbkdf2 := fakePbkdf2
  bcryptCompare := fun key pw =>
    if key.take 3 = tagOk then .ok (decide (key.drop 3 = bcryptStream pw))
    else if key.take 3 = tagWrong then .ok false
    else .error ()
  bcryptGenerate := fun pw cost _ =>
    if pw.length > 72 then .error ()
    else
      let c := if cost < 4 then 10 else cost
      if c > 31 then .error () else .ok (tagOk ++ bcryptStream pw)

def upperHex (b : Bytes) : Bytes := b.map fun c => if 97 ≤ c && c ≤ 102 then c - 32 else c

def flipLast : Bytes → Bytes
  | [] => []
  | [b] => [if b % 2 = 0 then b + 1 else b - 1]
  | b :: rest => b :: flipLast rest

/-! ### what the property demands of a stored password record (oracle side) -/

/-- for which cleartexts a record is supposed to open, according to the property text and the
ground truth carried by the op (never by running the model) -/
inductive Opens where
  /-- no password, empty type, malformed or unknown record: never -/
  | never (why : String)
  /-- `"password": null` -/
  | nullPw
  /-- type "wildcard": any password -/
  | always
  /-- exactly this cleartext -/
  | clear (c : Bytes)
  /-- pbkdf2 (HMAC): exactly this cleartext among passwords of at most 64 bytes that do not end in
  a NUL byte; HMAC itself does not distinguish `pw` from `pw ++ [0]`, and hashes longer keys first -/
  | pbkdf2Clear (c : Bytes)
  /-- bcrypt: exactly this cleartext among NUL-free passwords of at most 72 bytes; bcrypt itself
  does not distinguish other candidates with the same 72-byte key stream -/
  | bcryptClear (c : Bytes)
  /-- outside what the property (or the hash assumptions) promises, e.g. a pbkdf2 record whose
  key is empty -/
  | unspecified
  deriving Repr

def nulFree72 (b : Bytes) : Bool := b.length ≤ 72 && !b.contains 0

def hmacPlain (b : Bytes) : Bool := b.length ≤ 64 && b.getLast? ≠ some 0

def Opens.demand (o : Opens) (pw : Bytes) : Option Bool :=
  match o with
  | .pbkdf2Clear c =>
    if pw = c then some true
    else if hmacPlain pw && hmacPlain c then some false
    else none
  | .never _ => some false
  | .nullPw => some false
  | .always => some true
  | .clear c => some (decide (pw = c))
  | .bcryptClear c =>
    if pw = c then some true
    else if nulFree72 pw && nulFree72 c then some false
    else none
  | .unspecified => none

def Opens.why : Opens → String
  | .never w => w
  | .nullPw => "its password is JSON null, i.e. no password"
  | .always => "wildcard password"
  | .clear _ => "the password is not the stored one"
  | .pbkdf2Clear _ => "the password is not the hashed one"
  | .bcryptClear _ => "the password is not the hashed one"
  | .unspecified => "unspecified"

def isHexStr (b : Bytes) : Bool :=
  b.length % 2 = 0 && b.all fun c => (48 ≤ c && c ≤ 57) || (97 ≤ c && c ≤ 102) || (65 ≤ c && c ≤ 70)

/-! ### parsing password and permission specs

Each parser returns the JSON-level value handed to the model and, separately, the oracle's
ground truth. -/

structure PwSpec where
  json : JPassword
  opens : Opens

def splitDots (s : String) : List String := s.splitOn "."

/-- the key field: model bytes (under `fakeHash`) and the oracle's view -/
def parseKey (tok : String) (type : Option String) (hash : Option String) (salt : Option Bytes) (iter : Option Int) :
    Option (Option Bytes × Opens) :=
  let saltStr := salt.getD []
  let ty := type.getD ""
  if tok.startsWith "P" then
    match splitDots (tok.drop 1).toString with
    | [ch, kl, mg] =>
      match unhex ch, nat? kl, nat? mg with
      | some clear, some keylen, some mangle =>
        let saltBytes := (hexDecode saltStr).getD []
        let key := fakePbkdf2 clear saltBytes (iter.getD 0) keylen
        let key := if mangle = 4 then flipLast key else key
        let hs := hexEncode key
        let hs := if mangle = 1 then upperHex hs
          else if mangle = 2 then hs.dropLast
          else if mangle = 3 then (match hs with | [] => [] | _ :: r => 103 :: r)
          else hs
        let opens : Opens :=
          if ty ≠ "pbkdf2" then .unspecified
          else if hash.getD "" ≠ "sha-256" then .never "the record names an unknown hash"
          else if !isHexStr saltStr then .never "the record's salt is not hexadecimal"
          else if keylen = 0 then .unspecified
          else if mangle = 2 || mangle = 3 then .never "the record's key is not hexadecimal"
          else if mangle = 4 then .never "the record's key is not the hash of that password"
          else .pbkdf2Clear clear
        some (some hs, opens)
      | _, _, _ => none
    | _ => none
  else if tok.startsWith "B" then
    match splitDots (tok.drop 1).toString with
    | [ch, _, mg] =>
      match unhex ch, nat? mg with
      | some clear, some mangle =>
        let key := if mangle = 0 then tagOk ++ bcryptStream clear
          else if mangle = 6 then tagWrong ++ bcryptStream clear
          else [98, 120, 36]
        let opens : Opens :=
          if ty ≠ "bcrypt" then .unspecified
          else if mangle = 0 then .bcryptClear clear
          else .never "the record's bcrypt hash is damaged"
        some (some key, opens)
      | _, _ => none
    | _ => none
  else
    match fieldBytes tok with
    | none => none
    | some none =>
      some (none, if ty = "" then .never "the record has no password type"
        else if ty = "wildcard" then .always
        else if ty = "plain" || ty = "pbkdf2" || ty = "bcrypt" then .never "the record has no key"
        else .never "unknown password type")
    | some (some k) =>
      some (some k,
        if ty = "" then .never "the record has no password type"
        else if ty = "wildcard" then .always
        else if ty = "plain" then .clear k
        else if ty = "pbkdf2" then
          (if !isHexStr k then .never "the record's key is not hexadecimal"
           else if hash.getD "" ≠ "sha-256" then .never "the record names an unknown hash"
           else if !isHexStr saltStr then .never "the record's salt is not hexadecimal"
           else .unspecified)
        else if ty = "bcrypt" then .never "the record's key is not a bcrypt hash"
        else .never "unknown password type")

def parsePw (spec : String) : Option PwSpec :=
  if spec = "a" then some ⟨.absent, .never "the entry has no password"⟩
  else if spec = "n" then some ⟨.null, .nullPw⟩
  else if spec = "b" then some ⟨.bad, .unspecified⟩
  else if spec.startsWith "s:" then
    (unhex (spec.drop 2).toString).map fun b => ⟨.str b, .clear b⟩
  else if spec.startsWith "j:" then
    match (spec.drop 2).toString.splitOn ":" with
    | [t, h, k, s, i] =>
      match fieldStr t, fieldStr h, fieldBytes s, fieldInt i with
      | some t, some h, some s, some i =>
        match parseKey k t h s i with
        | some (key, opens) => some ⟨.obj t h key s i, opens⟩
        | none => none
      | _, _, _, _ => none
    | _ => none
  else none

/-- the role table as the property (and galene's documentation) states it; deliberately a second
copy, not `defaultRoles` -/
def specRole (name : String) : Option (List String) :=
  if name = "op" then some ["op", "present", "message", "caption", "token"]
  else if name = "present" then some ["present", "message"]
  else if name = "message" then some ["message"]
  else if name = "observe" then some []
  else if name = "caption" then some ["caption"]
  else if name = "admin" then some ["admin"]
  else none

/-- what the matched entry is configured with: a role name or a raw permission array -/
inductive Grant where
  | role (name : String)
  | raw (l : List String)
  deriving Repr

/-- "exactly those of the matched entry's role, plus 'record' only for operators of groups that
allow recording and 'token' only for operators or, in unrestricted-token groups, presenters" -/
def Grant.expected (g : Grant) (allowRecording unrestrictedTokens : Bool) : List String :=
  match g with
  | .raw l => l
  | .role name =>
    let base := (specRole name).getD []
    let isOp := name = "op"
    let isPresenter := name = "op" || name = "present"
    let base := if isOp && allowRecording && !base.contains "record" then "record" :: base else base
    let base := if (isOp || (isPresenter && unrestrictedTokens)) && !base.contains "token" then "token" :: base else base
    base

structure PermSpec where
  json : JPermissions
  grant : Grant

def parsePerm (spec : String) : Option PermSpec :=
  if spec = "a" then some ⟨.absent, .raw []⟩
  else if spec = "n" then some ⟨.null, .raw []⟩
  else if spec = "b" then some ⟨.bad, .raw []⟩
  else if spec = "-" then some ⟨.absent, .raw []⟩
  else if spec.startsWith "r:" then
    (unesc (spec.drop 2).toString).map fun s => ⟨.name s, .role s⟩
  else if spec.startsWith "l:" then
    let body := (spec.drop 2).toString
    if body.isEmpty then some ⟨.arr [], .raw []⟩
    else
      let parts := (body.splitOn "+").map unesc
      if parts.all Option.isSome then
        let l := parts.filterMap id
        some ⟨.arr l, .raw l⟩
      else none
  else none

/-- an entry of the description as the oracle sees it -/
structure OEntry where
  kind : String
  user : Bytes
  opens : Opens
  grant : Grant
  deriving Repr

structure Entry where
  kind : String
  user : Bytes
  pw : PwSpec
  perm : PermSpec

def parseEntry (tok : String) : Option Entry :=
  match tok.splitOn "," with
  | [k, u, p, m] =>
    match unhex u, parsePw p, parsePerm m with
    | some u, some p, some m =>
      if k = "u" || k = "w" || k = "o" || k = "p" || k = "x" then some ⟨k, u, p, m⟩ else none
    | _, _, _ => none
  | _ => none

def buildJDesc (flags : String) (es : List Entry) : JDescription :=
  let fl := flags.toList
  let pat (k : String) : List JPattern :=
    (es.filter (·.kind = k)).map fun e => { username := e.user, password := e.pw.json }
  { allowRecording := fl.getD 0 '0' = '1',
    unrestrictedTokens := fl.getD 1 '0' = '1',
    users := (es.filter (·.kind = "u")).map fun e => (e.user, { password := e.pw.json, permissions := e.perm.json }),
    wildcardUser := ((es.filter (·.kind = "w")).head?).map fun e => { password := e.pw.json, permissions := e.perm.json },
    op := pat "o", presenter := pat "p", other := pat "x" }

def oEntry (e : Entry) : OEntry :=
  let legacy := e.kind = "o" || e.kind = "p" || e.kind = "x"
  { kind := e.kind, user := e.user,
    -- an obsolete-list entry without a password admits anybody (upgraded to the wildcard password)
    opens := if legacy then (match e.pw.json with | .absent => .always | .null => .always | _ => e.pw.opens) else e.pw.opens,
    grant := if e.kind = "o" then .role "op" else if e.kind = "p" then .role "present"
      else if e.kind = "x" then .role "message" else e.perm.grant }

/-! ### the oracle -/

structure Orc where
  entries : List OEntry := []
  allowRecording : Bool := false
  unrestrictedTokens : Bool := false
  /-- ids of the clients in the group, each with its permission list as last observed -/
  ids : List (String × List String) := []
  /-- the last successful makepassword: algorithm, key length, password -/
  made : Option (String × Int × Bytes) := none

/-- the named entry that governs `u`: the `users` key, else the first obsolete-list entry with
that (non-empty) name, lists taken in the order op, presenter, other -/
def Orc.entryFor (o : Orc) (u : Bytes) : Option OEntry :=
  let named (k : String) := o.entries.filter fun e => e.kind = k && e.user = u && (k = "u" || u ≠ [])
  (named "u" ++ named "o" ++ named "p" ++ named "x").head?

def Orc.wildcard (o : Orc) : Option OEntry :=
  let anon (k : String) := o.entries.filter fun e => e.kind = k && e.user = []
  (o.entries.filter (·.kind = "w") ++ anon "o" ++ anon "p" ++ anon "x").head?

/-- the '/'-separated components of a name (the oracle's own splitter) -/
def components (u : Bytes) : List Bytes :=
  let (done, cur) := u.foldl (fun (acc : List Bytes × Bytes) b =>
    if b = 47 then (acc.1 ++ [acc.2], []) else (acc.1, acc.2 ++ [b])) ([], [])
  done ++ [cur]

/-- valid usernames, stated on the components of the name: the empty name, or no backslash and
every '/'-separated component non-empty and different from "." and ".." -/
def specValidUsername (u : Bytes) : Bool :=
  u = [] || (!u.contains 92 && (components u).all fun c => c ≠ [] && c ≠ [46] && c ≠ [46, 46])

def sortStrings (l : List String) : List String :=
  l.foldl (fun acc s =>
    let (lo, hi) := acc.partition (· ≤ s)
    lo ++ s :: hi) []

/-- the oracle for one login/join attempt.  `accepted` = what the implementation granted
(`none` = refused). -/
def Orc.judge (o : Orc) (user : Option Bytes) (pw : Bytes) (accepted : Option (List String)) (kind : String) :
    Option String :=
  match user with
  | none =>
    if accepted.isSome then some "C08: a login without a username was accepted" else none
  | some u =>
    let (governing, shadow) : Option OEntry × Bool :=
      match o.entryFor u with
      | some e => (some e, (o.wildcard).isSome)
      | none => (o.wildcard, false)
    let demand : Option Bool :=
      if !specValidUsername u then some false
      else match governing with
        | none => some false
        | some e => e.opens.demand pw
    match accepted with
    | some perms =>
      if !specValidUsername u then some "C08: login accepted for an invalid username"
      else match governing with
        | none => some "C08: login accepted although the user has no entry and there is no wildcard user"
        | some e =>
          if demand = some false then
            (match e.opens with
             | .nullPw => some "C08: an entry whose password is JSON null (no password) accepted a login: null is decoded as the plain password \"\""
             | _ =>
               some s!"C08: login accepted although {e.opens.why}{if shadow && (o.entryFor u).isSome then " (the entry must shadow the wildcard user)" else ""}")
          else
            let want := e.grant.expected o.allowRecording o.unrestrictedTokens
            if sortStrings perms = sortStrings want then none
            else
              let what := match e.grant with
                | .role n => s!"the matched entry's role: role {n}"
                | .raw _ => "the matched entry's raw permission list:"
              let extra := (perms.filter fun x => !want.contains x).eraseDups
              if extra.isEmpty then
                some s!"C08: the granted permissions are not exactly those of {what} with allow-recording={b2s o.allowRecording} unrestricted-tokens={b2s o.unrestrictedTokens} gives [{permsS want}] but [{permsS perms}] was granted"
              else
                some s!"C08: the granted permissions exceed those of {what} with allow-recording={b2s o.allowRecording} unrestricted-tokens={b2s o.unrestrictedTokens} gives [{permsS want}] but [{permsS perms}] was granted ([{permsS extra}] in excess)"
    | none =>
      if demand = some true then some s!"C08: correct credentials refused ({kind})" else none

/-! ### engine state and step -/

structure St where
  desc : Option Description := none
  members : List Member := []
  made : Option Password := none
  orc : Orc := {}

def matchErrS : MatchErr → String
  | .missingKey => "missingkey"
  | .badHex => "hex"
  | .unknownHash => "unknownhash"
  | .unknownType => "unknowntype"
  | .bcrypt => "bcrypt"

def loginErrS : LoginErr → String
  | .pw e => matchErrS e
  | .badPassword => "badpassword"
  | .noSuchUser => "nosuchuser"
  | .invalidUsername => "invalidusername"
  | .neither => "neither"

def joinErrS : JoinErr → String
  | .login e => loginErrS e
  | .emptyId => "emptyid"
  | .duplicateId => "dupid"

def matchResS : Except MatchErr Bool → String
  | .ok b => b2s b
  | .error e => "err:" ++ matchErrS e

def userTok (tok : String) : Option (Option Bytes) :=
  if tok = "~" then some none else (unhex tok).map some

def rolesS (t : RoleTable) : String :=
  let names := sortStrings (t.map (·.1))
  " ".intercalate (names.map fun n => esc n ++ "=" ++ "+".intercalate (((t.lookup n).getD []).map esc))

def unescPerms (toks : List String) : Option (List String) :=
  let l := toks.map unesc
  if l.all Option.isSome then some (l.filterMap id) else none

/-- The order of a permission list is not part of any claim (and in-place edits of shared slices
permute it), so results that carry permission lists are compared as multisets: every run of
tokens between the fixed head and a "/" separator is sorted on both sides. -/
def splitTok (sep : String) : List String → List (List String)
  | [] => [[]]
  | t :: rest =>
    if t = sep then [] :: splitTok sep rest
    else match splitTok sep rest with
      | [] => [[t]]
      | x :: xs => (t :: x) :: xs

def sortRuns (toks : List String) : List (List String) := (splitTok "/" toks).map sortStrings

def cmpPerms (headLen : Nat) (model : String) (impl : List String) : Verdict :=
  let m := (model.splitOn " ").filter (· ≠ "")
  if m.take headLen = impl.take headLen && sortRuns (m.drop headLen) = sortRuns (impl.drop headLen) then .ok
  else .mismatch model

/-- first verdict that is not `.ok`, oracle first -/
def verdict (orc : Option String) (v : Verdict) : Verdict :=
  match orc with
  | some m => .oracle m
  | none => v

def step (st : St) (op impl : List String) : St × Verdict :=
  match op with
  | ["roles"] => (st, cmp (rolesS defaultRoles) impl)
  | "desc" :: flags :: ents =>
    let parsed := ents.map parseEntry
    if flags.length ≠ 3 || !parsed.all Option.isSome then (st, .badop "desc") else
    let es := parsed.filterMap id
    let r := readDescription defaultRoles (buildJDesc flags es)
    let fl := flags.toList
    let orc : Orc :=
      if impl = ["ok"] then
        { entries := es.map oEntry, allowRecording := fl.getD 0 '0' = '1',
          unrestrictedTokens := fl.getD 1 '0' = '1' }
      else {}
    let st' : St := { desc := r.toOption, members := [], made := st.made, orc := { orc with made := st.orc.made } }
    (st', cmp (match r with | .ok _ => "ok" | .error _ => "err") impl)
  | ["login", u, p] =>
    match userTok u, unhex p with
    | some user, some pw =>
      match st.desc with
      | none => (st, cmp "nodesc" impl)
      | some d =>
        let m := match getPermission fakeHash defaultRoles d user pw with
          | .ok (_, perms) => withPerms "ok" perms
          | .error e => "fail " ++ loginErrS e
        let orc : Option String :=
          match impl with
          | "ok" :: ps =>
            (match unescPerms ps with
             | some perms => st.orc.judge user pw (some perms) ""
             | none => some "bad impl result")
          | ["fail", k] => st.orc.judge user pw none k
          | "fail" :: _ :: "leak" :: _ => some "C08: a refused login returned a username or permissions"
          | _ => none
        (st, verdict orc (cmpPerms 1 m impl))
    | _, _ => (st, .badop "login")
  | ["join", id, u, p] =>
    match userTok u, unhex p with
    | some user, some pw =>
      match st.desc with
      | none => (st, cmp "nodesc" impl)
      | some d =>
        let r := addClient fakeHash defaultRoles d st.members id user pw
        let (members', m) := match r with
          | (ms, .ok perms) => (ms, withPerms "1 ok" perms)
          | (ms, .error e) => (ms, "0 fail " ++ joinErrS e)
        let dup := st.orc.ids.any (·.1 = id)
        let (orc, ids') : Option String × List (String × List String) :=
          match impl with
          | inn :: "ok" :: ps =>
            (match unescPerms ps with
             | some perms =>
               (match st.orc.judge user pw (some perms) "" with
                | some msg => some msg
                | none =>
                  if inn ≠ "1" then some "C08: the join was accepted but the client is not a member of the group"
                  else if dup then some "C08: a second client was admitted under an id already in the group"
                  else none, (id, perms) :: st.orc.ids)
             | none => (some "bad impl result", st.orc.ids))
          | [inn, "fail", k] =>
            (if inn ≠ "0" then some "C08: a refused join left the client inside the group"
             else if dup || id = "" then none
             else st.orc.judge user pw none k, st.orc.ids)
          | _ => (none, st.orc.ids)
        ({ st with members := members', orc := { st.orc with ids := ids' } }, verdict orc (cmpPerms 2 m impl))
    | _, _ => (st, .badop "join")
  | ["leave", id] =>
    if st.members.any (·.id = id) then
      ({ st with members := st.members.filter (·.id ≠ id), orc := { st.orc with ids := st.orc.ids.filter (·.1 ≠ id) } },
        cmp "0" impl)
    else (st, cmp "nomember" impl)
  | ["mod", id, kind] =>
    match st.members.find? (·.id = id) with
    | none => (st, cmp "nomember" impl)
    | some m =>
      let allowRec := match st.desc with | some d => d.allowRecording | none => false
      -- impl: ok|err <perms before> / <perms after>
      let (before, after) : List String × List String :=
        match splitTok "/" (impl.drop 1) with
        | [b, a] => (b, a)
        | [b] => (b, [])
        | _ => ([], [])
      let orc : Option String :=
        match unescPerms before, st.orc.ids.find? (·.1 = id) with
        | some b, some (_, seen) =>
          if sortStrings b = sortStrings seen then none
          else some s!"C08: the permissions of a member changed although no action was applied to it since they were granted or last changed: from [{permsS seen}] to [{permsS b}]"
        | _, _ => none
      let ids' := match unescPerms after with
        | some a => st.orc.ids.map fun x => if x.1 = id then (id, a) else x
        | none => st.orc.ids
      match changePermissions kind allowRec m.perms with
      | some perms' =>
        ({ st with members := st.members.map (fun x => if x.id = id then { x with perms := perms' } else x),
                   orc := { st.orc with ids := ids' } },
          verdict orc (cmpPerms 1 (s!"ok {permsS m.perms} / {permsS perms'}") impl))
      | none => ({ st with orc := { st.orc with ids := ids' } },
          verdict orc (cmpPerms 1 (s!"err {permsS m.perms} / {permsS m.perms}") impl))
  | ["makepassword", alg, iter, len, saltlen, cost, p] =>
    match unesc alg, int? iter, int? len, int? saltlen, int? cost, unhex p with
    | some alg, some iter, some len, some saltlen, some cost, some pw =>
      let salt := List.replicate saltlen.toNat 7
      let r := makePassword fakeHash pw alg iter len saltlen cost salt []
      let (made, m) : Option Password × String := match r with
        | .ok q =>
          (some q,
            s!"ok {esc q.type} {if q.hash = "" then "-" else esc q.hash} {match q.key with
              | some k => if q.type = "bcrypt" then "-" else toString k.length
              | none => "-"} {q.salt.length} {q.iterations} self={matchResS (q.matchPw fakeHash pw)}")
        | .err => (none, "err")
        | .panic => (none, "panic")
        | .fatal => (none, "fatal")
      let omade := if impl.head? = some "ok" then some (alg, len, pw) else none
      let orc : Option String :=
        if impl.head? = some "ok" && impl.getLast? ≠ some "self=1" then
          some s!"C08: a password made by makePassword ({alg}) does not verify for the password it was made from"
        else if impl.head? = some "ok" && (alg = "bcrypt" || alg = "") && pw.length > 72 then
          -- bcrypt reads 72 bytes of key: a hash made from a longer password verifies for every password that shares its
          -- first 72 bytes, i.e. for a different password; the tool must refuse (bcrypt.ErrPasswordTooLong)
          some s!"C08: makePassword produced a bcrypt hash for a password of {pw.length} bytes: bcrypt uses the first 72 only, so the hash verifies for different passwords (every password with the same first 72 bytes)"
        else none
      ({ st with made := made, orc := { st.orc with made := omade } }, verdict orc (cmp m impl))
    | _, _, _, _, _, _ => (st, .badop "makepassword")
  | ["matchmade", p] =>
    match unhex p with
    | some pw =>
      let m := match st.made with
        | none => "nomade"
        | some q => matchResS (q.matchPw fakeHash pw)
      -- "a password hashed by the administration tool with any supported algorithm and
      -- parameters verifies for that password and for no other"
      let orc : Option String :=
        match st.orc.made with
        | none => none
        | some (alg, len, pw0) =>
          let want : Option Bool :=
            if alg = "pbkdf2" then
              (if len < 8 then none else if pw = pw0 then some true
               else if hmacPlain pw && hmacPlain pw0 then some false else none)
            else if alg = "bcrypt" then
              (if pw = pw0 then some true else if nulFree72 pw && nulFree72 pw0 then some false else none)
            else none
          match want, impl with
          | some true, ["1"] => none
          | some false, ["0"] => none
          | some true, _ => some s!"C08: a password made by makePassword ({alg}) does not verify for the password it was made from"
          | some false, _ => some s!"C08: a password made by makePassword ({alg}) verifies for a different password"
          | none, _ => none
      (st, verdict orc (cmp m impl))
    | none => (st, .badop "matchmade")
  | ["match", spec, p] =>
    match parsePw spec, unhex p with
    | some s, some pw =>
      let m := match Password.ofJson s.json with
        | .error _ => "jsonerr"
        | .ok q => matchResS (q.matchPw fakeHash pw)
      let orc : Option String :=
        match s.opens, impl with
        | .nullPw, _ => none   -- a bare Password value; the null finding is reported on logins
        | o, ["1"] => if o.demand pw = some false then some s!"C08: Match accepted although {o.why}" else none
        | o, [r] => if o.demand pw = some true && r ≠ "jsonerr" then some s!"C08: Match refused the right password ({r})" else none
        | _, _ => none
      (st, verdict orc (cmp m impl))
    | _, _ => (st, .badop "match")
  | ["valid", u] =>
    match unhex u with
    | some u =>
      let orc := match impl with
        | [r] => if r ≠ b2s (specValidUsername u) then
            some s!"C08: validUsername={r} but the component rule says {b2s (specValidUsername u)}" else none
        | _ => none
      (st, verdict orc (cmp (b2s (validUsername u)) impl))
    | none => (st, .badop "valid")
  | ["ctc", a, b] =>
    match unhex a, unhex b with
    | some a, some b =>
      let orc := match impl with
        | [r] => if r ≠ b2s (decide (a = b)) then some "C08: ConstantTimeCompare is not equality" else none
        | _ => none
      (st, verdict orc (cmp (b2s (constantTimeCompare a b)) impl))
    | _, _ => (st, .badop "ctc")
  | _ => (st, .badop "unknown op")

def engine : EngineDef := { σ := St, init := {}, step := step }

end Galene.Engine.Auth
