import GaleneVerif.Engine.SigRender
import GaleneVerif.Engine.SigOracle
/-
Engine `sig`: real webClients driven through the rtpconn shim (C11, C12, C14, C15).
Ops and results: see harness/cmd/sig/main.go and Engine/SigRender.lean.
Every result is `<status> [w<i>=<msg>|<msg>…]… [q<i>=<act>|…]… [g.<name>=<state>]… [t=<tokens>] [r.<role>=<perms>]…`:
what was written to each client, what was queued for each client, and every
piece of shared state that changed, after the detached goroutines have settled.
-/
namespace Galene.Engine.Sig
open Galene Galene.Engine Galene.Sig

structure St where
  w : World := {}
  /-- last printed value of each state token -/
  last : List (String × String) := []
  orc : Orc := {}
  /-- connections whose writer the harness has killed (op `killwriter`): what the model writes to them is not observable -/
  deaf : List Nat := []
  deriving Inhabited

def lastGet (l : List (String × String)) (k : String) : Option String := (l.find? (·.1 = k)).map (·.2)
def lastSet (l : List (String × String)) (k v : String) : List (String × String) :=
  (k, v) :: l.filter (·.1 ≠ k)

def roleNames : List String := ["op", "present", "message", "observe", "caption", "admin"]

/-- the report that follows the status: mirrors `observe` in the harness -/
def observe (st : St) (w : World) (status : String) : St × String :=
  let n := w.clients.length
  let ws := (List.range n).filterMap fun i =>
    let it := w.log.filterMap fun x => match x with
      | .write j m => if j = i then some (msgStr m) else none
      | _ => none
    if it.isEmpty || st.deaf.contains i then none else some s!"w{i}={"|".intercalate it}"
  let qs := (List.range n).filterMap fun i =>
    let it := w.log.filterMap fun x => match x with
      | .enq j a r => if j = i then some (actStr w a r) else none
      | _ => none
    if it.isEmpty then none else some s!"q{i}={"|".intercalate it}"
  let names := sortStrings (w.groups.map (·.name))
  let (last, gs) := names.foldl (fun (acc : List (String × String) × List String) nm =>
    match w.group? nm with
    | none => acc
    | some g =>
      let s := groupStateStr w g
      let k := "g." ++ esc nm
      if lastGet acc.1 k = some s then acc else (lastSet acc.1 k s, acc.2 ++ [k ++ "=" ++ s])) (st.last, [])
  let ts := tokenStateStr w
  let (last, tks) :=
    if lastGet last "t" = some ts ∨ (lastGet last "t" = none ∧ ts = "-") then (last, [])
    else (lastSet last "t" ts, ["t=" ++ ts])
  let (last, rs) := roleNames.foldl (fun (acc : List (String × String) × List String) r =>
    match roleIdx r with
    | none => acc
    | some idx =>
      let s := permStr (w.heap.getD idx [])
      let k := "r." ++ r
      let prev := (lastGet acc.1 k).getD (permStr (((roleTable.find? (·.1 = r)).map (·.2)).getD []))
      if prev = s then acc else (lastSet acc.1 k s, acc.2 ++ [k ++ "=" ++ s])) (last, [])
  ({ st with w := { w with log := [] }, last := last }, " ".intercalate ([status] ++ ws ++ qs ++ gs ++ tks ++ rs))

/-- which clients' queue report ends with a `change` event: the schedule choice
for a detached broadcast that met a blocking mock -/
def choiceOf (impl : List String) : Nat → Bool :=
  let served := impl.filterMap fun t =>
    if t.startsWith "q" then
      match t.splitOn "=" with
      | k :: rest =>
        let body := "=".intercalate rest
        match (body.splitOn "|").getLast? with
        | some d => if d.startsWith "user:change:" then (dropS k 1).toNat? else none
        | none => none
      | _ => none
    else none
  fun i => served.contains i

def statusOfStep (w : World) (err : Option CloseErr) : String :=
  if w.crashed then panicStatus else match err with
    | some e => errStatus e
    | none => "ok"

/-- one `a i`: the status ("" when there is nothing to do) and the new world -/
def stepOne (w : World) (i : Nat) : World × String :=
  match w.client? i with
  | none => (w, "")
  | some c =>
    if !c.alive then (w, "") else
    match c.queue with
    | [] => (w, "")
    | _ :: _ =>
      let (w', err) := stepAction w i
      (w', statusOfStep w' err)

/-- the `q` op: for each client in slot order run its queue dry, repeat until
nothing is left; `fuel` bounds the number of actions.  Returns the world, the
number of actions handled, the connections that were closed (`i~status`), and
whether a handler crashed. -/
def quiesce (w : World) (fuel : Nat) : World × Nat × List String × Bool :=
  let n := w.clients.length
  let rec go (w : World) (fuel : Nat) (i : Nat) (cnt : Nat) (closed : List String) (progress : Bool) :
      World × Nat × List String × Bool :=
    match fuel with
    | 0 => (w, cnt, closed, false)
    | fuel + 1 =>
      if i ≥ n then
        if progress then go w fuel 0 cnt closed false else (w, cnt, closed, false)
      else
        let (w', s) := stepOne w i
        if s = "" then go w' fuel (i + 1) cnt closed progress
        else if w'.crashed then (w', cnt + 1, closed, true)
        else go w' fuel i (cnt + 1) (if s = "ok" then closed else closed ++ [s!"{i}~{s}"]) true
  go w fuel 0 0 [] false

def anyBlocking (w : World) : Bool := w.mocks.any (fun m => m.block || !m.parked.isEmpty)

def parseOptUser (s : String) : Option String := if s = "%" then none else some (unesc s)

def runModel (st : St) (op impl : List String) : Option (St × String) :=
  -- a recovered panic leaves the harness running: every op starts un-crashed
  let w := { st.w with crashed := false }
  match op with
  | "group" :: name :: kvs =>
    (parseGroup (unesc name) kvs).map fun cfg => ({ st with w := { w with cfgs := w.cfgs ++ [cfg] } }, "ok")
  | ["tok", name, g, user, perms, ex, nb] =>
    let pl : List String := if perms = "-" ∨ perms = "" ∨ perms = "[]" then [] else (perms.splitOn "+").map unesc
    let (h, s) := w.heap.alloc pl
    let t : Token := { id := unesc name, group := unesc g, user := parseOptUser user, perms := s,
                       expires := parseTimeClass ex, notBefore := parseTimeClass nb }
    some (observe st { w with heap := h, tokens := w.tokens ++ [t] } "ok")
  | ["hist", g, id, src, user, age, kind, val] =>
    match w.group? (unesc g), age.toNat?, parseVal val with
    | none, _, _ => some (st, "nogroup")
    | some _, some a, some v =>
      let e : History.Entry := { id := unesc id, source := if src = "-" then "" else unesc src, user := parseOptUser user, age := a,
                                 kind := if kind = "-" then "" else unesc kind, value := v }
      some (observe st (w.modGroup (unesc g) fun gr => { gr with history := History.add gr.history e }) "ok")
    | _, _, _ => none
  | ["client", i, id] =>
    i.toNat?.map fun i =>
      if i ≠ w.clients.length then (st, "badslot")
      else ({ st with w := { w with clients := w.clients ++ [{ id := if id = "-" then "" else unesc id }] } }, "ok")
  | "m" :: i :: kvs =>
    match i.toNat?, parseMsg kvs with
    | some i, some m =>
      match w.client? i with
      | none => some (st, "noclient")
      | some c =>
        if !c.alive then some (st, "dead")
        else if m.type = "offer" ∧ m.sdpOk ∧ (c.group.isSome ∨ c.up.any (·.1 = m.id)) then some (st, "skipped")
        else
          let w := { w with choice := choiceOf impl }
          let es := handle (w.conn i) (w.env i) m
          let w' := handleMsg w i m
          some (observe st w' (statusOfStep w' (failOf es)))
    | _, _ => none
  | ["a", i] =>
    i.toNat?.map fun i =>
      if i ≥ w.clients.length then (st, "noclient")
      else
        let (w', s) := stepOne { w with choice := choiceOf impl } i
        if s = "" then (st, "none") else observe st w' s
  | ["q"] =>
    if anyBlocking w then some (st, "parked")
    else
      let (w', n, closed, crashed) := quiesce w 100000
      if crashed then some (observe st w' panicStatus)
      else if closed.isEmpty then some (observe st w' s!"ok:{n}")
      else some (observe st w' s!"closed:{n}:{"+".intercalate closed}")
  | ["drop", i] =>
    i.toNat?.map fun i =>
      match w.client? i with
      | none => (st, "noclient")
      | some c => if !c.alive then (st, "dead") else observe st (finish w i .ws).flush "ok"
  | ["addup", i, id] =>
    i.toNat?.map fun i =>
      match w.client? i with
      | none => (st, "noclient")
      | some c =>
        if !c.alive then (st, "dead")
        else if c.group.isNone then (st, "nogroup")
        else if !c.up.isEmpty then (st, "busy")
        else ({ st with w := w.modClient i fun c => { c with up := [(unesc id, "")] } }, "ok")
  | ["mock", g, id] =>
    let gn := unesc g
    let id := unesc id
    if !w.mocks.isEmpty then some (st, "dup")
    else
      -- group.AddClient(name, mock, System)
      match addGroup w gn with
      | (w, .error _) => some (observe st w.flush "err")
      | (w, .ok ()) =>
        match w.group? gn with
        | none => some (observe st w.flush "err")
        | some gr =>
          if id = "" ∨ gr.members.any (fun r => w.refId r = id) then some (observe st w.flush "err")
          else
            let w : World := { w with mocks := w.mocks ++ [({ id := id, group := some gn } : Mock)] }
            let w : World := w.modGroup gn fun x => { x with members := x.members ++ [Ref.mock id] }
            let w : World := gr.members.foldl (fun w cc =>
              w.pushClientTo cc (.pushClient gn "add" id "MOCK" (.fixed ["system"]) [])) w
            some (observe st w.flush "ok")
  | ["unmock", id] =>
    match w.mocks.find? (·.id = unesc id) with
    | none => some (st, "nomock")
    | some m =>
      if !m.parked.isEmpty then some (st, "parked")
      else match m.group with
        | none => some (observe st w "ok")
        | some gn =>
          let w : World := delClient w (.mock m.id) gn
          let w : World := { w with mocks := w.mocks.map fun (x : Mock) => if x.id = m.id then { x with group := none } else x }
          some (observe st w.flush "ok")
  | ["block", id, b] =>
    match w.mocks.find? (·.id = unesc id) with
    | none => some (st, "nomock")
    | some m =>
      some ({ st with w := { w with mocks := w.mocks.map fun (x : Mock) => if x.id = m.id then { x with block := b = "1" } else x } }, "ok")
  | ["release", id, k] =>
    match w.mocks.find? (·.id = unesc id), k.toNat? with
    | none, _ => some (st, "nomock")
    | some m, some k =>
      match m.parked[k]? with
      | none => some (st, "none")
      | some p =>
        let w : World := { w with mocks := w.mocks.map fun (x : Mock) => if x.id = m.id then { x with parked := x.parked.eraseIdx k } else x }
        let w : World := p.pending.foldl (fun w j => w.enq j p.act) w
        some (observe st w "ok")
    | _, _ => none
  | ["killwriter", i] =>
    match i.toNat? with
    | some i => if (w.client? i).isSome then some ({ st with deaf := st.deaf ++ [i] }, "ok") else some (st, "noclient")
    | none => none
  | ["fault", b] => some ({ st with w := { w with storeFault := b = "1" } }, "ok")
  | ["probe"] => some (st, probeStr w)
  | ["fix", flags] =>
    -- not produced by the harness: lets a trace be replayed against a model with some repairs switched on
    let fs := flags.splitOn ","
    let fx : Fixes := { p10 := fs.contains "p10", p11 := fs.contains "p11", p12 := fs.contains "p12",
                        p18 := fs.contains "p18", p19 := fs.contains "p19", offerNil := fs.contains "offerNil",
                        tokClone := fs.contains "tokClone", removeAll := fs.contains "removeAll" }
    some ({ st with w := { w with fix := fx } }, "ok")
  | _ => none

def step (st : St) (op impl : List String) : St × Verdict :=
  -- the websocket reader (op `readerprobe`): every message is decoded on its own
  if op.head? = some "readerprobe" then
    match impl with
    | ["ok"] => (st, .ok)
    | [r] =>
      if r.startsWith "env:" then (st, .ok)
      else if r.startsWith "bad:" then
        (st, .oracle s!"C15: a message handed on by the connection's reader is not the message that was sent: fields that the sender omitted (dest, noecho, kind, id, username, …) carry the values of an earlier message of the connection, so a broadcast can be delivered to the earlier private recipient only and claimed identities leak between messages: {r}")
      else (st, .mismatch "ok")
    | _ => (st, .mismatch "ok")
  else if op.head? = some "slowmember" then
    match impl with
    | ["ok"] => (st, .ok)
    | [r] =>
      if r.startsWith "bad:" then
        (st, .oracle s!"C15: broadcast messages did not all reach a member whose outgoing queue was momentarily full (the sender must wait for room or for the member's writer to die, not drop): {r}")
      else (st, .mismatch "ok")
    | _ => (st, .mismatch "ok")
  else
  match runModel st op impl with
  | none => (st, .badop "unparseable op")
  | some (st', model) =>
    let implS := " ".intercalate impl
    let (orc', ov) := oracle st.orc op impl
    let st' := { st' with orc := orc' }
    match ov with
    | some msg => (st', .oracle msg)
    | none => if model = implS then (st', .ok) else (st', .mismatch model)

def engine : EngineDef := { σ := St, init := {}, step := step }

/-- the same engine with every proposed repair switched on in the model (to
check the repaired tree before `currentFixes` is flipped) -/
def engineFixed : EngineDef := { σ := St, init := { w := { fix := allFixes } }, step := step }

end Galene.Engine.Sig
