import GaleneVerif.Model.DownTrack
import GaleneVerif.Engine.Common
import GaleneVerif.Engine.Params
/-
Engine `down`: the real rtpDownTrack through the shim (C01, C02, C03, C04).
Ops:
  newdown <codec> <cachesize>
  feed <hex>        => <out> | <layer>      (cache.Store as the read loop does, then Write)
  write <hex>       => <out> | <layer>      (Write only)
  nack <n>          => <out> | <layer>      (gotNACK for one outgoing seqno)
  layer             => sid wsid msid tid wtid mtid lim
  setrate r / setmax v|-1 / setremb v|-1 =>
  adjust            => <layer>
  updaterate loss   => ceiling
  getmax            => rate sid tid
  setlimit 0|1      => ok | <layer>
  reqlimit <kinds|-> <nvideo> <naudio> => n limit idx...
  racestress <ms>   => ok | bad:<what>    (Write vs a concurrent adjustLayer)
<out> ::= err | none | sent seq mk ts payloadhex {; sent ...} [kfreq]
Oracles are evaluated on the implementation's outputs (and on the flags of the
input packet as the independent parser sees them).
-/
namespace Galene.Engine.Down
open Galene Galene.Engine Galene.Codecs Galene.Down

structure Orc where
  -- C01: unwrapping and withheld set
  U : Nat := 1048576
  started : Bool := false
  D : List Nat := []
  nD : Nat := 0
  lastArr : Option Nat := none          -- unwrapped number of the previous arrival
  -- C03: first transmission per outgoing number (bounded)
  sentLog : List (Nat × String × Nat) := []   -- (outgoing number, what was sent, spatial layer then)
  -- C02: picture-id tracking (VP8): (tracking, k = wholly withheld frames so far, current frame src pid,
  -- any packet of the current frame forwarded, any withheld)
  pidTrack : Bool := true
  pidK : Nat := 0
  curPid : Option Nat := none
  curFwd : Bool := false
  curHeld : Bool := false
  -- C04
  layer : Layer := {}
  seenSid : Nat := 0
  seenTid : Nat := 0
  limit : Bool := false
  limitKeySeen : Bool := false

structure St where
  codec : String := ""
  s : State := {}
  cache : Cache.Ring := Cache.new 0
  orc : Orc := {}

def C : Consts := downConsts
def P : PacketMap.Params := pmParams

def layerS (l : Layer) : String :=
  s!"{l.sid} {l.wantedSid} {l.maxSid} {l.tid} {l.wantedTid} {l.maxTid} {b2s l.limitSid}"

def be32 (d : Bytes) (i : Nat) : Nat :=
  d.getD i 0 * 16777216 + d.getD (i + 1) 0 * 65536 + d.getD (i + 2) 0 * 256 + d.getD (i + 3) 0

/-- what the capturing sink prints for bytes handed to pion's TrackLocalStaticRTP.Write -/
def sentS (d : Bytes) : Option String :=
  match rtpUnmarshal d with
  | .error _ => none
  | .ok pkt =>
    some s!"sent {d.getD 2 0 * 256 + d.getD 3 0} {b2s pkt.marker} {be32 d 4} {hex ((d.take pkt.payloadEnd).drop pkt.payloadStart)}"

def outS (r : WriteRes) : String :=
  let base := match r.out with
    | .err => "err"
    | .none => "none"
    | .sent d => match sentS d with | some s => s | none => "err"
  if r.panic then "panic" else if r.kfreq then base ++ " kfreq" else base

def parseLayer (t : List String) : Option Layer :=
  match t.mapM nat? with
  | some [a, b, c, d, e, f, g] =>
    some { sid := a, wantedSid := b, maxSid := c, tid := d, wantedTid := e, maxTid := f, limitSid := g = 1 }
  | _ => none

/-- split impl tokens at "|" -/
def splitBar (t : List String) : List String × List String :=
  (t.takeWhile (· ≠ "|"), (t.dropWhile (· ≠ "|")).drop 1)

structure Sent where
  seq : Nat
  marker : Bool
  ts : Nat
  payload : String
  deriving Repr

/-- parse `<out>`: (err?, list of sent, kfreq) -/
def parseOut (t : List String) : Bool × List Sent × Bool :=
  let kf := t.getLast? = some "kfreq"
  let t := if kf then t.dropLast else t
  if t = ["err"] then (true, [], kf)
  else
    let rec go (t : List String) (acc : List Sent) (fuel : Nat) : List Sent :=
      match fuel, t with
      | 0, _ => acc.reverse
      | fuel + 1, "sent" :: a :: b :: c :: d :: rest =>
        match nat? a, bool? b, nat? c with
        | some a, some b, some c => go (rest.drop 1) ({ seq := a, marker := b, ts := c, payload := d } :: acc) fuel
        | _, _, _ => acc.reverse
      | _, _ => acc.reverse
    (false, go t [] 64, kf)

def below (o : Orc) (u : Nat) : Nat := o.nD - (o.D.takeWhile (· ≥ u)).length
def expected (o : Orc) (u : Nat) : Nat := (u - below o u) % 65536
def W : Nat := pmParams.W

def lift (o : Orc) (s : Nat) : Nat × Bool :=
  let n16 := o.U % 65536
  if PacketMap.compare n16 s ≤ 0 then
    let d := PacketMap.sub16 s n16
    (o.U + d, d > W)
  else
    let d := PacketMap.sub16 n16 s
    (o.U - d, d > W)

def isVP8 (codec : String) : Bool := isCodec codec "video/vp8"

/-- VP8 picture id of an RTP packet as the independent parser sees it: (15-bit?, id) -/
def vp8PidOf (d : Bytes) : Option (Bool × Nat) :=
  match rtpUnmarshal d with
  | .error _ => none
  | .ok pkt =>
    match vp8Unmarshal ((d.take pkt.payloadEnd).drop pkt.payloadStart) with
    | .error _ => none
    | .ok v => if v.i then some (v.m, v.pictureID) else none

def vp8PidOfPayload (p : Bytes) : Option (Bool × Nat) :=
  match vp8Unmarshal p with
  | .error _ => none
  | .ok v => if v.i then some (v.m, v.pictureID) else none

/-- payload with the picture-id bytes blanked (for "payload unchanged except pid") -/
def blankPid (p : Bytes) : Bytes :=
  match vp8Unmarshal p with
  | .error _ => p
  | .ok v => if !v.i then p else if v.m then (p.set 2 0).set 3 0 else p.set 2 0

/-- the feed oracle: C01 (numbers), C02 (timestamp/payload/pid), C04 (layers) -/
def feedOracle (codec : String) (o : Orc) (inp : Bytes) (flags : Flags) (err : Bool) (sent : List Sent)
    (lay' : Layer) : Orc × Option String :=
  let s := flags.seqno
  let (u, resync0) := lift o s
  let resync := resync0 && o.started
  -- the first packet of a stream defines the origin
  let o := if !o.started then { o with U := (if u + 32768 < o.U then u + 65536 else u), started := true } else o
  let (u, _) := if resync then (u, true) else lift o s
  let inOrderArrival := match o.lastArr with | some a => u = a + 1 | none => false
  let lay := o.layer
  -- C04 checks ------------------------------------------------------------
  let seenSid := max o.seenSid flags.sid
  let seenTid := max o.seenTid flags.tid
  let c04 : Option String :=
    if lay'.sid > lay'.maxSid || lay'.tid > lay'.maxTid || lay'.wantedSid > lay'.maxSid || lay'.wantedTid > lay'.maxTid then
      some s!"C04: layer selection exceeds the highest layer seen: {layerS lay'}"
    else if lay'.maxSid > seenSid || lay'.maxTid > seenTid then
      some s!"C04: recorded maximum layer {layerS lay'} exceeds what the stream contained (sid {seenSid}, tid {seenTid})"
    else if lay'.limitSid && lay'.wantedSid ≠ 0 then some "C04: limitSid set but wanted spatial layer is not 0"
    else if lay'.sid ≠ lay.sid &&
        !((flags.start && flags.keyframe) ||
          (lay.sid = lay.maxSid && flags.sid > lay.maxSid && !lay.limitSid && lay'.sid = flags.sid)) then
      some s!"C04: spatial layer switched {lay.sid}->{lay'.sid} at a packet that is not the start of a keyframe"
    else if lay'.tid < lay.tid && !flags.start then
      some s!"C04: temporal layer fell {lay.tid}->{lay'.tid} in the middle of a frame"
    else if lay'.tid > lay.tid &&
        !((flags.start && flags.keyframe) ||
          (flags.start && flags.tidUpSync && flags.tid ≤ lay'.wantedTid && lay'.tid = flags.tid) ||
          -- at the top layer, a new top layer is followed at once; the same packet may then, if it
          -- starts a frame, fall to the wanted layer chosen by the rate check
          (lay.tid = lay.maxTid && flags.tid > lay.maxTid &&
            (lay'.tid = flags.tid || (flags.start && lay'.tid < flags.tid)))) then
      some s!"C04: temporal layer rose {lay.tid}->{lay'.tid} at a packet that is not an up-switch point"
    else if inOrderArrival && !err && !sent.isEmpty && wantDrop flags lay' then
      some s!"C04: in-order packet {s} (tid {flags.tid}, sid {flags.sid}) is above the selected layer ({lay'.sid},{lay'.tid}) but was forwarded"
    else if o.limit && o.limitKeySeen && lay'.sid ≠ 0 then
      some "C04: low-quality receiver is not on spatial layer 0 after a keyframe"
    else none
  let limitKeySeen := o.limitKeySeen || (o.limit && flags.start && flags.keyframe)
  -- C01 / C02 -------------------------------------------------------------
  let o1 : Orc := { o with layer := lay', seenSid, seenTid, limitKeySeen, lastArr := some u }
  if resync then
    -- (the map restarts: so does the count of withheld frames; picture ids are judged afresh from here, not given up)
    ({ o1 with U := u + 1, D := [], nD := 0, sentLog := [], pidTrack := true, pidK := 0, curPid := none, curFwd := false,
               curHeld := false }, c04)
  else
    let oU : Orc := if u ≥ o.U then { o1 with U := u + 1 } else o1
    match sent with
    | [] =>
      if err then ({ oU with pidTrack := false }, c04)
      else if u ≥ o.U then
        -- in-order and not forwarded: withheld
        let heldFrame : Orc := oU  -- pid bookkeeping below
        let pid : Option Nat := (vp8PidOf inp).map (·.2)
        let o2 : Orc :=
          if pid = oU.curPid then { heldFrame with curHeld := true }
          else
            -- new frame starts with a withheld packet: close the previous frame
            let k := if oU.curPid.isSome && !oU.curFwd && oU.curHeld then oU.pidK + 1 else oU.pidK
            let taint := oU.curFwd && oU.curHeld
            { heldFrame with pidK := k, curPid := pid, curFwd := false, curHeld := true,
                             pidTrack := oU.pidTrack && !taint }
        ({ o2 with D := u :: o2.D, nD := o2.nD + 1 }, c04)
      else (oU, c04)
    | p :: _ =>
      let c01 : Option String :=
        if o.D.contains u then some s!"C01: packet {s} was withheld earlier and is now forwarded as {p.seq}"
        else if p.seq ≠ expected o u then
          some s!"C01: packet {s} forwarded as {p.seq}, expected {expected o u} (seqno minus {below o u} earlier withheld packets)"
        else none
      let inPayload := match rtpUnmarshal inp with
        | .ok pkt => (inp.take pkt.payloadEnd).drop pkt.payloadStart
        | .error _ => []
      let outPayload := (unhex p.payload).getD []
      let c02a : Option String :=
        if p.ts ≠ be32 inp 4 then some "C02: forwarded packet has a different timestamp"
        else if outPayload.length ≠ inPayload.length then some "C02: forwarded payload has a different length"
        else if isVP8 codec then
          (if blankPid outPayload ≠ blankPid inPayload then some "C02: forwarded payload differs outside the picture id" else none)
        else if outPayload ≠ inPayload then some "C02: forwarded payload bytes differ"
        else if p.marker && !flags.marker && !(flags.end_ && flags.sid = lay'.sid) then
          some "C02: marker set on a packet that is not the end of a frame of the forwarded spatial layer"
        else if !p.marker && flags.marker then some "C02: marker bit cleared"
        else none
      -- picture ids: in-order, loss-free stretch with whole-frame drops
      let srcPid := vp8PidOf inp
      let (o3, c02b) : Orc × Option String :=
        if !isVP8 codec || srcPid.isNone then (oU, none)
        else if !(u ≥ o.U) then (oU, none)      -- late copies are covered by C03's identity check
        else if !(inOrderArrival || o.lastArr.isNone) then ({ oU with pidTrack := false }, none)
        else
          let (m, sp) := srcPid.getD (false, 0)
          let md := if m then 32768 else 128
          let newFrame := oU.curPid ≠ some sp
          let k := if newFrame && oU.curPid.isSome && !oU.curFwd && oU.curHeld then oU.pidK + 1 else oU.pidK
          let taint := (newFrame && oU.curFwd && oU.curHeld) || (!newFrame && oU.curHeld)
          let track := oU.pidTrack && !taint
          let o3 := { oU with pidK := k, curPid := some sp, curFwd := true,
                              curHeld := if newFrame then false else oU.curHeld, pidTrack := track }
          match vp8PidOfPayload outPayload with
          | some (_, op) =>
            if track && op ≠ (sp + md - k % md) % md then
              (o3, some s!"C02: frame with picture id {sp} forwarded with id {op}; {k} whole frames were withheld before it, expected {(sp + md - k % md) % md}")
            else (o3, none)
          | none => (o3, some "C02: forwarded VP8 packet lost its picture id")
      let log := if o3.sentLog.any (fun e => e.1 = p.seq) then o3.sentLog
                 else ((p.seq, s!"{p.seq} {b2s p.marker} {p.ts} {p.payload}", lay'.sid) :: o3.sentLog).take 600
      ({ o3 with sentLog := log }, c04 <|> c01 <|> c02a <|> c02b)

def nackOracle (o : Orc) (n : Nat) (sent : List Sent) (after : Option Layer := none) : Option String :=
  match sent with
  | [] => none
  | p :: _ =>
    if p.seq ≠ n then some s!"C03: NACK for {n} answered with a packet numbered {p.seq}"
    else
      match o.sentLog.find? (fun e => e.1 = n) with
      | some (_, first, sidThen) =>
        let now := s!"{p.seq} {b2s p.marker} {p.ts} {p.payload}"
        let flip := s!"{p.seq} {b2s (!p.marker)} {p.ts} {p.payload}"
        -- the layer the retransmission was judged by: it may have changed before the NACK, or (the resent
        -- packet being the start of a keyframe) during the retransmission's own pass through Write
        let sidNow := match after with | some l => (if sidThen ≠ o.layer.sid then o.layer.sid else l.sid) | none => o.layer.sid
        if now ≠ first && flip = first && sidThen ≠ sidNow then
          some s!"C03: retransmission of {n} differs from the packet originally sent only in the marker bit (resent with marker={b2s p.marker}); the receiver's spatial layer changed {sidThen}->{sidNow} in between"
        else if now ≠ first && flip = first then
          some s!"C03: retransmission of {n} differs from the packet originally sent in the marker bit (resent with marker={b2s p.marker}) although the spatial layer is unchanged"
        else if now ≠ first then some s!"C03: retransmission of {n} differs from the packet originally sent: [{first.take 60}] vs [{now.take 60}]"
        else none
      | none => none

def withLayer (st : St) (impl : List String) : St :=
  match parseLayer impl with
  | some l => { st with orc := { st.orc with layer := l } }
  | none => st

def step (st : St) (op impl : List String) : St × Verdict :=
  match op with
  | ["newdown", codec, cap] =>
    match nat? cap with
    | some c => ({ codec := if codec = "-" then "" else codec, s := {}, cache := Cache.new c, orc := {} }, .ok)
    | none => (st, .badop "newdown")
  | [kind, h] =>
    if kind = "feed" || kind = "write" then
      match unhex h with
      | some b =>
        let cache :=
          if kind = "feed" && b.length ≥ 12 && b.length ≤ 1504 && st.cache.entries.length > 0 then
            (Cache.store st.cache { seqno := b.getD 2 0 * 256 + b.getD 3 0, marker := bit (b.getD 1 0) 0x80,
                                    ts := be32 b 4, bytes := b }).1
          else st.cache
        let r := write C P st.codec st.s b
        let model := s!"{outS r} | {layerS (unpack r.st.word)}"
        let v := cmp model impl
        let (outT, layT) := splitBar impl
        let (o', ov) : Orc × Option String :=
          if outT = ["panic"] || (outT.head?.getD "").startsWith "panic" then (st.orc, some "C12: Write panicked")
          else
            match parseLayer layT, packetFlags st.codec b with
            | some lay', .ok flags =>
              let (err, sent, _) := parseOut outT
              feedOracle st.codec st.orc b flags err sent lay'
            | some lay', .error _ => ({ st.orc with layer := lay' }, none)
            | none, _ => (st.orc, some "unparsable layer in impl result")
        ({ st with s := r.st, cache := cache, orc := o' }, match ov with | some m => .oracle m | none => v)
      | none => (st, .badop kind)
    else if kind = "nack" then
      match nat? h with
      | some n =>
        let r := gotNack C P st.codec st.s st.cache n
        let v := cmp s!"{outS r} | {layerS (unpack r.st.word)}" impl
        let (outT, layT) := splitBar impl
        let (_, sent, _) := parseOut outT
        let ov := nackOracle st.orc n sent (parseLayer layT)
        let st' := withLayer { st with s := r.st } layT
        (st', match ov with | some m => .oracle m | none => v)
      | none => (st, .badop "nack")
    else if kind = "setrate" then
      match nat? h with
      | some r => ({ st with s := { st.s with rate := r } }, .ok)
      | none => (st, .badop "setrate")
    else if kind = "setmax" then
      match int? h with
      | some r => ({ st with s := { st.s with maxBitrate := if r < 0 then none else some r.toNat } }, .ok)
      | none => (st, .badop "setmax")
    else if kind = "setremb" then
      match int? h with
      | some r => ({ st with s := { st.s with remb := if r < 0 then none else some r.toNat } }, .ok)
      | none => (st, .badop "setremb")
    else if kind = "updaterate" then
      match nat? h with
      | some loss =>
        let s' := updateRate C st.s loss
        let v := cmp (toString (s'.maxBitrate.getD 0)) impl
        let ov : Option String := match impl.mapM nat? with
          | some [r] => if r < C.minLossRate || r > C.maxLossRate then some s!"C04: loss-based ceiling {r} outside [{C.minLossRate}, {C.maxLossRate}]" else none
          | _ => some "bad updaterate result"
        ({ st with s := s' }, match ov with | some m => .oracle m | none => v)
      | none => (st, .badop "updaterate")
    else if kind = "setlimit" then
      match bool? h with
      | some b =>
        let s' := setLimit st.s b
        let v := cmp s!"ok | {layerS (unpack s'.word)}" impl
        let (_, layT) := splitBar impl
        let ov : Option String := match parseLayer layT with
          | some l =>
            if l.sid ≠ st.orc.layer.sid || l.tid ≠ st.orc.layer.tid then some "C04: request change moved the current layer"
            else if b && l.wantedSid ≠ 0 then some "C04: low-quality request did not steer to spatial layer 0"
            else none
          | none => some "bad setlimit result"
        let st' := withLayer { st with s := s' } layT
        ({ st' with orc := { st'.orc with limit := b, limitKeySeen := false } }, match ov with | some m => .oracle m | none => v)
      | none => (st, .badop "setlimit")
    else if kind = "racestress" then
      -- op-atomic theorems (C04_feedback_keeps_layer) + the layer mutex: a concurrent adjustLayer never
      -- changes sid/tid between two Writes
      (st, if impl = ["ok"] then .ok
           else .oracle s!"C04: a concurrent adjustLayer moved the current layer between two packets: {" ".intercalate impl}")
    else (st, .badop "unknown op")
  | ["layer"] => (withLayer st impl, cmp (layerS (unpack st.s.word)) impl)
  | ["adjust"] =>
    let s' := adjustLayer C st.s
    let v := cmp (layerS (unpack s'.word)) impl
    let ov : Option String := match parseLayer impl with
      | some l => if l.sid ≠ st.orc.layer.sid || l.tid ≠ st.orc.layer.tid then some "C04: feedback moved the current layer outside a switch point" else none
      | none => some "bad adjust result"
    (withLayer { st with s := s' } impl, match ov with | some m => .oracle m | none => v)
  | ["getmax"] =>
    let l := unpack st.s.word
    (st, cmp s!"{getMax C st.s} {l.sid} {l.tid}" impl)
  | ["reqlimit", kinds, nv, na] =>
    match nat? nv, nat? na with
    | some nv, some na =>
      let req := if kinds = "-" then [] else kinds.splitOn ","
      let audio := req.contains "audio"
      let video := req.contains "video"
      let low := req.contains "video-low"
      let idx : List Nat :=
        (if audio && na > 0 then [0] else []) ++
        (if video && nv > 0 then [na] else if !video && low && nv > 0 then [na + nv - 1] else [])
      let lim := requestedLimitSid req nv
      let idx := if req.isEmpty then [] else idx
      let lim := if req.isEmpty then false else lim
      (st, cmp (" ".intercalate ([toString idx.length, b2s lim] ++ idx.map toString)) impl)
    | _, _ => (st, .badop "reqlimit")
  | _ => (st, .badop "unknown op")

def engine : EngineDef := { σ := St, init := {}, step := step }

end Galene.Engine.Down
