import GaleneVerif.Model.Paths
import GaleneVerif.Model.Etag
import GaleneVerif.Engine.Common
/-
Engine `paths`: the name/path validators of C19 and the ETag string functions of C18.

Strings on the wire: every byte outside [A-Za-z0-9_.-] is written %XX (upper-case hex); the empty
string is a lone `%`.  Ops (s, p, … are escaped byte strings):

  clean <s>                              => <path.Clean(s)>
  validgroup <s>                         => 0|1          group.validGroupName
  validuser <s>                          => 0|1          group.validUsername
  parsegroup <prefix> <p>                => <name>       webserver.parseGroupName (full C19 oracle)
  parsesafe <prefix> <p>                 => <name>       same function; oracle without the backslash clause (see below)
  splitpath <s>                          => <a> <b> <c>  webserver.splitPath
  descfiles <dir> <name> <allow> <hit>   => <n> <f1> … <fn> notfound | found <file> <isSub>
                                            group.getDescriptionFile with Directory = dir and a `get` callback that
                                            records its argument and answers ErrNotExist except on call number `hit`
  sanitise <s>                           => <sanitise(s)>
  recfile <username> <ext>               => err | <name> <where>   diskwriter.openDiskFile on a scratch os.Root; the time
                                            stamp is replaced by the layout string; where = root|elsewhere
  descupdate <name>                      => ok|err <n> <path1> … <pathn> <m>   group.UpdateDescription(name, "", {}) on the scratch
                                            tree; the n paths (relative to the scratch base) that appeared, and the number m of
                                            pre-existing entries that changed or vanished
  recnew <groupname> <username>          => rejected | ok|newerr|openerr <n> <path1> … <pathn> <m>   a recording end to end on the
                                            scratch tree: group.Add(name, {}) (rejected = validGroupName refuses), diskwriter.New
                                            (MkdirAll + os.OpenRoot of Directory/name), openDiskFile(root, username, "webm");
                                            the n paths that appeared (time stamp masked), m = pre-existing entries changed/gone
  recget <p> <kind>                      => <status> <served>      webserver.recordingsHandler, GET /recordings/<p> on a scratch
                                            tree; kind = none|dir|file is what root.Open(p) is (observed by the harness with
                                            the same os.Root call: environment input); served = label of the file whose
                                            content came back, `list` for a directory listing, `-` for none
  recdel <p> <kind> <filename>           => <status> <removed>     POST q=delete&filename=…; removed = the path (relative to the
                                            scratch base) that disappeared, `-` if none, `many` if more than one
  static <p>                             => <status> <served>      the static fileHandler, GET /<p> (oracle only: os.Root is
                                            trusted, not modelled): whatever is served must come from below static/
  (kind/status `rootpanic`: with toolchain go1.24.0 os.Root.Open panics (index out of range in os.doInRoot) on paths
   such as "a/.." that resolve to the root itself; the harness recovers it.  Not reachable by clients: net/http's
   ServeMux redirects every path with a "." or ".." element before the handlers run.)
  scanetag <s>                           => <etag> <remain>
  etagmatch <etag> <header>              => 0|1
  precond <method> <etag> <im> <inm>     => continue|304|412

The oracle functions below (`o…`) are written independently of Model/: naive splitting on '/', a
component-stack normaliser, and a tokenizer for the If-Match list.
-/
namespace Galene.Engine.Paths
open Galene Galene.Engine

abbrev Str := List Char

/-! ### wire encoding -/

def isPlain (c : Char) : Bool := c.isAlphanum || c = '_' || c = '.' || c = '-'

def hexU (n : Nat) : Char := "0123456789ABCDEF".toList.getD n '0'

def esc (s : Str) : String :=
  if s.isEmpty then "%"
  else String.ofList (s.flatMap fun c => if isPlain c then [c] else ['%', hexU (c.toNat / 16 % 16), hexU (c.toNat % 16)])

def unescAux : List Char → Str → Option Str
  | [], acc => some acc.reverse
  | '%' :: a :: b :: r, acc =>
    match hexVal a, hexVal b with
    | some x, some y => unescAux r (Char.ofNat (x * 16 + y) :: acc)
    | _, _ => none
  | c :: r, acc => if isPlain c then unescAux r (c :: acc) else none

def unesc (t : String) : Option Str := if t = "%" then some [] else unescAux t.toList []

/-! ### C19 oracle (independent of the model) -/

/-- naive split on '/' : "a//b" ↦ ["a", "", "b"], "" ↦ [""] -/
def osplit (s : Str) : List Str :=
  let (cur, acc) := s.foldl (fun (st : Str × List Str) c => if c = '/' then ([], st.1.reverse :: st.2) else (c :: st.1, st.2)) ([], [])
  (cur.reverse :: acc).reverse

def badComp (c : Str) : Bool := c = [] || c = ['.'] || c = ['.', '.']

/-- what C19 says a group name must be -/
def okName (s : Str) : Bool := !s.isEmpty && !s.contains '\\' && (osplit s).all (fun c => !badComp c)

/-- component-stack normalisation of a directory name (oracle's own; not the lazybuf algorithm):
returns (rooted, leading ".." count, components) -/
def onorm (d : Str) : Bool × Nat × List Str :=
  let rooted := d.head? = some '/'
  let (ups, st) := (osplit d).foldl (fun (acc : Nat × List Str) c =>
    if c = [] || c = ['.'] then acc
    else if c = ['.', '.'] then
      match acc.2 with
      | _ :: r => (acc.1, r)
      | [] => if rooted then acc else (acc.1 + 1, [])
    else (acc.1, c :: acc.2)) (0, [])
  (rooted, ups, st.reverse)

def ojoin (cs : List Str) : Str := ['/'].intercalate cs

/-- the cleaned directory as a string prefix that every file below it must start with ("" for ".", "/" for the root;
otherwise ends with '/') -/
def odirPrefix (d : Str) : Str :=
  let (rooted, ups, cs) := onorm d
  let all := (List.replicate ups ['.', '.']) ++ cs
  if all.isEmpty then (if rooted then ['/'] else [])
  else (if rooted then ['/'] else []) ++ ojoin all ++ ['/']

def endsWith (s suf : Str) : Bool := suf.reverse.isPrefixOf s.reverse

/-- `f` is lexically inside directory `d` (d ≠ ""): cleaned d, then one or more safe components -/
def insideDir (d f : Str) : Bool :=
  let p := if d.isEmpty then ['/'] else odirPrefix d
  p.isPrefixOf f &&
    (let rel := f.drop p.length
     !rel.isEmpty && (osplit rel).all (fun c => !badComp c))

def noSeps (s : Str) : Bool := !s.contains '/' && !s.contains '\\'

/-! ### C18 oracle (independent of the model): tokenizer for `1#entity-tag | "*"` -/

def oWS (c : Char) : Bool := c = ' ' || c = '\t' || c = '\n' || c = '\r'

def oEtagChar (c : Char) : Bool :=
  let n := c.toNat
  n = 33 || (35 ≤ n && n ≤ 126) || 128 ≤ n

inductive Item where
  | star
  | tag (t : Str)
  deriving DecidableEq

/-- read one entity-tag at the head of `s` (no leading white space): (tag, rest) -/
def oTag (s : Str) : Option (Str × Str) :=
  let (w, s1) := match s with
    | 'W' :: '/' :: r => (['W', '/'], r)
    | _ => ([], s)
  match s1 with
  | '"' :: r =>
    let body := r.takeWhile oEtagChar
    match r.drop body.length with
    | '"' :: rest => some (w ++ ['"'] ++ body ++ ['"'], rest)
    | _ => none
  | _ => none

/-- items of the well-formed prefix of a header value; stops after `*` or at the first malformed item -/
def oItems : Nat → Str → List Item
  | 0, _ => []
  | fuel + 1, s =>
    match s.dropWhile (fun c => oWS c || c = ',') with
    | [] => []
    | '*' :: _ => [.star]
    | s' =>
      match oTag s' with
      | some (t, rest) => .tag t :: oItems fuel rest
      | none => []

/-- the RFC 7232 reading of "etag `e` ("" = no object) matches header value `h`" (strong byte comparison,
as galene only issues strong tags), plus galene's shortcut `h = e` -/
def oMatch (e h : Str) : Bool :=
  !h.isEmpty && (h = e || (oItems (h.length + 1) h).any (fun it => (it = .star && !e.isEmpty) || it = .tag e))

def oPrecond (method e im inm : Str) : String :=
  if !im.isEmpty && !oMatch e im then "412"
  else if !inm.isEmpty && oMatch e inm then
    (if method = "GET".toList || method = "HEAD".toList then "304" else "412")
  else "continue"

/-! ### steps -/

def outcomeS : Galene.Etag.Outcome → String
  | .continue_ => "continue" | .notModified => "304" | .preconditionFailed => "412"

def unescAll (ts : List String) : Option (List Str) := ts.mapM unesc

/-- oracle first (a property violation observed on the implementation), else model comparison -/
def verdict (o : Option String) (model : String) (impl : List String) : Verdict :=
  match o with
  | some m => .oracle m
  | none => cmp model impl

def kindOK (k : String) : Bool := k = "none" || k = "err" || k = "dir" || k = "file" || k = "rootpanic"

/-- the groups that have a description (and for which the harness sends valid credentials) -/
def knownGroups : List Str := ["a".toList, "a/b".toList, "c".toList, "e".toList, ".hid".toList]

/-- the description files and directories of the harness's scratch tree -/
def groupFiles : List Str :=
  ["groups/a.json".toList, "groups/a/b.json".toList, "groups/c.json".toList, "groups/e.json".toList, "groups/.hid.json".toList]
def groupDirs : List Str := ["groups".toList, "groups/a".toList]

def recDirs : List Str :=
  ["rec".toList, "rec/a".toList, "rec/a/b".toList, "rec/c".toList, "rec/d".toList, "rec/e".toList, "rec/.hid".toList]
def recFiles : List Str :=
  ["rec/top".toList, "rec/a/f1".toList, "rec/a/.h".toList, "rec/a/x\\y".toList, "rec/a/b/f2".toList, "rec/c/f3".toList,
   "rec/d/f4".toList, "rec/.hid/f5".toList]

/-- proper ancestors of a relative path, shortest first: "g/a/b.json" ↦ ["g", "g/a"] -/
def ancestors (f : Str) : List Str :=
  let cs := osplit f
  (List.range (cs.length - 1)).map (fun i => ojoin (cs.take (i + 1)))

open Galene.Paths in
def step (st : Unit) (op impl : List String) : Unit × Verdict :=
  match op with
  | ["clean", s] =>
    match unesc s with
    | some s =>
      let o : Option String := match impl with
        | [r] => match unesc r with
          | some r =>
            if s.head? = some '/' then
              (if r = ['/'] || (r.head? = some '/' && (osplit (r.drop 1)).all (fun c => !badComp c)) then none
               else some "C19: path.Clean of a rooted path is not / or /c1/…/ck with safe components")
            else none
          | none => some "C19: bad impl token"
        | _ => some "C19: bad impl result"
      (st, verdict o (esc (clean s)) impl)
    | none => (st, .badop "clean")
  | ["validgroup", s] =>
    match unesc s with
    | some s =>
      let o := if impl = [b2s (okName s)] then none
        else if okName s then some "C19: validGroupName rejects a name that is non-empty, has no backslash and only safe components"
        else some "C19: validGroupName accepts a name that is empty, has a backslash, or has an empty/./.. component"
      (st, verdict o (b2s (validGroupName s)) impl)
    | none => (st, .badop "validgroup")
  | ["validuser", s] =>
    match unesc s with
    | some s =>
      let want := s.isEmpty || okName s
      let o := if impl = [b2s want] then none
        else if want then some "C19: validUsername rejects a username that is empty or a safe name"
        else some "C19: validUsername accepts a username with a backslash or an empty/./.. component"
      (st, verdict o (b2s (validUsername s)) impl)
    | none => (st, .badop "validuser")
  | ["splitpath", s] =>
    match unesc s with
    | some s =>
      let (a, b, c) := splitPath s
      (st, cmp s!"{esc a} {esc b} {esc c}" impl)
    | none => (st, .badop "splitpath")
  | ["descfiles", dir, name, allow, hit] =>
    match unesc dir, unesc name, bool? allow, nat? hit with
    | some dir, some name, some allow, some hit =>
      let files := descFiles dir allow (name.length + 1) name
      let tried := files.take (hit + 1)
      let get : Nat → Str → Bool := fun k _ => k = hit
      let res := match getDescriptionFile dir allow get (name.length + 1) 0 name false with
        | some (f, sub) => s!"found {esc f} {b2s sub}"
        | none => "notfound"
      let model := " ".intercalate ([toString tried.length] ++ tried.map esc ++ [res])
      -- oracle: every name passed to `get` is lexically inside `dir`
      let o : Option String := match impl with
        | nS :: rest =>
          match nat? nS with
          | some n =>
            match unescAll (rest.take n) with
            | some fs =>
              if fs.length ≠ n then some "C19: bad impl result"
              else if fs.all (fun f => insideDir dir f && endsWith f ".json".toList) then none
              else some "C19: getDescriptionFile tried a file name that is not Directory/c1/…/ck.json with safe components"
            | none => some "C19: bad impl token"
          | none => some "C19: bad impl result"
        | _ => some "C19: bad impl result"
      (st, verdict o model impl)
    | _, _, _, _ => (st, .badop "descfiles")
  | ["sanitise", s] =>
    match unesc s with
    | some s =>
      let o : Option String := match impl with
        | [r] => match unesc r with
          | some r => if noSeps r then none else some "C19: sanitise left a path separator in the string"
          | none => some "C19: bad impl token"
        | _ => some "C19: bad impl result"
      (st, verdict o (esc (sanitise s)) impl)
    | none => (st, .badop "sanitise")
  | ["recdel", pth, kind, filename] =>
    match unesc pth, kindOK kind, unesc filename with
    | some pth, true, some filename =>
      -- model: reach handleGroupAction only for a canonical directory URL of a known group
      let implStatus := impl.headD ""
      let model : String :=
        if pth.isEmpty then "400 -"
        else if kind = "none" then "404 -"
        else if kind = "err" then "500 -"
        else if kind = "rootpanic" then "0 -"
        else match recSplit pth (kind = "dir") with
          | none => "400 -"
          | some (g, f) =>
            if !recCanonical pth g f then "308 -"
            else if !knownGroups.contains g then "401 -"
            else if !f.isEmpty then s!"200 -"     -- a file URL: POST is served like GET (content), nothing removed
            else match deleteTarget g filename with
              | none => "400 -"
              | some t =>
                -- whether Remove succeeds is the file system's answer (environment): take it from the status
                if implStatus = "303" then s!"303 {esc ("rec/".toList ++ t)}" else s!"{implStatus} -"
      let o : Option String := match impl with
        | [_, "-"] => none
        | [_, "many"] => some "C19: the delete action removed more than one file"
        | [_, r] => match unesc r with
          | some r =>
            -- the removed path must be <group>/<one safe component> below rec/, group = the directory the URL resolves to
            let g := ojoin (onorm pth).2.2
            if (onorm pth).1 || (onorm pth).2.1 ≠ 0 || g.isEmpty then some "C19: the delete action ran for a URL that does not resolve to a group directory"
            else if !"rec/".toList.isPrefixOf r then some "C19: the delete action removed a file outside the recordings directory"
            else if r.drop 4 = g then none   -- filename "." / "..": Remove(group dir); only succeeds on an empty directory (remark in Props/C19.lean)
            else if !(g ++ ['/']).isPrefixOf (r.drop 4) then some "C19: the delete action removed a file outside the group's recording directory"
            else
              let leaf := (r.drop 4).drop (g.length + 1)
              if leaf.contains '/' || badComp leaf then some "C19: the delete action removed something that is not a single component of the group's directory"
              else if leaf ≠ filename then some "C19: the delete action removed a file other than the one named in the form"
              else none
          | none => some "C19: bad impl token"
        | _ => some "C19: bad impl result"
      (st, verdict o model impl)
    | _, _, _ => (st, .badop "recdel")
  | ["descupdate", name] =>
    match unesc name with
    | some name =>
      let f := descFileName "groups".toList name
      let model : String :=
        if f.contains (Char.ofNat 0) then "err 0 0"                    -- os.Open: EINVAL (not ErrNotExist)
        else if groupFiles.contains f then "err 0 0"                   -- exists: the empty tag does not match
        else if (ancestors f).any groupFiles.contains then "err 0 0"   -- a parent is a file: ENOTDIR
        else
          let made := (ancestors f).filter (fun d => !groupDirs.contains d) ++ [f]
          " ".intercalate (["ok", toString made.length] ++ made.map esc ++ ["0"])
      -- oracle: whatever appears is below groups/, reached through safe components; nothing else changes
      let o : Option String := match impl with
        | _ :: _ :: rest => match unescAll rest.dropLast with
          | some ps =>
            if rest.getLast? ≠ some "0" then some "C19: UpdateDescription changed or removed a file that existed before"
            else if ps.all (fun q => "groups/".toList.isPrefixOf q && (osplit q).all (fun c => !badComp c)) then none
            else some "C19: UpdateDescription created something outside the groups directory"
          | none => some "C19: bad impl token"
        | _ => some "C19: bad impl result"
      (st, verdict o model impl)
    | none => (st, .badop "descupdate")
  | ["recnew", gname, user] =>
    match unesc gname, unesc user with
    | some gname, some user =>
      let nul := Char.ofNat 0
      let model : String :=
        if !validGroupName gname then "rejected"
        else
          let dir := fjoin "rec".toList gname
          let chain := ancestors dir ++ [dir]
          if chain.any recFiles.contains then "newerr 0 0"          -- MkdirAll: a parent is a file (ENOTDIR)
          else if dir.contains nul then
            -- MkdirAll creates the parents it can, then fails on the component with the NUL (EINVAL)
            let made := (chain.takeWhile (fun d => !d.contains nul)).filter (fun d => !recDirs.contains d)
            " ".intercalate (["newerr", toString made.length] ++ made.map esc ++ ["0"])
          else
            let made := chain.filter (fun d => !recDirs.contains d)
            if user.contains nul then " ".intercalate (["openerr", toString made.length] ++ made.map esc ++ ["0"])
            else
              let f := dir ++ ['/'] ++ recFileName "2006-01-02T15:04:05.000".toList user "webm".toList 0
              " ".intercalate (["ok", toString (made.length + 1)] ++ (made ++ [f]).map esc ++ ["0"])
      -- oracle: everything that appears is below rec/<group name>, the file directly in it
      let o : Option String := match impl with
        | ["rejected"] => none
        | status :: _ :: rest => match unescAll rest.dropLast with
          | some ps =>
            let gdir := "rec/".toList ++ gname
            if rest.getLast? ≠ some "0" then some "C19: a recording changed or removed a file that existed before"
            else if !okName gname then some "C19: a group with an unacceptable name was created and recorded"
            else if !ps.all (fun q => q.isPrefixOf gdir || (gdir ++ ['/']).isPrefixOf q) then
              some "C19: a recording created something outside the group's own recording directory"
            else if status = "ok" && !(match ps.getLast? with
                | some f => (gdir ++ ['/']).isPrefixOf f && noSeps (f.drop (gdir.length + 1)) && !badComp (f.drop (gdir.length + 1))
                | none => false) then
              some "C19: the recording file is not a single component directly inside the group's recording directory"
            else none
          | none => some "C19: bad impl token"
        | _ => some "C19: bad impl result"
      (st, verdict o model impl)
    | _, _ => (st, .badop "recnew")
  | ["static", _] =>
    -- oracle only (os.Root is trusted, not modelled): whatever is served comes from below static/
    let o : Option String := match impl with
      | [_, "-"] => none
      | [_, lbl] => match unesc lbl with
        | some l => if "static/".toList.isPrefixOf l then none else some "C19: the static file handler served a file outside the static directory"
        | none => some "C19: bad impl token"
      | _ => some "C19: bad impl result"
    (st, match o with | some m => .oracle m | none => .ok)
  | ["scanetag", s] =>
    match unesc s with
    | some s =>
      let (e, r) := Galene.Etag.scanETag s
      let o : Option String := match impl.mapM unesc with
        | some [ie, ir] =>
          let s' := s.dropWhile oWS
          match oTag s' with
          | some (t, rest) => if ie = t && ir = rest then none else some "C18: scanETag does not return the entity-tag at the head of the string and the text after it"
          | none => if ie.isEmpty && ir.isEmpty then none else some "C18: scanETag returned a tag where no well-formed entity-tag starts"
        | _ => some "C18: bad impl result"
      (st, verdict o s!"{esc e} {esc r}" impl)
    | none => (st, .badop "scanetag")
  | ["etagmatch", e, h] =>
    match unesc e, unesc h with
    | some e, some h =>
      let want := oMatch e h
      let o := if impl = [b2s want] then none
        else if want then some "C18: etagMatch is false although the header lists the tag (or * for an existing object)"
        else some "C18: etagMatch is true although no item of the header's well-formed prefix is the tag (or * for an existing object)"
      (st, verdict o (b2s (Galene.Etag.etagMatch e h)) impl)
    | _, _ => (st, .badop "etagmatch")
  | ["precond", m, e, im, inm] =>
    match unesc m, unesc e, unesc im, unesc inm with
    | some m, some e, some im, some inm =>
      let want := oPrecond m e im inm
      let o := if impl = [want] then none
        else some s!"C18: checkPreconditions answered {" ".intercalate impl}, RFC 7232 section 6 demands {want}"
      (st, verdict o (outcomeS (Galene.Etag.checkPreconditions m e im inm)) impl)
    | _, _, _, _ => (st, .badop "precond")
  | [opn, pre, p] =>
    if opn = "parsegroup" || opn = "parsesafe" then
      match unesc pre, unesc p with
      | some pre, some p =>
        let model := esc (parseGroupName pre p)
        match impl with
        | [r] => match unesc r with
          | some n =>
            if !n.isEmpty && !(osplit n).all (fun c => !badComp c) then
              (st, .oracle "C19: parseGroupName returned a name with an empty, . or .. component")
            else match cmp model impl with
              | .ok =>
                if opn = "parsegroup" && !n.isEmpty && !okName n then
                  (st, .oracle "C19: parseGroupName accepts a name with a backslash, which validGroupName rejects")
                else (st, .ok)
              | v => (st, v)
          | none => (st, .oracle "C19: bad impl token")
        | _ => (st, cmp model impl)
      | _, _ => (st, .badop opn)
    else if opn = "recfile" then
      match unesc pre, unesc p with
      | some user, some ext =>
        let ts := "2006-01-02T15:04:05.000".toList
        let model := if user.contains (Char.ofNat 0) || ext.contains (Char.ofNat 0) then "err"
          else s!"{esc (recFileName ts user ext 0)} root"
        let o : Option String := match impl with
          | ["err"] => none
          | [n, wh] => match unesc n with
            | some n =>
              if !noSeps n || badComp n then some "C19: recording file name is not a single path component"
              else if wh ≠ "root" then some "C19: recording file created outside the group's recording directory"
              else none
            | none => some "C19: bad impl token"
          | _ => some "C19: bad impl result"
        (st, verdict o model impl)
      | _, _ => (st, .badop "recfile")
    else if opn = "recget" then
      -- pre = p, p = kind
      match unesc pre, kindOK p with
      | some pth, true =>
        let kind := p
        -- model: status and what is served
        let model : String :=
          if pth.isEmpty then "400 -"
          else if kind = "none" then "404 -"
          else if kind = "err" then "500 -"
          else if kind = "rootpanic" then "rootpanic -"
          else match recSplit pth (kind = "dir") with
            | none => "400 -"
            | some (g, f) =>
              if !recCanonical pth g f then "308 -"
              else if !knownGroups.contains g then "401 -"
              else if f.isEmpty then "200 list"
              else s!"200 {esc ("rec/".toList ++ pth)}"
        -- oracle: what is served must be a file below rec/, reached by a path with safe components
        let o : Option String := match impl with
          | [_, "-"] => none
          | [_, "list"] =>
            -- a listing is of a group's directory: the path must resolve to a non-empty name inside the recordings directory
            if !(onorm pth).1 && (onorm pth).2.1 = 0 && !(onorm pth).2.2.isEmpty then none
            else some "C19: a directory listing was served for a path that does not resolve to a group directory inside the recordings directory"
          | [_, lbl] => match unesc lbl with
            | some l =>
              if !"rec/".toList.isPrefixOf l then some "C19: recordingsHandler served a file outside the recordings directory"
              else if !(osplit (l.drop 4)).all (fun c => !badComp c) then some "C19: served file label has an empty, . or .. component"
              else if (onorm pth).1 || (onorm pth).2.1 ≠ 0 || l.drop 4 ≠ ojoin (onorm pth).2.2 then
                some "C19: recordingsHandler served a file other than the one its URL path resolves to inside the recordings directory"
              else none
            | none => some "C19: bad impl token"
          | _ => some "C19: bad impl result"
        (st, verdict o model impl)
      | _, _ => (st, .badop "recget")
    else (st, .badop "unknown op")
  | _ => (st, .badop "unknown op")

def engine : EngineDef := { σ := Unit, init := (), step := step }

end Galene.Engine.Paths
