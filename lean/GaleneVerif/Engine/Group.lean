import GaleneVerif.Model.Group
import GaleneVerif.Engine.Common
/-
Engine `group`: real group.Add/AddClient/DelClient/SetLocked with mock clients
(harness/cmd/group) against Model/Group.lean, plus the C10 oracle.
Ops and result format: see the header of harness/cmd/group/main.go.
-/
namespace Galene.Engine.Group
open Galene Galene.Engine Galene.Group

/-! ### tokens -/

def tok (s : String) : String := if s = "" then "-" else s.replace " " "_"
def untok (s : String) : String := if s = "-" then "" else s
def plus (p : List String) : String := if p.isEmpty then "-" else "+".intercalate p

def evString : Ev → String
  | .joined k => "J" ++ k
  | .add id u p => "A" ++ tok id ++ "/" ++ tok u ++ "/" ++ plus p
  | .del id u => "D" ++ tok id ++ "/" ++ tok u

def insertNat (x : Nat) : List Nat → List Nat
  | [] => [x]
  | y :: ys => if x ≤ y then x :: y :: ys else y :: insertNat x ys
def sortNats (l : List Nat) : List Nat := l.foldr insertNat []

def insertStr (x : String) : List String → List String
  | [] => [x]
  | y :: ys => if x ≤ y then x :: y :: ys else y :: insertStr x ys
def sortStrs (l : List String) : List String := l.foldr insertStr []

/-- events grouped by receiving handle (ascending), order preserved within a handle -/
def evsString (evs : Evs) : String :=
  let hs := sortNats (evs.map (·.1)).eraseDups
  if hs.isEmpty then "-" else
  ";".intercalate (hs.map fun h =>
    toString h ++ ":" ++ ",".intercalate ((evs.filter (·.1 == h)).map (evString ·.2)))

def kicksString (ks : List Nat) : String :=
  if ks.isEmpty then "-" else ",".intercalate ((sortNats ks).map toString)

def membersString (w : World) : String :=
  match w.group with
  | none => "-"
  | some g => if g.clients.isEmpty then "-" else ",".intercalate (sortStrs (g.clients.map (tok ·.1)))

def lockedString (w : World) : String :=
  match w.group with
  | none => "-"
  | some g => b2s g.locked.isSome

def stateString (w : World) : String := s!"m={membersString w} l={lockedString w}"

def puString (w : World) (h : Nat) : String :=
  let c := w.obj h
  s!"p={plus c.perms} u={tok c.username}"

def outString (w : World) (o : OpOut) (pu : Option Nat) : String :=
  o.status ++ (match pu with | some h => " " ++ puString w h | none => "") ++
    s!" e={evsString o.evs} k={kicksString o.kicks} " ++ stateString w

/-! ### parsing of description ops -/

def optInt? (s : String) : Option (Option Int) :=
  if s = "-" then some none else (int? s).map some

def parsePw (s : String) : Pw := if s = "-" then .none else if s = "*" then .wildcard else .plain s

def parseUsers : List String → Option (List (String × User) × Option User)
  | [] => some ([], none)
  | u :: rest =>
    match u.splitOn ":", parseUsers rest with
    | [n, r, p], some (us, wc) =>
      if n = "*" then some (us, some { role := r, pw := parsePw p })
      else some ((n, { role := r, pw := parsePw p }) :: us, wc)
    | _, _ => none

def parseDesc (ver : Nat) : List String → Option Desc
  | mx :: nb :: ex :: al :: ak :: users =>
    match int? mx, optInt? nb, optInt? ex, bool? al, bool? ak, parseUsers users with
    | some mx, some nb, some ex, some al, some ak, some (us, wc) =>
      some { maxClients := mx, notBefore := nb, expires := ex, autolock := al, autokick := ak,
             users := us, wildcard := wc, version := ver }
    | _, _, _, _, _, _ => none
  | _ => none

def parseCreds (user pw : String) : Creds :=
  { username := if user = "-" then none else some user, password := untok pw }

/-! ### the C10 oracle (built from the ops and the implementation's outputs only) -/

structure OMember where
  id : String
  h : Nat
  op : Bool
  sys : Bool

structure Orc where
  /-- the description file as last written by the harness (`none`: removed) -/
  fileDesc : Option Desc := none
  /-- the description in force in memory: the file as of the last op that ran `Add` -/
  live : Option Desc := none
  members : List OMember := []
  /-- last observed lock state -/
  locked : Bool := false
  /-- handles whose last join was refused -/
  refused : List Nat := []
  /-- a client object that is a member started another join (the generator never does that, a shrunk
  replay may; a web client refuses it itself): the oracle says nothing for the rest of the case -/
  tainted : Bool := false

/-- what the description grants these credentials: the role name, by the oracle's own table lookup -/
def oracleRole (d : Desc) (user pw : String) : Option String :=
  if user = "-" then none else
  match d.users.find? (fun p => p.1 == user) with
  | some (_, u) => if u.pw.matches (untok pw) then some u.role else none
  | none => match d.wildcard with
    | some u => if u.pw.matches (untok pw) then some u.role else none
    | none => none

def field (pfx : String) (impl : List String) : Option String :=
  (impl.find? (·.startsWith pfx)).map (fun s => (s.drop pfx.length).toString)

def idsString (ms : List OMember) : String :=
  if ms.isEmpty then "-" else ",".intercalate (sortStrs (ms.map (tok ·.id)))

def hasOperator (ms : List OMember) : Bool := ms.any (·.op)

/-- does some event in the `e=` field announce a client or confirm a join? -/
def announces (e : String) : Bool :=
  e != "-" && ((e.splitOn ";").any fun part =>
    match part.splitOn ":" with
    | _ :: rest => ((":".intercalate rest).splitOn ",").any (fun ev => ev.startsWith "A" || ev == "Jjoin")
    | _ => false)

/-- Rules for a join of (h, id, credentials) evaluated against membership `pre`
(the members at the moment the admission section ran) and the description in force. -/
def joinRules (o : Orc) (pre : List OMember) (d : Desc) (sys : Bool) (id user pw : String)
    (status e m : String) (p9 : Bool) : Option String :=
  let role := oracleRole d user pw
  let isOp := role == some "op"
  let ok := status == "ok"
  if ok then
    if pre.any (·.id == id) then some s!"C10: a second client with id {id} was admitted"
    else if m != idsString ({ id := id, h := 0, op := isOp, sys := sys } :: pre) then
      some s!"C10: after an admission of {id} the members are {m}, expected {idsString ({ id := id, h := 0, op := isOp, sys := sys } :: pre)}"
    else if isOp || sys then none
    else if o.locked then some "C10: non-operator admitted to a locked group"
    else if d.maxClients > 0 && decide ((pre.length : Int) ≥ d.maxClients) then
      some s!"C10: non-operator admitted to a full group ({pre.length} members, max-clients {d.maxClients})"
    else if (match d.notBefore with | some nb => decide (nb > 0) | none => false) then
      some "C10: non-operator admitted before not-before"
    else if (match d.expires with | some ex => decide (ex < 0) | none => false) then
      some "C10: non-operator admitted after expires"
    else if d.autokick && !hasOperator pre then
      some "C10: autokick: non-operator admitted while no operator is present"
    else if d.autolock && !hasOperator pre then
      if p9 then some "C10: autolock: non-operator admitted after the last operator had left (its DelClient had removed it but not yet re-locked the group)"
      else some "C10: autolock: non-operator admitted while no operator is present"
    else none
  else
    if m != idsString pre then
      some s!"C10: a refused join ({status}) changed the membership to {m}, expected {idsString pre}"
    else if announces e then some s!"C10: a refused client ({status}) was announced: {e}"
    else if isOp && (status.startsWith "fail:locked" || status == "fail:notopen" || status == "fail:closed"
        || status == "fail:noops" || status == "fail:full") then
      some s!"C10: an operator was refused with {status}"
    else none

/-- after an op that ran `autoLockKick`: an autolock group without operator must be locked -/
def autolockRule (o : Orc) (opname l : String) : Option String :=
  match o.live with
  | some d =>
    if d.autolock && l == "0" && !hasOperator o.members then
      some s!"C10: autolock: the group has no operator and is unlocked after {opname}"
    else none
  | none => none

structure St where
  w : World := {}
  ver : Nat := 0
  orc : Orc := {}

def verdict (v : Verdict) (orc : Option String) : Verdict :=
  match orc with
  | some m => .oracle m
  | none => v

/-- as `verdict`, unless the oracle is switched off for this case -/
def verdictT (o : Orc) (v : Verdict) (orc : Option String) : Verdict :=
  if o.tainted then v else verdict v orc

def joinStep (st : St) (sys : Bool) (h id user pw : String) (impl : List String) : St × Verdict :=
    let o := st.orc
    match nat? h with
    | some h =>
      let id := untok id
      let c := st.w.obj h
      let w0 := st.w.setObj h (if sys then { c with id := id, perms := ["system"] } else { c with id := id })
      let (w1, out) := opJoin w0 h (parseCreds user pw) 0
      let v := cmp (outString w1 out (some h)) impl
      match impl.head?, field "e=" impl, field "m=" impl, field "l=" impl with
      | some status, some e, some m, some l =>
        -- a client object that claims "system" itself (left over from an earlier joinsys) is a system client
        let sys := sys || field "p=" impl == some "system"
        let o : Orc := if o.members.any (·.h == h) then { o with tainted := true } else o
        let ran := status != "fail:notfound"
        let live := if ran then o.fileDesc else o.live
        let oa : Orc := { o with live := live }
        let orc1 := match live with
          | some d => if ran then joinRules oa o.members d sys id user pw status e m false else
              (if m != idsString o.members && l != "-" then some s!"C10: a refused join ({status}) changed the membership to {m}" else none)
          | none => none
        let isOp := match live with | some d => oracleRole d user pw == some "op" | none => false
        let members := if status == "ok" then o.members ++ [{ id := id, h := h, op := isOp, sys := sys }] else o.members
        let o1 : Orc := { oa with members := members, locked := l == "1",
                                  refused := if status == "ok" then o.refused.filter (· != h) else h :: o.refused.filter (· != h) }
        let orc2 := if ran then autolockRule o1 "a join" l else none
        ({ st with w := w1, orc := o1 }, verdictT o v (orc1 <|> orc2))
      | _, _, _, _ => (st, .badop "join result")
    | none => (st, .badop "join")

def step (st : St) (op impl : List String) : St × Verdict :=
  let o := st.orc
  match op with
  | "mkgroup" :: rest | "setdesc" :: rest =>
    match parseDesc (st.ver + 1) rest with
    | some d =>
      ({ st with w := { st.w with file := some d }, ver := st.ver + 1, orc := { o with fileDesc := some d } }, cmp "" impl)
    | none => (st, .badop "description")
  | ["variant", da, il] =>
    -- the code variant the harness probed on the real code (see World.delAtomic / World.initLate)
    match bool? da, bool? il with
    | some da, some il => ({ st with w := { st.w with delAtomic := da, initLate := il } }, cmp "" impl)
    | _, _ => (st, .badop "variant")
  | ["rmdesc"] =>
    ({ st with w := { st.w with file := none }, orc := { o with fileDesc := none } }, cmp "" impl)
  | ["reload"] =>
    let (w1, out) := opReload st.w
    let v := cmp (outString w1 out none) impl
    match impl.head?, field "m=" impl, field "l=" impl with
    | some status, some m, some l =>
      let o1 : Orc := if status == "ok" then { o with live := o.fileDesc, locked := l == "1" } else { o with locked := l == "1" }
      let orc := if m != idsString o.members && l != "-" then some s!"C10,C14: reload changed the membership to {m}"
        else if status == "ok" then autolockRule o1 "a reload" l else none
      ({ st with w := w1, orc := o1 }, verdictT o v orc)
    | _, _, _ => (st, .badop "reload result")
  | ["join", h, id, user, pw] => joinStep st false h id user pw impl
  | ["joinsys", h, id] => joinStep st true h id "-" "-" impl
  | ["dupleave", _] =>
    match impl with
    | ["ok"] => (st, .ok)
    | [r] =>
      if r.startsWith "bad:" then
        (st, .oracle s!"C14: a departure reported by several goroutines at once was announced to the remaining members more than once (or not at all): {r}")
      else if r.startsWith "env:" then (st, .ok)
      else (st, .mismatch "ok")
    | _ => (st, .mismatch "ok")
  | [lv, h] =>
    if lv == "leave" || lv == "leaveforce" then
      match nat? h with
      | some h =>
        -- `leave`: the mock's Group() is non-nil only while it is a member (as a web client's);
        -- `leaveforce`: it is this group whenever the group exists.  Afterwards the mock forgets
        -- its permissions, as webClient.leaveGroup does.
        let (w1, out) := opLeave st.w h
        let c := w1.obj h
        let w2 := w1.setObj h { c with perms := [] }
        let v := cmp (outString w2 out none) impl
        match field "m=" impl, field "l=" impl with
        | some m, some l =>
          let was := o.members.any (·.h == h)
          let members := o.members.filter (·.h != h)
          let o1 : Orc := { o with members := members, locked := l == "1" }
          let orc := if m != idsString members && l != "-" then
              some (if was then s!"C10: after the leave the members are {m}, expected {idsString members}"
                    else s!"C10: a leave by a non-member changed the membership to {m}")
            else if was then autolockRule o1 "a leave" l else none
          ({ st with w := w2, orc := o1 }, verdictT o v orc)
        | _, _ => (st, .badop "leave result")
      | none => (st, .badop "leave")
    else if lv == "lock" then
      let (w1, out) := opSetLocked st.w true (untok h)
      ({ st with w := w1, orc := { o with locked := field "l=" impl == some "1" } }, cmp (outString w1 out none) impl)
    else if lv == "permsof" then
      match nat? h with
      | some h =>
        let member := match st.w.group with
          | some g => g.clients.any (·.2 == h)
          | none => false
        let v := cmp s!"member={b2s member} {puString st.w h}" impl
        let orc := match field "member=" impl, field "p=" impl, field "u=" impl with
          | some "0", some p, some u =>
            if p != "-" && p != "system" && o.refused.contains h then
              some s!"C11: a client whose join was refused holds permissions {p} (username {u}) although it is not a member"
            else none
          | _, _, _ => none
        (st, verdictT o v orc)
      | none => (st, .badop "permsof")
    else (st, .badop "unknown op")
  | ["unlock"] =>
    let (w1, out) := opSetLocked st.w false ""
    ({ st with w := w1, orc := { o with locked := field "l=" impl == some "1" } }, cmp (outString w1 out none) impl)
  | ["members"] =>
    let v := cmp (membersString st.w) impl
    let m := " ".intercalate impl
    let orc := if st.w.group.isSome && m != idsString o.members then
      some s!"C10,C14: the members are {m} but the clients admitted and not yet gone are {idsString o.members} (members lost from the group that others still list)" else none
    (st, verdictT o v orc)
  | ["locked"] => (st, cmp (lockedString st.w) impl)
  | ["p9", jh, jid, user, pw, oph] =>
    match nat? jh, nat? oph with
    | some jh, some oph =>
      let id := untok jid
      -- model side (the harness sets the joiner's id only once the precondition holds)
      let c := st.w.obj jh
      let w0 := st.w.setObj jh { c with id := id }
      let (st1, v) : St × Verdict := match opP9 w0 jh (parseCreds user pw) 0 oph with
        | none => (st, cmp "badsched" impl)
        | some (w1, out) => ({ st with w := w1, ver := st.ver + 1 }, cmp (outString w1 out (some jh)) impl)
      -- oracle side: from the implementation's result alone
      match impl with
      | "sched=1" :: status :: _ =>
        match field "e=" impl, field "m=" impl, field "l=" impl with
        | some e, some m, some l =>
          let o : Orc := if o.members.any (·.h == jh) then { o with tainted := true } else o
          let pre := o.members.filter (·.h != oph)
          let oa : Orc := { o with live := o.fileDesc }
          let orc1 := match oa.live with
            | some d => joinRules oa pre d (field "p=" impl == some "system") id user pw status e m true
            | none => none
          let isOp := match oa.live with | some d => oracleRole d user pw == some "op" | none => false
          let members := if status == "ok" then pre ++ [{ id := id, h := jh, op := isOp, sys := false }] else pre
          let o1 : Orc := { oa with members := members, locked := l == "1",
                                    refused := if status == "ok" then o.refused.filter (· != jh) else jh :: o.refused.filter (· != jh) }
          let orc2 := autolockRule o1 "the operator's leave" l
          ({ st1 with orc := o1 }, verdictT o v (orc1 <|> orc2))
        | _, _, _ => (st1, .badop "p9 result")
      | _ => (st1, v)
    | _, _ => (st, .badop "p9")
  | ["racejoin", _, _, _] =>
    -- C10_capacity_all_interleavings: admission is one critical section, so overlapping joins cannot overshoot
    match impl with
    | ["ok"] => (st, .ok)
    | [r] =>
      if r.startsWith "bad:" then
        (st, .oracle s!"C10: overlapping joins overshot max-clients (non-operators admitted to a full group): {r}")
      else if r.startsWith "env:" then (st, .ok)
      else (st, .mismatch "ok")
    | _ => (st, .mismatch "ok")
  | ["leavejoin", _, _] =>
    -- the last operator leaves during a non-operator's slow password check: verdict from the real outcome alone
    match impl with
    | ["ok"] => (st, .ok)
    | [r] =>
      if r.startsWith "bad:" then
        (st, .oracle s!"C10: the last operator left while a non-operator's join was checking its password, and the join was still decided on the operator's presence: {r}")
      else if r.startsWith "env:" then (st, .ok)
      else (st, .mismatch "ok")
    | _ => (st, .mismatch "ok")
  | ["histsnap", _, _] =>
    match impl with
    | ["ok"] => (st, .ok)
    | [r] =>
      if r.startsWith "bad:" then
        (st, .oracle s!"C13,C15: a chat-history snapshot handed to a caller changed when the history was modified afterwards (the caller reads the group's own array without its lock; a join replay that overlaps a chat message or a clearchat skips or repeats entries): {r}")
      else if r.startsWith "env:" then (st, .ok) else (st, .mismatch "ok")
    | _ => (st, .mismatch "ok")
  | ["whipdl"] =>
    -- finding P14 (C13): the forced schedule must terminate
    match impl with
    | ["done"] => (st, .ok)
    | ["deadlock"] =>
      (st, .oracle "C13: deadlock: AddClient (holding Group.mu, calling WhipClient.Permissions) and WhipClient.Close (holding WhipClient.mu, calling DelClient) block each other forever")
    | _ => (st, .mismatch "done")
  | ["shutdowndl"] =>
    match impl with
    | ["done"] => (st, .ok)
    | ["deadlock"] =>
      (st, .oracle "C13: deadlock: group.Shutdown -> kickall calls Kick on a WHIP member while holding Group.mu; WhipClient.Kick -> Close -> DelClient locks the same Group.mu again")
    | _ => (st, .mismatch "done")
  | ["convstress", n, rounds] =>
    -- C14 under real concurrency: one leave against four joins per round, lists folded by the members themselves (convstress.go)
    match impl with
    | ["ok"] => (st, .ok)
    | [r] =>
      if r.startsWith "env:" then (st, .ok)
      else if r.startsWith "bad:" then
        (st, .oracle s!"C14: with nothing in flight a member's user list differs from the membership (group of {n}, {rounds} rounds of one leave racing four joins; + = ghost entry, - = missing entry): {r}")
      else (st, .mismatch "ok")
    | _ => (st, .mismatch "ok")
  | ["loopstress", nc, np, n] =>
    -- C13, lost wakeups: the real clientLoop against nc x np producers of n actions each, then a kick (loopstress.go)
    match impl with
    | ["ok"] => (st, .ok)
    | [r] =>
      if r.startsWith "env:" then (st, .ok)
      else match r.splitOn ":" with
        | "stuck" :: q :: s :: rest =>
          let q := (q.drop 2).toString
          let tail := s!" (real clientLoop over a websocket, {nc} clients x {np} producers x {n} actions, then a kick" ++
            (if rest.contains "producers-running" then "; seen while the producers were still running" else "") ++
            (if rest.contains "joining" then "; seen before the join was answered" else "") ++ ")"
          if rest.contains "slow" then
            (st, .oracle (s!"C13: lost action: the loop keeps emptying its queue ({q} queued now, trigger {s}) but the kick queued after " ++
              "the producers returned was not delivered within the budget (taken from the queue by something other than the loop?)" ++ tail))
          else if s == "s=0" then
            (st, .oracle (s!"C13: lost wakeup: client loop asleep with {q} actions queued and an empty trigger channel" ++ tail))
          else
            (st, .oracle (s!"C13: client loop blocked with {q} actions queued and a full trigger channel: it has taken nothing " ++
              "from its queue for seconds and never saw the kick (a loop waiting in its own blocking Put, or for a blocked producer)" ++ tail))
        | _ => (st, .mismatch "ok")
    | _ => (st, .mismatch "ok")
  | _ => (st, .badop "unknown op")

def engine : EngineDef := { σ := St, init := {}, step := step }

end Galene.Engine.Group
