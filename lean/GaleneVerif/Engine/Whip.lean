import GaleneVerif.Model.Whip
import GaleneVerif.Engine.Common
/-
Engine `whip` (the WHIP clause of C11; WHIP part of C12).  Ops: see harness/cmd/whip/main.go.

  group <name> <max> <nb> <exp> <wild> <users>          => ok <state>
  badgroup <name> | rmgroup <name>                      => ok <state>
  tok <name> <group> <sub> <user|%> <perms|%> <exp> <nb> => ok|err <state>
  tokexpire <name> | tokdel <name>                      => ok|err <state>
  lock <group> <0|1>                                    => ok|nogroup <state>
  mock <Mn> <group> <Sn|->                              => ok|fail <state>   (Sn: under the id of that session)
  unmock <Mn>                                           => ok <state>
  kick <Sn> | iceclose <Sn>                             => ok|nosession <state>
  req <via> <method> <path> <auth> <im> <inm> <ctype> <body>
        => <status> loc=<Sn|-> etag=<En|-> allow=<..> accept=<..> acam=<..> <state>
  bearer <auth>                                         => <token>
  deob <segment>                                        => ok|err
  <state> = st=<sessions>;<mocks> gr=<groups>

The first part replays the ops through Model/Whip.lean and compares.  The second part (`O…`
definitions, messages `C11: …`) is the property oracle: it is computed from the op tokens and the
implementation's result tokens only and calls nothing in Galene.Whip.
-/
namespace Galene.Engine.Whip
open Galene Galene.Engine

abbrev Str := List Char

/-! ## wire encoding (same as esc/unesc in the Go harness) -/

def isPlain (c : Char) : Bool := c.isAlphanum || c = '_' || c = '.' || c = '-'

def hexU (n : Nat) : Char := "0123456789ABCDEF".toList.getD n '0'

def esc (s : Str) : String :=
  if s.isEmpty then "%"
  else String.ofList (s.flatMap fun c =>
    if isPlain c then [c] else ['%', hexU (c.toNat / 16 % 16), hexU (c.toNat % 16)])

def unescAux : List Char → List Char → Option Str
  | [], acc => some acc.reverse
  | '%' :: a :: b :: rest, acc =>
    match hexVal a, hexVal b with
    | some x, some y => unescAux rest (Char.ofNat (x * 16 + y) :: acc)
    | _, _ => none
  | '%' :: _, _ => none
  | c :: rest, acc => unescAux rest (c :: acc)

def unesc (s : String) : Option Str := if s = "%" then some [] else unescAux s.toList []

def plusList (l : List Str) : String := if l.isEmpty then "%" else "+".intercalate (l.map esc)

def unplus (s : String) : Option (List Str) := if s = "%" then some [] else (s.splitOn "+").mapM unesc

/-! ## part 1: the model side -/

open Galene.Whip in
def parseWhen (s : String) : Option (Option Int) :=
  if s = "none" then some none else if s = "past" then some (some past) else if s = "future" then some (some 1000) else none

open Galene.Whip in
def parsePw (s : String) : Option Pw :=
  if s = "n" then some .none else if s = "e" then some (.plain []) else if s = "x" then some (.plain ['x'])
  else if s = "w" then some .wildcard else none

open Galene.Whip in
def parsePerm (s : String) : Option Perms :=
  if s.startsWith "[" && s.endsWith "]" then
    let inner := ((s.drop 1).dropEnd 1).toString
    if inner = "" then some (.raw []) else ((inner.splitOn "+").mapM unesc).map .raw
  else (unesc s).map .role

open Galene.Whip in
def parseUser (pw perm : String) : Option User := do
  let p ← parsePw pw
  let q ← parsePerm perm
  pure { pw := p, perms := q }

open Galene.Whip in
def parseWild (s : String) : Option (Option User) :=
  if s = "-" then some none
  else match s.splitOn ":" with
    | [pw, perm] => (parseUser pw perm).map some
    | _ => none

open Galene.Whip in
def parseUsers (s : String) : Option (List (Str × User)) :=
  if s = "-" then some []
  else (s.splitOn ";").mapM fun u =>
    match u.splitOn ":" with
    | [n, pw, perm] => do
      let n ← unesc n
      let usr ← parseUser pw perm
      pure (n, usr)
    | _ => none

/-- what the real handlers and pion make of each body kind of the harness (bodies() in main.go);
validated on every run by the correspondence itself -/
def bodyOf (kind : String) : Option Galene.Whip.Body :=
  match kind with
  | "empty" => some { fragCred := none }
  | "offer" => some { offerOk := true, fragCred := some 0 }
  | "offerav" => some { offerOk := true, fragCred := some 0 }
  | "offernomedia" => some {}
  | "junk" => some {}
  | "halfsdp" => some {}
  | "big" => some { tooLarge := true }
  | "fragsame" => some { fragCred := some 0 }
  | "fragnocand" => some { fragCred := some 0 }
  | "fragbadcand" => some { fragCred := some 0, patchOk := false }
  | "fragrestart" => some { fragCred := some 1 }
  | "fragrestart2" => some { fragCred := some 2 }
  | "fragbad" => some { fragOk := false }
  | "fragjunk" => some {}
  | _ => none

def parseVia (s : String) : Option Galene.Whip.Via :=
  if s = "g" then some .g else if s = "e" then some .e else if s = "r" then some .r else none

/-- `S12` ↦ 12 -/
def nameNo (pre : Char) (s : String) : Option Nat :=
  match s.toList with
  | c :: ds => if c = pre ∧ ds ≠ [] ∧ ds.all Char.isDigit then (String.ofList ds).toNat? else none
  | [] => none

structure MockRow where
  n : Nat
  deriving Repr

open Galene.Whip in
def etagName (e : Str) : String :=
  if e = [] then "-" else String.ofList (e.filter (· ≠ '"'))

open Galene.Whip in
/-- the group in which the WhipClient object with this id is a member -/
def memberOf (w : World) (id : Id) : Option Str :=
  (w.groups.find? (fun p => p.2.clients.contains id && !p.2.nonWhip.contains id)).map (·.1)

open Galene.Whip in
/-- a non-WHIP client holds this id in this group -/
def holds (w : World) (id : Id) (g : Str) : Bool :=
  match w.group? g with
  | some grp => grp.nonWhip.contains id
  | none => false

open Galene.Whip in
def renderSession (w : World) (s : Session) : String :=
  let name := match s.id with | .s n => s!"S{n}" | .m n => s!"M{n}" | .x _ => "X"
  let inG := match memberOf w s.id with | some g => esc g | none => "-"
  let cg := match s.group with | some g => esc g | none => "-"
  let g := if cg = inG then inG else inG ++ "!" ++ cg
  let cf := if s.conn then s!"c{s.cred}" ++ (if s.stuck then "!" else "") else "n"
  s!"{name}/{g}/{esc s.token}/{plusList s.perms}/{etagName s.etag}/{cf}"

/-- insertion sort of group names by byte order (the harness sorts them) -/
def strLe (a b : Str) : Bool := (a.map Char.toNat) ≤ (b.map Char.toNat)

def insertSorted (x : Str × Bool) : List (Str × Bool) → List (Str × Bool)
  | [] => [x]
  | y :: ys => if strLe x.1 y.1 then x :: y :: ys else y :: insertSorted x ys

open Galene.Whip in
def renderState (w : World) (mocks : List (Nat × Id × Str × Bool)) : String :=
  let ss := w.sessions.map (renderSession w)
  -- (the flag says whether this mock is the one that joined last under that id: two mocks may use
  -- the same id one after the other, and the model's table only knows ids)
  let ms := mocks.map fun (n, id, g, joined) => if joined && holds w id g then s!"M{n}/{esc g}" else s!"M{n}/-"
  let grs := (w.groups.foldr (fun p acc => insertSorted (p.1, p.2.locked) acc) []).map
    fun p => esc p.1 ++ (if p.2 then "*" else "")
  let j (l : List String) := if l.isEmpty then "-" else ",".intercalate l
  s!"st={j ss};{j ms} gr={j grs}"

open Galene.Whip in
def renderResp (r : Resp) : String :=
  let loc := match r.location with | some (.s n) => s!"S{n}" | some _ => "?" | none => "-"
  let et := match r.etag with | some e => etagName e | none => "-"
  let h (s : Str) := if s = [] then "-" else esc s
  s!"{r.status} loc={loc} etag={et} allow={h r.allow} accept={h r.accept} acam={h r.acam}"

/-! ## part 2: the property oracle (independent of Model/Whip.lean) -/

structure OUser where
  pw : String       -- n e x w
  perm : String     -- role name or [a+b]
  deriving Repr

structure OGroup where
  name : String             -- escaped, as in the op
  ok : Bool                 -- the description parses
  whip : Option OUser       -- the entry of user "whip"
  wild : Option OUser
  deriving Repr

structure OToken where
  name : Str
  group : Str
  sub : Bool
  perms : List Str
  exp : String              -- none past future
  nb : String
  deriving Repr

structure OSess where
  name : String
  group : String            -- escaped group name or "-"
  token : Str
  perms : List Str
  rest : String             -- etag/conn fields, compared as text
  deriving Repr

structure Orc where
  groups : List OGroup := []
  tokens : List OToken := []
  sess : List OSess := []
  mocks : String := "-"
  deriving Repr

def oLower (c : Char) : Char := if c.toNat ≥ 65 ∧ c.toNat ≤ 90 then Char.ofNat (c.toNat + 32) else c

/-- fields of a string separated by runs of blanks -/
def oFields (s : Str) : List Str :=
  let (cur, acc) := s.foldl (fun (st : Str × List Str) c =>
    if c = ' ' ∨ c = '\t' then (if st.1 = [] then st else ([], st.1.reverse :: st.2)) else (c :: st.1, st.2)) ([], [])
  (if cur = [] then acc else cur.reverse :: acc).reverse

/-- split at commas -/
def oCommas (s : Str) : List Str :=
  let (cur, acc) := s.foldl (fun (st : Str × List Str) c =>
    if c = ',' then ([], st.1.reverse :: st.2) else (c :: st.1, st.2)) ([], [])
  (cur.reverse :: acc).reverse

/-- every string the Authorization header offers as a bearer credential (lenient: any element
`bearer <x> …` in any letter case, blanks of any kind and number) -/
def oBearers (auth : Str) : List Str :=
  (oCommas auth).filterMap fun a =>
    match oFields a with
    | k :: v :: _ => if k.map oLower = "bearer".toList then some v else none
    | _ => none

def oPermHasPresent (perm : String) : Bool :=
  if perm.startsWith "[" then
    (((perm.drop 1).dropEnd 1).toString.splitOn "+").any (· = "present")
  else perm = "op" || perm = "present"

/-- the anonymous WHIP credentials (user "whip", empty password) grant 'present' in this group -/
def oAnonGrants (g : OGroup) : Bool :=
  g.ok &&
  match g.whip with
  | some u => (u.pw = "e" || u.pw = "w") && oPermHasPresent u.perm
  | none =>
    match g.wild with
    | some u => (u.pw = "e" || u.pw = "w") && oPermHasPresent u.perm
    | none => false

/-- this stored token grants 'present' in the group (unescaped name) right now -/
def oTokenGrants (t : OToken) (g : Str) : Bool :=
  (t.group = g || (t.sub && (t.group = [] || (t.group ++ ['/']).isPrefixOf g))) &&
  t.exp = "future" && t.nb ≠ "future" && t.perms.contains "present".toList

def oParseSess (s : String) : Option (List OSess) :=
  if s = "-" then some []
  else (s.splitOn ",").mapM fun e =>
    match e.splitOn "/" with
    | [name, g, tok, perms, et, cf] => do
      let tok ← unesc tok
      let perms ← unplus perms
      pure { name := name, group := g, token := tok, perms := perms, rest := et ++ "/" ++ cf }
    | _ => none

/-- the `st=` and `gr=` tokens at the end of every stateful result -/
def oParseState (impl : List String) : Option (List OSess × String) :=
  match impl.find? (·.startsWith "st=") with
  | some t =>
    match ((t.drop 3).toString).splitOn ";" with
    | [ss, ms] => (oParseSess ss).map fun l => (l, ms)
    | _ => none
  | none => none

def oSame (a b : OSess) : Bool :=
  a.name = b.name && a.group = b.group && a.token = b.token && a.perms = b.perms && a.rest = b.rest

/-- first `@S<n>` in the (escaped) path token -/
def oTarget (path : String) : Option String :=
  match path.splitOn "@S" with
  | _ :: after :: _ =>
    let ds := after.toList.takeWhile Char.isDigit
    if ds = [] then none else some ("S" ++ String.ofList ds)
  | _ => none

/-- everything the oracle demands of one stateful step: `target` is the only session the op may
touch, `mayCreate` says whether a new session may appear. Returns the new oracle state and a
verdict. -/
def oCommon (o : Orc) (what : String) (target : Option String) (news : List OSess) (mocks : String)
    (allowNew : Bool) : Option String :=
  -- (c) nobody else changes
  let changedOther := o.sess.find? fun old =>
    some old.name ≠ target && !(news.any (oSame old))
  let fresh := news.filter fun n => !(o.sess.any (·.name = n.name))
  let noPresent := news.find? fun n => n.group ≠ "-" && !(n.perms.contains "present".toList)
  -- the harness writes `a!b` when the group's client table and the session's own group pointer disagree
  let split := news.find? fun n => n.group.contains '!' 
  match changedOther with
  | some s => some s!"C11: {what} changed session {s.name}, which it does not address"
  | none =>
    if mocks ≠ o.mocks && !(what.startsWith "mock" || what.startsWith "unmock") then
      some s!"C11: {what} changed the non-WHIP members"
    else if !allowNew && !fresh.isEmpty then
      some s!"C11: {what} left a new member behind: {(fresh.map (·.name))}"
    else match noPresent, split with
      | some s, _ => some s!"C11: WHIP session {s.name} is a member without holding 'present'"
      | _, some s => some s!"C11: after {what}, session {s.name} is in a group's client table and bound to another group or none ({s.group}): member and non-member at once"
      | none, none => none

def oReq (o : Orc) (method path auth : String) (impl : List String) : Orc × Verdict :=
  match impl.head?, oParseState impl, unesc auth with
  | some statusTok, some (news, mocks), some authB =>
    let status := statusTok.toNat?.getD 0
    let o' := { o with sess := news, mocks := mocks }
    let target := oTarget path
    let what := s!"{method} answered {status}"
    let bearers := oBearers authB
    let fresh := news.filter fun n => !(o.sess.any (·.name = n.name))
    let loc := (impl.find? (·.startsWith "loc=")).map (fun t => (t.drop 4).toString)
    match oCommon o what target news mocks (status = 201) with
    | some msg => (o', .oracle msg)
    | none =>
      if status = 201 then
        -- (a) ingest accepted: exactly one new session, made with credentials granting 'present'
        match fresh with
        | [n] =>
          if method ≠ "POST" then (o', .oracle s!"C11: {what} created session {n.name}")
          else if loc ≠ some n.name then (o', .oracle s!"C11: 201 without the Location of the new session {n.name}")
          else if n.group = "-" then (o', .oracle s!"C11: 201 but session {n.name} is in no group")
          else
            let grants :=
              if n.token = [] then
                match o.groups.find? (·.name = n.group) with
                | some g => oAnonGrants g
                | none => false
              else
                bearers.contains n.token &&
                (match unesc n.group, o.groups.find? (·.name = n.group) with
                 | some gname, some g => g.ok && (o.tokens.any fun t => t.name = n.token && oTokenGrants t gname)
                 | _, _ => false)
            if grants then (o', .ok)
            else (o', .oracle s!"C11: WHIP session {n.name} created in {n.group} with credentials that do not grant 'present' there (bearer token {esc n.token})")
        | _ => (o', .oracle s!"C11: 201 but {fresh.length} new sessions")
      else
        -- (b) an accepted state-changing request on a session carries its creating token
        let accepted := (method = "DELETE" || method = "PATCH") && 200 ≤ status && status < 300
        match target with
        | some t =>
          match o.sess.find? (·.name = t) with
          | some old =>
            let changed := !(news.any (oSame old))
            if (accepted || changed) && old.group = "-" then
              (o', .oracle s!"C11: {what} acted on session {t}, which is not a member of any group")
            else if (accepted || changed) && old.token ≠ [] && !(bearers.contains old.token) then
              (o', .oracle s!"C11: {what} acted on session {t} without its creating bearer token")
            else (o', .ok)
          | none =>
            if accepted then (o', .oracle s!"C11: {what} accepted for a session that does not exist")
            else (o', .ok)
        | none =>
          if accepted then (o', .oracle s!"C11: {what} accepted for a path that names no session") else (o', .ok)
  | _, _, _ => (o, .badop "req result")

/-- non-request ops: only the addressed session may change -/
def oEnv (o : Orc) (what : String) (target : Option String) (impl : List String) : Orc × Verdict :=
  match oParseState impl with
  | some (news, mocks) =>
    let o' := { o with sess := news, mocks := mocks }
    match oCommon o what target news mocks false with
    | some msg => (o', .oracle msg)
    | none => (o', .ok)
  | none => (o, .badop "state")

/-! ## the step function -/

structure St where
  w : Galene.Whip.World := {}
  /-- mocks in order of first successful join, with the id each one uses, the group it joined and
  whether it has not left since -/
  mocks : List (Nat × Galene.Whip.Id × Str × Bool) := []
  orc : Orc := {}

def both (ov mv : Verdict) : Verdict := match ov with | .ok => mv | o => o

open Galene.Whip in
def stepCore (st : St) (op impl : List String) : St × Verdict :=
  let fin (w : World) (mocks : List (Nat × Id × Str × Bool)) (res : String) (orc : Orc × Verdict) : St × Verdict :=
    ({ w := w, mocks := mocks, orc := orc.1 }, both orc.2 (cmp (res ++ " " ++ renderState w mocks) impl))
  match op with
  | ["bearer", a] =>
    match unesc a with
    | some a => (st, cmp (esc (parseBearerToken a)) impl)
    | none => (st, .badop "bearer")
  | ["deob", s] =>
    match unesc s with
    | some s => (st, cmp (if (deobfuscate s).isSome then "ok" else "err") impl)
    | none => (st, .badop "deob")
  | ["group", name, max, nb, exp, wild, users] =>
    match unesc name, nat? max, parseWhen nb, parseWhen exp, parseWild wild, parseUsers users with
    | some n, some max, some nb, some exp, some wd, some us =>
      let d : Desc := { users := us, wildcard := wd, maxClients := max, notBefore := nb, expires := exp }
      let w := (Galene.Whip.step st.w (.setFile n (.desc d))).1
      let og : OGroup :=
        { name := name, ok := true,
          whip := (users.splitOn ";").findSome? (fun u => match u.splitOn ":" with
            | [un, pw, perm] => if un = "whip" then some { pw := pw, perm := perm } else none
            | _ => none),
          wild := match wild.splitOn ":" with | [pw, perm] => some { pw := pw, perm := perm } | _ => none }
      let orc := { st.orc with groups := og :: st.orc.groups.filter (·.name ≠ name) }
      fin w st.mocks "ok" (oEnv orc "group" none impl)
    | _, _, _, _, _, _ => (st, .badop "group")
  | ["badgroup", name] =>
    match unesc name with
    | some n =>
      let w := (Galene.Whip.step st.w (.setFile n .bad)).1
      let orc := { st.orc with groups := { name := name, ok := false, whip := none, wild := none } :: st.orc.groups.filter (·.name ≠ name) }
      fin w st.mocks "ok" (oEnv orc "badgroup" none impl)
    | none => (st, .badop "badgroup")
  | ["rmgroup", name] =>
    match unesc name with
    | some n =>
      let w := (Galene.Whip.step st.w (.rmFile n)).1
      let orc := { st.orc with groups := st.orc.groups.filter (·.name ≠ name) }
      fin w st.mocks "ok" (oEnv orc "rmgroup" none impl)
    | none => (st, .badop "rmgroup")
  | ["tok", name, grp, sub, user, perms, exp, nb] =>
    match unesc name, unesc grp, bool? sub, unplus perms, parseWhen exp, parseWhen nb with
    | some n, some g, some sb, some ps, some e, some b =>
      let u : Option (Option Str) := if user = "%" then some none else (unesc user).map some
      match u with
      | none => (st, .badop "tok user")
      | some u =>
        let t : Token.Stateful :=
          { group := g, includeSubgroups := sb, username := u, permissions := ps, expires := e, notBefore := b }
        let res := if (st.w.tokens.lookup n).isSome then "err" else "ok"
        let w := (Galene.Whip.step st.w (.addToken n t)).1
        -- the oracle's table follows what the implementation said it did
        let orc := if impl.head? = some "ok" then
            { st.orc with tokens := { name := n, group := g, sub := sb, perms := ps, exp := exp, nb := nb } ::
                st.orc.tokens.filter (·.name ≠ n) }
          else st.orc
        fin w st.mocks res (oEnv orc "tok" none impl)
    | _, _, _, _, _, _ => (st, .badop "tok")
  | ["tokexpire", name] =>
    match unesc name with
    | some n =>
      let res := if (st.w.tokens.lookup n).isSome then "ok" else "err"
      let w := (Galene.Whip.step st.w (.expireToken n)).1
      let orc := if impl.head? = some "ok" then
          { st.orc with tokens := st.orc.tokens.map fun t => if t.name = n then { t with exp := "past" } else t }
        else st.orc
      fin w st.mocks res (oEnv orc "tokexpire" none impl)
    | none => (st, .badop "tokexpire")
  | ["tokdel", name] =>
    match unesc name with
    | some n =>
      let res := if (st.w.tokens.lookup n).isSome then "ok" else "err"
      let w := (Galene.Whip.step st.w (.delToken n)).1
      let orc := if impl.head? = some "ok" then { st.orc with tokens := st.orc.tokens.filter (·.name ≠ n) } else st.orc
      fin w st.mocks res (oEnv orc "tokdel" none impl)
    | none => (st, .badop "tokdel")
  | ["lock", name, b] =>
    match unesc name, bool? b with
    | some n, some b =>
      let res := match (add st.w n).2 with | .ok _ => "ok" | .error _ => "nogroup"
      let w := (Galene.Whip.step st.w (.lock n b)).1
      fin w st.mocks res (oEnv st.orc "lock" none impl)
    | _, _ => (st, .badop "lock")
  | ["mock", m, name, as] =>
    match nameNo 'M' m, unesc name with
    | some k, some n =>
      -- the id the mock uses: its own, or that of a session (which must exist)
      let id? : Option Id :=
        if as = "-" then some (.m k)
        else match nameNo 'S' as with
          | some j => if (st.w.session? (.s j)).isSome then some (.s j) else none
          | none => none
      let already := match st.mocks.lookup k with
        | some (cur, g, joined) => joined && holds st.w cur g
        | none => false
      match id? with
      | none => fin st.w st.mocks "fail" (oEnv st.orc "mock" none impl)
      | some id =>
        if already then fin st.w st.mocks "fail" (oEnv st.orc "mock" none impl)
        else
          let (w1, r) := add st.w n
          let okAdd := match r with | .ok _ => !(w1.clientsOf n).contains id | .error _ => false
          let w := (Galene.Whip.step st.w (.mockJoin id n)).1
          let mocks := if okAdd then
              (if (st.mocks.lookup k).isSome then st.mocks.map (fun p => if p.1 = k then (k, id, n, true) else p)
               else st.mocks ++ [(k, id, n, true)])
            else st.mocks
          fin w mocks (if okAdd then "ok" else "fail") (oEnv st.orc "mock" none impl)
    | _, _ => (st, .badop "mock")
  | ["unmock", m] =>
    match nameNo 'M' m with
    | some k =>
      let w := match st.mocks.lookup k with
        | some (id, g, joined) => if joined && holds st.w id g then (Galene.Whip.step st.w (.mockLeave id g)).1 else st.w
        | none => st.w
      let mocks := st.mocks.map (fun p => if p.1 = k then (p.1, p.2.1, p.2.2.1, false) else p)
      fin w mocks "ok" (oEnv st.orc "unmock" none impl)
    | none => (st, .badop "unmock")
  | [kind, s] =>
    if kind = "kick" ∨ kind = "iceclose" then
      match nameNo 'S' s with
      | some k =>
        if (st.w.session? (.s k)).isSome then
          let w := (Galene.Whip.step st.w (if kind = "kick" then .kick (.s k) else .iceClose (.s k))).1
          fin w st.mocks "ok" (oEnv st.orc kind (some s) impl)
        else fin st.w st.mocks "nosession" (oEnv st.orc kind (some s) impl)
      | none => (st, .badop kind)
    else (st, .badop "unknown op")
  | ["req", via, method, path, auth, im, inm, ctype, body] =>
    match parseVia via, unesc method, unesc path, unesc auth, unesc im, unesc inm, unesc ctype, bodyOf body with
    | some v, some m, some p, some a, some im', some inm', some ct, some b =>
      let r : Req := { method := m, path := p, auth := a, ifMatch := im', ifNoneMatch := inm', ctype := ct, body := b }
      let (w, out) := handle st.w v r
      let res := match out with
        | .resp r => renderResp r
        | .crash => "panic"
        | .notWhip => "notwhip"
      fin w st.mocks res (oReq st.orc method path auth impl)
    | _, _, _, _, _, _, _, _ => (st, .badop "req")
  | _ => (st, .badop "unknown op")

/-- a Go panic recovered by the harness (`panic:<msg>`) has no state to parse: leave the verdict to
the driver, which reports it as a C12 oracle failure with the op as replay -/
def step (st : St) (op impl : List String) : St × Verdict :=
  if (impl.head?.getD "").startsWith "panic" then (st, .mismatch "a response") else
  -- a member that re-requests the publisher's streams the moment it is told a WHIP stream is closed must not be pushed
  -- that stream again (the harness appends `ghost=<member>:<stream>` when it is)
  match impl.find? (·.startsWith "ghost=") with
  | some g =>
    let (st', _) := stepCore st op (impl.filter (fun t => !t.startsWith "ghost="))
    (st', .oracle s!"C07,C13: WHIP teardown is not atomic with respect to a stream request: member:stream {(g.drop 6).toString} — the member had been told the stream was closed (PushConn with no connection) and, asking for the publisher's streams at that moment, was pushed the closed stream again: it keeps a stream that no longer exists")
  | none => stepCore st op impl

def engine : EngineDef := { σ := St, init := {}, step := step }

end Galene.Engine.Whip
