import GaleneVerif.Model.Token
import GaleneVerif.Engine.Common
/-
Engine `token` (C09): token scope, validity window, permissions.
Ops (see harness/cmd/token/main.go for the encodings):
  smatch <tokgroup> <sub> <group>                            => 0|1
  matchgroup <path> <group> <sub>                            => 0|1
  scheck <tokgroup> <sub> <group> <exp> <nbf> <user> <perms> => ok <user> <perms> | badgroup | expired | future
  sadd <name> <tokgroup> <sub> <exp> <nbf> <user> <perms>    => ok|err
  jwtcheck <keyset> <jwt×10> <host> <group>                  => ok <user> <perms> | parse:<class> | check:<class>
  getperms <users> <host> <group> <cuser> <tokname>          => ok <user> <perms> | <class>
  getpermj <users> <cuser> <keyset> <jwt×10> <host> <group>  => ok <user> <perms> | <class>
  globaladmin <tokname>                                      => 1|0|err:<class>
  globaladminj <jwt×10> <host>                               => 1|0|err:<class>
  validuser <name>                                           => 0|1
<jwt×10> = <halg> <hkid> <signer> <exp> <nbf> <iat> <aud> <sub> <incl> <perms>.
Times are offsets in seconds from the instant of execution: the model runs with now = 0.

The oracle (`O…` definitions, messages `C09: …`) is computed from the op tokens and the
implementation's result only; it does not call anything in Galene.Token.
-/
namespace Galene.Engine.Token
open Galene Galene.Engine Galene.Token

/-! ## escaping (same as esc/unesc in the Go harness) -/

def safeChar (c : Char) : Bool := c.isAlphanum || c = '_' || c = '.' || c = '-'

def hexU (n : Nat) : Char := "0123456789ABCDEF".toList.getD n '0'

def esc (s : Str) : String :=
  if s.isEmpty then "%"
  else String.ofList (s.flatMap fun c =>
    if safeChar c then [c] else ['%', hexU (c.toNat / 16 % 16), hexU (c.toNat % 16)])

def unescAux : List Char → List Char → Option Str
  | [], acc => some acc.reverse
  | '%' :: a :: b :: rest, acc =>
    match hexVal a, hexVal b with
    | some x, some y => unescAux rest (Char.ofNat (x * 16 + y) :: acc)
    | _, _ => none
  | '%' :: _, _ => none
  | c :: rest, acc => unescAux rest (c :: acc)

def unesc (s : String) : Option Str := if s = "%" then some [] else unescAux s.toList []

/-- "~…" = absent -/
def optS (s : String) : Option (Option Str) :=
  if s.startsWith "~" then some none else (unesc s).map some

def listS (s : String) : Option (List Str) :=
  if s = "~" then some [] else (s.splitOn ",").mapM unesc

def optInt (s : String) : Option (Option Int) :=
  if s = "~" then some none else (int? s).map some

def escList (xs : List Str) : String :=
  if xs.isEmpty then "~" else ",".intercalate (xs.map esc)

def okRes (r : Str × List Str) : String := s!"ok {esc r.1} {escList r.2}"

/-! ## decoding of key sets and JWT specs -/

def allDigits (cs : List Char) : Bool := !cs.isEmpty && cs.all Char.isDigit

def decodeKey (d : String) : Option Key :=
  match d.splitOn ":" with
  | [kty, alg, kid, mat] => do
    let kty ← optS kty
    let alg ← optS alg
    let kid ← optS kid
    let m := mat.toList
    let klen : Option Nat :=
      match m with
      | 'o' :: rest =>
        let ds := rest.takeWhile Char.isDigit
        if allDigits ds then (String.ofList ds).toNat? else none
      | _ => none
    let ecOk := match m with | 'e' :: rest => allDigits rest | _ => false
    let rsaOk := match m with | 'r' :: rest => allDigits rest | _ => false
    some { kty, alg, kid, klen, ecOk, rsaOk, material := m }
  | _ => none

def decodeKeys (s : String) : Option (List Key) :=
  if s = "~" then some [] else (s.splitOn ";").mapM decodeKey

def decodeNum (s : String) : Option NumClaim :=
  if s = "~" || s = "~z" then some .absent
  else if s = "~s" then some .invalid
  else (int? s).map .at

def decodeAudEntry (e : String) : Option (Option (Option (Str × Str))) :=
  -- outer none: malformed op; middle none: a non-string array element
  if e = "~num" then some none
  else if e = "!" then some (some none)
  else
    match e.splitOn "|" with
    | [h, p] => do
      let h ← unesc h
      let p ← unesc p
      some (some (some (h, p)))
    | _ => none

def decodeAud (s : String) : Option (Option (List (Option (Str × Str)))) :=
  -- a number (or any non-string, non-array value) is silently an empty audience in MapClaims.parseClaimsString
  if s = "~" || s = "~num" || s = "a:" then some (some [])
  else if s.startsWith "s:" then
    match decodeAudEntry (String.ofList (s.toList.drop 2)) with
    | some (some e) => some (some [e])
    | _ => none
  else if s.startsWith "a:" then do
    let es ← ((String.ofList (s.toList.drop 2)).splitOn ",").mapM decodeAudEntry
    some (es.mapM id)
  else none

structure Signer where
  real : Bool
  method : Str
  material : Str

def decodeSigner (s : String) : Option Signer :=
  if s.startsWith "~" then some { real := false, method := [], material := [] }
  else
    match s.splitOn ":" with
    | [m, mat] => some { real := true, method := m.toList, material := mat.toList }
    | _ => none

/-- ground truth of the signature check, known by construction of the token -/
def verifyOf (sg : Signer) (k : Key) (alg : Str) : Bool :=
  sg.real && alg = sg.method && k.material = sg.material

/-- signing methods registered by golang-jwt v5 -/
def jwtMethods : List Str :=
  ["HS256", "HS384", "HS512", "RS256", "RS384", "RS512", "ES256", "ES384", "ES512",
   "PS256", "PS384", "PS512", "EdDSA", "none"].map String.toList

def decodeJwt (f : List String) : Option (TokenInput × Params) :=
  match f with
  | [halg, hkid, signer, exp, nbf, iat, aud, sub, incl, perms] => do
    let alg ← optS halg
    let kid ← optS hkid
    let sg ← decodeSigner signer
    let exp ← decodeNum exp
    let nbf ← decodeNum nbf
    let iat ← decodeNum iat
    let aud ← decodeAud aud
    let sub : Option Str ← if sub = "~" then some (some []) else if sub = "~num" then some none else (unesc sub).map some
    let perms : Option (List Str) ←
      if perms = "~" || perms = "~null" || perms = "~empty" then some (some [])
      else if perms = "~num" || perms = "~mixed" then some none
      else (listS perms).map some
    let P : Params := { methods := jwtMethods, verify := verifyOf sg, leeway := 5 }
    if signer = "~mal2" || signer = "~malb64" || signer = "~maljson" then some (.malformed, P)
    else
      some (.jwt { alg, kid := kid.getD [], exp, nbf, iat, aud, sub, includeSubgroups := incl = "1", perms,
                   sigMalformed := signer = "~malsig" }, P)
  | _ => none

def decodeStateful (tg sub exp nbf user perms : String) : Option Stateful := do
  let tg ← unesc tg
  let sub ← bool? sub
  let exp ← optInt exp
  let nbf ← optInt nbf
  let user ← optS user
  let perms ← listS perms
  some { group := tg, includeSubgroups := sub, username := user, permissions := perms, expires := exp, notBefore := nbf }

/-! ## result classes -/

def pErrS : PErr → String
  | .unverifiable => "unverifiable" | .badSig => "badsig" | .claims => "claims"

def parseErrS : ParseErr → String
  | .jwt e => pErrS e | .notFound => "notfound"

def checkErrS : CheckErr → String
  | .stateful .badGroup => "badgroup" | .stateful .expired => "expired" | .stateful .future => "future"
  | .jwt .badClaim => "badclaim" | .jwt .wrongGroup => "wronggroup" | .jwt .badPerms => "badperms"

def permErrS : PermErr → String
  | .notAuthorisedParse e => "notauth:" ++ parseErrS e
  | .usernameRequired => "usernamerequired"
  | .notAuthorisedCheck e => "notauth:" ++ checkErrS e
  | .duplicateUsername => "duplicate"
  | .invalidUsername => "notauth:invalidusername"

def permResS : Except PermErr (Str × List Str) → String
  | .ok r => okRes r
  | .error e => permErrS e

def adminResS : Except (ParseErr ⊕ CheckErr) Bool → String
  | .ok b => b2s b
  | .error (.inl e) => "err:" ++ parseErrS e
  | .error (.inr e) => "err:" ++ checkErrS e

/-! ## the C09 oracle: what the property demands of an *accepting* answer -/

/-- components of a group name; the empty name is the root (no components) -/
def OComps (s : Str) : List Str :=
  if s.isEmpty then []
  else
    let r := s.foldl (fun (acc : List Str × Str) c => if c = '/' then (acc.2.reverse :: acc.1, []) else (acc.1, c :: acc.2)) ([], [])
    (r.2.reverse :: r.1).reverse

def OProperPrefix (a b : List Str) : Bool := a.length < b.length && b.take a.length == a

/-- the token's group is this group, or an ancestor when the token covers subgroups -/
def OCovers (tg g : Str) (sub : Bool) : Bool := g == tg || (sub && OProperPrefix (OComps tg) (OComps g))

/-- the group named by an audience path "/group/<name>/" ("/group/" is the root) -/
def OPathGroup (p : Str) : Option Str :=
  let pre := "/group/".toList
  if p == pre then some []
  else if p.length ≥ 8 && p.take 7 == pre && p.getLast? == some '/' then some ((p.drop 7).dropLast)
  else none

def OLower (s : Str) : Str := s.map fun c => if c.toNat ≥ 65 && c.toNat ≤ 90 then Char.ofNat (c.toNat + 32) else c

/-- raw stateful token as written in the op -/
structure RawTok where
  group : Str
  sub : Bool
  exp : Option Int
  nbf : Option Int
  user : Option Str
  perms : List Str

def decodeRaw (tg sub exp nbf user perms : String) : Option RawTok := do
  some { group := ← unesc tg, sub := ← bool? sub, exp := ← optInt exp, nbf := ← optInt nbf,
         user := ← optS user, perms := ← listS perms }

/-- scope and window of a stateful token (offsets are ≥ 2 s away from the boundaries) -/
def OStatefulValid (t : RawTok) (g : Str) : Option String :=
  if !OCovers t.group g t.sub then
    some s!"C09: stateful token for group '{esc t.group}' (subgroups={t.sub}) let its bearer into '{esc g}'"
  else match t.exp with
    | none => some "C09: stateful token without expiry was accepted"
    | some e =>
      if e < 0 then some s!"C09: stateful token accepted {-e} s after its expiry"
      else match t.nbf with
        | some n => if n > 0 then some s!"C09: stateful token accepted {n} s before its not-before time" else none
        | none => none

def OGrants (what : String) (tokUser : Str) (tokPerms : List Str) (impl : List String) : Option String :=
  match impl with
  | [_, u, p] =>
    match unesc u, listS p with
    | some u, some p =>
      if u ≠ tokUser then some s!"C09: {what} granted username '{esc u}', the token says '{esc tokUser}'"
      else if p ≠ tokPerms then some s!"C09: {what} granted permissions {escList p}, the token says {escList tokPerms}"
      else none
    | _, _ => some "C09: unreadable result"
  | _ => some "C09: unreadable result"

/-- username rules of GetPermission's token branch -/
def OUsername (tokUser : Str) (cuser : Option Str) (users : List Str) (impl : List String) : Option String :=
  match impl with
  | [_, u, _] =>
    match unesc u with
    | some u =>
      if !tokUser.isEmpty then
        if u ≠ tokUser then some s!"C09: token username '{esc tokUser}' did not override: granted '{esc u}'" else none
      else
        match cuser with
        | some cu =>
          if u ≠ cu then some s!"C09: granted username '{esc u}' is neither the token's nor the client's"
          else if users.contains cu && !cu.isEmpty then some s!"C09: client-chosen username '{esc cu}' shadows a configured user"
          else none
        | none => if u.isEmpty then none else some s!"C09: granted username '{esc u}' from nowhere"
    | none => some "C09: unreadable result"
  | _ => some "C09: unreadable result"

def orElse (a : Option String) (b : Unit → Option String) : Option String :=
  match a with | some m => some m | none => b ()

/-- what the property demands of an accepted signed token; computed from the op tokens only -/
def OJwtValid (keys : String) (f : List String) (host g : Str) : Option String :=
  match f with
  | [_halg, _hkid, signer, exp, nbf, _iat, aud, _sub, incl, _perms] =>
    -- signature: one of the group's keys, with the algorithm declared for that key
    let keyOk : Bool :=
      match signer.splitOn ":" with
      | [m, mat] =>
        !signer.startsWith "~" && keys ≠ "~" &&
          (keys.splitOn ";").any fun k =>
            match k.splitOn ":" with
            | [_, kalg, _, kmat] => kalg == m && kmat == mat
            | _ => false
      | _ => false
    if !keyOk then some s!"C09: signed token accepted although no key of the group verifies it (signer {signer}, keys {keys})"
    else
      let expV : Option String :=
        match int? exp with
        | none => some "C09: signed token without (numeric, non-zero) expiry was accepted"
        | some e => if e < -5 then some s!"C09: signed token accepted {-e} s after its expiry (leeway 5 s)" else none
      orElse expV fun _ =>
      let nbfV : Option String :=
        match int? nbf with
        | some n => if n > 5 then some s!"C09: signed token accepted {n} s before its not-before time (leeway 5 s)" else none
        | none => none
      orElse nbfV fun _ =>
      -- audience: this host (if configured) and this group
      let entries : List String :=
        if aud.startsWith "s:" then [String.ofList (aud.toList.drop 2)]
        else if aud.startsWith "a:" then (String.ofList (aud.toList.drop 2)).splitOn ","
        else []
      let inclOK : List Bool := if incl = "1" then [true] else if incl = "~s" then [false, true] else [false]
      let audOk : Bool := entries.any fun e =>
        match e.splitOn "|" with
        | [h, p] =>
          match unesc h, unesc p with
          | some h, some p =>
            (host.isEmpty || OLower h == OLower host) &&
              (match OPathGroup p with
               | some tg => inclOK.any fun i => OCovers tg g i
               | none => false)
          | _, _ => false
        | _ => false
      if !audOk then some s!"C09: signed token accepted for host '{esc host}' group '{esc g}' although no audience names them ({aud}, include-subgroups {incl})"
      else none
  | _ => some "C09: bad jwt spec"

def OJwtGrants (f : List String) : Option (Str × List Str) :=
  match f with
  | [_, _, _, _, _, _, _, sub, _, perms] => do
    let u ← if sub.startsWith "~" then some [] else unesc sub
    let p ← if perms.startsWith "~" then some [] else listS perms
    some (u, p)
  | _ => none

/-! ## engine state and step -/

structure St where
  store : List (String × Stateful) := []
  ostore : List (String × RawTok) := []

def verdict (o : Option String) (v : Verdict) : Verdict :=
  match o with | some m => .oracle m | none => v

def isOk (impl : List String) : Bool := impl.head? == some "ok"

/-- parameters for ops that involve no JWT -/
def noJwt : Params := { methods := jwtMethods, verify := fun _ _ => false, leeway := 5 }

/-- C19 oracle (independent of the model): a username the server accepts must be "" or consist of
'/'-separated components none of which is "", "." or "..", without any backslash -/
def ONameValid (impl : List String) : Option String :=
  match impl with
  | [_, u, _] =>
    match unesc u with
    | some name =>
      if name.isEmpty then none
      else
        let comps : List (List Char) := name.foldr (fun c acc =>
          if c = '/' then [] :: acc else match acc with
            | [] => [[c]]
            | a :: r => (c :: a) :: r) [[]]
        if name.contains '\\' || comps.any (fun c => c = [] || c = ['.'] || c = ['.', '.']) then
          some s!"C19: a login was accepted with the username '{u}', which is not a valid username (it comes from the token, not from the client)"
        else none
    | none => none
  | _ => none

def step (st : St) (op impl : List String) : St × Verdict :=
  match op with
  | ["smatch", tg, sub, g] =>
    match unesc tg, bool? sub, unesc g with
    | some tg, some sub, some g =>
      let t : Stateful := { group := tg, includeSubgroups := sub }
      let o := if impl = ["1"] && !OCovers tg g sub then
          some s!"C09: Stateful.match: token for group '{esc tg}' (subgroups={sub}) matches group '{esc g}'" else none
      (st, verdict o (cmp (b2s (t.match g)) impl))
    | _, _, _ => (st, .badop "smatch")
  | ["matchgroup", p, g, sub] =>
    match unesc p, unesc g, bool? sub with
    | some p, some g, some sub =>
      let o := if impl = ["1"] && !(match OPathGroup p with | some tg => OCovers tg g sub | none => false) then
          some s!"C09: matchGroup: audience path '{esc p}' (subgroups={sub}) matches group '{esc g}'" else none
      (st, verdict o (cmp (b2s (matchGroup p g sub)) impl))
    | _, _, _ => (st, .badop "matchgroup")
  | ["validuser", u] =>
    match unesc u with
    | some u => (st, cmp (b2s (validUsername u)) impl)
    | none => (st, .badop "validuser")
  | ["scheck", tg, sub, g, exp, nbf, user, perms] =>
    match decodeStateful tg sub exp nbf user perms, decodeRaw tg sub exp nbf user perms, unesc g with
    | some t, some raw, some g =>
      let m := match t.check 0 g with
        | .ok r => okRes r
        | .error e => checkErrS (.stateful e)
      let o := if isOk impl then
          orElse (OStatefulValid raw g) fun _ => OGrants "Stateful.Check" (raw.user.getD []) raw.perms impl
        else none
      (st, verdict o (cmp m impl))
    | _, _, _ => (st, .badop "scheck")
  | ["sadd", name, tg, sub, exp, nbf, user, perms] =>
    match decodeStateful tg sub exp nbf user perms, decodeRaw tg sub exp nbf user perms with
    | some t, some raw =>
      if (st.store.lookup name).isSome then (st, cmp "err" impl)
      else
        let st' : St := { store := (name, t) :: st.store,
                          ostore := if impl = ["ok"] then (name, raw) :: st.ostore else st.ostore }
        (st', cmp "ok" impl)
    | _, _ => (st, .badop "sadd")
  | "jwtcheck" :: keys :: rest =>
    if rest.length ≠ 12 then (st, .badop "jwtcheck") else
    let f := rest.take 10
    match decodeKeys keys, decodeJwt f, unesc (rest.getD 10 ""), unesc (rest.getD 11 "") with
    | some ks, some (inp, P), some host, some g =>
      let m := match parse P ks 0 inp none with
        | .error e => "parse:" ++ parseErrS e
        | .ok tok => match tok.check 0 host g with
          | .error e => "check:" ++ checkErrS e
          | .ok r => okRes r
      let o := if isOk impl then
          orElse (OJwtValid keys f host g) fun _ =>
            match OJwtGrants f with
            | some (u, p) => OGrants "JWT.Check" u p impl
            | none => some "C09: bad jwt spec"
        else none
      (st, verdict o (cmp m impl))
    | _, _, _, _ => (st, .badop "jwtcheck")
  | ["getperms", users, host, g, cuser, name] =>
    match listS users, unesc host, unesc g, optS cuser, unesc name with
    | some users, some host, some g, some cuser, some _ =>
      let m := permResS (getPermissionToken noJwt [] users host 0 g cuser .malformed (st.store.lookup name))
      let o := if isOk impl then
          match st.ostore.lookup name with
          | none => some s!"C09: unknown token {name} was accepted"
          | some raw =>
            orElse (ONameValid impl) fun _ =>
            orElse (OStatefulValid raw g) fun _ =>
            orElse (OUsername (raw.user.getD []) cuser users impl) fun _ =>
              match impl with
              | [_, u, _] => OGrants "GetPermission" ((unesc u).getD []) raw.perms impl
              | _ => some "C09: unreadable result"
        else none
      (st, verdict o (cmp m impl))
    | _, _, _, _, _ => (st, .badop "getperms")
  | "getpermj" :: users :: cuser :: keys :: rest =>
    if rest.length ≠ 12 then (st, .badop "getpermj") else
    let f := rest.take 10
    match listS users, optS cuser, decodeKeys keys, decodeJwt f, unesc (rest.getD 10 ""), unesc (rest.getD 11 "") with
    | some users, some cuser, some ks, some (inp, P), some host, some g =>
      let m := permResS (getPermissionToken P ks users host 0 g cuser inp none)
      let o := if isOk impl then
          orElse (ONameValid impl) fun _ =>
          orElse (OJwtValid keys f host g) fun _ =>
            match OJwtGrants f, impl with
            | some (tu, p), [_, u, _] =>
              orElse (OUsername tu cuser users impl) fun _ => OGrants "GetPermission" ((unesc u).getD []) p impl
            | _, _ => some "C09: unreadable result"
        else none
      (st, verdict o (cmp m impl))
    | _, _, _, _, _, _ => (st, .badop "getpermj")
  | ["globaladmin", name] =>
    let m := adminResS (checkGlobalAdminToken noJwt [] 0 .malformed (st.store.lookup name))
    let o := if impl = ["1"] then
        match st.ostore.lookup name with
        | none => some s!"C09: unknown token {name} is global administrator"
        | some raw =>
          if !raw.group.isEmpty || !raw.sub then
            some s!"C09: token for group '{esc raw.group}' (subgroups={raw.sub}) is global administrator"
          else if !raw.perms.contains "admin".toList then some "C09: token without the admin permission is global administrator"
          else OStatefulValid raw []
      else none
    (st, verdict o (cmp m impl))
  | "globaladminj" :: rest =>
    if rest.length ≠ 11 then (st, .badop "globaladminj") else
    match decodeJwt (rest.take 10), unesc (rest.getD 10 "") with
    | some (inp, P), some host =>
      let m := adminResS (checkGlobalAdminToken P host 0 inp none)
      let o := if impl = ["1"] then
          some "C09: a signed token is global administrator although there is no key to verify it with" else none
      (st, verdict o (cmp m impl))
    | _, _ => (st, .badop "globaladminj")
  | _ => (st, .badop "unknown op")

def engine : EngineDef := { σ := St, init := {}, step := step }

end Galene.Engine.Token
