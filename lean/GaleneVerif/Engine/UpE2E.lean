import GaleneVerif.Model.Cache
import GaleneVerif.Model.LossStats
import GaleneVerif.Engine.Common
/-
Engine `upe2e`: the real readLoop and nackWriter on a track received over an
in-process PeerConnection pair; NACKs are observed at the publisher (C06).
Ops:
  newup <cachesize> <packetrate> <firstseq>  => ok | setup-failed
  send <seq>                                 => stored | lost
  nacks <waitms>                             => n s1 ... sn     (NACKed since the last `nacks`, sorted numerically; may lag)
  nacksfinal <minms>                         => n s1 ... sn     (waits until the NACK stream is quiet; must be complete)
  getpacket <seq>                            => n               (rtpUpTrack.GetPacket(seq, buf, nack=true))
  stats                                      => received totalReceived expected totalExpected eseqno
All packets are 17 bytes, none is a keyframe.
-/
namespace Galene.Engine.UpE2E
open Galene Galene.Engine Galene.Loss

structure St where
  stats : Stats := {}
  ring : Cache.Ring := Cache.new 0
  rate : Nat := 0
  pending : List Nat := []          -- model: NACKs not yet reported
  buffered : List Nat := []         -- model: bufferedNACKs (nackWriter runs 50 ms later)
  -- oracle
  received : List Nat := []         -- recently received seqnos (near the newest)
  snap1 : List Nat := []            -- `received` at the previous `nacks` op
  snap2 : List Nat := []            -- ... and at the one before (NACKs travel asynchronously)
  newest : Option Nat := none
  dead : Bool := false
  allNacked : List Nat := []         -- every seqno NACKed so far (from the impl's `nacks` results)
  subscriberNacks : List Nat := []   -- seqnos asked for through getpacket ops (oracle: from the ops only)

def near (a s : Nat) : Bool := sub16 a s < 16384 || sub16 s a < 16384

def popcount16 (x : Nat) : Nat := ((List.range 16).filter (fun i => x / 2 ^ i % 2 = 1)).length

def bitmapSeqnos (first bm : Nat) : List Nat :=
  first :: ((List.range 16).filter (fun i => bm / 2 ^ i % 2 = 1)).map (fun i => add16 first (i + 1))

def sortNum (xs : List Nat) : List Nat :=
  xs.foldl (fun acc n => let (a, b) := acc.span (· ≤ n); a ++ n :: b) []

/-- one arrival at the read loop -/
def arrive (st : St) (seq : Nat) (len : Nat := 17) : St :=
  let (stats1, first) := st.stats.store seq false
  let (ring1, _) := Cache.store st.ring { seqno := seq, marker := false, ts := seq * 3000 % 4294967296,
                                           bytes := List.replicate len 0 }
  let st := { st with stats := stats1, ring := ring1 }
  let st :=
    match readLoopNackArg seq first st.rate with
    | none => st
    | some next =>
      let (bm', (found, f, bits)) := st.stats.bitmap.get next
      let stats2 := { st.stats with bitmap := bm' }
      if found then
        { st with stats := stats2.expect (1 + popcount16 bits), pending := st.pending ++ bitmapSeqnos f bits }
      else { st with stats := stats2 }
  let newest := match st.newest with
    | none => some seq
    | some n => if sub16 seq n < 32768 then some seq else some n
  { st with received := seq :: st.received.filter (near seq), newest }

/-- flush the model's nackWriter (it runs 50 ms after the first buffered NACK; every
`nacks` op in the harness waits longer than that) -/
def flushWriter (st : St) : St :=
  if st.buffered.isEmpty then st else
  let sent := nackWriter (if st.stats.keyframeValid then some st.stats.keyframe else none)
                (if st.stats.lastValid then some st.stats.last else none)
                (fun n => match Cache.get st.ring n with | some e => e.bytes.length > 0 | none => false) st.buffered
  { st with buffered := [], pending := st.pending ++ sent,
            stats := if sent.isEmpty then st.stats else st.stats.expect sent.length }

def step (st : St) (op impl : List String) : St × Verdict :=
  if st.dead then (st, .ok) else
  match op with
  | ["newup", cache, rate, first] =>
    match nat? cache, nat? rate, nat? first with
    | some c, some r, some f =>
      if impl ≠ ["ok"] then ({ dead := true }, .ok)     -- environment problem, not a verdict
      else (arrive { ring := Cache.new c, rate := r } f, .ok)
    | _, _, _ => (st, .badop "newup")
  | ["send", seq] =>
    match nat? seq with
    | some s =>
      if impl = ["lost"] then ({ st with dead := true }, .ok)   -- UDP loss on loopback: abandon the case
      else (arrive st s, cmp "stored" impl)
    | none => (st, .badop "send")
  | ["sendx", seq, pad] =>
    -- a packet with a header extension and `pad` bytes of padding: what is stored (and later sent to every receiver) is the
    -- same packet without the extension: fixed header, the 5 payload bytes, the padding (zeros, the last byte its length)
    match nat? seq, nat? pad with
    | some s, some k =>
      if impl = ["lost"] then ({ st with dead := true }, .ok)
      else
        let payload := [0x10, 0x01, s / 256, s % 256, 0x55]
        let b0 := if k = 0 then 128 else 160
        let st' := arrive st s (17 + k)
        -- (the content of the padding is not significant, only its length, which is its last byte: pion's MarshalTo
        -- leaves whatever the buffer held there)
        match impl with
        | ["stored", n, b, tail] =>
          let body := (unhex tail).getD []
          let ok := n = toString (17 + k) && b = toString b0 && body.length = 5 + k && body.take 5 = payload &&
            (k = 0 || body.getLast? = some k)
          if ok then (st', .ok)
          else (st', .oracle s!"C02: packet {s} was received with a header extension, 5 bytes of payload ({hex payload}) and {k} bytes of padding; what the read loop stored for forwarding is {n} bytes, first byte {b}, body {tail}; expected the same packet without the extension: {17 + k} bytes, first byte {b0}, the payload, and {k} bytes of padding ending in {k}")
        | _ => (st', .mismatch s!"stored {17 + k} {b0} <payload+padding>")
    | _, _ => (st, .badop "sendx")
  | ["getpacket", seq] =>
    match nat? seq with
    | some s =>
      let hit := match Cache.get st.ring s with | some e => e.bytes.length | none => 0
      let st := if hit > 0 || st.buffered.contains s then st else { st with buffered := st.buffered ++ [s] }
      ({ st with subscriberNacks := s :: st.subscriberNacks }, cmp (toString hit) impl)
    | none => (st, .badop "getpacket")
  | "getpackets" :: seqs =>
    match seqs.mapM nat? with
    | some ss =>
      let (st, hits) := ss.foldl (fun (acc : St × List String) s =>
        let (st, hits) := acc
        let hit := match Cache.get st.ring s with | some e => e.bytes.length | none => 0
        let st := if hit > 0 || st.buffered.contains s then st else { st with buffered := st.buffered ++ [s] }
        ({ st with subscriberNacks := s :: st.subscriberNacks }, hits ++ [toString hit])) (st, [])
      (st, cmp (" ".intercalate hits) impl)
    | none => (st, .badop "getpackets")
  | [kind, _] =>
    if kind ≠ "nacks" && kind ≠ "nacksfinal" then
      (st, .badop "unknown op")
    else
    let final := kind = "nacksfinal"
    let st := if final then flushWriter st else st
    let model := sortNum st.pending
    -- RTCP travels asynchronously: an intermediate `nacks` may report any sub-multiset of what the model
    -- expects so far (the rest stays pending); `nacksfinal` (waits for quiescence) must report all of it
    let implNs : List Nat := match impl.mapM nat? with | some (_ :: xs) => xs | _ => []
    let leftover := implNs.foldl (fun (acc : List Nat) x => acc.erase x) model
    let subOk := leftover.length + implNs.length = model.length
    let v : Verdict :=
      if final then cmp (" ".intercalate ((toString model.length) :: model.map toString)) impl
      else if subOk then .ok
      else .mismatch (" ".intercalate ((toString model.length) :: model.map toString) ++ " (or a sub-multiset)")
    let ov : Option String := match impl.mapM nat? with
      | some (_ :: xs) =>
        -- (the rule that coincides with a known finding comes last, so that it cannot mask another violation on the same line)
        let beyond : Option String := match st.newest with
          | some n => (xs.find? (fun s => (s = n || sub16 s n < 32768) && !st.received.contains s)).map fun s =>
              s!"C06: retransmission of {s} requested, which is at or beyond the newest packet {n}"
          | none => none
        let recvOwn : Option String := (xs.find? (fun s => st.snap2.contains s && !st.subscriberNacks.contains s)).map fun s =>
          s!"C06: retransmission of {s} requested although it was received"
        let twice : Option String := if st.newest.isSome && xs.eraseDups.length ≠ xs.length then some "C06: a packet was requested twice" else none
        let recvSub : Option String := (xs.find? (fun s => st.snap2.contains s && st.subscriberNacks.contains s)).map fun s =>
          s!"C06: retransmission of {s} requested although it was received (a subscriber's NACK for a packet no longer in the cache, forwarded upstream by nackWriter)"
        beyond.orElse fun _ => recvOwn.orElse fun _ => twice.orElse fun _ => recvSub
      | _ => some "bad nacks result"
    let nk := match impl.mapM nat? with | some (_ :: xs) => xs | _ => []
    ({ st with pending := if final then [] else leftover, snap2 := st.snap1, snap1 := st.received,
               allNacked := nk ++ st.allNacked },
      match ov with | some m => .oracle m | none => v)
  | ["stats"] =>
    let (_, o) := st.stats.getStats false
    let v := cmp s!"{o.received} {o.totalReceived} {o.expected} {o.totalExpected} {o.eseqno}" impl
    let ov : Option String := match impl.mapM nat? with
      | some [rc, trc, ex, tex, _] =>
        if rc > ex then some s!"C06: received {rc} > expected {ex}"
        else if trc > tex then some s!"C06: totalReceived {trc} > totalExpected {tex}"
        else
          -- completeness: an isolated loss in a steadily arriving stream must have been requested.
          -- (evaluated after the final `nacks`; s missing, s-1 received, no run of 3 missing packets in
          -- [s-2, s+40], and at least 45 later packets tracked)
          match st.newest with
          | none => none
          | some n =>
            let got (x : Nat) : Bool := st.received.contains x
            let cand := (List.range 400).filterMap (fun d =>
              let d := d + 45
              let x := sub16 n d
              let steady := (List.range 41).all (fun j =>
                let a := add16 (sub16 x 2) j
                got a || got (add16 a 1) || got (add16 a 2))
              if !got x && got (sub16 x 1) && steady && (st.received.any (fun r => sub16 x r < 300 && sub16 x r > 0))
              then some x else none)
            match cand.find? (fun x => !st.allNacked.contains x) with
            | some x => some s!"C06: packet {x} went missing from a steadily arriving stream and was never requested"
            | none => none
      | _ => some "bad stats result"
    (st, match ov with | some m => .oracle m | none => v)
  | _ => (st, .badop "unknown op")

def engine : EngineDef := { σ := St, init := {}, step := step }

end Galene.Engine.UpE2E
