import GaleneVerif.Model.Api
import GaleneVerif.Model.ReadVersion
import GaleneVerif.Model.WriteFault
import GaleneVerif.Engine.Common
/-
Engine `api` (C17, C18 exclusivity/atomicity, C12-HTTP).  See harness/cmd/api/*.go
for the symbolic wire format.  Ops:

  wipe                                           => ok
  conf <writable> <users>                        => chg=…
  group <name> <canonical>                       => chg=…
  token <name> <group|-> <sub> <user|-> <perms> <when>   => chg=…
  req <method> <path> <cred> <ctype> <if-match> <if-none-match> <body>
        => <status|crash> e=<tag> b=<body> sec=<0|1> data=<0|1> chg=…
  gtag <slot> <group> | utag <slot> <group> <user>        => t<k> | none
  gupd <slot|-> <group> <len> <auto> | gdel <slot> <group>
  uupd <slot|-> <group> <user> <perm> | udel <slot> <group> <user>
  setpw <group> <user> <pw> | setkeys <group> <keys|->    => ok|mismatch|notexist|notauth|err chg=…
  crashrun <syscall> <i>                         => old|new|… killed=<0|1> strays=<n>
  race <writers> <rounds>                        => ok | bad:<what happened>   (real goroutines, real handler)
  freq <fs0|fs1|fs100> <method> … (as req)       => <status|crash> e=… b=… sec=… data=… strays=<n> chg=…
        the request while write(2) to regular files fails beyond 0/1/100 bytes (RLIMIT_FSIZE)
  live <group>                                   => ok|notexist|err            (group.Add: the group is in memory)
  readrace <scenario>                            => content=<A|B|?> tag=<A|B|?>
        one group.GetDescription stopped (SIGSTOP injected by strace) with the definition file open, the file
        replaced by rename meanwhile: whose content and whose tag does it return
  readcalls <scenario>                           => pstat:<p> open:<p>:<fd> fstat:<fd> read:<fd> close:<fd> …
        the calls of one group.GetDescription that touch the definition file (strace)
  faultcalls <scenario>                          => <ok|failed> <old|new|partial:…|missing> <calls…>
        the calls of one rewriteDescriptionFile whose write or fsync fails (strace)

The model side replays every op through `Galene.Api` and compares the complete
result line.  The oracle side keeps its own copy of what is on disk, fed only
by the `chg=` tokens of the implementation's results, and states C17/C18/C12
with its own, declarative notion of "authorised" and of "the addressed
resource" (no code shared with the model's router or authorisation function).
-/
namespace Galene.Engine.Api
open Galene Galene.Engine Galene.Api

/-! ### Parsing and printing the symbolic forms -/

def parsePw (x : String) : Option Password :=
  if x = "-" then some .absent
  else if x = "w" then some .wildcard
  else if x = "e" then some (.plain "-")
  else if x = "x" then some .bad
  else if x.startsWith "p." then some (.plain (x.drop 2).toString)
  else if x.startsWith "b." then some (.hashed "b" (x.drop 2).toString)
  else if x.startsWith "k." then some (.hashed "k" (x.drop 2).toString)
  else none

def showPw : Password → String
  | .absent => "-"
  | .wildcard => "w"
  | .plain id => if id = "-" then "e" else "p." ++ id
  | .hashed k id => k ++ "." ++ id
  | .bad => "x"

def parsePerm (x : String) : Perms :=
  if x = "-" then .absent
  else if x.startsWith "[" then
    let inner := ((x.drop 1).toString.dropEnd 1).toString
    if inner = "" then .list [] else .list (inner.splitOn "+")
  else .named x

def showPerm : Perms → String
  | .absent => "-"
  | .named n => n
  | .list l => "[" ++ "+".intercalate l ++ "]"

def unTilde (x : String) : String := if x = "~" then "" else x
def tilde (x : String) : String := if x = "" then "~" else x

def parseUser (x : String) : Option (String × User) :=
  match x.splitOn ":" with
  | [n, pw, perm] => (parsePw pw).map fun p => (unTilde n, { password := p, perms := parsePerm perm })
  | _ => none

def parseUsers (x : String) : Option (List (String × User)) :=
  if x = "-" then some []
  else (x.splitOn ",").foldlM (fun acc u => (parseUser u).map fun p => upsert p.1 p.2 acc) []

def showUsers (us : List (String × User)) : String :=
  if us.isEmpty then "-"
  else ",".intercalate (us.map fun p => tilde p.1 ++ ":" ++ showPw p.2.password ++ ":" ++ showPerm p.2.perms)

def parseKey (x : String) : Option Key :=
  match x.toList with
  | 'K' :: r => some ⟨.oct, String.ofList r⟩
  | 'E' :: r => some ⟨.ec, String.ofList r⟩
  | 'D' :: r => some ⟨.ecPriv, String.ofList r⟩
  | 'B' :: r => some ⟨.bad, String.ofList r⟩
  | _ => none

def showKey (k : Key) : String :=
  (match k.kind with | .oct => "K" | .ec => "E" | .ecPriv => "D" | .bad => "B") ++ k.id

def parseKeys (x : String) : Option (List Key) :=
  if x = "-" then some [] else (x.splitOn ",").mapM parseKey

def showKeys (ks : List Key) : String := if ks.isEmpty then "-" else ",".intercalate (ks.map showKey)

def parseLegacy (role : String) (x : String) : Option (List Legacy) :=
  (x.splitOn ",").mapM fun e =>
    match e.splitOn ":" with
    | [n, pw] =>
      if pw = "-" then some { role := role, name := unTilde n, password := none }
      else (parsePw pw).map fun p => { role := role, name := unTilde n, password := some p }
    | _ => none

/-- the optional sections of the legacy file format: `s1`, `o=…`, `p=…`, `t=…` (in this order) -/
def parseLegacySections (d : Desc) : List String → Option Desc
  | [] => some d
  | sec :: rest =>
    if sec = "s1" then parseLegacySections { d with allowSubLegacy := true } rest
    else if sec.startsWith "o=" then
      (parseLegacy "op" (sec.drop 2).toString).bind fun l => parseLegacySections { d with legacy := d.legacy ++ l } rest
    else if sec.startsWith "p=" then
      (parseLegacy "present" (sec.drop 2).toString).bind fun l => parseLegacySections { d with legacy := d.legacy ++ l } rest
    else if sec.startsWith "t=" then
      (parseLegacy "message" (sec.drop 2).toString).bind fun l => parseLegacySections { d with legacy := d.legacy ++ l } rest
    else none

def parseDesc (x : String) : Option Desc :=
  match x.splitOn ";" with
  | c :: a :: u :: w :: k :: more =>
    if !(c.startsWith "c" && a.startsWith "a" && u.startsWith "u=" && w.startsWith "w=" && k.startsWith "k=") then none
    else do
      let n ← nat? (c.drop 1).toString
      let au ← bool? (a.drop 1).toString
      let us ← parseUsers (u.drop 2).toString
      let ws := (w.drop 2).toString
      let wu ← (if ws = "-" then some none
                else match ws.splitOn ":" with
                  | [pw, perm] => (parsePw pw).map fun p => some { password := p, perms := parsePerm perm }
                  | _ => none)
      let ks ← parseKeys (k.drop 2).toString
      parseLegacySections { content := n, autoSub := au, users := us, wildcard := wu, keys := ks } more
  | _ => none

def showLegacy (sec role : String) (d : Desc) : String :=
  let l := d.legacy.filter (·.role = role)
  if l.isEmpty then ""
  else ";" ++ sec ++ ",".intercalate (l.map fun e =>
    tilde e.name ++ ":" ++ (match e.password with | none => "-" | some p => showPw p))

def showDesc (d : Desc) : String :=
  s!"c{d.content};a{b2s d.autoSub};u={showUsers d.users};w=" ++
  (match d.wildcard with
   | none => "-"
   | some w => showPw w.password ++ ":" ++ showPerm w.perms) ++
  ";k=" ++ showKeys d.keys ++ (if d.allowSubLegacy then ";s1" else "") ++
  showLegacy "o=" "op" d ++ showLegacy "p=" "present" d ++ showLegacy "t=" "message" d

def parseConf (w us : String) : Option Conf := do
  let wb ← bool? w
  let u ← parseUsers us
  pure { writable := wb, users := u }

def showConf (c : Conf) : String := b2s c.writable ++ ";" ++ showUsers c.users

def parseValidity (x : String) : Option Validity :=
  if x = "ok" then some .ok else if x = "expired" then some .expired
  else if x = "noexp" then some .noexp else if x = "future" then some .future else none

def showValidity : Validity → String
  | .ok => "ok" | .expired => "expired" | .noexp => "noexp" | .future => "future"

def dash (x : String) : String := if x = "-" then "" else x
def undash (x : String) : String := if x = "" then "-" else x

def parsePermList (x : String) : List String := if x = "-" then [] else x.splitOn "+"
def showPermList (l : List String) : String := if l.isEmpty then "-" else "+".intercalate l

def parseTokFields (g sub u perms when_ : String) : Option Tok := do
  let sb ← bool? sub
  let v ← parseValidity when_
  pure { group := dash g, sub := sb, user := if u = "-" then none else some (unTilde u), perms := parsePermList perms, valid := v }

def parseTokens (x : String) : Option (List (String × Tok)) :=
  if x = "-" then some []
  else (x.splitOn ",").foldlM (fun acc t =>
    match t.splitOn ":" with
    | [n, g, sub, u, perms, w] => (parseTokFields g sub u perms w).map fun tk => upsert n tk acc
    | _ => none) []

def showTok (n : String) (t : Tok) : String :=
  s!"{n}:{undash t.group}:{b2s t.sub}:" ++ (match t.user with | none => "-" | some u => tilde u) ++
  s!":{showPermList t.perms}:{showValidity t.valid}"

def showTokens (ts : List (String × Tok)) : String :=
  if ts.isEmpty then "-" else ",".intercalate (ts.map fun p => showTok p.1 p.2)

def parseMethod (x : String) : Method :=
  if x = "GET" then .GET else if x = "HEAD" then .HEAD else if x = "PUT" then .PUT else if x = "POST" then .POST
  else if x = "DELETE" then .DELETE else if x = "OPTIONS" then .OPTIONS else .OTHER

def parseCred (x : String) : Option Cred :=
  match x.splitOn ":" with
  | ["none"] => some .none
  | ["basic", u, p] => some (.basic (unTilde u) p)
  | ["bearer", n] => some (.bearer n)
  | ["jwt", k, aud, perms, _sub] => some (.jwt (k.drop 1).toString aud (perms.splitOn "+"))
  | _ => none

def parseCType (x : String) : Option CType :=
  if x = "-" then some .none else if x = "json" then some .json else if x = "text" then some .text
  else if x = "jwk" then some .jwk else if x = "other" then some .other else none

def parseHdr (x : String) : Option (List HItem) :=
  if x = "-" then some []
  else (x.splitOn ",").mapM fun it =>
    if it = "*" then some .star
    else if it = "bogus" then some .bogus
    else if it.startsWith "t" then (nat? (it.drop 1).toString).map .tag
    else none

def parseBody (x : String) : Option ReqBody :=
  match x.splitOn ":" with
  | ["-"] => some .none
  | ["garbage"] => some .garbage
  | ["big"] => some .big
  | ["foreign"] => some .foreign
  | ["desc", n, a] => do
    let n ← nat? n
    let a ← bool? a
    pure (.desc { content := n, autoSub := a })
  | ["descl", n, sec, name, pw] => do
    let n ← nat? n
    let role ← (if sec = "o" then some "op" else if sec = "p" then some "present" else if sec = "t" then some "message" else none)
    let l ← parseLegacy role (name ++ ":" ++ pw)
    pure (.desc { content := n, legacy := l })
  | ["descu", n] => (nat? n).map fun n => .desc { content := n, hasUsers := true }
  | ["descw", n] => (nat? n).map fun n => .desc { content := n, hasWildcard := true }
  | ["desck", n] => (nat? n).map fun n => .desc { content := n, hasKeys := true }
  | ["user", "bogus"] => some .userBadPerm
  | ["user", p] => some (.user { perms := parsePerm p })
  | ["userpw", p, pw] => (parsePw pw).map fun q => .user { perms := parsePerm p, password := q }
  | ["pw", pw] => (parsePw pw).map .pw
  | ["pwnull"] => some (.pw .absent)
  | ["text", id] => some (.text id)
  | ["keys", ks] => (parseKeys ks).map fun l => .keys (some l)
  | ["keysnull"] => some (.keys none)
  | ["keysempty"] => some (.keys (some []))
  | ["tok", perms, u, w] => (parseTokFields "-" "0" u perms w).map .tok
  | ["tokover"] => some .tokOver
  | _ => none

/-! ### Printing results -/

def q (x : String) : String := "\"" ++ x ++ "\""

def jsonList (l : List String) : String := "[" ++ ",".intercalate (l.map q) ++ "]"

def jsonPerm : Perms → Option String
  | .absent => none
  | .named n => some (q n)
  | .list l => some (jsonList l)

def jsonObj (fields : List (Option String)) : String := "{" ++ ",".intercalate (fields.filterMap id) ++ "}"

def xs (n : Nat) : String := q s!"x*{n}"

/-- percent-escaping of the harness (bytes ≤ 0x20, ≥ 0x7f and `%`) for the ASCII strings printed here -/
def escAscii (x : String) : String :=
  if x = "" then "%"
  else String.ofList (x.toList.flatMap fun c =>
    if c = ' ' then "%20".toList else if c = '%' then "%25".toList else [c])

def showBody : Body → String
  | .empty => "empty"
  | .haha => "haha"
  | .nfPage => "nf"
  | .txt m => "txt:" ++ escAscii m
  | .names l nullIfEmpty => "json:" ++ (if l.isEmpty && nullIfEmpty then "null" else jsonList l)
  | .desc d => "json:" ++ jsonObj
      [ if d.keys.isEmpty then none else some "\"authKeys\":\"LEAK\"",
        if d.autoSub then some "\"auto-subgroups\":true" else none,
        if d.content = 0 then none else some ("\"description\":" ++ xs d.content),
        if d.legacy.any (·.role = "op") then some "\"op\":\"LEAK\"" else none,
        if d.legacy.any (·.role = "message") then some "\"other\":\"LEAK\"" else none,
        if d.legacy.any (·.role = "present") then some "\"presenter\":\"LEAK\"" else none,
        if d.users.isEmpty then none else some "\"users\":\"LEAK\"",
        d.wildcard.map fun _ => "\"wildcard-user\":\"LEAK\"" ]
  | .user u => "json:" ++ jsonObj
      [ if u.password = .absent then none else some "\"password\":\"LEAK\"",
        (jsonPerm u.perms).map fun p => "\"permissions\":" ++ p ]
  | .token t => "json:" ++ jsonObj
      [ match t.valid with
        | .noexp => none
        | .expired => some "\"expires\":\"past\""
        | _ => some "\"expires\":\"future\"",
        some ("\"group\":" ++ q t.group),
        if t.sub then some "\"includeSubgroups\":true" else none,
        if t.valid = .future then some "\"not-before\":\"future\"" else none,
        some ("\"permissions\":" ++ jsonList t.perms),
        some "\"token\":\"\"",
        t.user.map fun u => "\"username\":" ++ q u ]
  | .stats => "json:[]"

/-- `.stats` lists the groups that are in memory (stats.GetGroups; no clients here), sorted by name -/
def showBodyL (live : List String) : Body → String
  | .stats => "json:[" ++ ",".intercalate (live.map fun n => "{\"name\":" ++ q n ++ "}") ++ "]"
  | b => showBody b

def showTag : Option Nat → String
  | none => "-"
  | some k => s!"t{k}"

/-- the `chg=` token: what differs between two model states -/
def showChanges (a b : State) : String :=
  let conf := if a.conf = b.conf then [] else [s!"conf@{b.ctr}={showConf b.conf}"]
  let toks :=
    if a.tokens = b.tokens && a.tokVer = b.tokVer then []
    else match b.tokVer with
      | none => ["tokens=gone"]
      | some v => [s!"tokens@{v}={showTokens b.tokens}"]
  let changed := b.groups.filterMap fun p =>
    if lookup p.1 a.groups = some p.2 then none else some s!"g:{p.1}@{p.2.ver}={showDesc p.2.desc}"
  let gone := a.groups.filterMap fun p =>
    if (lookup p.1 b.groups).isNone then some s!"g:{p.1}=gone" else none
  let all := conf ++ toks ++ changed ++ gone
  "chg=" ++ (if all.isEmpty then "-" else "|".intercalate all)

def showOutcome (o : Outcome) (a b : State) (secData : String) (live : List String := []) : String :=
  match o with
  | .crash => s!"crash e=- b=empty {secData} {showChanges a b}"
  | .resp r => s!"{r.status} e={showTag r.etag} b={showBodyL live r.body} {secData} {showChanges a b}"

def showErr : Except Err State → String
  | .ok _ => "ok"
  | .error .tagMismatch => "mismatch"
  | .error .notExist => "notexist"
  | .error .notAuth => "notauth"
  | .error _ => "err"

/-! ### The oracle's own view of the disk, and the specification it checks -/

structure Slot where
  file : String           -- label of the definition file the tag was read from
  tag : Option Nat
  deriving Repr

structure Orc where
  conf : Conf := {}
  groups : List (String × GroupFile) := []
  tokens : List (String × Tok) := []
  tokVer : Option Nat := none
  slots : List (String × Slot) := []
  consumed : List (String × Nat) := []     -- (file, version) replaced by a successful conditional write
  deriving Repr

/-- What a server that loads this file works with — the oracle's own reading of the legacy
format (galene's README for the old format): a name is defined by the `users` map if it is
there, otherwise by the FIRST entry carrying it in `op`, then `presenter`, then `other`, with
that array's role; the wildcard user is the `wildcard-user` field if present, otherwise the
first entry without a username; an entry without password accepts any password;
`allow-subgroups` means `auto-subgroups`. -/
def effective (d : Desc) : Desc :=
  let named := d.legacy.filter (·.name ≠ "")
  let eff (l : Legacy) : User :=
    { password := match l.password with | some p => p | none => .wildcard, perms := .named l.role }
  let extra := (named.map (·.name)).eraseDups.filterMap fun n =>
    if (lookup n d.users).isSome then none else (named.find? (·.name = n)).map fun l => (n, eff l)
  { content := d.content, autoSub := d.autoSub || d.allowSubLegacy,
    users := extra.foldl (fun acc p => upsert p.1 p.2 acc) d.users,
    wildcard := match d.wildcard with
      | some w => some w
      | none => (d.legacy.find? (·.name = "")).map eff,
    keys := d.keys }

/-- apply one `label[@ver]=content` item of a `chg=` token -/
def applyChange (o : Orc) (item : String) : Option Orc :=
  match item.splitOn "=" with
  | lab :: rest =>
    let content := "=".intercalate rest
    match lab.splitOn "@" with
    | [l] =>
      if content ≠ "gone" then none
      else if l = "tokens" then some { o with tokens := [], tokVer := none }
      else if l = "conf" then some { o with conf := {} }
      else if l.startsWith "g:" then some { o with groups := erase (l.drop 2).toString o.groups }
      else none
    | [l, v] => do
      let v ← nat? v
      if l = "tokens" then
        let ts ← parseTokens content
        pure { o with tokens := ts, tokVer := some v }
      else if l = "conf" then
        match content.splitOn ";" with
        | [w, us] => (parseConf w us).map fun c => { o with conf := c }
        | _ => none
      else if l.startsWith "g:" then
        let d ← parseDesc content
        -- the oracle keeps the effective view of every file
        pure { o with groups := upsert (l.drop 2).toString { desc := effective d, ver := v } o.groups }
      else none
    | _ => none
  | _ => none

/-- the `chg=` token of a result, applied to the oracle's view; `none` if it cannot be read
(an unexpected file, unparsable content: reported by the caller) -/
def applyChg (o : Orc) (tok : String) : Option Orc :=
  if !tok.startsWith "chg=" then none
  else
    let body := (tok.drop 4).toString
    if body = "-" then some o
    else (body.splitOn "|").foldlM applyChange o

def chgLabels (tok : String) : List String :=
  let body := (tok.drop 4).toString
  if body = "-" then [] else (body.splitOn "|").map fun it =>
    (((it.splitOn "=").headD "").splitOn "@").headD ""

/-- group name without empty components -/
def norm (g : String) : String := "/".intercalate ((g.splitOn "/").filter (· ≠ ""))

/-- proper ancestors of a (normalised) group name, nearest first -/
def ancestors (g : String) : List String :=
  let parts := g.splitOn "/"
  ((List.range parts.length).drop 1).reverse.map fun n => "/".intercalate (parts.take n)

/-- the definition that governs group `g`: its own file, or that of the nearest existing
ancestor if that one creates subgroups on the fly -/
def governing (o : Orc) (g : String) : Option GroupFile :=
  let g := norm g
  if g = "" then none
  else match lookup g o.groups with
    | some f => some f
    | none =>
      match (ancestors g).find? (fun a => (lookup a o.groups).isSome) with
      | some a => (lookup a o.groups).bind fun f => if f.desc.autoSub then some f else none
      | none => none

def pwMatches (p : Password) (pw : String) : Bool :=
  match p with
  | .wildcard => true
  | .plain id => pw = id
  | .hashed _ id => pw = id
  | _ => false

def hasAdmin (p : Perms) : Bool :=
  match p with
  | .named n => n = "admin"
  | .list l => l.contains "admin"
  | .absent => false

def tokInScope (t : Tok) (g : String) : Bool :=
  if g = "" then t.group = "" && t.sub
  else t.group = g || (t.sub && (t.group = "" || g.startsWith (t.group ++ "/")))

/-- C17's "authenticates as a server administrator, an administrator of the addressed group, or
a bearer of an admin token in scope" (generous where the text is silent: a token needs no user
name, a wildcard entry with the admin role counts). -/
def specAdmin (o : Orc) (c : Cred) (g : String) : Bool :=
  let g := norm g
  match c with
  | .none => false
  | .basic u pw =>
    (match lookup u o.conf.users with
     | some usr => pwMatches usr.password pw && hasAdmin usr.perms
     | none => false) ||
    (match governing o g with
     | some f =>
       (match lookup u f.desc.users with
        | some usr => pwMatches usr.password pw && hasAdmin usr.perms
        | none => match f.desc.wildcard with
          | some w => pwMatches w.password pw && hasAdmin w.perms
          | none => false)
     | none => false)
  | .bearer n =>
    (match lookup n o.tokens with
     | some t => t.valid = .ok && t.perms.contains "admin" && tokInScope t g
     | none => false)
  | .jwt keyId aud perms =>
    (match governing o g with
     | some f => g ≠ "" && f.desc.keys.any (fun k => k.kind = .oct && k.id = keyId) && norm aud = g && perms.contains "admin"
     | none => false)

/-- C17's exception: "a user may set their own password by presenting their current one" -/
def specSelf (o : Orc) (c : Cred) (g u : String) : Bool :=
  u ≠ "" &&
  (match governing o g with
   | some f => match lookup u f.desc.users with
     | some usr => pwMatches usr.password (match c with | .basic _ pw => pw | _ => "-")
     | none => false
   | none => false)

/-- What a path addresses, read off the documented URL shapes (galene-api.md) with plain
component splitting. -/
inductive Target where
  | invalid                         -- not an API path: 404 is an acceptable refusal
  | global                          -- .stats, list of groups
  | group (g : String)
  | userList (g : String)
  | user (g : String) (w : Who)
  | password (g : String) (w : Who)
  | keys (g : String)
  | tokenList (g : String)
  | token (g t : String)
  deriving Repr

def target (path : String) : Target :=
  let pre := "/galene-api/v0/"
  if !path.startsWith pre then .invalid
  else
    let rest := (path.drop pre.length).toString
    if rest = ".stats" then .global
    else if rest = ".groups" || rest = ".groups/" then .global
    else if !rest.startsWith ".groups/" then .invalid
    else
      let comps := (rest.drop 8).toString.splitOn "/"
      -- the group name is everything before the first component starting with '.'
      let gparts := comps.takeWhile (fun c => !c.startsWith ".")
      let tail := comps.drop gparts.length
      let g := "/".intercalate (gparts.filter (· ≠ ""))
      -- user and token names may contain slashes ("Alice c/o Bob"): they extend to the next dot component
      let nameOf (l : List String) : String × List String :=
        let n := l.takeWhile (fun c => !c.startsWith ".")
        ("/".intercalate n, l.drop n.length)
      match tail with
      | ".tokens" :: r =>
        -- tokens of the root group (g = "") are administered by the server administrator
        if r = [""] then .tokenList g
        else
          let (t, r') := nameOf r
          if t ≠ "" && r' = [] && !r.isEmpty then .token g t else .invalid
      | _ =>
      if g = "" then .invalid
      else match tail with
        | [] => .group g
        | [".users", ""] => .userList g
        | ".users" :: r =>
          let (u, r') := nameOf r
          if u = "" then .invalid
          else if r' = [] then .user g (.named u)
          else if r' = [".password"] then .password g (.named u)
          else .invalid
        | [".empty-user"] => .user g (.named "")
        | [".empty-user", ".password"] => .password g (.named "")
        | [".wildcard-user"] => .user g .wildcard
        | [".wildcard-user", ".password"] => .password g .wildcard
        | [".keys"] => .keys g
        | _ => .invalid

def Target.groupName : Target → String
  | .group g | .userList g | .user g _ | .password g _ | .keys g | .tokenList g | .token g _ => g
  | _ => ""

def specAuthorised (o : Orc) (c : Cred) (t : Target) : Bool :=
  specAdmin o c t.groupName ||
  (match t with
   | .password g (.named u) => specSelf o c g u
   | _ => false)

def hdrMatches (cur : Option Nat) (h : List HItem) : Bool :=
  h.any fun it => match it with
    | .star => cur.isSome
    | .tag k => cur = some k
    | .bogus => false

/-- the tag C18 speaks of for a tagged resource: the version of the governing definition for
reads, of the group's own file for writes; `none` if the object does not exist -/
def curTag (o : Orc) (t : Target) (write : Bool) : Option (Option Nat) :=
  let file (g : String) : Option GroupFile := if write then lookup (norm g) o.groups else governing o g
  match t with
  | .group g => some ((lookup (norm g) o.groups).map (·.ver))
  | .userList g => some ((file g).map (·.ver))
  | .user g w => some ((file g).bind fun f => (f.desc.getUser w).map fun _ => f.ver)
  | _ => none

def usersExcept (d : Desc) (w : Who) : List (String × User) :=
  match w with
  | .named u => erase u d.users
  | .wildcard => d.users

def wildExcept (d : Desc) (w : Who) : Option User :=
  match w with
  | .named _ => d.wildcard
  | .wildcard => none

/-- C17 preservation: what an update addressed to `t` must leave alone in the definition file
of the addressed group (`before`/`after` are that file before and after; `none` = absent). -/
def preserved (t : Target) (before after : Option GroupFile) : Option String :=
  match before, after with
  | none, _ => none                                   -- nothing stored that could be lost
  | some _, none =>
    (match t with
     | .group _ => none                               -- DELETE of the group itself
     | _ => some "the definition file disappeared")
  | some b, some a =>
    let b := b.desc
    let a := a.desc
    match t with
    | .group _ =>
      if b.users.any (fun p => lookup p.1 a.users ≠ some p.2) then some "stored users changed by a description update"
      else if b.wildcard.isSome && a.wildcard ≠ b.wildcard then some "stored wildcard user changed by a description update"
      else if a.users ≠ b.users || a.wildcard ≠ b.wildcard then
        some "user entries added by a description update (obsolete op/presenter/other arrays in the request body are not refused as unsanitised)"
      else if a.keys ≠ b.keys then some "stored keys changed by a description update"
      else none
    | .user _ w =>
      if usersExcept a w ≠ usersExcept b w || wildExcept a w ≠ wildExcept b w then some "another user changed by a user update"
      else if a.keys ≠ b.keys then some "stored keys changed by a user update"
      else if a.content ≠ b.content || a.autoSub ≠ b.autoSub then some "description changed by a user update"
      else match b.getUser w, a.getUser w with
        | some ub, some ua => if ua.password ≠ ub.password then some "stored password changed by a user update" else none
        | _, _ => none
    | .password _ w =>
      if usersExcept a w ≠ usersExcept b w || wildExcept a w ≠ wildExcept b w then some "another user changed by a password update"
      else if a.keys ≠ b.keys then some "stored keys changed by a password update"
      else if a.content ≠ b.content || a.autoSub ≠ b.autoSub then some "description changed by a password update"
      else match b.getUser w, a.getUser w with
        | some ub, some ua => if ua.perms ≠ ub.perms then some "permissions changed by a password update" else none
        | some _, none => some "user removed by a password update"
        | _, _ => none
    | .keys _ =>
      if a.users ≠ b.users || a.wildcard ≠ b.wildcard then some "stored users changed by a key update"
      else if a.content ≠ b.content || a.autoSub ≠ b.autoSub then some "description changed by a key update"
      else none
    | _ => some "definition changed by a request that does not address it"

def isWrite (m : Method) : Bool := m = .PUT || m = .POST || m = .DELETE

/-- the oracle for one HTTP request -/
def reqOracle (o : Orc) (method : Method) (path : String) (c : Cred) (im inm : List HItem) (impl : List String) :
    Orc × Verdict :=
  match impl with
  | [status, e, _b, sec, data, chg] =>
    match applyChg o chg with
    | none => (o, .oracle s!"C17: the request left something unexpected in the data/groups directories: {chg}")
    | some o' =>
      let t := target path
      let labels := chgLabels chg
      let changed := !labels.isEmpty
      let ok2xx := status.startsWith "2"
      let verdict : Verdict :=
        if status = "crash" then .oracle s!"C12: {showM method} {path}: the handler panicked, the client gets no response"
        else if sec = "sec=1" then .oracle s!"C17: the response to {showM method} {path} contains a password, hash or key"
        else if method = .OPTIONS then
          (if changed || data = "data=1" then .oracle s!"C17: OPTIONS {path} changed state or disclosed data" else .ok)
        else if !specAuthorised o c t && !(status = "401" || (status = "404" && isInvalid t)) then
          .oracle s!"C17: {showM method} {path} answered {status} to credentials that do not authorise it (expected 401)"
        else if !specAuthorised o c t && (changed || data = "data=1") then
          .oracle s!"C17: refused request {showM method} {path} had an effect or disclosed group data ({data} {chg})"
        else if status = "401" && (changed || data = "data=1") then
          .oracle s!"C17: request answered 401 had an effect or disclosed group data ({data} {chg})"
        else if status = "412" && changed then
          .oracle s!"C18: request answered 412 changed {chg}"
        else
          -- only the addressed file may change
          let allowed : List String := match t with
            | .group g | .user g _ | .password g _ | .keys g => [s!"g:{norm g}"]
            | .tokenList _ | .token _ _ => ["tokens"]
            | _ => []
          match labels.find? (fun l => !allowed.contains l) with
          | some l => .oracle s!"C17: {showM method} {path} changed {l}, which it does not address"
          | none =>
            let g := norm t.groupName
            let pres := if changed && allowed = [s!"g:{g}"] then preserved t (lookup g o.groups) (lookup g o'.groups) else none
            match pres with
            | some msg => .oracle s!"C17: {showM method} {path}: {msg}"
            | none =>
              -- tokens: only the addressed token may change
              let tokBad : Bool := match t with
                | .token _ n => erase n o.tokens ≠ erase n o'.tokens
                | .tokenList _ => o.tokens.any fun p => lookup p.1 o'.tokens ≠ some p.2
                | _ => false
              if tokBad then .oracle s!"C17: {showM method} {path} changed a token it does not address"
              else
                -- C18 on tagged resources
                match curTag o t (isWrite method) with
                | none => .ok
                | some cur =>
                  if isWrite method then
                    if ok2xx && im ≠ [] && !hdrMatches cur im then
                      .oracle s!"C18: {showM method} {path} succeeded although If-Match does not name the current version {showTag cur}"
                    else if ok2xx && inm ≠ [] && hdrMatches cur inm then
                      .oracle s!"C18: {showM method} {path} succeeded although If-None-Match names the current version {showTag cur}"
                    else .ok
                  else if method = .GET || method = .HEAD then
                    if status = "304" && !hdrMatches cur inm then
                      .oracle s!"C18: {showM method} {path} answered 304 although no listed tag is current ({showTag cur})"
                    else if status = "200" && inm ≠ [] && hdrMatches cur inm then
                      .oracle s!"C18: {showM method} {path} answered 200 although a listed tag is current ({showTag cur})"
                    else if (status = "200" || status = "304") && e ≠ "e=" ++ showTag cur then
                      .oracle s!"C18: {showM method} {path} served tag {e} but the current version is {showTag cur}"
                    else .ok
                  else .ok
      (o', verdict)
  | _ => (o, .badop "req result")
where
  showM : Method → String
    | .GET => "GET" | .HEAD => "HEAD" | .PUT => "PUT" | .POST => "POST" | .DELETE => "DELETE"
    | .OPTIONS => "OPTIONS" | .OTHER => "PATCH"
  isInvalid : Target → Bool
    | .invalid => true
    | _ => false

/-- the oracle for the second phase of a conditional update driven at the `group` package level -/
def phase2Oracle (o : Orc) (name : String) (slot : String) (t : Target) (conditional : Bool) (impl : List String) : Orc × Verdict :=
  match impl with
  | [res, chg] =>
    match applyChg o chg with
    | none => (o, .oracle s!"C18: {name} left something unexpected in the groups directory: {chg}")
    | some o' =>
      let g := norm t.groupName
      let labels := chgLabels chg
      let held : Option Nat := if slot = "-" then none else ((lookup slot o.slots).bind (·.tag))
      let cur := (curTag o t true).getD none
      let v : Verdict :=
        if res ≠ "ok" && !labels.isEmpty then .oracle s!"C18: {name} failed ({res}) but changed {chg}"
        else if labels.any (· ≠ s!"g:{g}") then .oracle s!"C17: {name} changed a file it does not address: {chg}"
        else if res = "ok" && conditional && held ≠ cur then
          .oracle s!"C18: {name} succeeded with tag {showTag held} although the current version is {showTag cur} (an update made in between is lost)"
        else if res = "ok" && conditional && (match held with | some k => o.consumed.contains (s!"g:{g}", k) | none => false) then
          .oracle s!"C18: two writers holding tag {showTag held} both succeeded"
        else match (if labels.isEmpty then none else preserved t (lookup g o.groups) (lookup g o'.groups)) with
          | some msg => .oracle s!"C17: {name}: {msg}"
          | none => .ok
      let o'' := if res = "ok" && conditional then
          (match held with | some k => { o' with consumed := (s!"g:{g}", k) :: o'.consumed } | none => o')
        else o'
      (o'', v)
  | _ => (o, .badop "phase-2 result")

/-! ### Requests under a write fault: what C17/C18 demand of them -/

/-- the `g:` items of a `chg=` token whose content is not a definition (`notjson`, `badfield:…`, …) -/
def unparsable (tok : String) : List String :=
  let body := (tok.drop 4).toString
  if body = "-" then []
  else (body.splitOn "|").filter fun it =>
    match it.splitOn "=" with
    | lab :: rest =>
      let content := "=".intercalate rest
      lab.startsWith "g:" && content ≠ "gone" && (parseDesc content).isNone
    | [] => false

/-- Is what an acknowledged update left in the file what the request asked for, as far as the
request says it (the rest of the file is `preserved`'s business)?  `some what` if not.
Only for the plain request bodies of the generator; anything else is not judged. -/
def requested (t : Target) (m : Method) (body : ReqBody) (after : Option GroupFile) : Option String :=
  match t, m, body with
  | .group _, .DELETE, _ => if after.isSome then some "the definition is still there" else none
  | .group _, .PUT, .desc d =>
    if d.hasUsers || d.hasWildcard || d.hasKeys || !d.legacy.isEmpty then none
    else match after with
      | none => some "there is no definition"
      | some f => if f.desc.content = d.content && f.desc.autoSub = d.autoSub then none
                  else some s!"the definition holds c{f.desc.content};a{b2s f.desc.autoSub}"
  | .user _ w, .DELETE, _ =>
    (match after.bind (·.desc.getUser w) with
     | some _ => some "the user is still there"
     | none => none)
  | .user _ w, .PUT, .user u =>
    (match after.bind (·.desc.getUser w) with
     | some x => if x.perms = u.perms then none else some s!"the user's permissions are {showPerm x.perms}"
     | none => some "the user is not there")
  | .password _ w, meth, b =>
    let want : Option Password := match meth, b with
      | .PUT, .pw p => some p
      | .POST, .text id => some (.hashed "b" id)
      | .DELETE, _ => some .absent
      | _, _ => none
    (match want, after.bind (·.desc.getUser w) with
     | some p, some x => if x.password = p then none else some s!"the stored password is {showPw x.password}"
     | some _, none => some "the user is not there"
     | none, _ => none)
  | .keys _, .PUT, .keys ks =>
    (match after with
     | some f => if f.desc.keys = ks.getD [] then none else some s!"the stored keys are {showKeys f.desc.keys}"
     | none => some "there is no definition")
  | .keys _, .DELETE, _ =>
    (match after with
     | some f => if f.desc.keys = [] then none else some s!"the stored keys are {showKeys f.desc.keys}"
     | none => some "there is no definition")
  | _, _, _ => none

/-- the oracle for one request made while writes fail: the three statements below, then everything
`reqOracle` demands of any request -/
def faultOracle (o : Orc) (fault : String) (method : Method) (methodName path : String) (c : Cred) (im inm : List HItem)
    (body : ReqBody) (impl : List String) : Orc × Verdict :=
  match impl with
  | [status, e, b, sec, data, _strays, chg] =>
    let ok2xx := status.startsWith "2"
    let changed := !(chgLabels chg).isEmpty
    match unparsable chg with
    | it :: _ =>
      (o, .oracle s!"C17,C18: {methodName} {path} while writes to the definition file fail ({fault}) was answered {status} and left a file that is neither the old nor the requested new definition (a partial write was published; the stored users and keys are lost): {it}")
    | [] =>
      if !ok2xx && status ≠ "crash" && changed then
        (o, .oracle s!"C17,C18: {methodName} {path} while writes fail ({fault}) was answered {status} (not acknowledged) but changed {chg}")
      else
        let (o', v) := reqOracle o method path c im inm [status, e, b, sec, data, chg]
        match v with
        | .ok =>
          let t := target path
          let g := norm t.groupName
          -- an acknowledged update is in the file afterwards (whether or not the file changed)
          if ok2xx && isWrite method then
            match requested t method body (lookup g o'.groups) with
            | some what => (o', .oracle s!"C18: {methodName} {path} ({fault}) was acknowledged ({status}) but the definition file does not hold what was requested (the acknowledged update is lost, or the file is neither the old nor the requested new definition): {what}; {chg}")
            | none => (o', .ok)
          else (o', .ok)
        | x => (o', x)
  | _ => (o, .badop "freq result")

/-! ### System-call shapes captured with strace (ops `readcalls`, `faultcalls`) -/

def parseReadCall (x : String) : Option ReadVersion.Call :=
  match x.splitOn ":" with
  | ["pstat", p] => some (.pathStat p)
  | ["open", p, fd] => (nat? fd).map (.openAt p)
  | ["fstat", fd] => (nat? fd).map .fstat
  | ["read", fd] => (nat? fd).map .read
  | ["close", fd] => (nat? fd).map .close
  | _ => none

open Galene.SafeReplaceDesc in
def parseFaultCall (x : String) : Option WriteFault.Call :=
  match x.splitOn ":" with
  | ["mkdir", p] => some (.ok (.mkdir p))
  | ["openRead", p, fd] => (nat? fd).map fun d => .ok (.openRead p d)
  | ["createExcl", p, fd] => (nat? fd).map fun d => .ok (.createExcl p d)
  | ["createExcl!", p, e] => some (.failed (.createExcl p 0) e)
  | ["openWrite", p, fd] => (nat? fd).map fun d => .ok (.openWrite p d)
  | ["write", fd, n] => (nat? fd).bind fun d => (nat? n).map fun k => .ok (.write d k)
  | ["write!", fd, n, e] => (nat? fd).bind fun d => (nat? n).map fun k => .failed (.write d k) e
  | ["fsync", fd] => (nat? fd).map fun d => .ok (.fsync d)
  | ["fsync!", fd, e] => (nat? fd).map fun d => .failed (.fsync d) e
  | ["close", fd] => (nat? fd).map fun d => .ok (.close d)
  | ["close!", fd, e] => (nat? fd).map fun d => .failed (.close d) e
  | ["rename", a, b] => some (.ok (.rename a b))
  | ["rename!", a, b, e] => some (.failed (.rename a b) e)
  | ["unlink", p] => some (.ok (.unlink p))
  | ["other", n] => some (.ok (.other n))
  | _ => none

/-- the definition file of the capture helpers (harness/cmd/api/faults.go `rwTarget`) -/
def captureTarget : String := "groups/grpC.json"

def readCallsVerdict (sc : String) (impl : List String) : Verdict :=
  if impl.head?.any (·.startsWith "err:") then .badop s!"read-path capture unavailable: {impl}"
  else match impl.mapM parseReadCall with
    | none => .badop s!"readcalls: cannot parse {impl}"
    | some cs =>
      if ReadVersion.readShapeOK captureTarget cs then .ok
      else if ReadVersion.pathStatAfterOpen captureTarget cs then
        .oracle s!"C18: group.GetDescription ({sc}) takes the size and modification time of the definition file (the source of the entity tag and of the running server's cache validator) with a path-based stat AFTER opening the file: when the file is replaced (rename) between the open and that stat, the old content is returned under the new version's tag, If-Match with it succeeds although the definition changed; calls touching the file: {" ".intercalate impl}"
      else
        .oracle s!"C18: the calls by which group.GetDescription ({sc}) reads the definition file do not have the shape open, fstat on that descriptor, read (size and modification time must come from the descriptor the content is read from; one open): {" ".intercalate impl}"

def faultCallsVerdict (sc : String) (impl : List String) : Verdict :=
  match impl with
  | rep :: state :: calls =>
    if rep.startsWith "err:" then .badop s!"write-fault capture unavailable: {impl}"
    else match calls.mapM parseFaultCall with
      | none => .badop s!"faultcalls: cannot parse {impl}"
      | some cs =>
        let shown := " ".intercalate calls
        if !WriteFault.hasFailure cs then .badop s!"faultcalls {sc}: no write or fsync failed in the capture: {shown}"
        else if state.startsWith "partial" || state = "missing" then
          .oracle s!"C17,C18: after a rewriteDescriptionFile whose write/fsync failed ({sc}; it reported {rep}) the definition file is {state}, neither the complete old nor the complete new definition; calls: {shown}"
        else if rep = "failed" && state ≠ "old" then
          .oracle s!"C17,C18: rewriteDescriptionFile reported failure ({sc}) but the definition file holds the {state} definition; calls: {shown}"
        else if rep = "ok" && state ≠ "new" then
          .oracle s!"C18: rewriteDescriptionFile reported success ({sc}) but the definition file holds the {state} definition; calls: {shown}"
        else if WriteFault.renameAfterFailure captureTarget cs then
          .oracle s!"C18: rewriteDescriptionFile ({sc}) renames the temporary file over the definition file after a failed write/fsync (the error is ignored): {shown}"
        else if !WriteFault.faultShapeOK captureTarget cs then
          .oracle s!"C18: a rewriteDescriptionFile whose write/fsync failed ({sc}) makes calls that can change the definition file: {shown}"
        else .ok
  | _ => .badop s!"faultcalls result: {impl}"

/-! ### The engine -/

structure St where
  m : State := {}
  o : Orc := {}
  slots : List (String × Option Nat) := []     -- model side: slot → tag
  live : List (String × Cached) := []          -- groups in memory (op `live`): name ↦ what the group cached, sorted

def join (l : List String) : String := " ".intercalate l

def parseWho (x : String) : Who := if x = "*" then .wildcard else .named (unTilde x)

/-- model side of the fixture ops: the file is (over)written, a new version -/
def fixtureGroup (m : State) (name : String) (d : Desc) : State :=
  { m with groups := upsert (fileKey name) { desc := d, ver := m.ctr + 1 } m.groups, ctr := m.ctr + 1 }

def withOracle (v : Verdict) (ov : Verdict) : Verdict :=
  match ov with
  | .ok => v
  | x => x

def stepFixture (st : St) (impl : List String) (m' : State) : St × Verdict :=
  let v := cmp (showChanges st.m m') impl
  match impl with
  | [chg] =>
    match applyChg st.o chg with
    | some o' => ({ st with m := m', o := o' }, v)
    | none => ({ st with m := m' }, .badop "fixture result")
  | _ => ({ st with m := m' }, .badop "fixture result")

def phase2 (st : St) (name slot : String) (t : Target) (conditional : Bool) (res : Except Err State) (impl : List String) : St × Verdict :=
  let m' := match res with | .ok x => x | .error _ => st.m
  let v := cmp (showErr res ++ " " ++ showChanges st.m m') impl
  let (o', ov) := phase2Oracle st.o name slot t conditional impl
  ({ st with m := m', o := o' }, withOracle v ov)

def slotTag (st : St) (slot : String) : Option Nat := if slot = "-" then none else (lookup slot st.slots).getD none

def readSlot (st : St) (slot file : String) (modelTag : Option Nat) (impl : List String) : St × Verdict :=
  let v := cmp (match modelTag with | none => "none" | some k => s!"t{k}") impl
  let implTag : Option Nat := match impl with
    | [x] => if x.startsWith "t" then nat? (x.drop 1).toString else none
    | _ => none
  ({ st with slots := upsert slot modelTag st.slots,
             o := { st.o with slots := upsert slot { file := file, tag := implTag } st.o.slots } }, v)

def stepCore (st : St) (op impl : List String) : St × Verdict :=
  match op with
  | ["wipe"] =>
    ({ st with m := { st.m with conf := {}, groups := [], tokens := [], tokVer := none },
               o := { st.o with conf := {}, groups := [], tokens := [], tokVer := none } }, cmp "ok" impl)
  | ["conf", w, us] =>
    match parseConf w us with
    | some c =>
      let m' := { st.m with conf := c, ctr := st.m.ctr + 1 }
      let v := cmp s!"chg=conf@{m'.ctr}={showConf c}" impl
      (match impl with
       | [chg] => match applyChg st.o chg with
         | some o' => ({ st with m := m', o := o' }, v)
         | none => ({ st with m := m' }, .badop "conf result")
       | _ => ({ st with m := m' }, .badop "conf result"))
    | none => (st, .badop "conf")
  | ["group", name, canon] =>
    match parseDesc canon with
    | some d => stepFixture st impl (fixtureGroup st.m name d)
    | none => (st, .badop "group")
  | ["token", name, g, sub, u, perms, w] =>
    match parseTokFields g sub u perms w with
    | some t => stepFixture st impl
        { st.m with tokens := upsert name t st.m.tokens, tokVer := some (st.m.ctr + 1), ctr := st.m.ctr + 1 }
    | none => (st, .badop "token")
  | ["req", method, path, cred, ctype, im, inm, body] =>
    match parseCred cred, parseCType ctype, parseHdr im, parseHdr inm, parseBody body with
    | some c, some ct, some imh, some inmh, some b =>
      let r : Request := { method := parseMethod method, path := path, cred := c, ctype := ct,
                           ifMatch := imh, ifNoneMatch := inmh, body := b }
      let (out, m') := handle currentFixes st.m r
      -- sec=/data= are observations of the implementation, not predictions of the model
      let secData := match impl with
        | [_, _, _, sec, data, _] => sec ++ " " ++ data
        | _ => "sec=? data=?"
      let v := cmp (showOutcome out st.m m' secData (st.live.map (·.1))) impl
      let (o', ov) := reqOracle st.o r.method path c imh inmh impl
      ({ st with m := m', o := o' }, withOracle v ov)
    | _, _, _, _, _ => (st, .badop "req")
  | ["gtag", slot, g] => readSlot st slot s!"g:{norm g}" (getDescriptionTag st.m g) impl
  | ["utag", slot, g, u] => readSlot st slot s!"g:{norm g}" (getUserTag st.m g (parseWho u)) impl
  | ["gupd", slot, g, n, a] =>
    match nat? n, bool? a with
    | some n, some a =>
      phase2 st s!"UpdateDescription({g})" slot (.group g) true
        (updateDescription st.m g (slotTag st slot) { content := n, autoSub := a }) impl
    | _, _ => (st, .badop "gupd")
  | ["gdel", slot, g] =>
    phase2 st s!"DeleteDescription({g})" slot (.group g) true (deleteDescription st.m g (slotTag st slot)) impl
  | ["uupd", slot, g, u, perm] =>
    phase2 st s!"UpdateUser({g},{u})" slot (.user g (parseWho u)) true
      (updateUser st.m g (parseWho u) (slotTag st slot) { perms := parsePerm perm }) impl
  | ["udel", slot, g, u] =>
    phase2 st s!"DeleteUser({g},{u})" slot (.user g (parseWho u)) true (deleteUser st.m g (parseWho u) (slotTag st slot)) impl
  | ["setpw", g, u, pw] =>
    match parsePw pw with
    | some p => phase2 st s!"SetUserPassword({g},{u})" "-" (.password g (parseWho u)) false (setUserPassword st.m g (parseWho u) p) impl
    | none => (st, .badop "setpw")
  | ["setkeys", g, ks] =>
    match (if ks = "-" then some none else (parseKeys ks).map some) with
    | some k => phase2 st s!"SetKeys({g})" "-" (.keys g) false (setKeys st.m g k) impl
    | none => (st, .badop "setkeys")
  | ["race", w, _] =>
    match impl with
    | ["ok"] => (st, .ok)
    | [x] =>
      if x.startsWith "bad:token:" then
        (st, .oracle s!"C16,C18: {w} concurrent PUTs of one stateful token through the real handler, all with If-Match on the same tag of the token file: {x}")
      else if x.startsWith "bad:" then
        (st, .oracle s!"C18: {w} concurrent writers through the real handler, all holding the same tag: {x}")
      else (st, .badop s!"race: {x}")
    | _ => (st, .badop "race result")
  | ["race2", _] =>
    match impl with
    | ["ok"] => (st, .ok)
    | [x] =>
      if x.startsWith "bad:" then
        (st, .oracle s!"C17,C18: concurrent writers on one definition file (password and key updates without precondition, user and description updates with If-Match, all acknowledged): {x}")
      else if x.startsWith "env:" then (st, .ok)
      else (st, .badop s!"race2: {x}")
    | _ => (st, .badop "race2 result")
  | ["freq", fault, method, path, cred, ctype, im, inm, body] =>
    let limit : Option Nat := if fault = "fs0" then some 0 else if fault = "fs1" then some 1 else if fault = "fs100" then some 100 else none
    match limit, parseCred cred, parseCType ctype, parseHdr im, parseHdr inm, parseBody body with
    | some lim, some c, some ct, some imh, some inmh, some b =>
      let r : Request := { method := parseMethod method, path := path, cred := c, ctype := ct,
                           ifMatch := imh, ifNoneMatch := inmh, body := b }
      let (outN, mN) := handle currentFixes st.m r
      if mN.tokens ≠ st.m.tokens || mN.tokVer ≠ st.m.tokVer then
        (st, .badop "freq: a request that rewrites the token file is not modelled under a fault (engine store, C16)")
      else
        let (outF, mF) := handleFault currentFixes st.m r
        let obs := match impl with
          | [_, _, _, sec, data, strays, _] => sec ++ " " ++ data ++ " " ++ strays
          | _ => "sec=? data=? strays=?"
        let lineN := showOutcome outN st.m mN obs (st.live.map (·.1))
        let lineF := showOutcome outF st.m mF obs (st.live.map (·.1))
        let (v, m') : Verdict × State := match faultBites lim st.m mN with
          | some true => (cmp lineF impl, mF)
          | some false => (cmp lineN impl, mN)
          | none => if lineF = " ".intercalate impl then (.ok, mF) else (cmp lineN impl, mN)
        let (o', ov) := faultOracle st.o fault r.method method path c imh inmh b impl
        ({ st with m := m', o := o' }, withOracle v ov)
    | _, _, _, _, _, _ => (st, .badop "freq")
  | ["live", name] =>
    if name = "" || fileKey name ≠ name then (st, cmp "err" impl)       -- validGroupName
    else
      let (ok, live') := addLive st.live st.m name
      ({ st with live := live' }, cmp (if ok then "ok" else "notexist") impl)
  | ["readcalls", sc] => (st, readCallsVerdict sc impl)
  | ["readrace", sc] =>
    match impl with
    | [c, t] =>
      if !(c.startsWith "content=" && t.startsWith "tag=") then (st, .badop s!"readrace: {impl}")
      else
        let cv := (c.drop 8).toString
        let tv := (t.drop 4).toString
        if cv = tv && (cv = "A" || cv = "B") then (st, .ok)
        else (st, .oracle s!"C18: group.GetDescription ({sc}) whose definition file was replaced (rename: version A by version B) while the reader had it open returned the content of version {cv} with the size/mtime (entity tag, cache validator) of version {tv}: the tag does not identify the served content, If-Match with it succeeds although the client never saw that version")
    | _ => (st, .badop s!"read-race injection unavailable: {impl}")
  | ["faultcalls", sc] => (st, faultCallsVerdict sc impl)
  | ["crashrun", name, i] =>
    match impl with
    | state :: _ =>
      if state = "old" || state = "new" then (st, .ok)
      else if !(state = "missing" || state.startsWith "partial" || state.endsWith "unreadable") then (st, .badop s!"crash injection unavailable: {state}")
      else (st, .oracle s!"C18: a crash at system call {name} #{i} of rewriteDescriptionFile left the definition file {state} (neither the old nor the new definition)")
    | _ => (st, .badop "crashrun result")
  | _ => (st, .badop "unknown op")

/-- a request must not alter the in-memory definition of a live group whose file it did not change: the harness appends
`cache=<group>:<what differs>` when the cached users/wildcard user/keys of a live, unchanged group differ from its file -/
def step (st : St) (op impl : List String) : St × Verdict :=
  match impl.find? (·.startsWith "cache=") with
  | some c =>
    let (st', _) := stepCore st op (impl.filter (fun t => !t.startsWith "cache="))
    (st', .oracle s!"C08,C17: after {" ".intercalate (op.take 3)} the in-memory definition of a live group no longer agrees with its (unchanged) file in {(c.drop 6).toString}: a request altered the stored users, passwords or keys that logins and admin checks are evaluated against")
  | none => stepCore st op impl

def engine : EngineDef := { σ := St, init := {}, step := step }

end Galene.Engine.Api
