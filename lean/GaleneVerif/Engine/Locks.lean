import GaleneVerif.Model.Locks
import GaleneVerif.Model.ChanUse
import GaleneVerif.Engine.Common
/-
Engine `locks`: the regenerated lock facts of /repo (harness/cmd/locks) as ops.
The model side recomputes the verdicts from the fact lines alone (cyclic components of
the lock-order graph; guarded fields an entry point reaches without the guard) and
compares them with the extractor's; the oracle turns a cycle / an unguarded access /
an `unknown` / an unlocked packetcache method into a C13 (C05) violation whose
message carries the witness.  `chanuse` lines are the use sites of unbounded.Channel
(Model/ChanUse.lean): one that leaves the receive-then-Get discipline, a channel with two
consumers, or one that is Put to and never consumed, is a C13 violation naming the site.
-/
namespace Galene.Engine.Locks
open Galene Galene.Engine Galene.Locks

structure St where
  edges : List (String × String) := []
  /-- (fn, field, guard, held) -/
  accs : List (String × String × String × List String) := []
  /-- (caller, callee, held) -/
  calls : List (String × String × List String) := []

def listOf (s : String) : List String := if s = "-" then [] else s.splitOn ","
def listTok (l : List String) : String := if l.isEmpty then "-" else ",".intercalate l

def compsString (cs : List (List String)) : String :=
  if cs.isEmpty then "none" else
  ";".intercalate (sortStrs (cs.map fun c => "[" ++ ",".intercalate c ++ "]"))

def dedup (l : List String) : List String := l.eraseDups

/-- fields guarded by `lock` that `root` reaches without it, and the functions containing those accesses -/
def reachUnguarded (st : St) (lock : String) : Nat → List String → List String → List String × List String × List String
  | 0, _, visited => ([], [], visited)
  | _ + 1, [], visited => ([], [], visited)
  | fuel + 1, f :: todo, visited =>
    if visited.contains f then reachUnguarded st lock fuel todo visited else
    let bad := st.accs.filter (fun a => a.1 == f && a.2.2.1 == lock && !a.2.2.2.contains lock)
    let next := (st.calls.filter (fun c => c.1 == f && !c.2.2.contains lock)).map (·.2.1)
    let (fs, vs, vis) := reachUnguarded st lock fuel (todo ++ next) (f :: visited)
    (bad.map (·.2.1) ++ fs, (if bad.isEmpty then [] else [f]) ++ vs, vis)

def step (st : St) (op impl : List String) : St × Verdict :=
  match op with
  | ["edge", a, b, _] =>
    if impl = ["1"] then ({ st with edges := st.edges ++ [(a, b)] }, .ok)
    else if impl = ["0"] then (st, .ok) else (st, .badop "edge result")
  | ["cycles"] =>
    let cs := cyclicComponents st.edges
    let model := compsString cs
    if model = "none" then (st, cmp model impl)
    else
      let inside := st.edges.filter (fun e => cs.any (fun c => c.contains e.1 && c.contains e.2))
      let es := sortStrs (dedup (inside.map fun e => e.1 ++ "->" ++ e.2))
      match cmp model impl with
      | .ok => (st, .oracle s!"C13: lock-order cycle(s) among {model}: edges {" ".intercalate es}")
      | v => (st, v)
  | ["access", f, field, _, guard, held] =>
    if impl = ["1"] then ({ st with accs := st.accs ++ [(f, field, guard, listOf held)] }, .ok)
    else if impl = ["0"] then (st, .ok) else (st, .badop "access result")
  | ["call", f, g, held] =>
    if impl = ["1"] then ({ st with calls := st.calls ++ [(f, g, listOf held)] }, .ok)
    else if impl = ["0"] then (st, .ok) else (st, .badop "call result")
  | ["guardcheck", root, lock] =>
    let (fs, vs, _) := reachUnguarded st lock (st.calls.length + st.accs.length + 2) [root] []
    let fields := sortStrs (dedup fs)
    let via := sortStrs (dedup (vs.filter (· != root)))
    let model := listTok fields ++ " via " ++ listTok via
    match cmp model impl with
    | .ok =>
      if fields.isEmpty then (st, .ok)
      else
        let tail := if via.isEmpty then "" else s!" (in {listTok via})"
        (st, Verdict.oracle (s!"C13: unguarded access: entry point {root} reaches {listTok fields} without {lock}" ++ tail))
    | v => (st, v)
  | "unknown" :: what =>
    if impl = ["1"] then (st, .oracle s!"C13: the lock-fact extractor could not analyse: {" ".intercalate what}")
    else (st, .ok)
  | ["cachemethod", name] =>
    match impl with
    | ["1"] => (st, .ok)
    | _ => (st, .oracle s!"C05: {name} does not hold Cache.mu around every access to the cache (result {" ".intercalate impl})")
  | ["chanuse", pos, fn, _, kind, _, what] =>
    if impl = ["0"] then (st, .ok) else if impl ≠ ["1"] then (st, .badop "chanuse result") else
    match ChanUse.Kind.ofString? kind with
    | none => (st, .badop "chanuse kind")
    | some .other =>
      (st, .oracle (s!"C13: use of an unbounded.Channel at {pos} in {fn} does not follow the receive-then-Get " ++
        s!"discipline that the no-lost-wakeup proof assumes: {what.replace "_" " "}"))
    | some _ => (st, .ok)
  | ["chanconsumers", ch, recvs, puts] =>
    -- self-contained (a shrunk case must not lose a consumer): the receive-then-Get sites and the Put sites of
    -- channel `ch`, as `pos@fn` lists; the harness answers `stale` if they are not those of the current tree
    let c := (listOf recvs).length
    let p := (listOf puts).length
    if impl = ["stale"] then (st, .ok) else
    match cmp s!"{c} {p}" impl with
    | .ok =>
      if c > 1 then
        (st, .oracle (s!"C13: {c} loops consume the unbounded.Channel {ch} ({recvs}): the no-lost-wakeup proof is " ++
          "about ONE consumer (a second one can take the trigger or the queue from under the first)"))
      else if c == 0 && p > 0 then
        (st, .oracle (s!"C13: actions are Put on the unbounded.Channel {ch} ({puts}) but no use site receives from its " ++
          "trigger channel and then Gets them (uses that leave the discipline are reported separately)"))
      else (st, .ok)
    | v => (st, v)
  | ["chanimpl", pos, fn, _, kind, _, what] =>
    if impl = ["0"] then (st, .ok) else if impl ≠ ["1"] then (st, .badop "chanimpl result") else
    match ChanUse.Kind.ofString? kind with
    | none => (st, .badop "chanimpl kind")
    | some .other =>
      (st, .oracle (s!"C13: unbounded.Channel itself uses its trigger channel at {pos} in {fn} in a way the model of " ++
        s!"Put/Get (Model/Unbounded.lean) does not cover: {what.replace "_" " "}"))
    | some _ => (st, .ok)
  | ["count", _] => (st, .ok)
  | _ => (st, .badop "unknown op")

def engine : EngineDef := { σ := St, init := {}, step := step }

end Galene.Engine.Locks
