import GaleneVerif.Model.Signalling
import GaleneVerif.Engine.Common
/-
Canonical strings of the `sig` engine's line protocol: the same functions as in
harness/cmd/sig/main.go (esc/unesc, value syntax, message/action/state
rendering) and the parsers of the op tokens.

value syntax:  n | s.<esc> | i.<int> | b.0|1 | l.<esc>+<esc>… | m.<key>~<scalar>!<key>~<scalar>…
               t.<token> | T.<token>,<token>…        (server → client only)
token:         <id>/<group>/<user|%>/<perms>/<F|P|->/<F|P|->/<issuedBy|%>
message:       <type>:<kind>[;id=][;rep=][;src=][;dst=][;u=][;priv][;ne][;err=][;g=][;p=a+b][;st=L.N][;d=m.…][;v=…]
               CLOSE:<code>;v=s.<text>
action:        user:<kind>:<id>:<user>:<perms>:<data|->:<group> | conn:<id>:<up>:<replace>:<group>
               | req:<target>:<id>:<group> | perm:<kind> | permchanged | joined:<group>:<kind> | kick:<id>:<user|%>:<msg>
group state:   <u|l.msg>/<history ids a+b>/<data|->/<id^user^perms^data,…>
-/
namespace Galene.Engine.Sig
open Galene Galene.Engine Galene.Sig

def dropS (s : String) (n : Nat) : String := String.ofList (s.toList.drop n)
def takeS (s : String) (n : Nat) : String := String.ofList (s.toList.take n)

def hexU (n : Nat) : Char := "0123456789ABCDEF".toList.getD n '0'

def safeChar (c : Char) : Bool := c.isAlphanum || c = '_' || c = '-'

def esc (s : String) : String :=
  String.ofList (s.toUTF8.toList.flatMap fun b =>
    let c := Char.ofNat b.toNat
    if b.toNat < 128 ∧ safeChar c then [c] else ['%', hexU (b.toNat / 16), hexU (b.toNat % 16)])

def unescAux : List Char → List Char → List Char
  | [], acc => acc.reverse
  | '%' :: a :: b :: rest, acc =>
    match hexVal a, hexVal b with
    | some x, some y => unescAux rest (Char.ofNat (x * 16 + y) :: acc)
    | _, _ => unescAux (a :: b :: rest) ('%' :: acc)
  | c :: rest, acc => unescAux rest (c :: acc)

def unesc (s : String) : String := String.ofList (unescAux s.toList [])

def permStr (p : List String) : String := "+".intercalate (p.map esc)

def optStr : Option String → String
  | none => "%"
  | some s => esc s

def scalarStr : Scalar → String
  | .nil => "n"
  | .str s => "s." ++ esc s
  | .num n => "i." ++ toString n
  | .bool b => "b." ++ b2s b
  | .list l => "l." ++ permStr l

def mapStr (d : Dict) : String := "m." ++ "!".intercalate (d.map fun e => esc e.1 ++ "~" ++ scalarStr e.2)

def timeClass : Option TimeC → String
  | none => "-"
  | some .future => "F"
  | some .past => "P"

def tokStr (t : TokView) : String :=
  "/".intercalate [esc t.id, esc t.group, optStr t.user, permStr t.perms, timeClass t.expires,
    timeClass t.notBefore, optStr t.issuedBy]

def sortStrings (l : List String) : List String := (l.toArray.qsort (· < ·)).toList

def valStr : Val → String
  | .none => ""
  | .sc s => scalarStr s
  | .map d => mapStr d
  | .tok t => "t." ++ tokStr t
  | .toks l => "T." ++ ",".intercalate (sortStrings (l.map tokStr))

def dataStr (d : Dict) : String := if d.isEmpty then "-" else mapStr d

def msgStr (m : OutMsg) : String :=
  match m.closeCode with
  | some c => s!"CLOSE:{c};v={valStr m.value}"
  | none =>
    let f (k v : String) : String := if v = "" then "" else ";" ++ k ++ "=" ++ esc v
    esc m.type ++ ":" ++ esc m.kind ++ f "id" m.id ++ f "rep" m.replace ++ f "src" m.source ++ f "dst" m.dest ++
      (match m.username with | some u => ";u=" ++ esc u | none => "") ++
      (if m.privileged then ";priv" else "") ++ (if m.noecho then ";ne" else "") ++
      f "err" m.error ++ f "g" m.group ++
      (if m.perms.isEmpty then "" else ";p=" ++ permStr m.perms) ++
      (match m.status with | some (l, n) => s!";st={b2s l}.{n}" | none => "") ++
      (if m.data.isEmpty then "" else ";d=" ++ mapStr m.data) ++
      (if m.value == Val.none then "" else ";v=" ++ valStr m.value)

def actStr (w : World) (a : Action) (rendered : List String) : String :=
  match a with
  | .pushClient g kind id username _ data =>
    "user:" ++ esc kind ++ ":" ++ esc id ++ ":" ++ esc username ++ ":" ++ permStr rendered ++ ":" ++ dataStr data ++
      ":" ++ esc g
  | .pushConn g id hasUp replace => "conn:" ++ esc id ++ ":" ++ b2s hasUp ++ ":" ++ esc replace ++ ":" ++ esc g
  | .requestConns g target id => "req:" ++ esc (w.refId target) ++ ":" ++ esc id ++ ":" ++ esc g
  | .changePerm kind => "perm:" ++ esc kind
  | .permChanged => "permchanged"
  | .joined g kind => "joined:" ++ esc g ++ ":" ++ esc kind
  | .kick id user msg => "kick:" ++ esc id ++ ":" ++ optStr user ++ ":" ++ esc msg

def groupStateStr (w : World) (g : Group) : String :=
  let l := match g.locked with | none => "u" | some m => "l." ++ esc m
  let h := "+".intercalate (g.history.map fun e => esc e.id)
  let ms := sortStrings (g.members.map fun r =>
    esc (w.refId r) ++ "^" ++ esc (w.refUsername r) ++ "^" ++ permStr (w.refPerms r) ++ "^" ++ dataStr (w.refData r))
  l ++ "/" ++ h ++ "/" ++ dataStr g.data ++ "/" ++ ",".intercalate ms

def tokenStateStr (w : World) : String :=
  if w.tokens.isEmpty then "-" else ",".intercalate (sortStrings (w.tokens.map fun t => tokStr (tokView w t)))

def probeStr (w : World) : String :=
  if w.clients.isEmpty then "-" else
  " ".intercalate ((List.range w.clients.length).map fun i =>
    let c := (w.client? i).getD {}
    let up := sortStrings (c.up.map fun u => u.1 ++ "~" ++ u.2)
    s!"c{i}={if c.alive then "A" else "D"}/{match c.group with | some g => esc g | none => "%"}/{esc c.username}/{permStr (w.heap.get c.perms)}/{dataStr c.data}/{",".intercalate up}/{c.queue.length}")

def errStatus : CloseErr → String
  | .proto s => "err:proto:" ++ esc s
  | .user s => "err:user:" ++ esc s
  | .kick _ user msg =>
    "err:kick:" ++ esc ("kicked out" ++ (if msg ≠ "" then " (" ++ msg ++ ")" else "") ++
      (match user with | some u => if u ≠ "" then " by " ++ u else "" | none => ""))
  | .ws => "err:wsclose:"
  | .other s => "err:other:" ++ esc s

def panicStatus : String := "panic:" ++ esc "runtime error: invalid memory address or nil pointer dereference"

/-! ### parsing -/

def parseScalar (s : String) : Option Scalar :=
  if s = "n" then some .nil
  else if s.startsWith "s." then some (.str (unesc (dropS s 2)))
  else if s.startsWith "i." then (dropS s 2).toInt?.map .num
  else if s.startsWith "b." then some (.bool (dropS s 2 = "1"))
  else if s.startsWith "l." then
    let r := dropS s 2
    some (.list (if r = "" then [] else (r.splitOn "+").map unesc))
  else none

def parseVal (s : String) : Option Val :=
  if s.startsWith "m." then
    let r := dropS s 2
    if r = "" then some (.map []) else
    let es := (r.splitOn "!").mapM fun kv =>
      match kv.splitOn "~" with
      | [k, v] => (parseScalar v).map fun x => (unesc k, x)
      | _ => none
    es.map fun l => .map (Dict.normalize l)
  else match parseScalar s with
    | some .nil => some .none
    | some x => some (.sc x)
    | none => none

def splitKV (s : String) : String × String :=
  match s.splitOn "=" with
  | [] => ("", "")
  | [k] => (k, "")
  | k :: rest => (k, "=".intercalate rest)

def parseMsg (kvs : List String) : Option Msg :=
  kvs.foldlM (fun (m : Msg) x =>
    let (k, v) := splitKV x
    match k with
    | "t" => some { m with type := unesc v }
    | "k" => some { m with kind := unesc v }
    | "id" => some { m with id := unesc v }
    | "rep" => some { m with replace := unesc v }
    | "src" => some { m with source := unesc v }
    | "dst" => some { m with dest := unesc v }
    | "u" => some { m with username := some (unesc v) }
    | "pw" => some { m with password := unesc v }
    | "tok" => some { m with token := unesc v }
    | "g" => some { m with group := unesc v }
    | "v" => (parseVal v).map fun x => { m with value := x }
    | "ne" => some { m with noecho := v = "1" }
    | "d" => match parseVal v with
      | some (.map d) => some { m with data := d }
      | _ => none
    | "sdp" => some { m with sdpOk := v = "ok" }
    | "req" => (parseVal v).map fun x => { m with request := x }
    | "cand" => some { m with candidate := v = "1" }
    | "lbl" => some m
    | _ => none) {}

def parsePermSpec (s : String) : PermSpec :=
  if s.startsWith "[" then
    let inner := String.ofList ((s.toList.drop 1).takeWhile (· ≠ ']'))
    .explicit (if inner = "" then [] else (inner.splitOn "+").map unesc)
  else .role s

def parseUser (name pw spec : String) : UserCfg :=
  { name := unesc name, pw := if pw = "" ∨ pw = "*" then none else some (unesc pw), anyPw := pw = "*",
    perms := parsePermSpec spec }

def parseGroup (name : String) (kvs : List String) : Option GroupCfg :=
  kvs.foldlM (fun (c : GroupCfg) x =>
    let (k, v) := splitKV x
    match k with
    | "u" => match v.splitOn ":" with
      | [n, p, s] => some { c with users := c.users ++ [parseUser n p s] }
      | _ => none
    | "w" => match v.splitOn ":" with
      | [p, s] => some { c with wildcard := some (parseUser "*" p s) }
      | _ => none
    | "rec" => some { c with allowRecording := true }
    | "utok" => some { c with unrestrictedTokens := true }
    | "alock" => some { c with autolock := true }
    | "akick" => some { c with autokick := true }
    | "auto" => some { c with autoSubgroups := true }
    | "max" => v.toNat?.map fun n => { c with maxClients := n }
    | "age" => v.toNat?.map fun n => { c with maxHistoryAge := n }
    | "redir" => some { c with redirect := unesc v }
    | "closed" => some { c with closed := true }
    | "notyet" => some { c with notYet := true }
    | _ => none) { name := name }

def parseTimeClass (s : String) : Option TimeC :=
  if s = "F" then some .future else if s = "P" then some .past else none

end Galene.Engine.Sig
