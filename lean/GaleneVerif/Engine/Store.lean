import GaleneVerif.Model.TokenStore
import GaleneVerif.Model.SafeReplace
import GaleneVerif.Generated.SyscallsToken
import GaleneVerif.Engine.Common
/-
Engine `store`: token/stateful.go on a temp file (C16).
Every ordinary line carries the op's result and three observations made after it:

  <op> => <result> | <filever> <fresh-etag> <fresh-set> <live-etag> <live-set>

filever/etags: `v<k>` (k-th file version of the case), `-` (no file / empty tag), `err`.
sets: `-` (empty), `err` (load failed), or comma-separated tokens `id:group:sub:exp:nb:pad`
sorted as strings (`~` = empty string, `n` = nil time; times are offsets in seconds from now).

Ops:
  update <tok> <etag> <fault>      => ok|mismatch|err|notfound
  delete <id> <etag> <fault>       => ok|mismatch|notfound|err
  get <id>                         => <tok> <etag> | notfound | err
  list <group>                     => <set> <etag> | err
  check <id> <group>               => ok:<userlen>:present | notfound | err | badgroup | expired | future
  expire <fault>                   => ok|err
  ext <items> <trail>              => done       (another process replaces the file; items: toks / junk<k>)
  extrm | restart | setfile        => done
  race <n> <u|d> <tok> <etag>      => r0,r1,...  (n concurrent writers presenting the same tag)
  syscalls <scenario>              => canonical syscall list of one replacement, captured with strace
  crash <scenario> <syscall> <k>   => killed|survived old|new|other:<set> leftover=<n>
etag tokens: `-` empty, `cur` the file's current tag, `v<k>`, `bogus`.  faults: none|fs|fd.
A result `aba` (a version tag was reused for different contents) abandons the case.
-/
namespace Galene.Engine.Store
open Galene Galene.Engine Galene.TokenStore

/-! ### token / set syntax -/

def unq (s : String) : String := if s = "~" then "" else s
def q (s : String) : String := if s = "" then "~" else s

def optInt? (s : String) : Option (Option Int) :=
  if s = "n" then some none else (int? s).map some

def optIntStr : Option Int → String
  | none => "n"
  | some i => toString i

def parseTok? (s : String) : Option Tok :=
  match s.splitOn ":" with
  | [id, g, sub, exp, nb, pad] =>
    match bool? sub, optInt? exp, optInt? nb, nat? pad with
    | some sub, some exp, some nb, some pad => some { id := unq id, group := unq g, sub, exp, nb, pad }
    | _, _, _, _ => none
  | _ => none

def tokStr (t : Tok) : String :=
  s!"{q t.id}:{q t.group}:{b2s t.sub}:{optIntStr t.exp}:{optIntStr t.nb}:{t.pad}"

def insertStr (s : String) : List String → List String
  | [] => [s]
  | x :: xs => if s < x then s :: x :: xs else x :: insertStr s xs

def sortStrs (xs : List String) : List String := xs.foldr insertStr []

def setStr (m : List Tok) : String :=
  if m.isEmpty then "-" else ",".intercalate (sortStrs (m.map tokStr))

def verStr : Option Nat → String
  | none => "-"
  | some v => s!"v{v}"

def fault? : String → Option Fault
  | "none" => some .none
  | "fs" => some .fs
  | "fd" => some .fd
  | _ => none

def resStr : Res → String
  | .ok => "ok" | .mismatch => "mismatch" | .notfound => "notfound" | .err => "err" | .panic => "panic"

def fileVer (s : St) : Option Nat := s.file.map (·.2)

/-- etag token → the model's tag (`bogus` and unknown versions can never equal a real one) -/
def etag? (s : St) (e : String) : Option (Option Nat) :=
  if e = "-" then some none
  else if e = "cur" then some (fileVer s)
  else if e = "bogus" then some (some 0)
  else if e.startsWith "v" then (nat? (e.drop 1).toString).map some
  else none

def parseItems? (items : String) : Option (List Line) :=
  if items = "-" then some [] else
  (items.splitOn ",").mapM fun it =>
    if it.startsWith "junk" then some Line.junk else (parseTok? it).map Line.tok

/-- the three observations after an op, as the harness prints them -/
def observe (s : St) : String :=
  let f := match (TokenStore.list (restart s) none).2 with
    | none => "err err"
    | some (a, e) => s!"{verStr e} {setStr a}"
  let l := match (TokenStore.list s none).2 with
    | none => "err err"
    | some (a, e) => s!"{verStr e} {setStr a}"
  s!"{verStr (fileVer s)} {f} {l}"

/-! ### concurrent writers: find a sequential order that explains the results -/

def permsAux : Nat → List Nat → List (List Nat)
  | 0, _ => [[]]
  | fuel + 1, xs =>
    if xs.isEmpty then [[]] else
    xs.flatMap fun x => (permsAux fuel (xs.erase x)).map (x :: ·)

def permutations (xs : List Nat) : List (List Nat) := permsAux xs.length xs

/-- run writers in the given order; returns final state and results indexed by writer -/
def runOrder (s : St) (writer : Nat → St → St × Res) (order : List Nat) (n : Nat) : St × List String :=
  let (s', rs) := order.foldl (fun (acc : St × List (Nat × Res)) j =>
    let (s1, r) := writer j acc.1
    (s1, (j, r) :: acc.2)) (s, [])
  (s', (List.range n).map fun j => match rs.lookup j with
    | some r => resStr r
    | none => "?")

/-! ### oracle (from the ops and the implementation's outputs only) -/

structure Orc where
  /-- what a fresh server loaded after the previous op (`none` = load error) -/
  prevSet : Option (List String) := some []
  /-- the file's version tag after the previous op -/
  prevTag : String := "-"
  /-- ids deleted / swept and not re-created since -/
  revoked : List String := []
  /-- non-empty tags presented by operations that succeeded -/
  consumed : List String := []

def parseSet (s : String) : Option (List String) :=
  if s = "err" then none else if s = "-" then some [] else some (s.splitOn ",")

def idOf (tokstr : String) : String := (tokstr.splitOn ":").headD ""
def fieldOf (tokstr : String) (i : Nat) : String := (tokstr.splitOn ":").getD i ""

def setShow : Option (List String) → String
  | none => "err"
  | some [] => "{}"
  | some xs => "{" ++ ",".intercalate xs ++ "}"

def sameSet (a b : Option (List String)) : Bool :=
  match a, b with
  | none, none => true
  | some x, some y => sortStrs x = sortStrs y
  | _, _ => false

def sweepableStr (tokstr : String) : Bool :=
  match int? (fieldOf tokstr 3) with
  | some e => e < -604800
  | none => false

/-- resolve an etag token against the tag the file had before the op -/
def resolveTag (o : Orc) (e : String) : String := if e = "cur" then o.prevTag else e

structure Obs where
  ftag : String
  fetag : String
  fset : Option (List String)
  letag : String
  lset : Option (List String)

/-- checks for one successful conditional write (update / delete) of `id` presenting tag `e`;
`newTok = none` for a delete. -/
def checkWrite (o : Orc) (id e : String) (newTok : Option String) (ob : Obs) (what : String) : Option String :=
  let e := resolveTag o e
  match o.prevSet with
  | none => some s!"C16: {what} succeeded although the token file could not be read (a fresh server fails to load it)"
  | some p =>
    let present := p.any (fun t => idOf t = id)
    if present && e = "-" && newTok.isSome then
      some s!"C16: {what} with an empty tag (creation) succeeded although token {id} exists: creation requires absence"
    else if present && e ≠ o.prevTag then
      some s!"C16: {what} carrying tag {e} succeeded although the file it replaces has tag {o.prevTag}"
    else if !present && e ≠ "-" && e ≠ o.prevTag then
      some s!"C16: {what} carrying stale tag {e} succeeded (file has tag {o.prevTag})"
    else if e ≠ "-" && o.consumed.contains e then
      some s!"C16: {what}: a second operation presenting tag {e} succeeded"
    else
      let want := match newTok with
        | some t => t :: p.filter (fun x => idOf x ≠ id)
        | none => p.filter (fun x => idOf x ≠ id)
      if !sameSet (some want) ob.fset then
        some s!"C16: after the successful {what} a fresh server loads {setShow ob.fset}, expected {setShow (some (sortStrs want))} (other tokens must be untouched, the change durable)"
      else if ob.ftag = o.prevTag && ob.ftag ≠ "-" then
        some s!"C16: {what} succeeded but the file's version tag is still {ob.ftag}: a second writer presenting it would succeed too"
      else none

def unchanged (o : Orc) (ob : Obs) (what : String) : Option String :=
  if sameSet o.prevSet ob.fset then none
  else some s!"C16: {what} changed what a fresh server loads from {setShow o.prevSet} to {setShow ob.fset}"

def firstSome : List (Unit → Option String) → Option String
  | [] => none
  | f :: fs => match f () with
    | some m => some m
    | none => firstSome fs

/-- The oracle for one ordinary line.  Returns the new oracle state and a violation message. -/
def oracle (o : Orc) (op res : List String) (ob : Obs) : Orc × Option String :=
  let base : Unit → Option String := fun _ =>
    if !sameSet ob.fset ob.lset then
      some s!"C16: the live server honours {setShow ob.lset} but a freshly started server reads {setShow ob.fset} from the token file"
    else if ob.fetag ≠ ob.letag then
      some s!"C16: the live server reports file version {ob.letag}, a freshly started server {ob.fetag}"
    else none
  let o1 : Orc := { o with prevSet := ob.fset, prevTag := ob.ftag }
  let revokedCheck (o' : Orc) : Unit → Option String := fun _ =>
    let honoured := (ob.fset.getD []) ++ (ob.lset.getD [])
    match o'.revoked.find? (fun id => honoured.any (fun t => idOf t = id)) with
    | some id => some s!"C16: token {id} was deleted or swept and has not been re-created, but is honoured again ({setShow ob.lset} live, {setShow ob.fset} after a restart)"
    | none => none
  let finish (o' : Orc) (specific : Unit → Option String) : Orc × Option String :=
    (o', firstSome [specific, base, revokedCheck o'])
  match op, res with
  | ["update", tok, e, _], [r] =>
    let id := idOf tok
    if r = "ok" then
      let e' := resolveTag o e
      finish { o1 with revoked := o.revoked.filter (· ≠ id),
                       consumed := if e' = "-" then o.consumed else e' :: o.consumed }
        (fun _ => checkWrite o id e (some tok) ob s!"update of {id}")
    else finish o1 (fun _ => unchanged o ob s!"the failed update of {id} ({r})")
  | ["delete", id, e, _], [r] =>
    if r = "ok" then
      finish { o1 with revoked := id :: o.revoked.filter (· ≠ id), consumed := resolveTag o e :: o.consumed }
        (fun _ => checkWrite o id e none ob s!"delete of {id}")
    else finish o1 (fun _ => unchanged o ob s!"the failed delete of {id} ({r})")
  | ["expire", _], [r] =>
    if r = "ok" then
      match o.prevSet, ob.fset with
      | some p, some f =>
        let removed := p.filter (fun t => !f.contains t)
        let added := f.filter (fun t => !p.contains t)
        finish { o1 with revoked := removed.map idOf ++ o.revoked }
          (fun _ =>
            if !added.isEmpty then some s!"C16: the expiry sweep added or changed tokens: {setShow (some added)}"
            else match removed.find? (fun t => !sweepableStr t) with
              | some t => some s!"C16: the expiry sweep removed {t}, which has not been expired for a week"
              | none => none)
      | _, _ => finish o1 (fun _ => unchanged o ob "the expiry sweep on an unreadable file")
    else finish o1 (fun _ => firstSome [
      (fun _ => unchanged o ob s!"the failed expiry sweep ({r})"),
      -- the one divergence with a name of its own: Expire drops the swept tokens from memory
      -- before rewriting the file and does not put them back when the rewrite fails
      (fun _ => match ob.fset, ob.lset with
        | some f, some l =>
          let lost := f.filter (fun t => !l.contains t)
          if !lost.isEmpty && lost.all sweepableStr && l.all f.contains then
            some s!"C16: after the failed expiry sweep ({r}) the live server no longer knows {setShow (some lost)} (expired for a week) although the file still holds them; a freshly started server reads {setShow ob.fset}"
          else none
        | _, _ => none)])
  | ["get", id], r =>
    finish o1 (fun _ => firstSome [
      (fun _ => unchanged o ob "get"),
      (fun _ => match r, ob.fset with
        | ["err"], none => none
        | ["err"], some _ => some s!"C16: Get({id}) fails but a fresh server loads the file"
        | ["notfound"], some f =>
          if f.any (fun t => idOf t = id) then some s!"C16: Get({id}) says not found but a fresh server loads {setShow ob.fset}" else none
        | [t, e], some f =>
          if !f.contains t then some s!"C16: Get({id}) returned {t} but a fresh server loads {setShow ob.fset}"
          else if e ≠ ob.fetag then some s!"C16: Get({id}) returned tag {e}, a fresh server reports {ob.fetag}"
          else none
        | _, _ => some s!"C16: Get({id}) returned {r} but a fresh server cannot load the file")])
  | ["list", g], r =>
    finish o1 (fun _ => firstSome [
      (fun _ => unchanged o ob "list"),
      (fun _ => match r, ob.fset with
        | ["err"], none => none
        | [s, e], some f =>
          let want := f.filter (fun t => fieldOf t 1 = g)
          if !sameSet (parseSet s) (some want) then
            some s!"C16: List({g}) returned {s} but a fresh server loads {setShow (some want)} for that group"
          else if e ≠ ob.fetag then some s!"C16: List({g}) returned tag {e}, a fresh server reports {ob.fetag}"
          else none
        | _, _ => some s!"C16: List({g}) returned {r}, a fresh server loads {setShow ob.fset}")])
  | ["check", id, _], [r] =>
    finish o1 (fun _ => firstSome [
      (fun _ => unchanged o ob "check"),
      (fun _ =>
        if r.startsWith "ok:" then
          let pad := fieldOf r 1
          match ob.fset with
          | none => some s!"C16: token {id} authorises but a fresh server cannot load the file"
          | some f =>
            match f.find? (fun t => idOf t = id) with
            | none => some s!"C16: token {id} authorises but is not in the file a fresh server loads ({setShow ob.fset})"
            | some t =>
              if fieldOf t 5 ≠ pad then some s!"C16: token {id} authorises as user of length {pad}, the file says {t}"
              else match int? (fieldOf t 3) with
                | none => some s!"C16: token {id} = {t} authorises without an expiry time"
                | some e => if e < 0 then some s!"C16: token {id} = {t} authorises although it has expired" else none
        else none)])
  | ["ext", items, _], _ =>
    let ids := if items = "-" then [] else (items.splitOn ",").map idOf
    finish { o1 with revoked := o.revoked.filter (fun id => !ids.contains id) } (fun _ => none)
  | ["extrm"], _ => finish o1 (fun _ => none)
  | ["restart"], _ => finish o1 (fun _ => unchanged o ob "a restart")
  | ["setfile"], _ => finish o1 (fun _ => unchanged o ob "SetStatefulFilename")
  | ["race", _, kind, tok, e], [rs] =>
    let id := idOf tok
    let results := rs.splitOn ","
    let wins := (results.filter (· = "ok")).length
    if wins = 0 then finish o1 (fun _ => unchanged o ob "a set of failed concurrent writers")
    else
      let w := (results.findIdx? (· = "ok")).getD 0
      let isDel := kind = "d" && w = 0
      let newTok : Option String := if isDel then none else
        match parseTok? tok with
        | some t => some (tokStr { t with pad := t.pad + w })
        | none => some tok
      let e' := resolveTag o e
      finish { o1 with revoked := if isDel then id :: o.revoked.filter (· ≠ id) else o.revoked.filter (· ≠ id),
                       consumed := if e' = "-" then o.consumed else e' :: o.consumed }
        (fun _ =>
          if wins > 1 then some s!"C16: {wins} concurrent operations presenting the same tag {e'} for token {id} all succeeded"
          else checkWrite o id e newTok ob s!"concurrent {if isDel then "delete" else "update"} of {id}")
  | _, _ => (o1, none)

/-! ### atomic replacement -/

open Galene.SafeReplace in
def parsePath? (s : String) : Option Path :=
  match s.splitOn "." with
  | [d, n] => match nat? d, nat? n with
    | some d, some n => some ⟨d, n⟩
    | _, _ => none
  | _ => none

open Galene.SafeReplace in
def parseSys? (s : String) : Option SafeReplace.Op :=
  match s.splitOn ":" with
  | ["write", p, n] => match parsePath? p, nat? n with
    | some p, some n => some (.write p n)
    | _, _ => none
  | ["rename", a, b] => match parsePath? a, parsePath? b with
    | some a, some b => some (.rename a b)
    | _, _ => none
  | [k, p] => match parsePath? p with
    | some p =>
      if k = "creat" then some (.createExcl p) else if k = "append" then some (.openAppend p)
      else if k = "trunc" then some (.openTrunc p) else if k = "read" then some (.openRead p)
      else if k = "fsync" then some (.fsync p) else if k = "close" then some (.close p)
      else if k = "unlink" then some (.unlink p) else if k = "other" then some (.other p) else none
    | none => none
  | _ => none

open Galene.SafeReplace Galene.Generated.SyscallsToken in
def generatedOps (scenario : String) : Option (List SafeReplace.Op) :=
  if scenario = "rewrite" then some rewriteOps
  else if scenario = "add" then some addOps
  else if scenario = "addfresh" then some addfreshOps
  else if scenario = "remove" then some removeOps
  else if scenario = "expire" then some expireOps
  else none

/-! ### the step function -/

structure St' where
  m : St := {}
  orc : Orc := {}
  dead : Bool := false

/-- split the implementation's tokens at `|` -/
def splitObs (impl : List String) : Option (List String × Obs) :=
  let res := impl.takeWhile (· ≠ "|")
  match impl.dropWhile (· ≠ "|") with
  | ["|", ftag, fetag, fset, letag, lset] =>
    some (res, { ftag, fetag, fset := parseSet fset, letag, lset := parseSet lset })
  | _ => none

/-- the model's result for one ordinary op (new state, result tokens) -/
def modelStep (s : St) (op impl : List String) : Option (St × String) :=
  match op with
  | ["update", tok, e, f] =>
    match parseTok? tok, etag? s e, fault? f with
    | some t, some e, some f => let (s', r) := update s t e f; some (s', resStr r)
    | _, _, _ => none
  | ["delete", id, e, f] =>
    match etag? s e, fault? f with
    | some e, some f => let (s', r) := delete s (unq id) e f; some (s', resStr r)
    | _, _ => none
  | ["tick"] => some (s, "ok")
  | ["get", id] =>
    let (s', r) := get s (unq id)
    some (s', match r with
      | .ok (t, e) => s!"{tokStr t} {verStr e}"
      | .error e => resStr e)
  | ["list", g] =>
    let (s', r) := TokenStore.list s (some (unq g))
    some (s', match r with
      | some (a, e) => s!"{setStr a} {verStr e}"
      | none => "err")
  | ["check", id, g] =>
    let (s', r) := get s (unq id)
    some (s', match r with
      | .ok (t, _) => match check t (unq g) 0 with
        | .ok pad => s!"ok:{pad}:present"
        | .badgroup => "badgroup"
        | .expired => "expired"
        | .future => "future"
      | .error e => resStr e)
  | ["expire", f] =>
    match fault? f with
    | some f => let (s', r) := expire s 0 f; some (s', resStr r)
    | none => none
  | ["ext", items, _] =>
    match parseItems? items with
    | some ls => some (extEdit s ls, "done")
    | none => none
  | ["extrm"] => some (extRemove s, "done")
  | ["restart"] => some (restart s, "done")
  | ["setfile"] => some (setFile s, "done")
  | ["race", n, kind, tok, e] =>
    match nat? n, parseTok? tok, etag? s e with
    | some n, some t, some e =>
      let writer (j : Nat) (st : St) : St × Res :=
        if kind = "d" && j = 0 then delete st t.id e .none
        else update st { t with pad := t.pad + j } e .none
      let implRes := match impl.takeWhile (· ≠ "|") with
        | [rs] => rs.splitOn ","
        | _ => []
      let orders := permutations (List.range n)
      let cands := orders.map (fun o => runOrder s writer o n)
      match cands.find? (fun c => c.2 = implRes) with
      | some c => some (c.1, ",".intercalate c.2)
      | none =>
        match cands with
        | c :: _ => some (c.1, ",".intercalate c.2)
        | [] => none
    | _, _, _ => none
  | _ => none

open Galene.SafeReplace in
def step (st : St') (op impl : List String) : St' × Verdict :=
  match op with
  | ["syscalls", sc] =>
    if impl.head?.any (·.startsWith "unavailable") then (st, .ok) else
    match impl.mapM parseSys? with
    | none => (st, .badop s!"syscalls: cannot parse {impl}")
    | some ops =>
      if !SafeReplace ⟨0, 0⟩ ops then
        (st, .oracle s!"C16: the syscalls by which the token file is replaced ({sc}) do not have the safe shape (only a rename from a closed temp file of the same directory, a single unlink, or one append-write may touch it): {" ".intercalate impl}")
      else match generatedOps sc with
        | some g => if g = ops then (st, .ok) else (st, .mismatch s!"Generated/SyscallsToken.lean is stale for {sc}")
        | none => (st, .badop "syscalls: unknown scenario")
  | ["crash", sc, sys, k] =>
    match impl with
    | [fate, state, _] =>
      if fate.startsWith "unavailable" then (st, .ok)
      else if state = "old" || state = "new" then (st, .ok)
      else (st, .oracle s!"C16: after killing the server at its {k}-th {sys} during a token-file replacement ({sc}) the file holds neither the complete old nor the complete new set: {state}")
    | [u] => if u.startsWith "unavailable" then (st, .ok) else (st, .badop "crash result")
    | _ => (st, .badop "crash result")
  | _ =>
    if st.dead then (st, .ok) else
    if impl = ["aba"] then ({ st with dead := true }, .ok) else
    if (impl.head?.getD "").startsWith "tagclash:" then
      ({ st with dead := true }, .oracle s!"C16: two versions of the token file that differ in size or modification time were served under the same version tag (tag : size-mtime of the first : size-mtime of the second): {(impl.head?.getD "").drop 9}: a conditional update or delete holding the older version's tag would be accepted") else
    match splitObs impl with
    | none => (st, .badop "no observation part")
    | some (res, ob) =>
      let (orc', ov) := oracle st.orc op res ob
      match modelStep st.m op impl with
      | none => (st, .badop "cannot parse op")
      | some (m', r) =>
        let v := cmp s!"{r} | {observe m'}" impl
        ({ st with m := m', orc := orc' }, match ov with
          | some msg => .oracle msg
          | none => v)

def engine : EngineDef := { σ := St', init := {}, step := step }

end Galene.Engine.Store
