import GaleneVerif.Model.PacketMap
import GaleneVerif.Engine.Common
import GaleneVerif.Engine.Params
/-
Engine `pmap`: packetmap.Map public API (C01, C03, picture-id part of C02).
Ops:
  newmap
  map seq pid      => ok n pd
  drop seq pid     => 0|1
  reverse n        => ok s pd
Oracle (C01/C03), from the implementation's observed outputs only: sequence
numbers are unwrapped against a ghost `U` (unwrapped next); `D` is the list of
unwrapped numbers whose Drop returned true; a forwarded packet `u` must carry
`(u - |{d ∈ D | d < u}|) mod 2^16` and must not be in `D`; `Reverse n = s` must
satisfy the same equation.  A jump beyond the re-synchronisation window starts
a new epoch (outside C01's quantifier; the model diff still covers it).
-/
namespace Galene.Engine.PacketMap
open Galene Galene.Engine Galene.PacketMap

structure Orc where
  U : Nat := 1048576           -- unwrapped next (≡ 0 mod 2^16 initially, like Map.next)
  D : List Nat := []           -- withheld unwrapped numbers, newest first
  nD : Nat := 0
  fwd : List (Nat × Nat) := [] -- recently forwarded (u, number), newest first (bounded)
  started : Bool := false

structure St where
  m : State := {}
  P : Params := pmParams
  orc : Orc := {}

def W : Nat := pmParams.W

/-- number of withheld packets below `u` (D is newest first, so scanning stops early) -/
def below (o : Orc) (u : Nat) : Nat := o.nD - (o.D.takeWhile (· ≥ u)).length

def expected (o : Orc) (u : Nat) : Nat := (u - below o u) % 65536

def resS (r : Option Result) : String :=
  match r with
  | none => "panic"
  | some (ok, n, pd) => s!"{b2s ok} {n} {pd}"

/-- lift a 16-bit seqno against U: (u, resync?) -/
def lift (o : Orc) (s : Nat) : Nat × Bool :=
  let n16 := o.U % 65536
  if PacketMap.compare n16 s ≤ 0 then
    let d := sub16 s n16
    (o.U + d, d > W)
  else
    let d := sub16 n16 s
    (o.U - d, d > W)

def step (st : St) (op impl : List String) : St × Verdict :=
  match op with
  | ["newmap"] => ({ m := {}, P := st.P, orc := {} }, .ok)
  | ["map", s, pid] =>
    match nat? s, nat? pid with
    | some s, some pid =>
      let r := mapOp st.P st.m s pid
      let (m', out) := match r with
        | none => (st.m, "panic")
        | some (m', r) => (m', resS (some r))
      let v := cmp out impl
      let o := st.orc
      -- the first packet of a stream defines the origin
      let o := if o.started then o else { o with U := 1048576 + s, started := true }
      let (u, resync) := lift o s
      let (o', ov) : Orc × Verdict :=
        if resync then ({ U := u + 1, D := [], nD := 0, fwd := [], started := true }, .ok)
        else
          let o1 := if u ≥ o.U then { o with U := u + 1 } else o
          match impl with
          | ["1", n, _] =>
            match nat? n with
            | some n =>
              if o.D.contains u then
                (o1, .oracle s!"C01: packet {s} (unwrapped {u}) was withheld (Drop returned true) and is now forwarded as {n}")
              else if n ≠ expected o u then
                (o1, .oracle s!"C01: packet {s} forwarded as {n}, expected {expected o u} (= seqno minus {below o u} earlier withheld packets)")
              else
                match o.fwd.find? (fun p => p.2 = n && p.1 ≠ u && p.1 + 32768 > u) with
                | some p => (o1, .oracle s!"C01: packets {p.1 % 65536} and {s} both forwarded as {n}")
                | none => ({ o1 with fwd := ((u, n) :: o1.fwd).take 64 }, .ok)
            | none => (o1, .badop "map result")
          | _ => (o1, .ok)
      ({ st with m := m', orc := o' }, match ov with | .ok => v | x => x)
    | _, _ => (st, .badop "map")
  | ["drop", s, pid] =>
    match nat? s, nat? pid with
    | some s, some pid =>
      let (m', b) := dropOp st.P st.m s pid
      let v := cmp (b2s b) impl
      let o := st.orc
      let (o', ov) : Orc × Verdict :=
        if impl = ["1"] then
          let (u, resync) := lift o s
          if resync || u ≠ o.U then
            -- accepted a drop that is not the next in-order packet: every later number shifts retroactively
            if o.fwd.any (fun p => p.1 > u) then
              (o, .oracle s!"C01: Drop({s}) accepted although later packets were already forwarded")
            else ({ o with D := u :: o.D, nD := o.nD + 1, U := max o.U (u + 1) }, .ok)
          else ({ o with D := u :: o.D, nD := o.nD + 1, U := u + 1 }, .ok)
        else (o, .ok)
      ({ st with m := m', orc := o' }, match ov with | .ok => v | x => x)
    | _, _ => (st, .badop "drop")
  | ["reverse", n] =>
    match nat? n with
    | some n =>
      let v := cmp (resS (reverse st.m n)) impl
      let o := st.orc
      let ov : Verdict := match impl with
        | ["1", s, _] =>
          match nat? s with
          | some s =>
            -- lift s into (U - 32768, U]
            let n16 := o.U % 65536
            let d := sub16 n16 s
            if d ≥ 32768 || d = 0 then .ok      -- not a recent packet: outside C03's "recently forwarded"
            else
              let u := o.U - d
              if o.D.contains u then .oracle s!"C03: Reverse({n}) = {s}, a packet that was withheld"
              else if expected o u ≠ n then
                .oracle s!"C03: Reverse({n}) = {s}, but {s} is forwarded as {expected o u}"
              else .ok
          | none => .badop "reverse result"
        | _ => .ok
      (st, match ov with | .ok => v | x => x)
    | none => (st, .badop "reverse")
  | _ => (st, .badop "unknown op")

def engine : EngineDef := { σ := St, init := {}, step := step }

end Galene.Engine.PacketMap
