/-
Shared pieces of the line-protocol driver: token parsing, the deterministic
payload generator and byte hash that the Go harness implements identically
(harness/common/common.go), and the verdict type.
-/
namespace Galene.Engine

inductive Verdict where
  | ok
  | mismatch (model : String)
  | oracle (msg : String)
  | badop (msg : String)
  deriving Repr

/-- An engine: model state + oracle state, one step per trace line.  `step st op impl`
gets the op tokens and the implementation's result tokens. -/
structure EngineDef where
  σ : Type
  init : σ
  step : σ → List String → List String → σ × Verdict

def nat? (s : String) : Option Nat := s.toNat?
def int? (s : String) : Option Int := s.toInt?
def bool? (s : String) : Option Bool :=
  if s = "1" || s = "true" then some true else if s = "0" || s = "false" then some false else none
def b2s (b : Bool) : String := if b then "1" else "0"

/-- byte `j` of the synthetic payload with seed `seed` (same formula in Go). -/
def payloadByte (seed j : Nat) : Nat := ((seed + 1) * (j + 17) + j / 3 + seed / 5) % 251

def payload (seed len : Nat) : List Nat := (List.range len).map (payloadByte seed)

/-- polynomial hash of a byte list (same formula in Go). -/
def hashBytes (bs : List Nat) : Nat := bs.foldl (fun h b => (h * 257 + b + 1) % 1000000007) 7

def joinNats (xs : List Nat) : String := " ".intercalate (xs.map toString)

/-- compare a model result with the implementation's tokens -/
def cmp (model : String) (impl : List String) : Verdict :=
  if model = " ".intercalate impl then .ok else .mismatch model

/-- hex string → bytes -/
def hexVal (c : Char) : Option Nat :=
  if '0' ≤ c && c ≤ '9' then some (c.toNat - '0'.toNat)
  else if 'a' ≤ c && c ≤ 'f' then some (c.toNat - 'a'.toNat + 10)
  else if 'A' ≤ c && c ≤ 'F' then some (c.toNat - 'A'.toNat + 10)
  else none

def unhexAux : List Char → List Nat → Option (List Nat)
  | [], acc => some acc.reverse
  | [_], _ => none
  | a :: b :: rest, acc =>
    match hexVal a, hexVal b with
    | some x, some y => unhexAux rest ((x * 16 + y) :: acc)
    | _, _ => none

/-- "-" denotes the empty byte string. -/
def unhex (s : String) : Option (List Nat) := if s = "-" then some [] else unhexAux s.toList []

def hexDigit (n : Nat) : Char := "0123456789abcdef".toList.getD n '0'
def hex (bs : List Nat) : String :=
  if bs.isEmpty then "-" else String.ofList (bs.flatMap fun b => [hexDigit (b / 16 % 16), hexDigit (b % 16)])

end Galene.Engine
