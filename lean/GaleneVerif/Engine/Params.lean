import GaleneVerif.Generated.Params
import GaleneVerif.Model.PacketMap
import GaleneVerif.Model.DownTrack
/- The models' parameters, instantiated from the constants regenerated from /repo. -/
namespace Galene.Engine
open Galene

def pmParams : PacketMap.Params :=
  { maxEntries := Generated.pmMaxEntries, W := Generated.pmWindows.headD 0, maxCount := Generated.pmMaxCount }

def downConsts : Down.Consts :=
  { minLossRate := Generated.minLossRate, initLossRate := Generated.initLossRate,
    maxLossRate := Generated.maxLossRate, defaultMax := Generated.defaultMaxBitrate }

end Galene.Engine
