import GaleneVerif.Engine.SigRender
/-
Property oracles of the `sig` engine (C11, C12, C14, C15).

Everything here is computed from the ops and from the implementation's reported
outputs only: what was written to each client, what was queued for each client,
and the group / token / role-table state the harness reads from the real
objects.  Nothing of Model/Signalling.lean is used (only the parsers of the op
syntax and the `GroupCfg`/`Msg` records they fill).

The oracle keeps a *specification* state:
* who is a member of what (a client becomes a member when the server queues its
  `joined … join` and does not answer `fail`/`redirect`; it stops being one when
  it leaves or its connection ends),
* which permissions each member has been **granted**: the role table of the
  property text applied to the credentials it joined with, then the moderation
  actions it has handled,
* each group's chat history as the property defines it (last ≤ 50 broadcast chat
  messages, minus cleared ones),
* each client's user list folded from the `user` events the way static/protocol.js does.
-/
namespace Galene.Engine.Sig
open Galene Galene.Engine Galene.Sig

/-! ### parsing the implementation's report -/

structure PMsg where
  type : String := ""
  kind : String := ""
  fields : List (String × String) := []
  raw : String := ""
  deriving Repr, Inhabited

def PMsg.get (m : PMsg) (k : String) : String := ((m.fields.find? (·.1 = k)).map (·.2)).getD ""
def PMsg.has (m : PMsg) (k : String) : Bool := m.fields.any (·.1 = k)

def parsePMsg (s : String) : PMsg :=
  match s.splitOn ";" with
  | [] => { raw := s }
  | hd :: rest =>
    let (t, k) := match hd.splitOn ":" with
      | [t] => (t, "")
      | t :: ks => (t, ":".intercalate ks)
      | [] => ("", "")
    { type := t, kind := k, fields := rest.map splitKV, raw := s }

/-- (id, username, perms sorted, data) -/
abbrev URow := String × String × String × String

def sortPerms (p : String) : String :=
  if p = "" then "" else "+".intercalate (sortStrings (p.splitOn "+")).eraseDups

def permList (p : String) : List String := if p = "" then [] else p.splitOn "+"

structure GTruth where
  locked : String := "u"
  hist : List String := []
  data : String := "-"
  members : List URow := []
  deriving Repr, Inhabited

def parseGTruth (s : String) : GTruth :=
  match s.splitOn "/" with
  | [l, h, d, m] =>
    { locked := l, hist := if h = "" then [] else h.splitOn "+", data := d,
      members := if m = "" then [] else (m.splitOn ",").map fun x =>
        match x.splitOn "^" with
        | [i, u, p, dd] => (i, u, sortPerms p, dd)
        | _ => (x, "", "", "") }
  | _ => {}

structure OTok where
  id : String := ""
  group : String := ""
  user : String := ""
  perms : String := ""
  exp : String := ""
  nbf : String := ""
  issuedBy : String := ""
  deriving Repr, BEq, Inhabited

def parseOTok (s : String) : OTok :=
  match s.splitOn "/" with
  | [i, g, u, p, e, n, b] => { id := i, group := g, user := u, perms := p, exp := e, nbf := n, issuedBy := b }
  | _ => { id := s }

def parseOToks (s : String) : List OTok := if s = "-" ∨ s = "" then [] else (s.splitOn ",").map parseOTok

structure Report where
  status : String := ""
  writes : List (Nat × List PMsg) := []
  queues : List (Nat × List String) := []
  groups : List (String × GTruth) := []
  toks : Option (List OTok) := none
  roles : List (String × String) := []
  deriving Inhabited

def parseReport (impl : List String) : Report :=
  match impl with
  | [] => {}
  | st :: rest =>
    rest.foldl (fun (r : Report) t =>
      let (k, v) := splitKV t
      if k.startsWith "g." then { r with groups := r.groups ++ [(unesc (dropS k 2), parseGTruth v)] }
      else if k = "t" then { r with toks := some (parseOToks v) }
      else if k.startsWith "r." then { r with roles := r.roles ++ [(dropS k 2, v)] }
      else if k.startsWith "w" then
        match (dropS k 1).toNat? with
        | some i => { r with writes := r.writes ++ [(i, (v.splitOn "|").map parsePMsg)] }
        | none => r
      else if k.startsWith "q" then
        match (dropS k 1).toNat? with
        | some i => { r with queues := r.queues ++ [(i, v.splitOn "|")] }
        | none => r
      else r) { status := st }

def Report.w (r : Report) (i : Nat) : List PMsg := ((r.writes.find? (·.1 = i)).map (·.2)).getD []
def Report.q (r : Report) (i : Nat) : List String := ((r.queues.find? (·.1 = i)).map (·.2)).getD []

/-! ### specification state -/

structure OHist where
  id : String := ""
  source : String := ""
  user : String := "%"          -- rendered: % = none
  age : Nat := 0
  kind : String := ""
  value : String := ""          -- rendered value ("" = none)
  deriving Repr, BEq, Inhabited

structure OClient where
  id : String := ""
  alive : Bool := true
  group : Option String := none
  username : String := ""
  perms : List String := []
  view : List URow := []
  /-- the group of the last `joined … join` written to the client (its own idea of where it is) -/
  viewGroup : Option String := none
  queue : List String := []
  /-- "group|id" for every client that has been in `group` together with this one -/
  seen : List String := []
  up : List String := []
  /-- how the last `join` of this connection was answered: "", "ok", "fail", "redirect" -/
  lastJoin : String := ""
  /-- it has left a group (by `leave`) at least once -/
  hasLeft : Bool := false
  /-- the token it joined with, if any -/
  tokenUsed : String := ""
  /-- its writer has died (the connection failed) while it is still a member: nothing reaches it any more -/
  deaf : Bool := false
  deriving Repr, Inhabited

structure OGroup where
  name : String := ""
  cfg : GroupCfg := {}
  history : List OHist := []
  truth : GTruth := {}
  deriving Repr, Inhabited

structure Orc where
  cfgs : List GroupCfg := []
  groups : List OGroup := []
  clients : List OClient := []
  toks : List OTok := []
  /-- non-web members the ops created: (id, group) -/
  mocks : List (String × String) := []
  /-- a parked broadcast has been released in this case (forced schedule) -/
  released : Bool := false
  deriving Inhabited

def insSet (l : List String) (x : String) : List String := if l.contains x then l else l ++ [x]

/-- the role table of the property text (galene README) -/
def roleSpec (cfg : GroupCfg) (r : String) : List String :=
  if r = "op" then ["op", "present", "message", "caption", "token"] ++ (if cfg.allowRecording then ["record"] else [])
  else if r = "present" then ["present", "message"] ++ (if cfg.unrestrictedTokens then ["token"] else [])
  else if r = "message" then ["message"]
  else if r = "caption" then ["caption"]
  else if r = "admin" then ["admin"]
  else []

def specOf (cfg : GroupCfg) : PermSpec → List String
  | .role r => roleSpec cfg r
  | .explicit l => l

def cfgFor (cfgs : List GroupCfg) (name : String) : Option GroupCfg :=
  match cfgs.find? (·.name = name) with
  | some c => some c
  | none =>
    -- nearest ancestor that creates subgroups on the fly
    let segs := name.splitOn "/"
    ((List.range segs.length).reverse.filterMap fun k =>
      if k = 0 then none else
      match cfgs.find? (·.name = "/".intercalate (segs.take k)) with
      | some c => if c.autoSubgroups then some c else none
      | none => none).head?

/-- the permissions the credentials of a `join` are entitled to (none: not entitled to join) -/
def specJoin (o : Orc) (cfg : GroupCfg) (m : Msg) : Option (String × List String) :=
  if m.token ≠ "" then
    match o.toks.find? (·.id = esc m.token) with
    | none => none
    | some t =>
      let tu := if t.user = "%" then "" else unesc t.user
      some (if tu ≠ "" then tu else m.username.getD "", (permList t.perms).map unesc)
  else match m.username with
    | none => none
    | some u =>
      match cfg.users.find? (·.name = u) with
      | some uc => if uc.anyPw ∨ uc.pw = some m.password then some (u, specOf cfg uc.perms) else none
      | none => match cfg.wildcard with
        | some wc => if wc.anyPw ∨ wc.pw = some m.password then some (u, specOf cfg wc.perms) else none
        | none => none

def applyChange (cfg : GroupCfg) (perms : List String) (kind : String) : List String :=
  if kind = "op" then
    let p := insSet perms "op"
    if cfg.allowRecording then insSet p "record" else p
  else if kind = "unop" then perms.filter (fun x => x ≠ "op" ∧ x ≠ "record")
  else if kind = "present" then insSet perms "present"
  else if kind = "unpresent" then perms.filter (· ≠ "present")
  else if kind = "shutup" then perms.filter (· ≠ "message")
  else if kind = "unshutup" then insSet perms "message"
  else perms

namespace Orc

def client? (o : Orc) (i : Nat) : Option OClient := o.clients[i]?
def modClient (o : Orc) (i : Nat) (f : OClient → OClient) : Orc := { o with clients := o.clients.modify i f }
def group? (o : Orc) (n : String) : Option OGroup := o.groups.find? (·.name = n)
def modGroup (o : Orc) (n : String) (f : OGroup → OGroup) : Orc :=
  { o with groups := o.groups.map fun g => if g.name = n then f g else g }

/-- slots of the clients that are members of `g` -/
def membersOf (o : Orc) (g : String) : List Nat :=
  (List.range o.clients.length).filter fun i => ((o.client? i).bind (·.group)) = some g

def ensureGroup (o : Orc) (n : String) : Orc :=
  match o.group? n with
  | some _ => o
  | none => { o with groups := o.groups ++ [{ name := n, cfg := (cfgFor o.cfgs n).getD { name := n } }] }

/-- the client stops being a member (left, or its connection ended) -/
def leave (o : Orc) (i : Nat) : Orc :=
  o.modClient i fun c => { c with group := none, perms := [], up := [], hasLeft := c.group.isSome || c.hasLeft }

def close (o : Orc) (i : Nat) : Orc := (o.leave i).modClient i fun c => { c with alive := false }

end Orc

/-! ### folding the reports into the specification state -/

def rowOfUser (m : PMsg) : URow := (m.get "id", m.get "u", sortPerms (m.get "p"), if m.has "d" then m.get "d" else "-")

/-- static/protocol.js, `case 'user'` and the clearing part of `case 'joined'` -/
def foldView (v : List URow) (m : PMsg) : List URow :=
  if m.type = "user" then
    if m.kind = "add" ∨ m.kind = "change" then
      let r := rowOfUser m
      if v.any (·.1 = r.1) then v.map fun x => if x.1 = r.1 then r else x else v ++ [r]
    else if m.kind = "delete" then v.filter (·.1 ≠ m.get "id")
    else v
  else if m.type = "joined" ∧ (m.kind = "leave" ∨ m.kind = "fail") then []
  else v

def sortRows (l : List URow) : List String :=
  sortStrings (l.map fun r => r.1 ++ "^" ++ r.2.1 ++ "^" ++ r.2.2.1 ++ "^" ++ r.2.2.2)

def foldViewGroup (vg : Option String) (m : PMsg) : Option String :=
  if m.type = "joined" then
    if m.kind = "join" then some (m.get "g")
    else if m.kind = "leave" ∨ m.kind = "fail" then none
    else vg
  else vg

/-- C14, per event, judged on the stream the client receives (its own session:
from the `joined … join` it was sent to the `joined … leave`): duplicates,
unknown deletes, events about clients that never shared the group -/
def checkUserEvents (o : Orc) (k : Nat) (ms : List PMsg) : Orc × Option String :=
  ms.foldl (fun (acc : Orc × Option String) m =>
    let (o, v) := acc
    match o.client? k with
    | none => acc
    | some c =>
      let o' := o.modClient k fun c => { c with view := foldView c.view m, viewGroup := foldViewGroup c.viewGroup m }
      if v.isSome then (o', v)
      else if m.type = "user" ∧ c.alive then
        let id := m.get "id"
        -- What the property demands of single events is only that they are about the client's own group.
        -- (A stale event of an earlier session in the same group — a client that leaves and re-joins before
        -- its action loop has run, or a refused join answered in between — may repeat an add or a delete, or
        -- arrive between `joined fail` and the next `joined join`; protocol.js tolerates both and the lists
        -- still converge, which is what is judged at quiescence.  Found by the thorough tier.)
        match c.viewGroup with
        | none =>
          if c.group.isNone then
            (o', some s!"C14: client {k} is not in a group but was sent a user event about {id} ({m.raw})")
          else (o', none)
        | some g =>
          if !c.seen.contains (g ++ "|" ++ id) then
            (o', some s!"C14: client {k} (in {g}) was sent a user event about {id}, which has never been in {g} together with it ({m.raw})")
          else (o', none)
      else (o', none)) (o, none)

/-- C14 at quiescence: every member's folded list equals the group's membership;
the group lists exactly the members -/
def checkQuiescent (o : Orc) : Option String :=
  let perClient := (List.range o.clients.length).findSome? fun k =>
    match o.client? k with
    | none => none
    | some c =>
      if !c.alive || c.deaf then none else
      match c.group with
      | none =>
        if c.view.isEmpty then none
        else some s!"C14: client {k} is in no group but its user list is {sortRows c.view}"
      | some g =>
        match o.group? g with
        | none => none
        | some gr =>
          if sortRows c.view = sortRows gr.truth.members then none
          else some s!"C14: at quiescence client {k}'s user list {sortRows c.view} differs from the membership of {g}: {sortRows gr.truth.members}{if o.released then " (a change announcement parked in a non-web member's PushClient was released late: announcements are sent from detached goroutines)" else ""}"
  match perClient with
  | some v => some v
  | none =>
    o.groups.findSome? fun gr =>
      let spec := sortStrings ((o.membersOf gr.name).map fun i => esc (((o.client? i).map (·.id)).getD ""))
      let known := o.clients.map fun c => esc c.id
      let impl := sortStrings ((gr.truth.members.map (·.1)).filter known.contains)
      if spec = impl then none
      else
        let ghosts := o.clients.filterMap fun c =>
          if impl.contains (esc c.id) ∧ !spec.contains (esc c.id) then some s!"{c.id}: last join answered '{c.lastJoin}', connection alive: {c.alive}" else none
        some s!"C14: group {gr.name} lists the web clients {impl} but the members are {spec}; listed without being a member: {ghosts}"

def serverTexts : List String :=
  ["not authorised", "join a group first", "user unknown", "this user doesn't chat",
   "spoofed client id", "spoofed username"]

/-- is this write to the sender a server reply (rather than a delivery of its own message)? -/
def isErrorReply (cid : String) (m : PMsg) : Bool :=
  m.type = "usermessage" ∧ m.kind = "error" ∧ m.has "priv" ∧ m.get "src" = "" ∧ m.get "dst" = esc cid ∧
    serverTexts.any (fun t => m.get "v" = "s." ++ esc t)

def isChatLike (m : PMsg) : Bool := m.type = "chat" ∨ m.type = "usermessage"

def renderVal (v : Val) : String := if v == Val.none then "" else valStr v

/-- deliveries of a chat/usermessage sent by client j in this report: (recipient slot, message) -/
def deliveries (r : Report) (j : Nat) (cid : String) : List (Nat × PMsg) :=
  r.writes.flatMap fun (k, ms) =>
    (ms.filter fun m => isChatLike m ∧ !(k = j ∧ isErrorReply cid m)).map fun m => (k, m)

def noEffects (r : Report) (j : Nat) : Option String :=
  match r.writes.find? (·.1 ≠ j) with
  | some (k, ms) => some s!"wrote to client {k}: {(ms.map (·.raw)).head?.getD ""}"
  | none =>
    match r.queues.head? with
    | some (k, q) => some s!"queued for client {k}: {q.head?.getD ""}"
    | none =>
      match r.groups.head? with
      | some (g, _) => some s!"changed the state of group {g}"
      | none => if r.toks.isSome then some "changed the token store" else none

/-- replies that disclose something or perform something for the sender -/
def privilegedReply (m : PMsg) : Bool :=
  (m.type = "usermessage" ∧ (m.kind = "token" ∨ m.kind = "tokenlist") ∧ !m.has "err") ∨
  (m.type = "usermessage" ∧ m.kind = "userinfo") ∨ (m.type = "chat" ∧ m.get "u" = "Server") ∨ m.type = "answer"

def requiredFor (m : Msg) : Option (List String) :=
  if m.type = "chat" then some [if m.kind = "caption" then "caption" else "message"]
  else if m.type = "usermessage" then some ["message"]
  else if m.type = "useraction" then
    if m.kind = "setdata" then none
    else if m.kind ∈ ["op", "unop", "present", "unpresent", "shutup", "unshutup", "kick", "identify"] then some ["op"]
    else none
  else if m.type = "groupaction" then
    if m.kind ∈ ["lock", "unlock", "clearchat", "setdata", "subgroups"] then some ["op"]
    else if m.kind = "record" ∨ m.kind = "unrecord" then some ["record"]
    else if m.kind = "maketoken" then some ["token"]
    else if m.kind = "edittoken" ∨ m.kind = "listtokens" then some ["op", "token"]
    else none
  else none

def histCap : Nat := 50

def specHistAdd (h : List OHist) (e : OHist) : List OHist :=
  (if h.length ≥ histCap then h.drop (h.length + 1 - histCap) else h) ++ [e]

def histAge (cfg : GroupCfg) : Nat := if cfg.maxHistoryAge ≠ 0 then cfg.maxHistoryAge else 14400

/-- C15: the chat/usermessage `m` of member `j` (spec state `c`) and what the report shows -/
def checkChat (o : Orc) (r : Report) (j : Nat) (c : OClient) (g : String) (m : Msg) : Orc × Option String :=
  let ds := deliveries r j c.id
  let closing := r.status.startsWith "err:"
  let spoofSrc : Bool := m.source ≠ "" ∧ m.source ≠ c.id
  let spoofUser : Bool := match m.username with | some u => u != c.username | none => false
  let required := if m.type = "chat" ∧ m.kind = "caption" then "caption" else "message"
  if spoofSrc || spoofUser then
    if !ds.isEmpty then
      (o, some s!"C15: a message claiming source '{m.source}' / username '{m.username.getD ""}' from client {j} ({c.id}, {c.username}) was delivered: {(ds.map (·.2.raw)).head?.getD ""}")
    else if !closing then
      (o, some s!"C15: client {j} ({c.id}, {c.username}) claimed source '{m.source}' / username '{m.username.getD ""}' and its connection was not closed")
    else (o, none)
  else if closing then (o, none)
  else if !c.perms.contains required then
    if !ds.isEmpty then
      (o, some s!"C11: client {j} lacks '{required}' (granted {c.perms}) but its {m.type} was delivered: {(ds.map (·.2.raw)).head?.getD ""}")
    else match noEffects r j with
      | some e => (o, some s!"C11: client {j} lacks '{required}' (granted {c.perms}) but its {m.type} {e}")
      | none => (o, none)
  else
    -- authenticity, privileged flag, payload
    let bad := ds.findSome? fun (k, d) =>
      if d.get "src" ≠ "" ∧ d.get "src" ≠ esc c.id then some s!"C15: delivery to client {k} carries source {d.get "src"}, the sender is {c.id}: {d.raw}"
      else if d.has "u" ∧ d.get "u" ≠ esc c.username then some s!"C15: delivery to client {k} carries username {d.get "u"}, the sender is {c.username}: {d.raw}"
      else if d.get "src" ≠ esc m.source ∨ (d.has "u") ≠ m.username.isSome then some s!"C15: source/username of the delivery to client {k} are not those of the message: {d.raw}"
      else if d.has "priv" ≠ c.perms.contains "op" then some s!"C15: delivery to client {k} has privileged={d.has "priv"} but the sender's permissions are {c.perms}: {d.raw}"
      else if d.type ≠ esc m.type ∨ d.kind ≠ esc m.kind ∨ d.get "v" ≠ renderVal m.value ∨ d.get "dst" ≠ esc m.dest ∨ d.has "ne" ≠ m.noecho then
        some s!"C15: delivery to client {k} differs from the message sent (type/kind/value/dest/noecho): {d.raw}"
      else none
    match bad with
    | some v => (o, some v)
    | none =>
      let members := o.membersOf g
      let hears (k : Nat) : Bool := !(((o.client? k).map (·.deaf)).getD false)
      let expected : List Nat :=
        if m.dest = "" then members.filter fun k => !(m.noecho ∧ k = j) ∧ hears k
        else members.filter fun k => ((o.client? k).map (·.id)) = some m.dest ∧ hears k
      let got := ds.map (·.1)
      if (got.toArray.qsort (· < ·)).toList ≠ expected then
        (o, some s!"C15: {m.type} from client {j} (dest '{m.dest}', noecho={m.noecho}) was delivered to clients {got}, expected {expected} (members of {g}: {members})")
      else if m.dest ≠ "" ∧ expected.isEmpty ∧ !(r.w j).any (isErrorReply c.id) then
        (o, some s!"C15: {m.type} from client {j} to unknown destination '{m.dest}' was not answered with an error")
      else if m.type = "chat" ∧ m.dest = "" then
        -- history: the id is the client's, or chosen by the server (then read it off the deliveries / the stored history)
        let truthIds := ((r.groups.find? (·.1 = g)).map (·.2.hist)).getD []
        let id := if m.id ≠ "" then esc m.id else
          match ds.head? with
          | some (_, d) => d.get "id"
          | none => truthIds.getLast?.getD ""
        let idsAgree := ds.all fun (_, d) => d.get "id" = id
        let e : OHist := { id := id, source := esc m.source, user := optStr m.username, age := 0, kind := esc m.kind,
                           value := renderVal m.value }
        let o := o.modGroup g fun gr => { gr with history := specHistAdd gr.history e }
        if id = "" ∨ !idsAgree then (o, some s!"C15: broadcast chat from client {j} has no or inconsistent ids: {ds.map (·.2.raw)}")
        else (o, none)
      else (o, none)

def tokBrief (x : OTok) : String := s!"{x.id}/{x.exp}/{x.nbf}"

def tokPermsSubset (t : OTok) (perms : List String) : Bool := (permList t.perms).all fun p => perms.contains (unesc p)

/-- C11: tokens created/edited/listed by member `c` of group `g` -/
def checkTokens (old new : List OTok) (j : Nat) (c : OClient) (g : String) (m : Msg) (r : Report) : Option String :=
  let created := new.filter fun t => !old.any (·.id = t.id)
  let changed := new.filter fun t => match old.find? (·.id = t.id) with | some t0 => t0 != t | none => false
  let removed := old.filter fun t => !new.any (·.id = t.id)
  if !removed.isEmpty then some s!"C11: {m.kind} by client {j} removed tokens {removed.map (·.id)}"
  else if m.kind = "maketoken" then
    if !changed.isEmpty then some s!"C11: maketoken by client {j} modified existing tokens {changed.map (·.id)}"
    else created.findSome? fun t =>
      if t.group ≠ esc g then some s!"C11: client {j} of group {g} created token {t.id} for group {t.group}"
      else if !tokPermsSubset t c.perms then some s!"C11: client {j} (granted {c.perms}) created token {t.id} delegating {t.perms}"
      else if t.exp = "-" then some s!"C11: client {j} created token {t.id} without an expiry"
      else if !t.id.startsWith "R" then some s!"C11: client {j} chose the token id {t.id} itself"
      else none
  else if m.kind = "edittoken" then
    if !created.isEmpty then some s!"C11: edittoken by client {j} created tokens {created.map (·.id)}"
    else changed.findSome? fun t =>
      let t0 := (old.find? (·.id = t.id)).getD {}
      if t.group ≠ esc g then
        some s!"C11: edittoken by client {j}, a member of group {g}, changed token {t.id} of group {t.group} (expires {t0.exp}→{t.exp}, not-before {t0.nbf}→{t.nbf})"
      else if t.perms ≠ t0.perms ∨ t.user ≠ t0.user ∨ t.group ≠ t0.group then
        some s!"C11: edittoken by client {j} changed permissions/user/group of token {t.id}"
      else none
  else
    let _ := r
    if !created.isEmpty ∨ !changed.isEmpty then some s!"C11: {m.type}/{m.kind} by client {j} changed the token store" else none

def checkTokenList (j : Nat) (g : String) (r : Report) : Option String :=
  (r.w j).findSome? fun m =>
    if m.type = "usermessage" ∧ m.kind = "tokenlist" ∧ !m.has "err" then
      let v := m.get "v"
      let l := if v.startsWith "T." then parseOToks (dropS v 2) else []
      (l.find? (·.group ≠ esc g)).map fun t => s!"C11: listtokens by client {j} of group {g} disclosed token {t.id} of group {t.group}"
    else none

/-- apply the truth tokens of a report; check C11 per member on the way -/
def applyTruth (o : Orc) (r : Report) : Orc :=
  r.groups.foldl (fun (o : Orc) (gn, t) => (o.ensureGroup gn).modGroup gn fun gr => { gr with truth := t }) o

def checkTruth (o : Orc) (r : Report) : Option String :=
  r.groups.findSome? fun (gn, t) =>
    if t.hist.length > histCap then some s!"C15: the history of {gn} holds {t.hist.length} entries" else
    t.members.findSome? fun row =>
      (List.range o.clients.length).findSome? fun i =>
        match o.client? i with
        | none => none
        | some c =>
          if esc c.id = row.1 ∧ c.group = some gn ∧ c.alive then
            let extra := (permList row.2.2.1).filter fun p => !c.perms.contains (unesc p)
            if extra.isEmpty then none
            else
              let sharers := (o.clients.filter fun x => x.tokenUsed = c.tokenUsed ∧ x.id ≠ c.id).map (·.id)
              let ctx := if c.tokenUsed ≠ "" ∧ !sharers.isEmpty then
                  s!"; it joined with token {c.tokenUsed}, which {sharers} also joined with (the token's permission list is shared, not copied)"
                else ""
              some s!"C11: member {c.id} of {gn} holds {extra}, never granted (granted: {c.perms}; server: {row.2.2.1}){ctx}"
          else none

/-- the action at the head of client `i`'s queue is being handled -/
def handleHead (o : Orc) (r : Report) (i : Nat) (d : String) : Orc × Option String :=
  match o.client? i with
  | none => (o, none)
  | some c =>
    if d.startsWith "perm:" then
      match c.group with
      | none => (o, none)
      | some g =>
        let cfg := ((o.group? g).map (·.cfg)).getD {}
        (o.modClient i fun c => { c with perms := applyChange cfg c.perms (unesc (dropS d 5)) }, none)
    else if d = "permchanged" then
      if c.group.isSome ∧ !c.perms.contains "present" ∧ !c.up.isEmpty then
        let missing := c.up.filter fun s => !(r.w i).any fun m => m.type = "abort" ∧ m.get "id" = esc s
        let o := o.modClient i fun c => { c with up := [] }
        if missing.isEmpty then (o, none)
        else (o, some s!"C11: client {i} lost 'present' (now {c.perms}) but its streams {missing} were not closed")
      else (o, none)
    else if d.startsWith "joined:" ∧ d.endsWith ":join" then
      -- C15: replay to a joiner
      let g := unesc ((d.splitOn ":").getD 1 "")
      match o.group? g with
      | none => (o, none)
      | some gr =>
        if c.group ≠ some g then (o, none) else
        let maxAge := histAge gr.cfg
        let expect := gr.history.filter fun e => e.age ≤ maxAge
        -- the replay is what follows the `joined … join` for this group in what was written to the client
        let after := ((r.w i).dropWhile fun m => !(m.type = "joined" ∧ m.kind = "join" ∧ m.get "g" = esc g)).drop 1
        let got := after.takeWhile (·.type = "chathistory")
        let same := got.length = expect.length ∧ (got.zip expect).all fun (m, e) =>
          m.get "id" = e.id ∧ m.get "src" = e.source ∧ (if m.has "u" then m.get "u" else "%") = e.user ∧
            m.kind = e.kind ∧ m.get "v" = e.value
        let o := o.modGroup g fun gr => { gr with history := expect }
        if same then (o, none)
        else (o, some s!"C15: client {i} joining {g} was replayed {got.map (·.raw)} but the history (≤ {histCap} entries, ≤ {maxAge}s old) is {expect.map (·.id)}")
    else (o, none)

/-- a connection was closed by the action loop: allowed only for a kick -/
def closedByAction (i : Nat) (st : String) : Option String :=
  if st.startsWith "err:kick" then none
  else some s!"C12: the connection of client {i} was closed by a queued action ({st}) although that client did nothing wrong"

def oracleMsg (o : Orc) (r : Report) (j : Nat) (m : Msg) : Orc × Option String :=
  match o.client? j with
  | none => (o, none)
  | some c =>
    let closing := r.status.startsWith "err:"
    let oldToks := o.toks
    let o := match r.toks with | some t => { o with toks := t } | none => o
    let finish (o : Orc) (v : Option String) : Orc × Option String :=
      if closing then (o.close j, v) else (o, v)
    if m.type = "join" ∧ m.kind = "join" ∧ c.group.isNone ∧ !closing then
      let admitted := (r.q j).any (fun d => d.startsWith "joined:" ∧ d.endsWith ":join") ∧
        !(r.w j).any fun x => x.type = "joined" ∧ (x.kind = "fail" ∨ x.kind = "redirect")
      let answer := if (r.w j).any (fun x => x.type = "joined" ∧ x.kind = "redirect") then "redirect"
        else if (r.w j).any (fun x => x.type = "joined" ∧ x.kind = "fail") then "fail" else "ok"
      let o := o.modClient j fun x => { x with lastJoin := answer, tokenUsed := if admitted then m.token else "" }
      if !admitted then
        -- a refused join may only lock/kick (autolock/autokick run on every attempt)
        let bad := r.queues.findSome? fun (k, q) =>
          if k = j then none else (q.find? fun d => !(d.startsWith "joined:" ∨ d.startsWith "kick:" ∨ d.startsWith "user:add:")).map fun d => (k, d)
        match bad with
        | some (k, d) => (o, some s!"C11: a refused join by client {j} queued {d} for client {k}")
        | none => (o, none)
      else
        let g := m.group
        let o := o.ensureGroup g
        let cfg := ((o.group? g).map (·.cfg)).getD {}
        let (uname, perms) := (specJoin { o with toks := oldToks } cfg m).getD (m.username.getD "", [])
        let others := o.membersOf g
        let tag := esc g ++ "|"
        let seen := ((others.map fun k => esc (((o.client? k).map (·.id)).getD "")) ++ [esc c.id] ++
          ((o.mocks.filter (·.2 = g)).map fun x => esc x.1) ++
          (((o.group? g).map (·.truth.members)).getD []).filterMap (fun row => if row.2.1 = "RECORDING" then some row.1 else none)).map (tag ++ ·)
        let o := others.foldl (fun o k => o.modClient k fun x => { x with seen := insSet x.seen (tag ++ esc c.id) }) o
        let o := o.modClient j fun x => { x with group := some g, username := uname, perms := perms,
                                                  seen := seen.foldl insSet x.seen }
        (o, none)
    else if m.type = "join" ∧ m.kind = "leave" ∧ c.group = some m.group ∧ !closing then
      (o.leave j, none)
    else
      match c.group with
      | none =>
        -- not a member: nothing but replies to itself, and nothing privileged in them
        match noEffects r j with
        | some e => finish o (some s!"C11: client {j} ({c.id}) is not a member of any group but its {m.type}/{m.kind} {e}")
        | none =>
          match (r.w j).find? privilegedReply with
          | some x => finish o (some s!"C11: client {j} ({c.id}) is not a member of any group but its {m.type}/{m.kind} was answered with {x.raw}")
          | none => finish o none
      | some g =>
        if isChatLike { type := m.type } then
          let (o, v) := checkChat o r j c g m
          finish o v
        else if closing then finish o none
        else
          let lacks := match requiredFor m with
            | some ps => ps.filter fun p => !c.perms.contains p
            | none => if m.type = "useraction" ∧ m.kind = "setdata" ∧ m.dest ≠ c.id then ["(own id as dest)"] else []
          if !lacks.isEmpty then
            match noEffects r j with
            | some e => (o, some s!"C11: client {j} of {g} lacks {lacks} (granted {c.perms}) but its {m.type}/{m.kind} {e}")
            | none =>
              match (r.w j).find? privilegedReply with
              | some x => (o, some s!"C11: client {j} of {g} lacks {lacks} (granted {c.perms}) but its {m.type}/{m.kind} was answered with {x.raw}")
              | none => (o, none)
          else
            -- authorised: delegation and reach of tokens, reach of moderation, chat history bookkeeping
            let tokV := match r.toks with
              | some t => if m.type = "groupaction" then checkTokens oldToks t j c g m r else
                  some s!"C11: {m.type}/{m.kind} by client {j} changed the token store"
              | none => none
            -- C16: a token request that was answered with an error has not taken effect
            let refusedV := match r.toks with
              | some t =>
                if m.type = "groupaction" ∧ (m.kind = "edittoken" ∨ m.kind = "maketoken") ∧ t != oldToks ∧
                    (r.w j).any (fun x => x.type = "usermessage" ∧ x.kind = "token" ∧ x.has "err") then
                  some s!"C16: {m.kind} by client {j} was answered with an error, yet the server's live token table changed from {oldToks.map tokBrief} to {t.map tokBrief}"
                else none
              | none => none
            let tokV := refusedV.orElse fun _ => tokV
            let listV := if m.type = "groupaction" ∧ m.kind = "listtokens" then checkTokenList j g r else none
            let reachV :=
              if m.type = "useraction" ∧ m.kind ∈ ["op", "unop", "present", "unpresent", "shutup", "unshutup"] then
                r.queues.findSome? fun (k, q) =>
                  if q.any (·.startsWith "perm:") ∧ ((o.client? k).map (·.id)) ≠ some m.dest then
                    some s!"C11: {m.kind} for '{m.dest}' by client {j} reached client {k}"
                  else if q.any (·.startsWith "perm:") ∧ ((o.client? k).bind (·.group)) ≠ some g then
                    some s!"C11: {m.kind} by client {j} of {g} reached client {k}, which is not a member of {g}"
                  else none
              else none
            -- clearchat: all / one user / one message (the last only with both ids)
            let o :=
              if m.type = "groupaction" ∧ m.kind = "clearchat" ∧ (r.groups.any (·.1 = g) ∨ true) then
                let (ok, id, uid) := match m.value with
                  | .none => (true, "", "")
                  | .map d => (true, ((d.get? "id").getD .nil).asStr, ((d.get? "userId").getD .nil).asStr)
                  | _ => (false, "", "")
                if !ok ∨ (uid = "" ∧ id ≠ "") then o
                else o.modGroup g fun gr => { gr with history :=
                  if id = "" ∧ uid = "" then [] else gr.history.filter fun e => !(e.source = esc uid ∧ (id = "" ∨ e.id = esc id)) }
              else o
            (o, tokV.orElse fun _ => listV.orElse fun _ => reachV)

/-- C15: the stored history (ids) against the specification's -/
def checkHistory (o : Orc) (r : Report) : Option String :=
  r.groups.findSome? fun (gn, t) =>
    match o.group? gn with
    | none => none
    | some gr =>
      let spec := gr.history.map (·.id)
      if t.hist = spec then none
      else some s!"C15: the stored history of {gn} is {t.hist} but the last ≤ {histCap} broadcast chat messages (minus cleared and expired ones) are {spec}"

def oracle (o : Orc) (op impl : List String) : Orc × Option String :=
  let r := parseReport impl
  -- state-less ops
  match op with
  | "group" :: name :: kvs =>
    match parseGroup (unesc name) kvs with
    | some cfg => ({ o with cfgs := o.cfgs ++ [cfg] }, none)
    | none => (o, none)
  | ["client", _, id] => ({ o with clients := o.clients ++ [{ id := if id = "-" then "" else unesc id }] }, none)
  | ["probe"] =>
    -- C11: a connection that is not in a group holds no permission
    let v := impl.findSome? fun t =>
      let (k, body) := splitKV t
      match body.splitOn "/" with
      | [a, g, u, p, _, _, _] =>
        if a = "A" ∧ g = "%" ∧ p ≠ "" then
          let how := (((dropS k 1).toNat?.bind o.client?).map (·.lastJoin)).getD ""
          some s!"C11: {k} (username {u}) is not a member of any group (c.group == nil) but holds the permissions {p}; its last join was answered '{how}'"
        else none
      | _ => none
    (o, v)
  | _ =>
  if r.status.startsWith "panic:" then
    let ctx : String := match op with
      | "m" :: i :: kvs =>
        match i.toNat?.bind o.client?, parseMsg kvs with
        | some c, some m =>
          s!"handling {m.type}/{m.kind} from client {i}, " ++
            (match c.group with
             | some g => s!"a member of {g}"
             | none => s!"not a member of any group (last join answered '{c.lastJoin}', has left a group: {c.hasLeft})")
        | _, _ => "handling a message"
      | ["a", i] =>
        match i.toNat?.bind o.client? with
        | some c =>
          s!"handling the queued action {(c.queue.head?.getD "?")} for client {i}, " ++
            (match c.group with
             | some g => s!"a member of {g}"
             | none => s!"not a member of any group (last join answered '{c.lastJoin}', has left a group: {c.hasLeft})")
        | none => "handling a queued action"
      | ["q"] =>
        let who := (List.range o.clients.length).filterMap fun i =>
          match o.client? i with
          | some c => if c.alive ∧ c.group.isNone ∧ (c.queue ++ r.q i).any (·.startsWith "user:") then
              some s!"client {i} (last join answered '{c.lastJoin}', has left a group: {c.hasLeft})" else none
          | none => none
        s!"running the queued actions; user events were queued for non-members: {who}"
      | _ => "in " ++ " ".intercalate op
    (o, some s!"C12: handler panicked ({unesc (dropS r.status 6)}) {ctx}; client goroutines are not panic-protected, the server process would exit")
  else
  match r.roles.head? with
  | some (role, v) => (o, some s!"C11: the shared role table was modified: role '{role}' now grants {v}")
  | none =>
  let o := applyTruth o r
  -- per-op specification step
  let (o, opV) : Orc × Option String :=
    match op with
    | ["tok", _, _, _, _, _, _] => (match r.toks with | some t => { o with toks := t } | none => o, none)
    | ["hist", g, id, src, user, age, kind, val] =>
      if r.status ≠ "ok" then (o, none) else
      let e : OHist := { id := id, source := if src = "-" then "" else src, user := user, age := age.toNat?.getD 0,
                         kind := if kind = "-" then "" else kind, value := if val = "n" then "" else val }
      ((o.ensureGroup (unesc g)).modGroup (unesc g) fun gr => { gr with history := specHistAdd gr.history e }, none)
    | "m" :: i :: kvs =>
      if r.status = "noclient" ∨ r.status = "dead" ∨ r.status = "skipped" then (o, none) else
      match i.toNat?, parseMsg kvs with
      | some j, some m =>
        let (o, v) := oracleMsg o r j m
        -- the client's own messages about its streams: a `close`, an `abort`, or an offer that names the
        -- stream (as its id: a failed renegotiation drops it; as `replace`: the replaced stream is closed)
        -- may end a stream it had published; it is then no longer owed an abort when `present` is revoked
        let o := if m.type = "close" ∨ m.type = "abort" ∨ m.type = "offer" then
            o.modClient j fun c => { c with up := c.up.filter fun s => s ≠ m.id ∧ s ≠ m.replace } else o
        (o, v)
      | _, _ => (o, none)
    | ["a", i] =>
      if r.status = "none" ∨ r.status = "noclient" then (o, none) else
      match i.toNat? with
      | none => (o, none)
      | some i =>
        match (o.client? i).bind (·.queue.head?) with
        | none => (o, none)
        | some d =>
          let o := o.modClient i fun c => { c with queue := c.queue.drop 1 }
          let (o, v) := handleHead o r i d
          if r.status.startsWith "err:" then ((o.close i), v.orElse fun _ => closedByAction i (r.status))
          else (o, v)
    | ["q"] =>
      if !(r.status.startsWith "ok:" ∨ r.status.startsWith "closed:") then (o, none) else
      -- everything queued (including what this step queued) is handled, per client in order
      let o := r.queues.foldl (fun (o : Orc) (k, q) => o.modClient k fun c => { c with queue := c.queue ++ q }) o
      let closedL : List (Nat × String) :=
        if r.status.startsWith "closed:" then
          match r.status.splitOn ":" with
          | _ :: _ :: rest => ((":".intercalate rest).splitOn "+").filterMap fun x =>
              match x.splitOn "~" with
              | [i, st] => i.toNat?.map fun i => (i, st)
              | _ => none
          | _ => []
        else []
      let (o, v) := (List.range o.clients.length).foldl (fun (acc : Orc × Option String) i =>
        let (o, v) := acc
        match o.client? i with
        | none => acc
        | some c =>
          if !c.alive then acc else
          let (o, v) := c.queue.foldl (fun (acc : Orc × Option String) d =>
            let (o', v') := handleHead acc.1 r i d
            (o', acc.2.orElse fun _ => v')) (o, v)
          (o.modClient i fun c => { c with queue := [] }, v)) (o, none)
      let v := v.orElse fun _ => closedL.findSome? fun (i, st) => closedByAction i st
      let o := closedL.foldl (fun o (i, _) => o.close i) o
      (o, v)
    | ["drop", i] =>
      if r.status ≠ "ok" then (o, none) else
      match i.toNat? with
      | some i => (o.close i, none)
      | none => (o, none)
    | ["killwriter", i] =>
      if r.status ≠ "ok" then (o, none) else
      match i.toNat? with
      | some i => (o.modClient i fun c => { c with deaf := true }, none)
      | none => (o, none)
    | ["addup", i, id] =>
      if r.status ≠ "ok" then (o, none) else
      match i.toNat? with
      | some i => (o.modClient i fun c => { c with up := c.up ++ [unesc id] }, none)
      | none => (o, none)
    -- (status `ok`: a parked change announcement, finding P17; `ok:add` etc.: something else was parked, which is not P17)
    | ["release", _, _] => (if r.status = "ok" then { o with released := true } else o, none)
    | ["mock", g, id] =>
      if r.status ≠ "ok" then (o, none) else
      let g := unesc g
      let o := { o with mocks := o.mocks ++ [(unesc id, g)] }
      ((o.membersOf g).foldl (fun o k => o.modClient k fun x => { x with seen := insSet x.seen (esc g ++ "|" ++ id) }) o, none)
    | _ => (o, none)
  -- the recorder joins without an op of its own: learn its id from the pushed add
  let o := r.queues.foldl (fun (o : Orc) (k, q) =>
    q.foldl (fun o d =>
      match d.splitOn ":" with
      | ["user", "add", id, "RECORDING", "system", _, g] => o.modClient k fun x => { x with seen := insSet x.seen (g ++ "|" ++ id) }
      | _ => o) o) o
  -- what was written: fold the user lists (C14)
  let (o, evV) := r.writes.foldl (fun (acc : Orc × Option String) (k, ms) =>
    let (o', v') := checkUserEvents acc.1 k ms
    (o', acc.2.orElse fun _ => v')) (o, none)
  -- mirror the queues (`q` has consumed them already)
  let o := if op = ["q"] then o else
    r.queues.foldl (fun (o : Orc) (k, q) => o.modClient k fun c => { c with queue := c.queue ++ q }) o
  let truthV := checkTruth o r
  let histV := checkHistory o r
  let quiV := if op = ["q"] ∧ (r.status.startsWith "ok:" ∨ r.status.startsWith "closed:") then checkQuiescent o else none
  (o, opV.orElse fun _ => truthV.orElse fun _ => histV.orElse fun _ => evV.orElse fun _ => quiV)

end Galene.Engine.Sig
