import GaleneVerif.Engine.Down
import GaleneVerif.Model.SendSeq
/-
Engine `writer`: the real rtpWriterPool / rtpWriterLoop / sendSequence serving several
real rtpDownTracks from one publisher cache (C01, C02, C05).
Ops:
  neww <codec> <cache> <n>
  wsetmax i v / wsetrate i r      =>
  wadjust i                       => <layer>
  wfeed <hex>                     => <out0> | <layer0> || <out1> | <layer1> ...
  wnack i <n>                     => <out> | <layer>      (gotNACK on receiver i)
  late <delay-us>                 => ok           (a receiver joins in mid-stream: keyframe replay goroutine)
  latecheck <wait-ms>             => n ts:payloadhex ...   (everything written to late joiners since the last check)
The model of a pool is n independent copies of the down-track model fed the same
bytes; the per-receiver oracles are those of the `down` engine; for late joiners
(served concurrently by the replay goroutine and the writer loop) the oracle is
that every payload written is the payload of a packet the publisher sent with
that timestamp (C05: never bytes of another packet or a mixture).
-/
namespace Galene.Engine.Writer
open Galene Galene.Engine Galene.Codecs Galene.Down Galene.Engine.Down

structure St where
  codec : String := ""
  downs : List (State × Orc) := []
  sent : List (Nat × Bytes) := []      -- (timestamp, RTP payload) of every packet fed (oracle: from the ops)
  cache : Cache.Ring := Cache.new 0

def splitOn2 (t : List String) : List (List String) :=
  t.foldr (fun x acc => if x = "||" then [] :: acc else match acc with
    | [] => [[x]]
    | a :: r => (x :: a) :: r) [[]]

def setNth {α} (l : List α) (i : Nat) (x : α) : List α := l.set i x

def step (st : St) (op impl : List String) : St × Verdict :=
  match op with
  | ["neww", codec, cap, n] =>
    match nat? n, nat? cap with
    | some n, some cap => ({ codec := codec, downs := List.replicate n ({}, {}), sent := [], cache := Cache.new cap }, .ok)
    | _, _ => (st, .badop "neww")
  | ["wsetmax", i, v] =>
    match nat? i, int? v with
    | some i, some v =>
      match st.downs[i]? with
      | some (s, o) => ({ st with downs := setNth st.downs i ({ s with maxBitrate := if v < 0 then none else some v.toNat }, o) }, .ok)
      | none => (st, .badop "wsetmax index")
    | _, _ => (st, .badop "wsetmax")
  | ["wsetrate", i, v] =>
    match nat? i, nat? v with
    | some i, some v =>
      match st.downs[i]? with
      | some (s, o) => ({ st with downs := setNth st.downs i ({ s with rate := v }, o) }, .ok)
      | none => (st, .badop "wsetrate index")
    | _, _ => (st, .badop "wsetrate")
  | ["wadjust", i] =>
    match nat? i with
    | some i =>
      match st.downs[i]? with
      | some (s, o) =>
        let s' := adjustLayer C s
        let o' := match parseLayer impl with | some l => { o with layer := l } | none => o
        ({ st with downs := setNth st.downs i (s', o') }, cmp (layerS (unpack s'.word)) impl)
      | none => (st, .badop "wadjust index")
    | none => (st, .badop "wadjust")
  | ["wfeed", h] =>
    match unhex h with
    | some b =>
      let rs := st.downs.map (fun (so : State × Orc) => write C P st.codec so.1 b)
      let model := " || ".intercalate (rs.map (fun r => s!"{outS { r with kfreq := false }} | {layerS (unpack r.st.word)}"))
      let v := cmp model impl
      let parts := splitOn2 impl
      let flags? := packetFlags st.codec b
      -- per-receiver oracle
      let (downs', ov) := (List.zip (List.zip st.downs rs) (parts ++ List.replicate st.downs.length [])).foldl
        (fun (acc : List (State × Orc) × Option String) x =>
          let ((so, r), part) := x
          let (outT, layT) := splitBar part
          let (o', e) : Orc × Option String :=
            match parseLayer layT, flags? with
            | some lay', .ok flags =>
              let (err, sent, _) := parseOut outT
              feedOracle st.codec so.2 b flags err sent lay'
            | some lay', .error _ => ({ so.2 with layer := lay' }, none)
            | none, _ => (so.2, some "C01: unparsable result for one receiver")
          (acc.1 ++ [(r.st, o')], acc.2 <|> e.map (fun m => m ++ s!" [receiver {acc.1.length}]")))
        ([], none)
      let payload := match rtpUnmarshal b with
        | .ok pkt => (b.take pkt.payloadEnd).drop pkt.payloadStart
        | .error _ => []
      let cache :=
        if b.length ≥ 12 && b.length ≤ 1504 && st.cache.entries.length > 0 then
          (Cache.store st.cache { seqno := b.getD 2 0 * 256 + b.getD 3 0, marker := bit (b.getD 1 0) 0x80,
                                  ts := be32 b 4, bytes := b }).1
        else st.cache
      ({ st with downs := downs', sent := ((be32 b 4, payload) :: st.sent).take 4000, cache := cache },
        match ov with | some m => .oracle m | none => v)
    | none => (st, .badop "wfeed")
  | ["wnack", i, n] =>
    match nat? i, nat? n with
    | some i, some n =>
      match st.downs[i]? with
      | some (s, o) =>
        let r := gotNack C P st.codec s st.cache n
        let v := cmp s!"{outS { r with kfreq := false }} | {layerS (unpack r.st.word)}" (impl.filter (· ≠ "kfreq"))
        let (outT, layT) := splitBar impl
        let (_, sent, _) := parseOut outT
        let ov := (nackOracle o n sent (parseLayer layT)).map (fun m => m ++ s!" [receiver {i}]")
        let o' := match parseLayer layT with | some l => { o with layer := l } | none => o
        ({ st with downs := setNth st.downs i (r.st, o') }, match ov with | some m => .oracle m | none => v)
      | none => (st, .badop "wnack index")
    | _, _ => (st, .badop "wnack")
  | ["sendseq", kf, last, failAt, first, count, holes] =>
    match nat? kf, nat? last, int? failAt, nat? first, nat? count with
    | some kf, some last, some failAt, some first, some count =>
      let hs : List Nat := if holes = "-" then [] else (holes.splitOn ",").filterMap nat?
      let cached : Nat → Bool := fun s => decide ((s + 65536 - first % 65536) % 65536 < count) && !hs.contains s
      let fa : Option Nat := if failAt < 0 then none else some failAt.toNat
      let out := Galene.Model.SendSeq.replay kf last cached fa
      let v := cmp (joinNats (out.length :: out)) impl
      -- oracle, from the implementation's output alone: everything of kf..last that could be replayed was
      let implSeq := (impl.drop 1).filterMap nat?
      let d := Galene.Model.SendSeq.dist last kf
      let allCached := (List.range (d + 1)).all fun i => cached ((kf + i) % 65536)
      let orc : Option String :=
        if d < 32768 && allCached && fa.isNone && !implSeq.contains (last % 65536) then
          some s!"C20: the keyframe replay for a receiver or recorder attached in mid-stream stopped short of the newest cached packet {last % 65536} (kf {kf}, every packet of the range cached, no write failed): if the next live packet reaches the recorder before the replay does, the hole is never fetched and the frame holding that packet is missing from the file"
        else if d < 32768 && allCached && fa.isNone && implSeq.length != d + 1 then
          some s!"C20: the keyframe replay wrote {implSeq.length} packets for the range {kf}..{last} of {d + 1} cached packets"
        else none
      (st, match orc with | some m => .oracle m | none => v)
    | _, _, _, _, _ => (st, .badop "sendseq")
  | ["late", _] => (st, .ok)
  | ["latecheck", _] =>
    -- oracle only: each record is ts:payloadhex (or changed-during-write:ts)
    let bad := (impl.drop 1).find? (fun rec =>
      match rec.splitOn ":" with
      | [ts, hx] =>
        match nat? ts, unhex hx with
        | some ts, some p =>
          !(st.sent.any (fun e => e.1 = ts && (if isVP8 st.codec then blankPid e.2 = blankPid p else e.2 = p)))
        | _, _ => true
      | _ => true)
    (st, match bad with
      | some r => .oracle s!"C05: a receiver that joined in mid-stream was sent bytes that are not a packet of the publisher: {r.take 80}"
      | none => .ok)
  | _ => (st, .badop "unknown op")

def engine : EngineDef := { σ := St, init := {}, step := step }

end Galene.Engine.Writer
