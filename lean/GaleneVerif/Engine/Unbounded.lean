import GaleneVerif.Model.Unbounded
import GaleneVerif.Engine.Common
/-
Engine `unbounded`: real unbounded.Channel against Model/Unbounded.lean (sequential
ops) and the C13(a) oracle: every value put is returned by `Get` exactly once, in put
order; whenever the queue is non-empty the wakeup slot is full or the consumer has
already been woken (received from Ch since the last Get); concurrent runs report `ok`.
Ops: see harness/cmd/unbounded/main.go.
-/
namespace Galene.Engine.Unbounded
open Galene Galene.Engine Galene.Unbounded

structure Orc where
  /-- values put and not yet returned by Get, oldest first -/
  outstanding : List (Nat × Nat) := []
  /-- a receive from Ch succeeded since the last Get -/
  woken : Bool := false

structure St where
  c : Chan := {}
  orc : Orc := {}

def pairsString (l : List (Nat × Nat)) : String :=
  if l.isEmpty then "-" else ",".intercalate (l.map fun p => s!"{p.1}:{p.2}")

def stateString (c : Chan) : String := s!"q={c.queue.length} s={b2s c.slot}"

def field (pfx : String) (impl : List String) : Option String :=
  (impl.find? (·.startsWith pfx)).map (fun s => (s.drop pfx.length).toString)

/-- the no-lost-wakeup condition on the implementation's observed state -/
def wakeRule (o : Orc) (impl : List String) : Option String :=
  match field "q=" impl, field "s=" impl with
  | some q, some s =>
    if q != "0" && s == "0" && !o.woken then
      some s!"C13: lost wakeup: {q} queued, the wakeup slot is empty and the consumer has not been woken"
    else none
  | _, _ => some "C13: malformed state"

def step (st : St) (op impl : List String) : St × Verdict :=
  let o := st.orc
  match op with
  | ["new"] => ({}, cmp "" impl)
  | ["put", p, v] =>
    match nat? p, nat? v with
    | some p, some v =>
      let c := st.c.put (p, v)
      let o1 := { o with outstanding := o.outstanding ++ [(p, v)] }
      let verdict := match wakeRule o1 impl with
        | some m => .oracle m
        | none => cmp (stateString c) impl
      ({ c := c, orc := o1 }, verdict)
    | _, _ => (st, .badop "put")
  | ["recv"] =>
    let (c, r) := st.c.tryRecv
    let o1 := if impl.head? == some "1" then { o with woken := true } else o
    let verdict := match wakeRule o1 impl with
      | some m => .oracle m
      | none => cmp s!"{b2s r} {stateString c}" impl
    ({ c := c, orc := o1 }, verdict)
  | ["get"] =>
    let (c, vs) := st.c.get
    let got := impl.head?.getD "?"
    let o1 : Orc := { outstanding := [], woken := false }
    let verdict :=
      if got != pairsString o.outstanding then
        .oracle s!"C13: Get returned {got} but the values put since the last Get are {pairsString o.outstanding} (exactly once, in order)"
      else match wakeRule o1 impl with
        | some m => .oracle m
        | none => cmp s!"{pairsString vs} {stateString c}" impl
    ({ c := c, orc := o1 }, verdict)
  | ["conc", _, _, _] =>
    match impl with
    | ["ok"] => (st, .ok)
    | [r] => (st, .oracle s!"C13: concurrent producers/consumer on the real Channel: {r}")
    | _ => (st, .badop "conc result")
  | _ => (st, .badop "unknown op")

def engine : EngineDef := { σ := St, init := {}, step := step }

end Galene.Engine.Unbounded
