import GaleneVerif.Lemmas.SigWorldPermsStep
import GaleneVerif.Props.C11
/-
Every step of the step language is a transition of the permission skeleton (`PK.Step`,
Lemmas/SigWorldPermsInv.lean): `handleMsg` for **every** message, `stepAction`, the close sequence.
-/
namespace Galene.Sig

/-! ### `join` is produced alone, and only for a connection without group -/

def Effect.isJoin : Effect → Bool
  | .join .. => true
  | _ => false

macro "nojoin" h:ident : tactic => `(tactic| (
  repeat' (first | split_ifs at $h:ident | split at $h:ident)
  all_goals mem_cases $h:ident
  all_goals (simp_all [Effect.isJoin, errReply, tokErr, emptyId])))

theorem no_join_request (c : Conn) (m : Msg) : ∀ e ∈ handleRequest c m, e.isJoin = false := by
  intro e he; unfold handleRequest at he; nojoin he
theorem no_join_offer (c : Conn) (env : Env) (m : Msg) : ∀ e ∈ handleOffer c env m, e.isJoin = false := by
  intro e he; unfold handleOffer at he; nojoin he
theorem no_join_media (m : Msg) : ∀ e ∈ handleMedia m, e.isJoin = false := by
  intro e he; unfold handleMedia at he; nojoin he
theorem no_join_chat (c : Conn) (env : Env) (m : Msg) : ∀ e ∈ handleChat c env m, e.isJoin = false := by
  intro e he
  unfold handleChat at he
  split at he
  · nojoin he
  · simp only at he
    nojoin he
theorem no_join_useraction (c : Conn) (env : Env) (m : Msg) : ∀ e ∈ handleUserAction c env m, e.isJoin = false := by
  intro e he
  unfold handleUserAction at he
  split at he
  · nojoin he
  · nojoin he
theorem no_join_groupaction (c : Conn) (env : Env) (m : Msg) : ∀ e ∈ handleGroupAction c env m, e.isJoin = false := by
  intro e he
  unfold handleGroupAction at he
  split at he
  · nojoin he
  · rename_i g hgr
    simp only at he
    split_ifs at he
    all_goals first
      | (unfold handleMakeToken at he; nojoin he)
      | (unfold handleEditToken at he; nojoin he)
      | (nojoin he)

/-- the handler produces a `join` effect only as its single effect, and only for a connection whose
`group` field is nil -/
theorem handle_join_cases (c : Conn) (env : Env) (m : Msg) :
    (∀ e ∈ handle c env m, e.isJoin = false) ∨
      (c.group = none ∧ ∃ g cr d, handle c env m = [.join g cr d]) := by
  unfold handle
  by_cases hs1 : spoofedSource c m = true
  · rw [if_pos hs1]; left; intro e he; mem_cases he; rfl
  rw [if_neg hs1]
  by_cases hs2 : spoofedUser c m = true
  · rw [if_pos hs2]; left; intro e he; mem_cases he; rfl
  rw [if_neg hs2]
  by_cases h : m.type = "join"
  · rw [if_pos h]
    unfold handleJoin
    split_ifs with h1 h2 h3 h4
    · left; intro e he; mem_cases he; rfl
    · left; intro e he; mem_cases he; rfl
    · left; intro e he; mem_cases he; rfl
    · left; intro e he; mem_cases he; rfl
    · right
      refine ⟨?_, _, _, _, rfl⟩
      cases hg : c.group with
      | none => rfl
      | some g => rw [hg] at h4; simp at h4
  rw [if_neg h]; clear h
  by_cases h : m.type = "request"
  · rw [if_pos h]; exact Or.inl (no_join_request c m)
  rw [if_neg h]; clear h
  by_cases h : m.type = "requestStream"
  · rw [if_pos h]; left; intro e he; mem_cases he; rfl
  rw [if_neg h]; clear h
  by_cases h : m.type = "offer"
  · rw [if_pos h]; exact Or.inl (no_join_offer c env m)
  rw [if_neg h]; clear h
  by_cases h : m.type ∈ mediaTypes
  · rw [if_pos h]; exact Or.inl (no_join_media m)
  rw [if_neg h]; clear h
  by_cases h : m.type = "chat" ∨ m.type = "usermessage"
  · rw [if_pos h]; exact Or.inl (no_join_chat c env m)
  rw [if_neg h]; clear h
  by_cases h : m.type = "groupaction"
  · rw [if_pos h]; exact Or.inl (no_join_groupaction c env m)
  rw [if_neg h]; clear h
  by_cases h : m.type = "useraction"
  · rw [if_pos h]; exact Or.inl (no_join_useraction c env m)
  rw [if_neg h]; clear h
  by_cases h : m.type = "pong"
  · rw [if_pos h]; left; intro e he; cases he
  rw [if_neg h]; clear h
  by_cases h : m.type = "ping"
  · rw [if_pos h]; left; intro e he; mem_cases he; rfl
  rw [if_neg h]; clear h
  left; intro e he; mem_cases he; rfl

/-! ### client messages -/

/-- every effect except `join` is a transition of the skeleton (one that neither joins nor changes
permissions), in any state -/
theorem applyEffect_step0 (w : World) (i : Nat) (e : Effect) (hj : e.isJoin = false) :
    PK.Step0 i w.pk (applyEffect w i e).pk := by
  by_cases hp : e.plain = true
  · exact PK.Step0.of_eq (applyEffect_pk_plain w i e hp)
  · cases e with
    | leave =>
      have : (applyEffect w i .leave).pk = w.pk.leave i := leaveGroup_pk w i
      rw [this]; exact PK.Step0.leave _
    | fail err =>
      have : (applyEffect w i (.fail err)).pk = w.pk.leave i := finish_pk w i err
      rw [this]; exact PK.Step0.leave _
    | mintToken t id by_ =>
      obtain ⟨ext, ts, he, hts⟩ := applyEffect_pk_tok w i (.mintToken t id by_) (Or.inl ⟨t, id, by_, rfl⟩)
      rw [he]; exact PK.Step0.tokens _ ext ts hts
    | editToken old ex nb =>
      obtain ⟨ext, ts, he, hts⟩ := applyEffect_pk_tok w i (.editToken old ex nb) (Or.inr ⟨old, ex, nb, rfl⟩)
      rw [he]; exact PK.Step0.tokens _ ext ts hts
    | join g cr d => cases hj
    | _ => exact absurd rfl hp

theorem applyEffect_step (w : World) (i : Nat) (e : Effect) (hj : e.isJoin = false) :
    PK.Step i w.pk (applyEffect w i e).pk := (applyEffect_step0 w i e hj).toStep

theorem conn_group_bind (w : World) (i : Nat) : (w.conn i).group = (w.clients[i]?).bind (·.group) := by
  unfold World.conn World.client?
  cases w.clients[i]? <;> rfl

/-- a `join` of a connection whose `group` field is nil, with the repairs P10 and P18 -/
theorem joinGroup_step (w : World) (i : Nat) (g : String) (cr : Creds) (d : Dict)
    (h10 : w.fix.p10 = true) (h18 : w.fix.p18 = true) (hg : (w.conn i).group = none) :
    PK.Step i w.pk (joinGroup w i g cr d).pk := by
  obtain ⟨ext, h | ⟨s, hc, hs, _, h⟩⟩ := joinGroup_pk w i g cr d h10 h18
  · rw [h]; exact PK.Step.ext _ ext
  · obtain ⟨x, hx⟩ := Option.isSome_iff_exists.mp hc
    obtain ⟨gx, sx⟩ := x
    obtain ⟨c, hcc, hcg, _⟩ := pk_cl_inv hx
    rw [conn_group_bind, hcc] at hg
    simp only [Option.bind_some] at hg
    rw [hg] at hcg
    subst hcg
    have hadm : PK.Step i w.pk ((w.pk.withHeap (w.heap ++ ext)).accept i g s) := PK.Step.accept w.pk ext g s sx hx hs
    rcases h with h | h
    · rw [h]; exact hadm
    · rw [h]; exact hadm.trans (PK.Step.leave _)

/-- a message whose handler produces no `join` effect -/
theorem handleMsg_step0 (w : World) (i : Nat) (m : Msg) (h : ∀ e ∈ handle (w.conn i) (w.env i) m, e.isJoin = false) :
    PK.Step0 i w.pk (handleMsg w i m).pk := by
  unfold handleMsg
  rw [flush_pk]
  have key : ∀ (es : List Effect) (w : World), (∀ e ∈ es, e.isJoin = false) →
      PK.Step0 i w.pk (es.foldl (fun w e => if w.crashed then w else applyEffect w i e) w).pk := by
    intro es
    induction es with
    | nil => intro w _; exact PK.Step0.refl _
    | cons e r ih =>
      intro w hc
      simp only [List.foldl_cons]
      refine PK.Step0.trans ?_ (ih _ (fun e' he' => hc e' (List.mem_cons_of_mem _ he')))
      split_ifs
      · exact PK.Step0.refl _
      · exact applyEffect_step0 w i e (hc e List.mem_cons_self)
  exact key _ w h

/-- **handling any client message is a transition of the skeleton**, whatever the message, the state of
the connection and of the world (crashed or not) — with the repairs P10 and P18 -/
theorem handleMsg_step (w : World) (i : Nat) (m : Msg) (h10 : w.fix.p10 = true) (h18 : w.fix.p18 = true) :
    PK.Step i w.pk (handleMsg w i m).pk := by
  rcases handle_join_cases (w.conn i) (w.env i) m with h | ⟨hg, g, cr, d, heq⟩
  · exact (handleMsg_step0 w i m h).toStep
  · unfold handleMsg
    rw [flush_pk, heq]
    simp only [List.foldl_cons, List.foldl_nil]
    split_ifs
    · exact PK.Step.refl _
    · exact joinGroup_step w i g cr d h10 h18 hg

/-! ### the action loop and the close sequence -/

theorem finish_step0 (w : World) (i : Nat) (e : CloseErr) : PK.Step0 i w.pk (finish w i e).pk := by
  rw [finish_pk]; exact PK.Step0.leave _

theorem finish_step (w : World) (i : Nat) (e : CloseErr) : PK.Step i w.pk (finish w i e).pk :=
  (finish_step0 w i e).toStep

/-- one action handled, with the repair P19 -/
theorem handleAction_step (w : World) (i : Nat) (a : Action) (h19 : w.fix.p19 = true) :
    PK.Step i w.pk (handleAction w i a).1.pk := by
  by_cases ha : ∀ k, a ≠ .changePerm k
  · exact PK.Step.of_eq (handleAction_pk_plain w i a ha)
  · have : ∃ k, a = .changePerm k := by
      cases a <;> first | exact ⟨_, rfl⟩ | (exfalso; apply ha; intro k hk; cases hk)
    obtain ⟨kind, rfl⟩ := this
    cases hc : w.client? i with
    | none =>
      have : handleAction w i (.changePerm kind) = (w, none) := by unfold handleAction; rw [hc]
      rw [this]; exact PK.Step.refl _
    | some c =>
      rw [handleAction_changePerm w i c kind hc]
      split_ifs with hn
      · exact PK.Step.refl _
      · have hgs : ∃ g, c.group = some g := by
          cases hg : c.group with
          | none => exact absurd ⟨h19, by rw [hg]; rfl⟩ hn
          | some g => exact ⟨g, rfl⟩
        obtain ⟨g, hg⟩ := hgs
        split
        · exact PK.Step.refl _
        · rename_i h s hed
          have hcl : w.pk.cl i = some (some g, c.perms) := by rw [pk_cl_some hc, hg]
          have hpk : (((({ w with heap := h } : World).modClient i (fun c => { c with perms := s })).enq i .permChanged).pk) =
              w.pk.setPerms i h s := by
            rw [enq_pk, modClient_pk' _ i _ (fun x => (x.1, s)) (fun _ => rfl)]
            rfl
          show PK.Step i w.pk (((({ w with heap := h } : World).modClient i (fun c => { c with perms := s })).enq i .permChanged).pk)
          rw [hpk]
          exact PK.Step.setPerms w.pk g c.perms (h, s) hcl (fun hw => permEdit_ok _ _ _ _ _ _ hw hed)

/-- **one iteration of the action loop is a transition of the skeleton** (with the repair P19) -/
theorem stepAction_step (w : World) (i : Nat) (h19 : w.fix.p19 = true) : PK.Step i w.pk (stepAction w i).1.pk := by
  unfold stepAction
  split
  · exact PK.Step.refl _
  · rename_i c hc
    split
    · exact PK.Step.refl _
    · rename_i a rest hq
      simp only []
      have h0 : (w.modClient i (fun c => { c with queue := rest })).pk = w.pk :=
        modClient_pk_same w i (fun c => { c with queue := rest }) (fun _ => rfl)
      have h1 := handleAction_step (w.modClient i (fun c => { c with queue := rest })) i a h19
      rw [h0] at h1
      split_ifs
      · exact h1
      · split
        · rw [flush_pk]; exact h1.trans (finish_step _ i _)
        · rw [flush_pk]; exact h1

/-- an iteration of the action loop whose oldest action is not a permission change -/
theorem stepAction_step0 (w : World) (i : Nat)
    (h : ∀ c k rest, w.clients[i]? = some c → c.queue ≠ .changePerm k :: rest) :
    PK.Step0 i w.pk (stepAction w i).1.pk := by
  unfold stepAction
  split
  · exact PK.Step0.refl _
  · rename_i c hc
    split
    · exact PK.Step0.refl _
    · rename_i a rest hq
      simp only []
      have h0 : (w.modClient i (fun c => { c with queue := rest })).pk = w.pk :=
        modClient_pk_same w i (fun c => { c with queue := rest }) (fun _ => rfl)
      have ha : ∀ k, a ≠ .changePerm k := fun k e => h c k rest hc (by rw [hq, e])
      have h1 : PK.Step0 i w.pk (handleAction (w.modClient i (fun c => { c with queue := rest })) i a).1.pk :=
        PK.Step0.of_eq ((handleAction_pk_plain _ i a ha).trans h0)
      split_ifs
      · exact h1
      · split
        · rw [flush_pk]; exact h1.trans (finish_step0 _ i _)
        · rw [flush_pk]; exact h1

end Galene.Sig
