import GaleneVerif.Model.PacketMap
/-
The interval table of packetmap.Map is a ring (`entries`, `lastEntry`).  `ringNF` reads it
newest-first, which is the order in which the backwards `walk` of `direct`/`Reverse` visits the
slots; `walk_eq_walkL` says the walk is a plain left-to-right scan (`walkL`) of that list, and
the `ringNF_*` lemmas say what `addMapping`'s three kinds of update do to it (replace the head,
cons a new head, cons a new head and drop the oldest).
-/
namespace Galene.Lemmas.Ring
open Galene.PacketMap

/-- the ring read newest-first: slots `last, last-1, …, 0, n-1, …, last+1` -/
def ringNF {α} (es : List α) (last : Nat) : List α :=
  (es.take (last + 1)).reverse ++ (es.drop (last + 1)).reverse

/-- scan a newest-first list of intervals -/
def walkL (cls : Entry → Cls) : List Entry → Result
  | [] => (false, 0, 0)
  | e :: rest =>
    match cls e with
    | .inside n pd => (true, n, pd)
    | .stop => (false, 0, 0)
    | .cont => walkL cls rest

theorem walkL_cons_cont (cls : Entry → Cls) (e : Entry) (rest : List Entry) (h : cls e = .cont) :
    walkL cls (e :: rest) = walkL cls rest := by
  simp only [walkL, h]

/-- phase 2 of the walk: indices above `last`, going down to `last + 1` -/
theorem walk_phase2 (es : List Entry) (last : Nat) (cls : Entry → Cls) :
    ∀ (i fuel : Nat), last < i → i < es.length → i - last ≤ fuel →
      walk es last cls fuel i = some (walkL cls ((es.take (i + 1)).drop (last + 1)).reverse) := by
  intro i
  induction i with
  | zero => intro fuel h; omega
  | succ i ih =>
    intro fuel hl hi hf
    obtain ⟨f, rfl⟩ : ∃ f, fuel = f + 1 := ⟨fuel - 1, by omega⟩
    have hsplit : ((es.take (i + 1 + 1)).drop (last + 1)).reverse
        = es[i + 1] :: ((es.take (i + 1)).drop (last + 1)).reverse := by
      rw [List.take_succ_eq_append_getElem hi]
      rw [List.drop_append_of_le_length (by simp only [List.length_take]; omega)]
      simp
    rw [hsplit]
    unfold walk
    rw [List.getElem?_eq_getElem hi]
    simp only [walkL]
    cases hc : cls es[i + 1] with
    | inside n pd => rfl
    | stop => rfl
    | cont =>
      simp only [show i + 1 > 0 by omega, if_true, Nat.add_sub_cancel]
      by_cases hil : i = last
      · simp only [hil, if_true]
        rw [List.drop_eq_nil_of_le (by simp only [List.length_take]; omega)]
        simp [walkL]
      · simp only [hil, if_false]
        exact ih f (by omega) (by omega) (by omega)

/-- phase 1 of the walk: indices from `i ≤ last` down to 0, then phase 2 -/
theorem walk_phase1 (es : List Entry) (last : Nat) (cls : Entry → Cls) (hlast : last < es.length) :
    ∀ (i fuel : Nat), i ≤ last → i + (es.length - last) ≤ fuel →
      walk es last cls fuel i
        = some (walkL cls ((es.take (i + 1)).reverse ++ (es.drop (last + 1)).reverse)) := by
  intro i
  induction i with
  | zero =>
    intro fuel _ hf
    obtain ⟨f, rfl⟩ : ∃ f, fuel = f + 1 := ⟨fuel - 1, by omega⟩
    have h0 : 0 < es.length := by omega
    have hsplit : (es.take (0 + 1)).reverse = [es[0]] := by
      rw [List.take_succ_eq_append_getElem h0]; simp
    rw [hsplit]
    unfold walk
    rw [List.getElem?_eq_getElem h0]
    simp only [List.singleton_append, walkL]
    cases hc : cls es[0] with
    | inside n pd => rfl
    | stop => rfl
    | cont =>
      simp only [show ¬ (0 > 0) by omega, if_false]
      by_cases hil : es.length - 1 = last
      · simp only [hil, if_true]
        rw [List.drop_eq_nil_of_le (by omega)]
        simp [walkL]
      · simp only [hil, if_false]
        rw [walk_phase2 es last cls (es.length - 1) f (by omega) (by omega) (by omega)]
        have : es.length - 1 + 1 = es.length := by omega
        rw [this, List.take_length]
  | succ i ih =>
    intro fuel hl hf
    obtain ⟨f, rfl⟩ : ∃ f, fuel = f + 1 := ⟨fuel - 1, by omega⟩
    have hi : i + 1 < es.length := by omega
    have hsplit : (es.take (i + 1 + 1)).reverse = es[i + 1] :: (es.take (i + 1)).reverse := by
      rw [List.take_succ_eq_append_getElem hi]; simp
    rw [hsplit]
    unfold walk
    rw [List.getElem?_eq_getElem hi]
    simp only [List.cons_append, walkL]
    cases hc : cls es[i + 1] with
    | inside n pd => rfl
    | stop => rfl
    | cont =>
      simp only [show i + 1 > 0 by omega, if_true, Nat.add_sub_cancel]
      have hil : ¬ i = last := by omega
      simp only [hil, if_false]
      exact ih f (by omega) (by omega)

/-- **the backwards walk over the ring is a left-to-right scan of the newest-first view** -/
theorem walk_eq_walkL (es : List Entry) (last : Nat) (cls : Entry → Cls) (hlast : last < es.length) :
    walk es last cls es.length last = some (walkL cls (ringNF es last)) :=
  walk_phase1 es last cls hlast last es.length (Nat.le_refl _) (by omega)

/-! ### the head of the ring and the three updates -/

theorem ringNF_eq_cons {α} (es : List α) (last : Nat) (h : last < es.length) :
    ringNF es last = es[last] :: ((es.take last).reverse ++ (es.drop (last + 1)).reverse) := by
  unfold ringNF
  rw [List.take_succ_eq_append_getElem h]
  simp only [List.reverse_append, List.reverse_cons, List.reverse_nil, List.nil_append,
    List.cons_append]

theorem ringNF_length {α} (es : List α) (last : Nat) : (ringNF es last).length = es.length := by
  unfold ringNF
  simp only [List.length_append, List.length_reverse, List.length_take, List.length_drop]
  omega

/-- `addMapping` case A: overwrite the newest slot -/
theorem ringNF_set_last {α} (es : List α) (last : Nat) (x : α) (h : last < es.length) :
    ringNF (es.set last x) last = x :: (ringNF es last).tail := by
  rw [ringNF_eq_cons es last h]
  rw [ringNF_eq_cons (es.set last x) last (by simpa using h)]
  simp only [List.getElem_set_self, List.tail_cons]
  rw [List.take_set_of_le (Nat.le_refl _), List.drop_set_of_lt (by omega)]

/-- `addMapping` case B, table not full (`last + 1 = length`): append -/
theorem ringNF_append {α} (es : List α) (last : Nat) (x : α) (h : last + 1 = es.length) :
    ringNF (es ++ [x]) es.length = x :: ringNF es last := by
  unfold ringNF
  rw [h, List.take_length, List.drop_length]
  rw [List.take_of_length_le (by simp), List.drop_eq_nil_of_le (by simp)]
  simp

/-- `addMapping` case B, table full, next slot is `last + 1` -/
theorem ringNF_set_next {α} (es : List α) (last : Nat) (x : α) (h : last + 1 < es.length) :
    ringNF (es.set (last + 1) x) (last + 1) = x :: (ringNF es last).dropLast := by
  rw [ringNF_eq_cons (es.set (last + 1) x) (last + 1) (by simpa using h)]
  simp only [List.getElem_set_self]
  rw [List.take_set_of_le (Nat.le_refl _), List.drop_set_of_lt (by omega)]
  unfold ringNF
  rw [List.drop_eq_getElem_cons h]
  simp only [List.reverse_cons, ← List.append_assoc, List.dropLast_concat]

/-- `addMapping` case B, table full, next slot wraps to 0 -/
theorem ringNF_set_zero {α} (es : List α) (last : Nat) (x : α) (h : last + 1 = es.length) :
    ringNF (es.set 0 x) 0 = x :: (ringNF es last).dropLast := by
  have h0 : 0 < es.length := by omega
  rw [ringNF_eq_cons (es.set 0 x) 0 (by simpa using h0)]
  simp only [List.getElem_set_self, List.take_zero, List.reverse_nil, List.nil_append]
  rw [List.drop_set_of_lt (by omega)]
  unfold ringNF
  rw [h, List.take_length, List.drop_length]
  simp only [List.reverse_nil, List.append_nil]
  cases es with
  | nil => simp at h0
  | cons a t => simp

theorem getElem?_last_eq_head {α} (es : List α) (last : Nat) (h : last < es.length) :
    es[last]? = (ringNF es last).head? := by
  rw [ringNF_eq_cons es last h, List.getElem?_eq_getElem h]
  rfl

end Galene.Lemmas.Ring
