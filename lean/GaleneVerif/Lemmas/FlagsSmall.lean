import GaleneVerif.Model.Codecs
/-
The parsers give small layer ids: on a buffer of bytes (< 256), `PacketFlags` returns
`tid < 8` and `sid < 8`.  Proved by walking the (join-point-inlined) do-blocks of the
model with a small partial-correctness calculus (`OkP`).
-/
namespace Galene.Props.C04
open Galene Galene.Codecs

/-- partial-correctness predicate on the model's result monad -/
def OkP {α} (Q : α → Prop) (r : R α) : Prop := ∀ a, r = .ok a → Q a

theorem OkP_bind {α β} {m : R α} {f : α → R β} {Q : β → Prop} (h : ∀ a, m = .ok a → OkP Q (f a)) :
    OkP Q (m >>= f) := by
  intro b hb
  cases m with
  | error e => cases hb
  | ok a => exact h a rfl b hb

theorem OkP_throw {α} {Q : α → Prop} {e : Fail} : OkP Q (throw e : R α) := by
  intro a h; cases h

theorem OkP_pure {α} {Q : α → Prop} {a : α} (h : Q a) : OkP Q (pure a : R α) := by
  intro b hb; cases hb; exact h

theorem OkP_ite {α} {Q : α → Prop} {c : Prop} [Decidable c] {a b : R α}
    (h1 : c → OkP Q a) (h2 : ¬ c → OkP Q b) : OkP Q (if c then a else b) := by
  split
  · exact h1 ‹_›
  · exact h2 ‹_›

theorem byteAt_lt (p : Bytes) (i x : Nat) (hb : ∀ b ∈ p, b < 256) (h : byteAt p i = .ok x) : x < 256 := by
  unfold byteAt at h
  split at h
  · rename_i y hy
    have : y = x := by simpa [pure, Except.pure] using h
    subst this
    exact hb _ (List.mem_of_getElem? hy)
  · simp [throw, throwThe, MonadExceptOf.throw] at h

theorem OkP_throw_bind {α β} {Q : β → Prop} {e : Fail} {f : α → R β} : OkP Q ((throw e : R α) >>= f) := by
  intro a h; cases h

theorem OkP_bind_byteAt {β} {p : Bytes} {i : Nat} {f : Nat → R β} {Q : β → Prop} (hb : ∀ b ∈ p, b < 256)
    (h : ∀ x, x < 256 → OkP Q (f x)) : OkP Q (byteAt p i >>= f) :=
  OkP_bind (fun a ha => h a (byteAt_lt p i a hb ha))

theorem vp8_tid (p : Bytes) (hb : ∀ b ∈ p, b < 256) : OkP (fun v => v.tid < 4) (vp8Unmarshal p) := by
  unfold vp8Unmarshal
  dsimp only
  repeat' first
    | with_reducible apply OkP_throw_bind
    | with_reducible apply OkP_throw
    | (with_reducible apply OkP_bind_byteAt hb; intro _ _)
    | (with_reducible apply OkP_ite <;> intro _)
    | (with_reducible apply OkP_pure; dsimp only; omega)


theorem vp9_tid_sid (p : Bytes) (hb : ∀ b ∈ p, b < 256) :
    OkP (fun v => v.tid < 8 ∧ v.sid < 8) (vp9Unmarshal p) := by
  unfold vp9Unmarshal
  dsimp only
  repeat' first
    | with_reducible apply OkP_throw_bind
    | with_reducible apply OkP_throw
    | (with_reducible apply OkP_bind_byteAt hb; intro _ _)
    | (with_reducible apply OkP_bind; intro _ _)
    | (with_reducible apply OkP_ite <;> intro _)
    | (with_reducible apply OkP_pure; dsimp only; omega)


theorem OkP_bind_of {α β} {m : R α} {f : α → R β} {P : α → Prop} {Q : β → Prop} (hm : OkP P m)
    (h : ∀ a, P a → OkP Q (f a)) : OkP Q (m >>= f) :=
  OkP_bind (fun a ha => h a (hm a ha))

theorem payload_lt {buf : Bytes} (hb : ∀ b ∈ buf, b < 256) (e s : Nat) :
    ∀ b ∈ (buf.take e).drop s, b < 256 :=
  fun b h => hb b (List.mem_of_mem_take (List.mem_of_mem_drop h))

/-- **The parsers give small layer ids**: on a buffer of bytes, `PacketFlags` returns
`tid < 8` and `sid < 8` (VP8: two bits; VP9: three bits each; other codecs: 0). -/
theorem packetFlags_small (codec : String) (buf : Bytes) (hb : ∀ b ∈ buf, b < 256) :
    OkP (fun f => f.tid < 8 ∧ f.sid < 8) (packetFlags codec buf) := by
  unfold packetFlags
  dsimp only
  repeat' first
    | with_reducible apply OkP_throw_bind
    | with_reducible apply OkP_throw
    | (with_reducible apply OkP_bind_of (vp8_tid _ (payload_lt hb _ _)); intro _ _)
    | (with_reducible apply OkP_bind_of (vp9_tid_sid _ (payload_lt hb _ _)); intro _ _)
    | (with_reducible apply OkP_bind_byteAt hb; intro _ _)
    | (with_reducible apply OkP_bind; intro _ _)
    | (with_reducible apply OkP_ite <;> intro _)
    | (with_reducible apply OkP_pure; dsimp only at *; omega)

end Galene.Props.C04

