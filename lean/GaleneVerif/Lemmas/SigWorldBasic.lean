import GaleneVerif.Model.Signalling
import Mathlib.Tactic.SplitIfs
/-
Vocabulary for the convergence proof on the concrete signalling model (C14, Props/C14World.lean):

* the client side: `UView` (a user list), `foldEv` (static/protocol.js, `case 'user'`), `viewStep`/`viewOf`
  (the list a client holds after a sequence of server messages: a `joined`/`join` message for the group
  starts a new list), `written w i` (the messages written to client `i`, from the world's log);
* the server side: `mem w g` (members of group `g`), `truth w g` (the membership of `g` as a user list:
  id ↦ username, permissions, data);
* what is still to come: `pend` (the effect on the list of handling one queued action), `pview w i g`
  (the list client `i` will hold once its queue is drained);
* the classification of actions and messages (`quiet`: no effect on any user list; `tame`: not a
  permission change), the heap range predicate `InR`, and the invariant `WInv`.
-/
namespace Galene.Sig

instance : LawfulBEq Ref where
  rfl := by intro a; cases a <;> simp [BEq.beq, instBEqRef.beq]
  eq_of_beq := by
    intro a b h
    cases a <;> cases b <;> simp_all [BEq.beq, instBEqRef.beq]

/-! ### user lists (client side) -/

/-- what a user list records about a user -/
structure UAttr where
  username : Option String
  perms : List String
  data : Dict
  deriving DecidableEq, Repr

/-- a user list: id ↦ attributes -/
abbrev UView := String → Option UAttr

def UView.empty : UView := fun _ => none

def uupd (v : UView) (id : String) (x : Option UAttr) : UView := fun j => if j = id then x else v j

/-- static/protocol.js, `case 'user'`: `add` and `change` set the entry, `delete` removes it -/
def foldEv (v : UView) (kind id : String) (a : UAttr) : UView :=
  if kind = "add" ∨ kind = "change" then uupd v id (some a)
  else if kind = "delete" then uupd v id none
  else v

/-- the message that tells the client it has joined `g` -/
def OutMsg.isJoin (g : String) (m : OutMsg) : Prop := m.type = "joined" ∧ m.kind = "join" ∧ m.group = g

instance (g : String) (m : OutMsg) : Decidable (m.isJoin g) := by unfold OutMsg.isJoin; infer_instance

/-- one server message seen by a client that follows group `g`: joining `g` starts an empty list,
a `user` message is folded in, everything else is ignored -/
def viewStep (g : String) (v : UView) (m : OutMsg) : UView :=
  if m.isJoin g then UView.empty
  else if m.type = "user" then foldEv v m.kind m.id ⟨m.username, m.perms, m.data⟩
  else v

/-- the user list after a sequence of server messages -/
def viewOf (g : String) (msgs : List OutMsg) : UView := msgs.foldl (viewStep g) UView.empty

/-- the messages since the client last joined `g` (everything after the last `joined`/`join` for `g`) -/
def sinceJoin (g : String) (msgs : List OutMsg) : List OutMsg :=
  msgs.foldl (fun acc m => if m.isJoin g then [] else acc ++ [m]) []

/-- fold the `user` messages of a list of server messages (protocol.js) -/
def userFold (msgs : List OutMsg) : UView :=
  msgs.foldl (fun v m => if m.type = "user" then foldEv v m.kind m.id ⟨m.username, m.perms, m.data⟩ else v) UView.empty

/-- the messages written to client `i` so far, oldest first -/
def LogItem.to (i : Nat) : LogItem → Option OutMsg
  | .write j m => if j = i then some m else none
  | .enq .. => none

def written (w : World) (i : Nat) : List OutMsg := w.log.filterMap (LogItem.to i)

/-! ### membership (server side) -/

/-- members of group `n` (none if there is no such group) -/
def mem (w : World) (n : String) : List Ref := ((w.group? n).map (·.members)).getD []

def attrOf (w : World) (r : Ref) : UAttr := ⟨some (w.refUsername r), w.refPerms r, w.refData r⟩

/-- a list of (id, attributes) as a finite map: first entry wins -/
def truthL : List (String × UAttr) → UView
  | [] => fun _ => none
  | p :: r => fun j => if j = p.1 then some p.2 else truthL r j

/-- the membership of `g` with the current attributes, as a user list -/
def truth (w : World) (g : String) : UView := truthL ((mem w g).map fun r => (w.refId r, attrOf w r))

/-! ### pending actions -/

def resolveH (h : Heap) : PermRef → List String
  | .alias s => h.get s
  | .fixed l => l

theorem resolve_eq (w : World) (p : PermRef) : w.resolve p = resolveH w.heap p := by cases p <;> rfl

/-- the effect on the user list of a client following `g` of handling one queued action (the
messages `handleAction` writes for it, seen through `viewStep`) -/
def pend (h : Heap) (g : String) (v : UView) : Action → UView
  | .pushClient g' kind id u p d => if g' = g then foldEv v kind id ⟨some u, resolveH h p, d⟩ else v
  | .joined g' kind => if kind = "join" ∧ g' = g then UView.empty else v
  | _ => v

/-- the user list client `i` will hold for `g` once it has handled everything in its queue -/
def pview (w : World) (i : Nat) (g : String) : UView :=
  match w.clients[i]? with
  | some c => c.queue.foldl (pend w.heap g) (viewOf g (written w i))
  | none => UView.empty

/-- actions that change no user list -/
def Action.quiet : Action → Bool
  | .pushConn .. => true
  | .requestConns .. => true
  | .kick .. => true
  | .joined _ k => k != "join"
  | _ => false

/-- not a permission change (those announce themselves from a detached goroutine: P17) -/
def Action.tame : Action → Bool
  | .changePerm _ => false
  | .permChanged => false
  | _ => true

/-- extending the heap does not change what the slice shows -/
def InR (h : Heap) (s : Slice) : Prop := s.len = 0 ∨ s.arr < h.length

def Action.aliasOK (h : Heap) : Action → Prop
  | .pushClient _ _ _ _ (.alias s) _ => InR h s
  | _ => True

/-- messages that change no user list -/
def OutMsg.quiet (m : OutMsg) : Prop := m.type ≠ "user" ∧ ¬ (m.type = "joined" ∧ m.kind = "join")

def LogItem.quiet : LogItem → Prop
  | .write _ m => m.quiet
  | .enq .. => True

/-! ### the invariant -/

/-- The structural part of the invariant (everything but the equation on user lists). -/
structure WStruct (w : World) : Prop where
  /-- a queued `user` event for a connection without group is ignored (not a nil dereference) -/
  p12 : w.fix.p12 = true
  /-- the `redirect` answer to `join` undoes the join -/
  p18 : w.fix.p18 = true
  ok : w.crashed = false
  /-- a web member of `g` is a client whose `group` field is `g` -/
  memb : ∀ g i, Ref.web i ∈ mem w g → ∃ c, w.clients[i]? = some c ∧ c.group = some g
  /-- ids are unique within a group -/
  ids : ∀ g, ((mem w g).map w.refId).Nodup
  /-- no permission change is pending, and queued permission lists lie within the heap -/
  tame : ∀ (i : Nat) (c : Client), w.clients[i]? = some c → ∀ a ∈ c.queue, a.tame = true ∧ a.aliasOK w.heap
  dfr : ∀ e ∈ w.deferred, e.2.quiet = true
  permsR : ∀ g (i : Nat) (c : Client), Ref.web i ∈ mem w g → w.clients[i]? = some c → InR w.heap c.perms
  toksR : ∀ t ∈ w.tokens, InR w.heap t.perms

/-- The invariant of the convergence proof.  `view` is the heart: for every web member `i` of `g`,
what has been written to `i` followed by what is queued for `i` folds to the membership of `g`. -/
structure WInv (w : World) : Prop extends WStruct w where
  view : ∀ g i, Ref.web i ∈ mem w g → pview w i g = truth w g

/-! ### basic facts: views -/

theorem viewOf_append (g : String) (l1 l2 : List OutMsg) :
    viewOf g (l1 ++ l2) = l2.foldl (viewStep g) (viewOf g l1) := by
  simp [viewOf, List.foldl_append]

theorem viewStep_quiet (g : String) (v : UView) (m : OutMsg) (h : m.quiet) : viewStep g v m = v := by
  unfold viewStep
  obtain ⟨h1, h2⟩ := h
  have hj : ¬ m.isJoin g := fun hh => h2 ⟨hh.1, hh.2.1⟩
  rw [if_neg hj, if_neg h1]

theorem foldl_viewStep_quiet (g : String) (l : List OutMsg) (v : UView) (h : ∀ m ∈ l, m.quiet) :
    l.foldl (viewStep g) v = v := by
  induction l generalizing v with
  | nil => rfl
  | cons m r ih =>
    simp only [List.foldl_cons]
    rw [viewStep_quiet g v m (h m List.mem_cons_self)]
    exact ih v (fun m' hm' => h m' (List.mem_cons_of_mem _ hm'))

/-- `viewOf` is the fold of the `user` messages since the last join -/
theorem viewOf_eq_sinceJoin (g : String) (msgs : List OutMsg) : viewOf g msgs = userFold (sinceJoin g msgs) := by
  have key : ∀ (l acc : List OutMsg),
      l.foldl (viewStep g) (userFold acc) =
        userFold (l.foldl (fun acc m => if m.isJoin g then [] else acc ++ [m]) acc) := by
    intro l
    induction l with
    | nil => intro acc; rfl
    | cons m r ih =>
      intro acc
      simp only [List.foldl_cons]
      by_cases hj : m.isJoin g
      · rw [if_pos hj]
        have : viewStep g (userFold acc) m = userFold [] := by
          unfold viewStep; rw [if_pos hj]; rfl
        rw [this, ih]
      · rw [if_neg hj]
        have : viewStep g (userFold acc) m = userFold (acc ++ [m]) := by
          unfold viewStep; rw [if_neg hj]
          simp [userFold, List.foldl_append]
        rw [this, ih]
  exact key msgs []

/-- what `sinceJoin` is: the part of `msgs` after the last `joined`/`join` message for `g` -/
theorem sinceJoin_spec (g : String) (msgs : List OutMsg) :
    (∀ m ∈ sinceJoin g msgs, ¬ m.isJoin g) ∧
    ((sinceJoin g msgs = msgs) ∨ ∃ pre j, j.isJoin g ∧ msgs = pre ++ j :: sinceJoin g msgs) := by
  have key : ∀ (l acc all : List OutMsg),
      (∀ m ∈ acc, ¬ m.isJoin g) → (acc = all ∨ ∃ pre j, j.isJoin g ∧ all = pre ++ j :: acc) →
      let r := l.foldl (fun acc m => if m.isJoin g then [] else acc ++ [m]) acc
      (∀ m ∈ r, ¬ m.isJoin g) ∧ (r = all ++ l ∨ ∃ pre j, j.isJoin g ∧ all ++ l = pre ++ j :: r) := by
    intro l
    induction l with
    | nil => intro acc all h1 h2; simpa using ⟨h1, h2⟩
    | cons m r ih =>
      intro acc all h1 h2
      simp only [List.foldl_cons]
      have e : all ++ m :: r = (all ++ [m]) ++ r := by simp
      rw [e]
      by_cases hj : m.isJoin g
      · rw [if_pos hj]
        exact ih [] (all ++ [m]) (by simp) (Or.inr ⟨all, m, hj, by simp⟩)
      · rw [if_neg hj]
        refine ih (acc ++ [m]) (all ++ [m]) ?_ ?_
        · intro m' hm'
          rcases List.mem_append.mp hm' with h | h
          · exact h1 m' h
          · simp only [List.mem_singleton] at h; subst h; exact hj
        · rcases h2 with h | ⟨pre, j, hjj, h⟩
          · left; rw [h]
          · right; exact ⟨pre, j, hjj, by rw [h]; simp⟩
  have := key msgs [] [] (by simp) (Or.inl rfl)
  simpa [sinceJoin] using this

theorem pend_quiet (h : Heap) (g : String) (v : UView) (a : Action) (ha : a.quiet = true) : pend h g v a = v := by
  cases a <;> simp_all [Action.quiet, pend]

theorem foldl_pend_quiet (h : Heap) (g : String) (l : List Action) (v : UView) (hq : ∀ a ∈ l, a.quiet = true) :
    l.foldl (pend h g) v = v := by
  induction l generalizing v with
  | nil => rfl
  | cons a r ih =>
    simp only [List.foldl_cons]
    rw [pend_quiet h g v a (hq a List.mem_cons_self)]
    exact ih v (fun a' ha' => hq a' (List.mem_cons_of_mem _ ha'))

theorem quiet_tame (a : Action) (h : a.quiet = true) : a.tame = true := by
  cases a <;> simp_all [Action.quiet, Action.tame]

theorem quiet_aliasOK (hp : Heap) (a : Action) (h : a.quiet = true) : a.aliasOK hp := by
  cases a <;> simp_all [Action.quiet, Action.aliasOK]

/-! ### basic facts: heap -/

theorem InR.get_append {h : Heap} {s : Slice} (hs : InR h s) (ext : Heap) : (h ++ ext).get s = h.get s := by
  unfold Heap.get Heap.arrOf
  rcases hs with h0 | hlt
  · simp [h0]
  · rw [List.getD_eq_getElem?_getD, List.getD_eq_getElem?_getD, List.getElem?_append_left hlt]

theorem InR.append {h : Heap} {s : Slice} (hs : InR h s) (ext : Heap) : InR (h ++ ext) s := by
  rcases hs with h0 | hlt
  · exact Or.inl h0
  · exact Or.inr (by simp; omega)

theorem InR_nil (h : Heap) : InR h nilSlice := Or.inl rfl

theorem aliasOK_append {h : Heap} {a : Action} (ha : a.aliasOK h) (ext : Heap) : a.aliasOK (h ++ ext) := by
  cases a with
  | pushClient g k id u p d =>
    cases p with
    | alias s => exact InR.append ha ext
    | fixed l => trivial
  | _ => trivial

theorem pend_append {h : Heap} {a : Action} (ha : a.aliasOK h) (ext : Heap) (g : String) (v : UView) :
    pend (h ++ ext) g v a = pend h g v a := by
  cases a with
  | pushClient g' k id u p d =>
    cases p with
    | alias s =>
      have : (h ++ ext).get s = h.get s := InR.get_append ha ext
      simp [pend, resolveH, this]
    | fixed l => rfl
  | _ => rfl

theorem foldl_pend_append {h : Heap} (l : List Action) (hl : ∀ a ∈ l, a.aliasOK h) (ext : Heap) (g : String) (v : UView) :
    l.foldl (pend (h ++ ext) g) v = l.foldl (pend h g) v := by
  induction l generalizing v with
  | nil => rfl
  | cons a r ih =>
    simp only [List.foldl_cons]
    rw [pend_append (hl a List.mem_cons_self), ih (fun a' ha' => hl a' (List.mem_cons_of_mem _ ha'))]

/-! ### basic facts: finite maps -/

theorem truthL_notin (ms : List (String × UAttr)) (j : String) (h : j ∉ ms.map (·.1)) : truthL ms j = none := by
  induction ms with
  | nil => rfl
  | cons m r ih =>
    simp only [List.map_cons, List.mem_cons, not_or] at h
    simp only [truthL, h.1, if_false]
    exact ih h.2

theorem truthL_append (ms : List (String × UAttr)) (m : String × UAttr) (h : m.1 ∉ ms.map (·.1)) :
    truthL (ms ++ [m]) = uupd (truthL ms) m.1 (some m.2) := by
  induction ms with
  | nil => funext j; simp [truthL, uupd]
  | cons m0 r ih =>
    simp only [List.map_cons, List.mem_cons, not_or] at h
    funext j
    simp only [List.cons_append, truthL, ih h.2, uupd]
    by_cases hj : j = m0.1
    · have : ¬ (m0.1 = m.1) := fun e => h.1 e.symm
      simp [hj, this]
    · simp [hj]

theorem truthL_filter (ms : List (String × UAttr)) (x : String) :
    truthL (ms.filter (·.1 ≠ x)) = uupd (truthL ms) x none := by
  induction ms with
  | nil => funext j; simp [truthL, uupd]
  | cons m r ih =>
    funext j
    by_cases hm : m.1 = x
    · simp only [List.filter_cons, hm, ne_eq, not_true_eq_false, decide_false, Bool.false_eq_true, if_false, ih,
        truthL, uupd]
      by_cases hj : j = x <;> simp [hj]
    · simp only [List.filter_cons, ne_eq, hm, not_false_eq_true, decide_true, if_true, truthL, ih, uupd]
      by_cases hj : j = m.1
      · simp [hj]; intro e; exact absurd e hm
      · simp [hj]

/-- folding the `add`s of a duplicate-free list over any base -/
theorem fold_adds (ms : List (String × UAttr)) (b : UView) (hn : (ms.map (·.1)).Nodup) :
    ms.foldl (fun v p => uupd v p.1 (some p.2)) b =
      fun j => match truthL ms j with | some a => some a | none => b j := by
  induction ms generalizing b with
  | nil => funext j; simp [truthL]
  | cons m r ih =>
    simp only [List.map_cons, List.foldl_cons, List.nodup_cons] at hn ⊢
    rw [ih _ hn.2]
    funext j
    simp only [truthL, uupd]
    by_cases hj : j = m.1
    · rw [hj, truthL_notin r m.1 hn.1]
      simp
    · simp [hj]

/-- a duplicate-free finite map does not depend on the order of its entries -/
theorem truthL_perm {l1 l2 : List (String × UAttr)} (hp : l1.Perm l2) (hn : (l1.map (·.1)).Nodup) :
    truthL l1 = truthL l2 := by
  induction hp with
  | nil => rfl
  | cons x _ ih =>
    simp only [List.map_cons, List.nodup_cons] at hn
    funext j; simp only [truthL, ih hn.2]
  | swap x y l =>
    simp only [List.map_cons, List.nodup_cons, List.mem_cons, not_or] at hn
    funext j
    simp only [truthL]
    by_cases h1 : j = y.1
    · simp [h1]
      intro e; exact absurd e hn.1.1
    · simp [h1]
  | trans h1 _ ih1 ih2 =>
    rw [ih1 hn, ih2 ((h1.map _).nodup_iff.mp hn)]

end Galene.Sig
