import GaleneVerif.Model.SafeReplace
/-
Lemmas about the syscall model: an op that does not name the target leaves it alone; a list with
exactly one op that can change the target is atomic with respect to every crash prefix.
-/
namespace Galene.SafeReplace

theorem set_same (fs : FS) (p : Path) (c : Option Content) : (fs.set p c) p = c := by
  simp [FS.set]

theorem set_other (fs : FS) (p q : Path) (c : Option Content) (h : q ≠ p) : (fs.set p c) q = fs q := by
  simp [FS.set, h]

theorem exec_not_mutates (fs : FS) (t : Path) (o : Op) (h : mutates t o = false) : exec fs o t = fs t := by
  cases o with
  | createExcl p =>
    have hp : t ≠ p := by intro e; simp [mutates, e] at h
    simp only [exec]; cases fs p <;> simp [FS.set, hp]
  | openAppend p =>
    have hp : t ≠ p := by intro e; simp [mutates, e] at h
    simp only [exec]; cases fs p <;> simp [FS.set, hp]
  | openTrunc p =>
    have hp : t ≠ p := by intro e; simp [mutates, e] at h
    simp [exec, FS.set, hp]
  | write p n =>
    have hp : t ≠ p := by intro e; simp [mutates, e] at h
    simp only [exec]; cases fs p <;> simp [FS.set, hp]
  | rename a b =>
    simp only [mutates, Bool.or_eq_false_iff, decide_eq_false_iff_not] at h
    have ha : t ≠ a := fun e => h.1 e.symm
    have hb : t ≠ b := fun e => h.2 e.symm
    simp only [exec]
    split
    · rfl
    · cases fs a <;> simp [FS.set, ha, hb]
  | unlink p =>
    have hp : t ≠ p := by intro e; simp [mutates, e] at h
    simp [exec, FS.set, hp]
  | openRead p => rfl
  | fsync p => rfl
  | close p => rfl
  | other p => rfl

theorem run_nil (fs : FS) : run fs [] = fs := rfl
theorem run_cons (fs : FS) (o : Op) (ops : List Op) : run fs (o :: ops) = run (exec fs o) ops := rfl
theorem run_append (fs : FS) (a b : List Op) : run fs (a ++ b) = run (run fs a) b := by
  simp [run, List.foldl_append]

theorem run_quiet (t : Path) (ops : List Op) (h : quiet t ops = true) (fs : FS) : run fs ops t = fs t := by
  induction ops generalizing fs with
  | nil => rfl
  | cons o os ih =>
    simp only [quiet, List.all_cons, Bool.and_eq_true, Bool.not_eq_eq_eq_not, Bool.not_true] at h
    rw [run_cons, ih (by simpa [quiet] using h.2), exec_not_mutates _ _ _ h.1]

theorem quiet_take (t : Path) (ops : List Op) (h : quiet t ops = true) (k : Nat) : quiet t (ops.take k) = true := by
  simp only [quiet, List.all_eq_true] at *
  intro o ho
  exact h o (List.mem_of_mem_take ho)

/-- what `splitMut` returns -/
theorem splitMut_spec (t : Path) (ops : List Op) :
    match splitMut t ops with
    | (pre, none) => ops = pre ∧ quiet t pre = true
    | (pre, some (o, post)) => ops = pre ++ o :: post ∧ quiet t pre = true ∧ mutates t o = true := by
  induction ops with
  | nil => simp [splitMut, quiet]
  | cons o os ih =>
    unfold splitMut
    by_cases hm : mutates t o = true
    · simp [hm, quiet]
    · have hm' : mutates t o = false := by simpa using hm
      simp only [hm', Bool.false_eq_true, ↓reduceIte]
      generalize splitMut t os = r at ih
      obtain ⟨pre, rest⟩ := r
      cases rest with
      | none =>
        simp only at ih ⊢
        refine ⟨by rw [ih.1], ?_⟩
        simp only [quiet, List.all_cons, hm', Bool.not_false, Bool.true_and]
        simpa [quiet] using ih.2
      | some r =>
        obtain ⟨o', post⟩ := r
        simp only at ih ⊢
        refine ⟨by rw [ih.1]; rfl, ?_, ih.2.2⟩
        simp only [quiet, List.all_cons, hm', Bool.not_false, Bool.true_and]
        simpa [quiet] using ih.2.1

/-- One op that can change the target, everything else quiet: at every crash prefix the target holds
what it held at the start or what it holds at the end. -/
theorem atomic_single (t : Path) (pre post : List Op) (o : Op)
    (hpre : quiet t pre = true) (hpost : quiet t post = true) (fs : FS) (k : Nat) :
    run fs ((pre ++ o :: post).take k) t = fs t ∨
    run fs ((pre ++ o :: post).take k) t = run fs (pre ++ o :: post) t := by
  by_cases hk : k ≤ pre.length
  · left
    rw [List.take_append_of_le_length hk]
    exact run_quiet t _ (quiet_take t pre hpre k) fs
  · right
    have hk' : pre.length < k := Nat.lt_of_not_le hk
    obtain ⟨j, rfl⟩ : ∃ j, k = pre.length + (j + 1) := ⟨k - pre.length - 1, by omega⟩
    rw [List.take_append, List.take_of_length_le (by omega)]
    have : pre.length + (j + 1) - pre.length = j + 1 := by omega
    rw [this, List.take_succ_cons, run_append, run_append, run_cons, run_cons,
      run_quiet t _ (quiet_take t post hpost j), run_quiet t _ hpost]

/-- no op that can change the target at all -/
theorem atomic_quiet (t : Path) (ops : List Op) (h : quiet t ops = true) (fs : FS) (k : Nat) :
    run fs (ops.take k) t = fs t :=
  run_quiet t _ (quiet_take t ops h k) fs


/-- createExcl / write / fsync / close of `p`: ops whose effect on `p` depends on `p`'s content only -/
def simpleOn (p : Path) : Op → Bool
  | .createExcl q => q = p
  | .write q _ => q = p
  | .fsync q => q = p
  | .close q => q = p
  | _ => false

/-- the effect of a simple op on the content of the file it names -/
def localExec (c : Option Content) : Op → Option Content
  | .createExcl _ => (match c with
    | none => some []
    | some x => some x)
  | .write _ n => c.map (· ++ [n])
  | _ => c

/-- the chunk sizes written by a list of ops -/
def chunks (l : List Op) : List Nat :=
  l.filterMap (fun o => match o with
    | .write _ n => some n
    | _ => none)

/-- what was written to `p` by `ops` -/
def written (p : Path) (ops : List Op) : List Nat := chunks (ops.filter (mentions p))

theorem mutates_of_not_mentions (p : Path) (o : Op) (h : mentions p o = false) : mutates p o = false := by
  cases o <;> simp_all [mentions, mutates]

theorem exec_simple (fs : FS) (p : Path) (o : Op) (h : simpleOn p o = true) :
    exec fs o p = localExec (fs p) o := by
  cases o with
  | createExcl q =>
    have : q = p := by simpa [simpleOn] using h
    subst this
    simp only [exec, localExec]
    cases hq : fs q <;> simp [FS.set, hq]
  | write q n =>
    have : q = p := by simpa [simpleOn] using h
    subst this
    simp only [exec, localExec]
    cases hq : fs q <;> simp [FS.set, hq]
  | fsync q => rfl
  | close q => rfl
  | _ => simp [simpleOn] at h

theorem run_filter (p : Path) (ops : List Op)
    (hs : ∀ o ∈ ops, mentions p o = true → simpleOn p o = true) (fs : FS) :
    run fs ops p = (ops.filter (mentions p)).foldl localExec (fs p) := by
  induction ops generalizing fs with
  | nil => rfl
  | cons o os ih =>
    have hs' : ∀ o' ∈ os, mentions p o' = true → simpleOn p o' = true :=
      fun o' ho' => hs o' (List.mem_cons_of_mem _ ho')
    rw [run_cons, ih hs']
    by_cases hm : mentions p o = true
    · rw [List.filter_cons_of_pos hm, List.foldl_cons, exec_simple fs p o (hs o List.mem_cons_self hm)]
    · have hm' : mentions p o = false := by simpa using hm
      rw [List.filter_cons_of_neg (by simpa using hm'),
        exec_not_mutates fs p o (mutates_of_not_mentions p o hm')]

theorem foldl_writes (p : Path) (ws : List Op) (hw : ws.all (isWriteTo p) = true) (c : Content) :
    ws.foldl localExec (some c) = some (c ++ chunks ws) := by
  induction ws generalizing c with
  | nil => simp [chunks]
  | cons o os ih =>
    simp only [List.all_cons, Bool.and_eq_true] at hw
    rw [List.foldl_cons]
    cases o with
    | write q n =>
      simp only [localExec, Option.map_some]
      rw [ih hw.2]
      simp [chunks]
    | fsync q =>
      simp only [localExec]
      rw [ih hw.2]
      simp [chunks]
    | _ => simp [isWriteTo] at hw

theorem isWriteTo_simple (p : Path) (o : Op) (h : isWriteTo p o = true) : simpleOn p o = true := by
  cases o <;> simp_all [isWriteTo, simpleOn]

/-- The temp file, created exclusively under a fresh name, holds exactly what was written to it. -/
theorem run_tmp (tmp : Path) (pre : List Op) (h : tmpDiscipline tmp pre = true) (fs : FS)
    (hfresh : fs tmp = none) : run fs pre tmp = some (written tmp pre) := by
  unfold tmpDiscipline at h
  have hmem : ∀ o ∈ pre.filter (mentions tmp), mentions tmp o = true :=
    fun o ho => (List.mem_filter.mp ho).2
  unfold written
  generalize hL : pre.filter (mentions tmp) = L at h hmem
  cases L with
  | nil => simp at h
  | cons o rest =>
    cases o with
    | createExcl q =>
      simp only at h
      have hq : q = tmp := by simpa [mentions] using hmem (.createExcl q) List.mem_cons_self
      subst hq
      generalize hrev : rest.reverse = rr at h
      cases rr with
      | nil => simp at h
      | cons c ws =>
        cases c with
        | close q' =>
          simp only at h
          have hrest : rest = ws.reverse ++ [.close q'] := by
            have := congrArg List.reverse hrev
            simpa using this
          have hq' : q' = q := by
            have := hmem (.close q') (by rw [hrest]; simp)
            simpa [mentions] using this
          subst hq'
          have hws : ws.reverse.all (isWriteTo q') = true := by simpa using h
          -- every op naming the temp file is simple
          have hs : ∀ o ∈ pre, mentions q' o = true → simpleOn q' o = true := by
            intro o ho hm
            have : o ∈ Op.createExcl q' :: rest := by rw [← hL]; exact List.mem_filter.mpr ⟨ho, hm⟩
            rcases List.mem_cons.mp this with e | e
            · subst e; simp [simpleOn]
            · rw [hrest] at e
              rcases List.mem_append.mp e with e | e
              · exact isWriteTo_simple q' o (List.all_eq_true.mp hws o e)
              · simp only [List.mem_singleton] at e; subst e; simp [simpleOn]
          rw [run_filter q' pre hs fs, hL, hfresh, hrest, List.foldl_cons, List.foldl_append]
          simp only [localExec, List.foldl_cons, List.foldl_nil]
          rw [foldl_writes q' _ hws]
          simp [chunks, List.filterMap_append]
        | _ => simp at h
    | _ => simp at h

/-- the temp file of a rename-shaped replacement and what was written to it before the rename -/
def renameInfo (t : Path) (ops : List Op) : Option (Path × List Nat) :=
  match splitMut t ops with
  | (pre, some (.rename tmp _, _)) => some (tmp, written tmp pre)
  | _ => none

/-- In the rename shape the complete list leaves in the target exactly what was written to the
temp file (created under a name that did not exist): the *complete* new contents. -/
theorem rename_complete (t : Path) (ops : List Op) (h : SafeReplace t ops = true) (tmp : Path) (w : List Nat)
    (hi : renameInfo t ops = some (tmp, w)) (fs : FS) (hfresh : fs tmp = none) :
    run fs ops t = some w := by
  unfold SafeReplace at h
  unfold renameInfo at hi
  have hs := splitMut_spec t ops
  generalize splitMut t ops = r at h hi hs
  obtain ⟨pre, rest⟩ := r
  cases rest with
  | none => simp at hi
  | some r =>
    obtain ⟨o, post⟩ := r
    cases o with
    | rename tmp' d =>
      simp only [Option.some.injEq, Prod.mk.injEq] at hi
      obtain ⟨h1, h2⟩ := hi
      subst h1 h2
      simp only at hs
      obtain ⟨hops, _, _⟩ := hs
      subst hops
      simp only [Bool.and_eq_true, decide_eq_true_eq] at h
      obtain ⟨⟨⟨⟨⟨hd, hne⟩, _⟩, hq⟩, _⟩, htd⟩ := h
      subst hd
      rw [run_append, run_cons, run_quiet d post hq]
      have htmp := run_tmp tmp' pre htd fs hfresh
      simp only [exec]
      have hne' : ¬tmp' = d := by simpa using hne
      simp only [hne', ↓reduceIte, htmp]
      simp [FS.set, Ne.symm hne']
    | _ => simp at hi

end Galene.SafeReplace
