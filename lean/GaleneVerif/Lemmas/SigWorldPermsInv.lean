import GaleneVerif.Lemmas.SigWorldPermsBasic
/-
The invariants of C11 on the permission skeleton (`PK`, Lemmas/SigWorldPermsBasic.lean), and the
transitions of the skeleton that the signalling model performs:

* `PK.leave`     leaveGroup;
* `PK.accept`     the end of group.AddClient for an accepted web client (`c.Init`, insertion, `c.group = g`);
* `PK.withHeap (h ++ ext)`, `PK.withTokens`   allocation of permission lists, the token effects;
* `PK.setPerms`  the permission-change action (in-place edit of the client's own array, `HeapStep`).

`PK.Core` is "non-members hold none"; `PK.HeapOK` is "every permission slice lies in the heap and no
two owners (connections, tokens) share a backing array".
-/
namespace Galene.Sig

namespace PK

/-! ### transitions -/

/-- modify connection `i`'s entry -/
def modCl (p : PK) (i : Nat) (F : Option String × Slice → Option String × Slice) : PK :=
  p.withCl (fun j => if j = i then (p.cl j).map F else p.cl j)

/-- append web client `i` to the member list of `g` -/
def appWeb (p : PK) (g : String) (i : Nat) : PK :=
  p.withWebs (fun n => if n = g then p.webs n ++ [i] else p.webs n)

/-- remove web client `i` from the member list of `g` -/
def delWeb (p : PK) (g : String) (i : Nat) : PK :=
  p.withWebs (fun n => if n = g then (p.webs n).filter (· != i) else p.webs n)

/-- leaveGroup -/
def leave (p : PK) (i : Nat) : PK :=
  match p.cl i with
  | some (some gn, _) => (p.delWeb gn i).modCl i (fun _ => (none, nilSlice))
  | _ => p

/-- an accepted join: `c.Init(username, perms)`, insertion into the group, `c.group = g` -/
def accept (p : PK) (i : Nat) (g : String) (s : Slice) : PK :=
  (((p.modCl i (fun x => (x.1, s))).appWeb g i)).modCl i (fun x => (some g, x.2))

/-- the permission-change action: new heap, new slice for connection `i` -/
def setPerms (p : PK) (i : Nat) (h : Heap) (s : Slice) : PK :=
  (p.withHeap h).modCl i (fun x => (x.1, s))

@[simp] theorem withHeap_fix (p : PK) (h : Heap) : (p.withHeap h).fix = p.fix := rfl
@[simp] theorem withHeap_cl (p : PK) (h : Heap) : (p.withHeap h).cl = p.cl := rfl
@[simp] theorem withHeap_webs (p : PK) (h : Heap) : (p.withHeap h).webs = p.webs := rfl
@[simp] theorem withHeap_tokens (p : PK) (h : Heap) : (p.withHeap h).tokens = p.tokens := rfl
@[simp] theorem withHeap_heap (p : PK) (h : Heap) : (p.withHeap h).heap = h := rfl
@[simp] theorem withTokens_fix (p : PK) (t : List Token) : (p.withTokens t).fix = p.fix := rfl
@[simp] theorem withTokens_cl (p : PK) (t : List Token) : (p.withTokens t).cl = p.cl := rfl
@[simp] theorem withTokens_webs (p : PK) (t : List Token) : (p.withTokens t).webs = p.webs := rfl
@[simp] theorem withTokens_tokens (p : PK) (t : List Token) : (p.withTokens t).tokens = t := rfl
@[simp] theorem withTokens_heap (p : PK) (t : List Token) : (p.withTokens t).heap = p.heap := rfl
@[simp] theorem modCl_fix (p : PK) (i : Nat) (F) : (p.modCl i F).fix = p.fix := rfl
@[simp] theorem modCl_heap (p : PK) (i : Nat) (F) : (p.modCl i F).heap = p.heap := rfl
@[simp] theorem modCl_tokens (p : PK) (i : Nat) (F) : (p.modCl i F).tokens = p.tokens := rfl
@[simp] theorem modCl_webs (p : PK) (i : Nat) (F) : (p.modCl i F).webs = p.webs := rfl
theorem modCl_cl (p : PK) (i : Nat) (F) (j : Nat) :
    (p.modCl i F).cl j = if j = i then (p.cl j).map F else p.cl j := rfl
@[simp] theorem appWeb_fix (p : PK) (g : String) (i : Nat) : (p.appWeb g i).fix = p.fix := rfl
@[simp] theorem appWeb_heap (p : PK) (g : String) (i : Nat) : (p.appWeb g i).heap = p.heap := rfl
@[simp] theorem appWeb_tokens (p : PK) (g : String) (i : Nat) : (p.appWeb g i).tokens = p.tokens := rfl
@[simp] theorem appWeb_cl (p : PK) (g : String) (i : Nat) : (p.appWeb g i).cl = p.cl := rfl
theorem appWeb_webs (p : PK) (g : String) (i : Nat) (n : String) :
    (p.appWeb g i).webs n = if n = g then p.webs n ++ [i] else p.webs n := rfl
@[simp] theorem delWeb_fix (p : PK) (g : String) (i : Nat) : (p.delWeb g i).fix = p.fix := rfl
@[simp] theorem delWeb_heap (p : PK) (g : String) (i : Nat) : (p.delWeb g i).heap = p.heap := rfl
@[simp] theorem delWeb_tokens (p : PK) (g : String) (i : Nat) : (p.delWeb g i).tokens = p.tokens := rfl
@[simp] theorem delWeb_cl (p : PK) (g : String) (i : Nat) : (p.delWeb g i).cl = p.cl := rfl
theorem delWeb_webs (p : PK) (g : String) (i : Nat) (n : String) :
    (p.delWeb g i).webs n = if n = g then (p.webs n).filter (· != i) else p.webs n := rfl

/-- what `leave` does, spelled out -/
theorem leave_spec (p : PK) (i : Nat) :
    (p.leave i).fix = p.fix ∧ (p.leave i).heap = p.heap ∧ (p.leave i).tokens = p.tokens ∧
    (∀ j, j ≠ i → (p.leave i).cl j = p.cl j) ∧
    (∀ g s, p.cl i = some (some g, s) →
      (p.leave i).cl i = some (none, nilSlice) ∧
      ∀ n, (p.leave i).webs n = if n = g then (p.webs n).filter (· != i) else p.webs n) ∧
    ((∀ g s, p.cl i ≠ some (some g, s)) → p.leave i = p) := by
  unfold leave
  split
  · rename_i gn s0 h
    refine ⟨rfl, rfl, rfl, ?_, ?_, ?_⟩
    · intro j hj; rw [modCl_cl, if_neg hj]; rfl
    · intro g s hgs
      rw [h] at hgs
      simp only [Option.some.injEq, Prod.mk.injEq] at hgs
      obtain ⟨rfl, rfl⟩ := hgs
      refine ⟨?_, fun n => rfl⟩
      rw [modCl_cl, if_pos rfl, delWeb_cl, h]; rfl
    · intro hn; exact absurd h (hn gn s0)
  · rename_i hno
    refine ⟨rfl, rfl, rfl, fun _ _ => rfl, ?_, fun _ => rfl⟩
    intro g s hgs
    exact absurd hgs (hno g s)

theorem accept_spec (p : PK) (i : Nat) (g : String) (s : Slice) :
    (p.accept i g s).fix = p.fix ∧ (p.accept i g s).heap = p.heap ∧ (p.accept i g s).tokens = p.tokens ∧
    (∀ j, j ≠ i → (p.accept i g s).cl j = p.cl j) ∧
    (p.accept i g s).cl i = (p.cl i).map (fun _ => (some g, s)) ∧
    (∀ n, (p.accept i g s).webs n = if n = g then p.webs n ++ [i] else p.webs n) := by
  refine ⟨rfl, rfl, rfl, ?_, ?_, fun n => rfl⟩
  · intro j hj
    unfold accept
    rw [modCl_cl, if_neg hj, appWeb_cl, modCl_cl, if_neg hj]
  · unfold accept
    rw [modCl_cl, if_pos rfl, appWeb_cl, modCl_cl, if_pos rfl]
    cases p.cl i <;> rfl

/-! ### non-members hold none -/

/-- "Non-members hold none" on the skeleton.  `nm`: a connection whose `group` field is nil holds the
nil slice; `memb`: a web client in the member list of `g` is a connection whose `group` field is `g`
(so a connection without group is in no member list).  The three repairs are what the preservation
proofs need. -/
structure Core (p : PK) : Prop where
  /-- group.AddClient calls `c.Init` only for an accepted client -/
  p10 : p.fix.p10 = true
  /-- the `redirect` answer to `join` undoes the join -/
  p18 : p.fix.p18 = true
  /-- a queued permission change is ignored once the client has left -/
  p19 : p.fix.p19 = true
  nm : ∀ i s, p.cl i = some (none, s) → s = nilSlice
  memb : ∀ g i, i ∈ p.webs g → ∃ s, p.cl i = some (some g, s)

theorem Core.withHeap {p : PK} (hc : p.Core) (h : Heap) : (p.withHeap h).Core :=
  ⟨hc.p10, hc.p18, hc.p19, hc.nm, hc.memb⟩

theorem Core.withTokens {p : PK} (hc : p.Core) (t : List Token) : (p.withTokens t).Core :=
  ⟨hc.p10, hc.p18, hc.p19, hc.nm, hc.memb⟩

theorem Core.leave {p : PK} (hc : p.Core) (i : Nat) : (p.leave i).Core := by
  obtain ⟨hfix, _, _, hoth, hself, hid⟩ := leave_spec p i
  by_cases hm : ∃ g s, p.cl i = some (some g, s)
  · obtain ⟨g, s, hgs⟩ := hm
    obtain ⟨hci, hw⟩ := hself g s hgs
    refine ⟨by rw [hfix]; exact hc.p10, by rw [hfix]; exact hc.p18, by rw [hfix]; exact hc.p19, ?_, ?_⟩
    · intro j s' hj
      by_cases hji : j = i
      · subst hji; rw [hci] at hj; cases hj; rfl
      · rw [hoth j hji] at hj; exact hc.nm j s' hj
    · intro n j hj
      rw [hw] at hj
      have hj' : j ∈ p.webs n ∧ (n = g → j ≠ i) := by
        split_ifs at hj with hn
        · rw [List.mem_filter] at hj
          exact ⟨hj.1, fun _ => by simpa using hj.2⟩
        · exact ⟨hj, fun e => absurd e hn⟩
      obtain ⟨s', hs'⟩ := hc.memb n j hj'.1
      have hji : j ≠ i := by
        intro e; subst e
        rw [hgs] at hs'
        simp only [Option.some.injEq, Prod.mk.injEq] at hs'
        exact hj'.2 hs'.1.symm rfl
      exact ⟨s', by rw [hoth j hji]; exact hs'⟩
  · rw [hid (fun g s h => hm ⟨g, s, h⟩)]; exact hc

/-- an accepted join of a connection that is in no group -/
theorem Core.accept {p : PK} (hc : p.Core) (i : Nat) (g : String) (s s0 : Slice) (hi : p.cl i = some (none, s0)) :
    (p.accept i g s).Core := by
  obtain ⟨hfix, _, _, hoth, hself, hw⟩ := accept_spec p i g s
  rw [hi] at hself
  refine ⟨by rw [hfix]; exact hc.p10, by rw [hfix]; exact hc.p18, by rw [hfix]; exact hc.p19, ?_, ?_⟩
  · intro j s' hj
    by_cases hji : j = i
    · subst hji; rw [hself] at hj; cases hj
    · rw [hoth j hji] at hj; exact hc.nm j s' hj
  · intro n j hj
    rw [hw] at hj
    by_cases hji : j = i
    · subst hji
      split_ifs at hj with hn
      · subst hn; exact ⟨s, hself⟩
      · obtain ⟨s', hs'⟩ := hc.memb n j hj
        rw [hi] at hs'; cases hs'
    · rw [hoth j hji]
      apply hc.memb n j
      split_ifs at hj with hn
      · rcases List.mem_append.mp hj with h | h
        · exact h
        · simp only [List.mem_singleton] at h; exact absurd h hji
      · exact hj

/-- a permission change of a connection that has a group -/
theorem Core.setPerms {p : PK} (hc : p.Core) (i : Nat) (h : Heap) (s : Slice) (g : String) (s0 : Slice)
    (hi : p.cl i = some (some g, s0)) : (p.setPerms i h s).Core := by
  refine ⟨hc.p10, hc.p18, hc.p19, ?_, ?_⟩
  · intro j s' hj
    unfold PK.setPerms at hj
    rw [modCl_cl] at hj
    split_ifs at hj with hji
    · subst hji
      rw [withHeap_cl, hi] at hj
      cases hj
    · exact hc.nm j s' hj
  · intro n j hj
    obtain ⟨s', hs'⟩ := hc.memb n j hj
    unfold PK.setPerms
    rw [modCl_cl]
    split_ifs with hji
    · subst hji
      rw [withHeap_cl, hs']
      exact ⟨s, rfl⟩
    · exact ⟨s', hs'⟩

end PK

/-! ### heap facts -/

theorem Heap.WF.append {h : Heap} {s : Slice} (hw : h.WF s) (ext : Heap) : (h ++ ext).WF s := by
  obtain ⟨h1, h2⟩ := hw
  refine ⟨by simp; omega, ?_⟩
  unfold Heap.arrOf at h2 ⊢
  rw [List.getD_eq_getElem?_getD, List.getElem?_append_left h1, ← List.getD_eq_getElem?_getD]
  exact h2

theorem Heap.get_append_of_WF {h : Heap} {s : Slice} (hw : h.WF s) (ext : Heap) : (h ++ ext).get s = h.get s := by
  unfold Heap.get Heap.arrOf
  rw [List.getD_eq_getElem?_getD, List.getElem?_append_left hw.1, ← List.getD_eq_getElem?_getD]

/-- the slice is nil, or lies in the part `ext` just appended to `h` -/
def FreshFor (h ext : Heap) (s : Slice) : Prop := s = nilSlice ∨ (h.length ≤ s.arr ∧ (h ++ ext).WF s)

theorem alloc_fresh (h : Heap) (l : List String) :
    ∃ ext, (h.alloc l).1 = h ++ ext ∧ FreshFor h ext (h.alloc l).2 ∧ (0 < h.length → (h ++ ext).get (h.alloc l).2 = l) := by
  unfold Heap.alloc
  split_ifs with he
  · refine ⟨[], by simp, Or.inl rfl, ?_⟩
    intro _
    have : l = [] := by simpa using he
    subst this
    simp [Heap.get, nilSlice]
  · refine ⟨[l], rfl, Or.inr ⟨Nat.le_refl _, ?_, ?_⟩, ?_⟩
    · simp
    · simp [Heap.arrOf, List.getD_eq_getElem?_getD]
    · intro _
      simp [Heap.get, Heap.arrOf, List.getD_eq_getElem?_getD]

theorem allocCap_fresh (h : Heap) (l : List String) (c : Nat) :
    ∃ ext, (h.allocCap l c).1 = h ++ ext ∧ FreshFor h ext (h.allocCap l c).2 ∧ (h ++ ext).get (h.allocCap l c).2 = l := by
  unfold Heap.allocCap
  refine ⟨[l ++ List.replicate (c - l.length) ""], rfl, Or.inr ⟨Nat.le_refl _, ?_, ?_⟩, ?_⟩
  · simp
  · simp [Heap.arrOf, List.getD_eq_getElem?_getD]
  · simp [Heap.get, Heap.arrOf, List.getD_eq_getElem?_getD]

/-- `h'` is `h` after in-place edits of array `a` that keep its length, and possibly some appended arrays -/
structure HeapStep (h h' : Heap) (a : Nat) : Prop where
  len : h.length ≤ h'.length
  same : ∀ k, k < h.length → (h'.getD k []).length = (h.getD k []).length ∧ (k ≠ a → h'.getD k [] = h.getD k [])

theorem HeapStep.refl (h : Heap) (a : Nat) : HeapStep h h a := ⟨Nat.le_refl _, fun _ _ => ⟨rfl, fun _ => rfl⟩⟩

theorem HeapStep.append (h ext : Heap) (a : Nat) : HeapStep h (h ++ ext) a := by
  refine ⟨by simp, fun k hk => ?_⟩
  have : (h ++ ext).getD k [] = h.getD k [] := by
    rw [List.getD_eq_getElem?_getD, List.getElem?_append_left hk, ← List.getD_eq_getElem?_getD]
  rw [this]; exact ⟨rfl, fun _ => rfl⟩

theorem HeapStep.set (h : Heap) (a : Nat) (x : List String) (hx : x.length = (h.getD a []).length) :
    HeapStep h (h.set a x) a := by
  refine ⟨by simp, fun k hk => ?_⟩
  by_cases hka : k = a
  · subst hka
    rw [getD_set_self h k x hk]
    exact ⟨hx, fun e => absurd rfl e⟩
  · rw [getD_set_ne h a k x (fun e => hka e.symm)]
    exact ⟨rfl, fun _ => rfl⟩

/-- two edits in a row: the second one is of the same array or of an array appended by the first -/
theorem HeapStep.trans {h h1 h2 : Heap} {a a' : Nat} (s1 : HeapStep h h1 a) (s2 : HeapStep h1 h2 a')
    (ha : a' = a ∨ h.length ≤ a') : HeapStep h h2 a := by
  refine ⟨Nat.le_trans s1.len s2.len, fun k hk => ?_⟩
  obtain ⟨l1, e1⟩ := s1.same k hk
  obtain ⟨l2, e2⟩ := s2.same k (Nat.lt_of_lt_of_le hk s1.len)
  refine ⟨l2.trans l1, fun hka => ?_⟩
  have hka' : k ≠ a' := by
    rcases ha with ha | ha
    · rw [ha]; exact hka
    · omega
  rw [e2 hka', e1 hka]

theorem HeapStep.WF {h h' : Heap} {a : Nat} (st : HeapStep h h' a) {s : Slice} (hw : h.WF s) : h'.WF s := by
  refine ⟨Nat.lt_of_lt_of_le hw.1 st.len, ?_⟩
  unfold Heap.arrOf
  rw [(st.same s.arr hw.1).1]
  exact hw.2

theorem HeapStep.get {h h' : Heap} {a : Nat} (st : HeapStep h h' a) {s : Slice} (hw : h.WF s) (hne : s.arr ≠ a) :
    h'.get s = h.get s := by
  unfold Heap.get Heap.arrOf
  rw [(st.same s.arr hw.1).2 hne]

theorem HeapStep.zero {h h' : Heap} {a : Nat} (st : HeapStep h h' a) (h0 : h[0]? = some []) : h'[0]? = some [] := by
  have hlt : 0 < h.length := by
    cases h with
    | nil => simp at h0
    | cons x r => simp
  have hl := (st.same 0 hlt).1
  have e0 : h.getD 0 [] = [] := by rw [List.getD_eq_getElem?_getD, h0]; rfl
  rw [e0] at hl
  have hlt' : 0 < h'.length := Nat.lt_of_lt_of_le hlt st.len
  have : h'.getD 0 [] = [] := List.eq_nil_of_length_eq_zero hl
  rw [List.getD_eq_getElem?_getD, List.getElem?_eq_getElem hlt'] at this
  rw [List.getElem?_eq_getElem hlt']
  simpa using this

/-- what an edit of the permission slice `s` returns: a heap step on `s`'s array, and a slice that is
well formed in the new heap and lies in the same array or in an appended one -/
structure EditOK (h : Heap) (s : Slice) (r : Heap × Slice) : Prop where
  step : HeapStep h r.1 s.arr
  wf : r.1.WF r.2
  arr : r.2.arr = s.arr ∨ h.length ≤ r.2.arr

theorem removeS_ok (h : Heap) (s : Slice) (v : String) (hw : h.WF s) : EditOK h s (removeS h s v) := by
  cases hi : idxOf? v (h.get s) with
  | none =>
    rw [removeS_none hi]
    exact ⟨HeapStep.refl _ _, hw, Or.inl rfl⟩
  | some i =>
    rw [removeS_some hi]
    have hlen := Heap.get_length hw
    have hi' := idxOf?_lt hi
    have hl : ((h.get s).eraseIdx i).length = s.len - 1 := by
      rw [List.length_eraseIdx]; simp only [hlen]; split <;> omega
    have h2 := hw.2
    have hx : ((h.get s).eraseIdx i ++ (h.arrOf s).drop (s.len - 1)).length = (h.getD s.arr []).length := by
      rw [List.length_append, hl, List.length_drop]
      show _ = (h.arrOf s).length
      omega
    refine ⟨HeapStep.set h s.arr _ hx, ⟨by simpa using hw.1, ?_⟩, Or.inl rfl⟩
    show s.len - 1 ≤ ((h.set s.arr _).getD s.arr []).length
    rw [getD_set_self h s.arr _ hw.1, hx]
    show s.len - 1 ≤ (h.arrOf s).length
    omega

theorem addnewS_ok (h : Heap) (s : Slice) (v : String) (hw : h.WF s) : EditOK h s (addnewS h s v) := by
  by_cases hm : v ∈ h.get s
  · rw [addnewS_mem hm]
    exact ⟨HeapStep.refl _ _, hw, Or.inl rfl⟩
  · by_cases hc : s.len < (h.arrOf s).length
    · rw [addnewS_room hm hc]
      have hx : ((h.arrOf s).set s.len v).length = (h.getD s.arr []).length := by
        rw [List.length_set]; rfl
      refine ⟨HeapStep.set h s.arr _ hx, ⟨by simpa using hw.1, ?_⟩, Or.inl rfl⟩
      show s.len + 1 ≤ ((h.set s.arr _).getD s.arr []).length
      rw [getD_set_self h s.arr _ hw.1, hx]
      show s.len + 1 ≤ (h.arrOf s).length
      omega
    · rw [addnewS_full hm hc]
      obtain ⟨ext, he, hf, _⟩ := allocCap_fresh h (h.get s ++ [v]) (growCap (h.arrOf s).length)
      rcases hf with hf | ⟨hf1, hf2⟩
      · exfalso
        have : (h.allocCap (h.get s ++ [v]) (growCap (h.arrOf s).length)).2.len = (h.get s ++ [v]).length := rfl
        rw [hf] at this
        simp [nilSlice] at this
      · refine ⟨?_, ?_, Or.inr hf1⟩
        · rw [he]; exact HeapStep.append h ext _
        · rw [he]; exact hf2

/-- two edits in a row (`op`: addnew op, addnew record; `unop`: remove op, remove record) -/
theorem EditOK.trans {h : Heap} {s : Slice} {r1 r2 : Heap × Slice} (e1 : EditOK h s r1) (e2 : EditOK r1.1 r1.2 r2) :
    EditOK h s r2 := by
  refine ⟨e1.step.trans e2.step e1.arr, e2.wf, ?_⟩
  rcases e2.arr with h2 | h2
  · rw [h2]; exact e1.arr
  · exact Or.inr (Nat.le_trans e1.step.len h2)

theorem EditOK.refl (h : Heap) (s : Slice) (hw : h.WF s) : EditOK h s (h, s) :=
  ⟨HeapStep.refl _ _, hw, Or.inl rfl⟩

/-- the repaired `remove`: the old step, iterated -/
theorem removeAllN_ok (n : Nat) (h : Heap) (s : Slice) (v : String) (hw : h.WF s) : EditOK h s (removeAllN n h s v) := by
  induction n generalizing h s with
  | zero => exact EditOK.refl h s hw
  | succ n ih =>
    unfold removeAllN
    exact (removeS_ok h s v hw).trans (ih _ _ (removeS_ok h s v hw).wf)

theorem removeAllS_ok (h : Heap) (s : Slice) (v : String) (hw : h.WF s) : EditOK h s (removeAllS h s v) :=
  removeAllN_ok s.len h s v hw

theorem removeFix_ok (fx : Fixes) (h : Heap) (s : Slice) (v : String) (hw : h.WF s) : EditOK h s (removeFix fx h s v) := by
  unfold removeFix
  split_ifs
  · exact removeAllS_ok h s v hw
  · exact removeS_ok h s v hw

namespace PK

/-! ### every slice lies in the heap, no two owners share an array -/

/-- The heap part of the invariant.  `h0`: array 0 is the empty array (the nil slice is `⟨0, 0⟩`);
`wf`/`twf`: the permission slice of every connection and of every token lies within the heap;
`unsh`: two connections hold slices of the same backing array only if it is array 0;
`tunsh`: the same for a connection and a token.  Needs `Stateful.Check` to return a copy
(`tokClone`; `Permissions.Permissions` has done so since dd17351). -/
structure HeapOK (p : PK) : Prop where
  tokClone : p.fix.tokClone = true
  h0 : p.heap[0]? = some []
  wf : ∀ i g s, p.cl i = some (g, s) → p.heap.WF s
  twf : ∀ t ∈ p.tokens, p.heap.WF t.perms
  unsh : ∀ i j gi si gj sj, p.cl i = some (gi, si) → p.cl j = some (gj, sj) → i ≠ j → si.arr = sj.arr → si.arr = 0
  tunsh : ∀ i g s t, p.cl i = some (g, s) → t ∈ p.tokens → s.arr = t.perms.arr → s.arr = 0

theorem HeapOK.pos {p : PK} (hh : p.HeapOK) : 0 < p.heap.length := by
  have := hh.h0
  cases hp : p.heap with
  | nil => rw [hp] at this; simp at this
  | cons x r => simp

theorem HeapOK.nilWF {p : PK} (hh : p.HeapOK) : p.heap.WF nilSlice := ⟨hh.pos, Nat.zero_le _⟩

theorem HeapOK.ext {p : PK} (hh : p.HeapOK) (ext : Heap) : (p.withHeap (p.heap ++ ext)).HeapOK := by
  refine ⟨hh.tokClone, ?_, ?_, ?_, hh.unsh, hh.tunsh⟩
  · show (p.heap ++ ext)[0]? = some []
    rw [List.getElem?_append_left hh.pos]; exact hh.h0
  · intro i g s h; exact (hh.wf i g s h).append ext
  · intro t ht; exact (hh.twf t ht).append ext

theorem HeapOK.leave {p : PK} (hh : p.HeapOK) (i : Nat) : (p.leave i).HeapOK := by
  obtain ⟨hfix, hheap, htok, hoth, hself, hid⟩ := leave_spec p i
  by_cases hm : ∃ g s, p.cl i = some (some g, s)
  · obtain ⟨g, s, hgs⟩ := hm
    obtain ⟨hci, _⟩ := hself g s hgs
    have key : ∀ j gj sj, (p.leave i).cl j = some (gj, sj) →
        (j = i ∧ sj = nilSlice) ∨ (j ≠ i ∧ p.cl j = some (gj, sj)) := by
      intro j gj sj hj
      by_cases hji : j = i
      · subst hji; rw [hci] at hj; cases hj; exact Or.inl ⟨rfl, rfl⟩
      · rw [hoth j hji] at hj; exact Or.inr ⟨hji, hj⟩
    refine ⟨by rw [hfix]; exact hh.tokClone, by rw [hheap]; exact hh.h0, ?_, ?_, ?_, ?_⟩
    · intro j gj sj hj
      rw [hheap]
      rcases key j gj sj hj with ⟨_, rfl⟩ | ⟨_, h⟩
      · exact hh.nilWF
      · exact hh.wf j gj sj h
    · rw [hheap, htok]; exact hh.twf
    · intro j k gj sj gk sk hj hk hjk he
      rcases key j gj sj hj with ⟨_, rfl⟩ | ⟨_, h1⟩
      · rfl
      · rcases key k gk sk hk with ⟨_, rfl⟩ | ⟨_, h2⟩
        · exact he
        · exact hh.unsh j k gj sj gk sk h1 h2 hjk he
    · intro j gj sj t hj ht he
      rw [htok] at ht
      rcases key j gj sj hj with ⟨_, rfl⟩ | ⟨_, h1⟩
      · rfl
      · exact hh.tunsh j gj sj t h1 ht he
  · rw [hid (fun g s h => hm ⟨g, s, h⟩)]; exact hh

/-- an accepted join with a slice allocated for the occasion -/
theorem HeapOK.accept {p : PK} (hh : p.HeapOK) (ext : Heap) (i : Nat) (g : String) (s : Slice)
    (hs : FreshFor p.heap ext s) : ((p.withHeap (p.heap ++ ext)).accept i g s).HeapOK := by
  have hx := hh.ext ext
  obtain ⟨hfix, hheap, htok, hoth, hself, _⟩ := accept_spec (p.withHeap (p.heap ++ ext)) i g s
  have key : ∀ j gj sj, ((p.withHeap (p.heap ++ ext)).accept i g s).cl j = some (gj, sj) →
      (j = i ∧ sj = s) ∨ (j ≠ i ∧ p.cl j = some (gj, sj)) := by
    intro j gj sj hj
    by_cases hji : j = i
    · subst hji
      rw [hself] at hj
      cases hc : (p.withHeap (p.heap ++ ext)).cl j with
      | none => rw [hc] at hj; cases hj
      | some x => rw [hc] at hj; cases hj; exact Or.inl ⟨rfl, rfl⟩
    · rw [hoth j hji] at hj; exact Or.inr ⟨hji, hj⟩
  have hsw : (p.heap ++ ext).WF s := by
    rcases hs with rfl | ⟨_, h⟩
    · exact hx.nilWF
    · exact h
  have hfresh : ∀ s' : Slice, p.heap.WF s' → s.arr = s'.arr → s.arr = 0 := by
    intro s' hw' he
    rcases hs with rfl | ⟨h, _⟩
    · rfl
    · have := hw'.1; omega
  refine ⟨by rw [hfix]; exact hx.tokClone, by rw [hheap]; exact hx.h0, ?_, ?_, ?_, ?_⟩
  · intro j gj sj hj
    rw [hheap]
    rcases key j gj sj hj with ⟨_, rfl⟩ | ⟨_, h⟩
    · exact hsw
    · exact hx.wf j gj sj h
  · rw [hheap, htok]; exact hx.twf
  · intro j k gj sj gk sk hj hk hjk he
    rcases key j gj sj hj with ⟨rfl, rfl⟩ | ⟨hji, h1⟩
    · rcases key k gk sk hk with ⟨rfl, _⟩ | ⟨_, h2⟩
      · exact absurd rfl hjk
      · exact hfresh sk (hh.wf k gk sk h2) he
    · rcases key k gk sk hk with ⟨rfl, rfl⟩ | ⟨_, h2⟩
      · rw [he]; exact hfresh sj (hh.wf j gj sj h1) he.symm
      · exact hh.unsh j k gj sj gk sk h1 h2 hjk he
  · intro j gj sj t hj ht he
    rw [htok] at ht
    rcases key j gj sj hj with ⟨_, rfl⟩ | ⟨_, h1⟩
    · exact hfresh t.perms (hh.twf t ht) he
    · exact hh.tunsh j gj sj t h1 ht he

/-- the token store is replaced by tokens that are old ones or carry a slice allocated for the occasion -/
theorem HeapOK.tokens {p : PK} (hh : p.HeapOK) (ext : Heap) (ts : List Token)
    (hts : ∀ t ∈ ts, (∃ t0 ∈ p.tokens, t.perms = t0.perms) ∨ FreshFor p.heap ext t.perms) :
    ((p.withHeap (p.heap ++ ext)).withTokens ts).HeapOK := by
  have hx := hh.ext ext
  refine ⟨hx.tokClone, hx.h0, hx.wf, ?_, hx.unsh, ?_⟩
  · intro t ht
    rcases hts t ht with ⟨t0, ht0, he⟩ | hf
    · rw [he]; exact hx.twf t0 ht0
    · rcases hf with hf | ⟨_, hf⟩
      · rw [hf]; exact hx.nilWF
      · exact hf
  · intro j gj sj t hj ht he
    rcases hts t ht with ⟨t0, ht0, he0⟩ | hf
    · rw [he0] at he; exact hh.tunsh j gj sj t0 hj ht0 he
    · rcases hf with hf | ⟨hf, _⟩
      · rw [hf] at he; exact he
      · have := (hh.wf j gj sj hj).1
        omega

/-- the permission-change action -/
theorem HeapOK.setPerms {p : PK} (hh : p.HeapOK) (i : Nat) (g : Option String) (s : Slice) (r : Heap × Slice)
    (hi : p.cl i = some (g, s)) (he : EditOK p.heap s r) : (p.setPerms i r.1 r.2).HeapOK := by
  have key : ∀ j gj sj, (p.setPerms i r.1 r.2).cl j = some (gj, sj) →
      (j = i ∧ sj = r.2) ∨ (j ≠ i ∧ p.cl j = some (gj, sj)) := by
    intro j gj sj hj
    unfold PK.setPerms at hj
    rw [modCl_cl] at hj
    split_ifs at hj with hji
    · subst hji
      rw [withHeap_cl, hi] at hj
      cases hj; exact Or.inl ⟨rfl, rfl⟩
    · exact Or.inr ⟨hji, hj⟩
  have hsw := hh.wf i g s hi
  have hfresh : ∀ (j : Nat) (gj : Option String) (sj : Slice), j ≠ i → p.cl j = some (gj, sj) →
      r.2.arr = sj.arr → r.2.arr = 0 := by
    intro j gj sj hji hj hee
    rcases he.arr with h1 | h1
    · rw [h1] at hee ⊢
      exact hh.unsh i j g s gj sj hi hj (fun e => hji e.symm) hee
    · have := (hh.wf j gj sj hj).1
      omega
  refine ⟨hh.tokClone, he.step.zero hh.h0, ?_, ?_, ?_, ?_⟩
  · intro j gj sj hj
    rcases key j gj sj hj with ⟨_, rfl⟩ | ⟨_, h⟩
    · exact he.wf
    · exact he.step.WF (hh.wf j gj sj h)
  · intro t ht; exact he.step.WF (hh.twf t ht)
  · intro j k gj sj gk sk hj hk hjk hee
    rcases key j gj sj hj with ⟨rfl, rfl⟩ | ⟨hji, h1⟩
    · rcases key k gk sk hk with ⟨rfl, _⟩ | ⟨hki, h2⟩
      · exact absurd rfl hjk
      · exact hfresh k gk sk hki h2 hee
    · rcases key k gk sk hk with ⟨rfl, rfl⟩ | ⟨_, h2⟩
      · rw [hee]; exact hfresh j gj sj hji h1 hee.symm
      · exact hh.unsh j k gj sj gk sk h1 h2 hjk hee
  · intro j gj sj t hj ht hee
    rcases key j gj sj hj with ⟨rfl, rfl⟩ | ⟨_, h1⟩
    · rcases he.arr with h1 | h1
      · rw [h1] at hee ⊢
        exact hh.tunsh j g s t hi ht hee
      · have := (hh.twf t ht).1
        omega
    · exact hh.tunsh j gj sj t h1 ht hee

/-! ### the transitions a step of connection `i` may perform -/

/-- What a step of connection `i` (one of its messages, one iteration of its action loop, its close
sequence) may do to the skeleton. -/
inductive Step (i : Nat) : PK → PK → Prop
  | refl (p : PK) : Step i p p
  | trans {p q r : PK} : Step i p q → Step i q r → Step i p r
  /-- allocation -/
  | ext (p : PK) (ext : Heap) : Step i p (p.withHeap (p.heap ++ ext))
  /-- leaveGroup -/
  | leave (p : PK) : Step i p (p.leave i)
  /-- an accepted join of a connection that is in no group; the slice is nil or freshly allocated
  (if `Stateful.Check` returns a copy) -/
  | accept (p : PK) (ext : Heap) (g : String) (s s0 : Slice) (hi : p.cl i = some (none, s0))
      (hs : p.fix.tokClone = true → FreshFor p.heap ext s) : Step i p ((p.withHeap (p.heap ++ ext)).accept i g s)
  /-- the token effects -/
  | tokens (p : PK) (ext : Heap) (ts : List Token)
      (hts : ∀ t ∈ ts, (∃ t0 ∈ p.tokens, t.perms = t0.perms) ∨ FreshFor p.heap ext t.perms) :
      Step i p ((p.withHeap (p.heap ++ ext)).withTokens ts)
  /-- the permission-change action of a connection that has a group -/
  | setPerms (p : PK) (g : String) (s : Slice) (r : Heap × Slice) (hi : p.cl i = some (some g, s))
      (he : p.heap.WF s → EditOK p.heap s r) : Step i p (p.setPerms i r.1 r.2)

theorem Step.of_eq {i : Nat} {p q : PK} (h : q = p) : Step i p q := by rw [h]; exact Step.refl p

theorem Step.fix {i : Nat} {p q : PK} (st : Step i p q) : q.fix = p.fix := by
  induction st with
  | refl p => rfl
  | trans _ _ ih1 ih2 => exact ih2.trans ih1
  | ext p ext => rfl
  | leave p => exact (leave_spec p i).1
  | accept p ext g s s0 hi hs => rfl
  | tokens p ext ts hts => rfl
  | setPerms p g s r hi he => rfl

theorem Step.cl_none {i : Nat} {p q : PK} (st : Step i p q) (j : Nat) (hj : p.cl j = none) : q.cl j = none := by
  induction st with
  | refl p => exact hj
  | trans _ _ ih1 ih2 => exact ih2 (ih1 hj)
  | ext p ext => exact hj
  | leave p =>
    obtain ⟨_, _, _, hoth, _, hid⟩ := leave_spec p i
    by_cases hji : j = i
    · subst hji
      rw [hid (fun g s h => by rw [hj] at h; cases h)]; exact hj
    · rw [hoth j hji]; exact hj
  | accept p ext g s s0 hi hs =>
    obtain ⟨_, _, _, hoth, _, _⟩ := accept_spec (p.withHeap (p.heap ++ ext)) i g s
    by_cases hji : j = i
    · subst hji
      rw [hi] at hj; cases hj
    · rw [hoth j hji]; exact hj
  | tokens p ext ts hts => exact hj
  | setPerms p g s r hi he =>
    unfold PK.setPerms
    rw [modCl_cl]
    split_ifs
    · rw [withHeap_cl, hj]; rfl
    · exact hj

/-- **"non-members hold none" is preserved by every transition** -/
theorem Step.core {i : Nat} {p q : PK} (st : Step i p q) (hc : p.Core) : q.Core := by
  induction st with
  | refl p => exact hc
  | trans _ _ ih1 ih2 => exact ih2 (ih1 hc)
  | ext p ext => exact hc.withHeap _
  | leave p => exact hc.leave i
  | accept p ext g s s0 hi hs => exact (hc.withHeap _).accept i g s s0 hi
  | tokens p ext ts hts => exact (hc.withHeap _).withTokens ts
  | setPerms p g s r hi he => exact hc.setPerms i r.1 r.2 g s hi

/-- **the heap invariant is preserved by every transition** -/
theorem Step.heapOK {i : Nat} {p q : PK} (st : Step i p q) (hh : p.HeapOK) : q.HeapOK := by
  induction st with
  | refl p => exact hh
  | trans _ _ ih1 ih2 => exact ih2 (ih1 hh)
  | ext p ext => exact hh.ext ext
  | leave p => exact hh.leave i
  | accept p ext g s s0 hi hs => exact hh.accept ext i g s (hs hh.tokClone)
  | tokens p ext ts hts => exact hh.tokens ext ts hts
  | setPerms p g s r hi he => exact hh.setPerms i (some g) s r hi (he (hh.wf i (some g) s hi))

/-- **frame**: a step of connection `i` changes neither the entry of another connection `j` nor the
permissions its slice shows -/
theorem Step.frame {i : Nat} {p q : PK} (st : Step i p q) (hh : p.HeapOK) (j : Nat) (hj : j ≠ i)
    (g : Option String) (s : Slice) (hjs : p.cl j = some (g, s)) : q.cl j = some (g, s) ∧ q.heap.get s = p.heap.get s := by
  induction st with
  | refl p => exact ⟨hjs, rfl⟩
  | trans st1 _ ih1 ih2 =>
    obtain ⟨a1, a2⟩ := ih1 hh hjs
    obtain ⟨b1, b2⟩ := ih2 (st1.heapOK hh) a1
    exact ⟨b1, b2.trans a2⟩
  | ext p ext => exact ⟨hjs, Heap.get_append_of_WF (hh.wf j g s hjs) ext⟩
  | leave p =>
    obtain ⟨_, hheap, _, hoth, _, _⟩ := leave_spec p i
    exact ⟨by rw [hoth j hj]; exact hjs, by rw [hheap]⟩
  | accept p ext g' s' s0 hi hs =>
    obtain ⟨_, hheap, _, hoth, _, _⟩ := accept_spec (p.withHeap (p.heap ++ ext)) i g' s'
    exact ⟨by rw [hoth j hj]; exact hjs, by rw [hheap]; exact Heap.get_append_of_WF (hh.wf j g s hjs) ext⟩
  | tokens p ext ts hts => exact ⟨hjs, Heap.get_append_of_WF (hh.wf j g s hjs) ext⟩
  | setPerms p g' s' r hi he =>
    have hw' := hh.wf i (some g') s' hi
    have hw := hh.wf j g s hjs
    refine ⟨?_, ?_⟩
    · unfold PK.setPerms; rw [modCl_cl, if_neg hj]; exact hjs
    · show r.1.get s = p.heap.get s
      by_cases hne : s.arr = s'.arr
      · have h0 : s.arr = 0 := hh.unsh j i g s (some g') s' hjs hi hj hne
        have hz := (he hw').step.zero hh.h0
        unfold Heap.get Heap.arrOf
        rw [h0, List.getD_eq_getElem?_getD, List.getD_eq_getElem?_getD, hz, hh.h0]
      · exact (he hw').step.get hw hne

/-! ### steps without join and without permission change -/

/-- the transitions of a step of connection `i` that neither joins a group nor handles a permission
change: allocation, the token effects, leaveGroup -/
inductive Step0 (i : Nat) : PK → PK → Prop
  | refl (p : PK) : Step0 i p p
  | trans {p q r : PK} : Step0 i p q → Step0 i q r → Step0 i p r
  | ext (p : PK) (ext : Heap) : Step0 i p (p.withHeap (p.heap ++ ext))
  | leave (p : PK) : Step0 i p (p.leave i)
  | tokens (p : PK) (ext : Heap) (ts : List Token)
      (hts : ∀ t ∈ ts, (∃ t0 ∈ p.tokens, t.perms = t0.perms) ∨ FreshFor p.heap ext t.perms) :
      Step0 i p ((p.withHeap (p.heap ++ ext)).withTokens ts)

theorem Step0.of_eq {i : Nat} {p q : PK} (h : q = p) : Step0 i p q := by rw [h]; exact Step0.refl p

theorem Step0.toStep {i : Nat} {p q : PK} (st : Step0 i p q) : Step i p q := by
  induction st with
  | refl p => exact Step.refl p
  | trans _ _ ih1 ih2 => exact ih1.trans ih2
  | ext p ext => exact Step.ext p ext
  | leave p => exact Step.leave p
  | tokens p ext ts hts => exact Step.tokens p ext ts hts

/-- such a step leaves the connection's own entry and permissions alone, or leaves it in no group with
the nil slice -/
theorem Step0.self {i : Nat} {p q : PK} (st : Step0 i p q) (hh : p.HeapOK) (g : Option String) (s : Slice)
    (his : p.cl i = some (g, s)) :
    (q.cl i = some (g, s) ∧ q.heap.get s = p.heap.get s) ∨ q.cl i = some (none, nilSlice) := by
  induction st generalizing g s with
  | refl p => exact Or.inl ⟨his, rfl⟩
  | trans st1 _ ih1 ih2 =>
    rcases ih1 hh g s his with ⟨a1, a2⟩ | a
    · rcases ih2 (st1.toStep.heapOK hh) g s a1 with ⟨b1, b2⟩ | b
      · exact Or.inl ⟨b1, b2.trans a2⟩
      · exact Or.inr b
    · rcases ih2 (st1.toStep.heapOK hh) none nilSlice a with ⟨b1, _⟩ | b
      · exact Or.inr b1
      · exact Or.inr b
  | ext p ext => exact Or.inl ⟨his, Heap.get_append_of_WF (hh.wf i g s his) ext⟩
  | leave p =>
    obtain ⟨_, hheap, _, _, hself, hid⟩ := leave_spec p i
    cases g with
    | none =>
      rw [hid (fun g' s' h => by rw [his] at h; cases h)]
      exact Or.inl ⟨his, rfl⟩
    | some g' => exact Or.inr (hself g' s his).1
  | tokens p ext ts hts => exact Or.inl ⟨his, Heap.get_append_of_WF (hh.wf i g s his) ext⟩

end PK



end Galene.Sig
