import GaleneVerif.Lemmas.SigWorldJoin
/-
The action loop (C14 on the concrete model): taking the oldest action off a client's queue and
handling it preserves the invariant — a `user` event or a `joined` message is written exactly when
`pend` says so (this is where "events of another group never reach the client" is used), everything
else the handlers do is neutral, and a kick runs the close sequence.
-/
namespace Galene.Sig

theorem attrOf_modClient (w : World) (i : Nat) (f : Client → Client)
    (hf : ∀ c, (f c).username = c.username ∧ (f c).perms = c.perms ∧ (f c).data = c.data) (r : Ref) :
    attrOf (w.modClient i f) r = attrOf w r := by
  cases r with
  | web j =>
    simp only [attrOf, World.refUsername, World.refPerms, World.permsOf, World.refData, World.client?, modClient_get]
    split_ifs
    · cases w.clients[j]? <;> simp [hf]
      rfl
    · rfl
  | mock id => rfl
  | disk id => rfl

theorem refId_of_get {w w2 : World} (h : ∀ j : Nat, (w2.clients[j]?).map Client.id = (w.clients[j]?).map Client.id) (r : Ref) :
    w2.refId r = w.refId r := by
  cases r with
  | web j => simp only [World.refId, World.client?]; exact congrArg (·.getD "") (h j)
  | mock id => rfl
  | disk id => rfl

theorem attrOf_of_get {w w2 : World} (hh : w2.heap = w.heap)
    (h : ∀ j : Nat, (w2.clients[j]?).map (fun c : Client => (c.username, c.perms, c.data)) =
      (w.clients[j]?).map (fun c : Client => (c.username, c.perms, c.data))) (r : Ref) : attrOf w2 r = attrOf w r := by
  cases r with
  | web j =>
    have := h j
    cases h2 : w2.clients[j]? with
    | none =>
      cases h1 : w.clients[j]? with
      | none => simp [attrOf, World.refUsername, World.refPerms, World.permsOf, World.refData, World.client?, h1, h2]
      | some c1 => rw [h1, h2] at this; cases this
    | some c2 =>
      cases h1 : w.clients[j]? with
      | none => rw [h1, h2] at this; cases this
      | some c1 =>
        rw [h1, h2] at this
        simp only [Option.map_some, Option.some.injEq, Prod.mk.injEq] at this
        simp [attrOf, World.refUsername, World.refPerms, World.permsOf, World.refData, World.client?, h1, h2, this, hh]
  | mock id => rfl
  | disk id => rfl

/-- Client `i` takes the oldest action `a` off its queue and the messages `ms` are written to it;
if, for the group `i` is a member of, `ms` does to the user list what `a` was expected to do, the
invariant is preserved. -/
theorem pop_core (w w2 : World) (i : Nat) (c : Client) (a : Action) (rest : List Action) (ms : List OutMsg)
    (hi : WInv w) (hc : w.clients[i]? = some c) (hq : c.queue = a :: rest)
    (hcl : w2.clients = w.clients.modify i (fun c => { c with queue := rest })) (hgroups : w2.groups = w.groups)
    (hheap : w2.heap = w.heap) (hfix : w2.fix = w.fix) (hcr : w2.crashed = w.crashed) (htok : w2.tokens = w.tokens)
    (hdfr : w2.deferred = w.deferred)
    (hlog : ∀ j, written w2 j = if j = i then written w i ++ ms else written w j)
    (hstep : ∀ g, Ref.web i ∈ mem w g → ∀ v, ms.foldl (viewStep g) v = pend w.heap g v a) : WInv w2 := by
  have hget : ∀ j, w2.clients[j]? = if i = j then (w.clients[j]?).map (fun c => { c with queue := rest }) else w.clients[j]? := by
    intro j; rw [hcl]; exact modify_get i j _
  have hid : ∀ r, w2.refId r = w.refId r := by
    intro r
    apply refId_of_get
    intro j; rw [hget]
    split_ifs
    · cases w.clients[j]? <;> rfl
    · rfl
  have hattr : ∀ r, attrOf w2 r = attrOf w r := by
    intro r
    apply attrOf_of_get hheap
    intro j; rw [hget]
    split_ifs
    · cases w.clients[j]? <;> rfl
    · rfl
  have hmem : ∀ g, mem w2 g = mem w g := mem_of_groups hgroups
  refine ⟨⟨?_, ?_, ?_, ?_, ?_, ?_, ?_, ?_, ?_⟩, ?_⟩
  · rw [hfix]; exact hi.p12
  · rw [hfix]; exact hi.p18
  · rw [hcr]; exact hi.ok
  · intro g j hm
    rw [hmem] at hm
    obtain ⟨cj, hcj, hg⟩ := hi.memb g j hm
    rw [hget, hcj]
    split_ifs
    · exact ⟨_, rfl, hg⟩
    · exact ⟨_, rfl, hg⟩
  · intro g
    rw [hmem, List.map_congr_left (fun r _ => hid r)]
    exact hi.ids g
  · intro j cj hcj b hb
    rw [hget] at hcj
    rw [hheap]
    by_cases hij : i = j
    · subst hij
      rw [if_pos rfl, hc] at hcj
      cases hcj
      exact hi.tame i c hc b (by rw [hq]; exact List.mem_cons_of_mem _ hb)
    · rw [if_neg hij] at hcj
      exact hi.tame j cj hcj b hb
  · rw [hdfr]; exact hi.dfr
  · intro g j cj hm hcj
    rw [hmem] at hm
    rw [hget] at hcj
    rw [hheap]
    by_cases hij : i = j
    · subst hij
      rw [if_pos rfl, hc] at hcj
      cases hcj
      exact hi.permsR g i c hm hc
    · rw [if_neg hij] at hcj
      exact hi.permsR g j cj hm hcj
  · rw [htok, hheap]; exact hi.toksR
  · intro g j hm
    rw [hmem] at hm
    have ht : truth w2 g = truth w g := truth_congr (hmem g) (fun r _ => ⟨hid r, hattr r⟩)
    rw [ht, ← hi.view g j hm]
    unfold pview
    rw [hget, hlog, hheap]
    by_cases hij : i = j
    · subst hij
      rw [if_pos rfl, if_pos rfl, hc]
      simp only [Option.map_some]
      rw [hq, List.foldl_cons, viewOf_append, hstep g hm]
    · have : ¬ (j = i) := fun e => hij e.symm
      rw [if_neg hij, if_neg this]



theorem WInv.of_neutral {w w' : World} (h : Neutral w w') (hi : WInv w) : WInv w' := hi.neutral h

theorem WInv.flush {w : World} (hi : WInv w) : WInv w.flush := hi.neutral (neutral_flush w hi.dfr)

/-- **handling one queued action preserves the invariant** (the action is tame: the invariant
says no permission change is queued) -/
theorem handleAction_inv (w : World) (i : Nat) (c : Client) (a : Action) (rest : List Action) (hi : WInv w)
    (hc : w.clients[i]? = some c) (hq : c.queue = a :: rest) :
    WInv (handleAction (w.modClient i fun c => { c with queue := rest }) i a).1 := by
  have hcp : (w.modClient i fun c => { c with queue := rest }).client? i = some { c with queue := rest } := by
    show (w.modClient i _).clients[i]? = _
    rw [modClient_get, if_pos rfl, hc]; rfl
  have hgrp : ∀ g, Ref.web i ∈ mem w g → c.group = some g := by
    intro g hm
    obtain ⟨c', hc', hg⟩ := hi.memb g i hm
    rw [hc] at hc'; cases hc'; exact hg
  have popI : (∀ g, Ref.web i ∈ mem w g → ∀ v, pend w.heap g v a = v) →
      WInv (w.modClient i fun c => { c with queue := rest }) := fun h =>
    pop_core w _ i c a rest [] hi hc hq rfl rfl rfl rfl rfl rfl rfl
      (fun j => by
        by_cases hji : j = i
        · subst hji; simp [written, World.modClient]
        · simp [hji, written, World.modClient])
      (fun g hm v => (h g hm v).symm)
  have popW : ∀ m, (∀ g, Ref.web i ∈ mem w g → ∀ v, viewStep g v m = pend w.heap g v a) →
      WInv ((w.modClient i fun c => { c with queue := rest }).write i m) := fun m h =>
    pop_core w _ i c a rest [m] hi hc hq rfl rfl rfl rfl rfl rfl rfl
      (fun j => by
        rw [written_write]
        by_cases hij : i = j
        · subst hij; simp [written, World.modClient]
        · have : ¬ (j = i) := fun e => hij e.symm
          simp [hij, this, written, World.modClient])
      (fun g hm v => by simp only [List.foldl_cons, List.foldl_nil]; exact h g hm v)
  have htame := (hi.tame i c hc a (by rw [hq]; exact List.mem_cons_self)).1
  unfold handleAction
  rw [hcp]
  simp only []
  cases a with
  | pushConn g id hasUp replace =>
    have hp := popI (fun g _ v => rfl)
    simp only []
    split_ifs
    · exact hp
    · exact (hp.write i _ (by simp [OutMsg.quiet])).write i _ (by simp [OutMsg.quiet])
    · exact hp.write i _ (by simp [OutMsg.quiet])
  | requestConns g target id =>
    have hp := popI (fun g _ v => rfl)
    simp only []
    split_ifs
    · exact hp
    · refine hp.neutral (neutral_foldl _ _ _ (fun w u => ?_))
      split_ifs
      · exact Neutral.refl _
      · cases target with
        | web j => exact neutral_enq _ _ _ rfl
        | mock id => exact Neutral.refl _
        | disk d =>
          simp only []
          split
          · split_ifs
            · exact Neutral.refl _
            · exact neutral_wallOps _ _ _
          · exact Neutral.refl _
  | pushClient g kind id username perms data =>
    simp only []
    cases hcg : c.group with
    | none =>
      have hp12 : (w.modClient i fun c => { c with queue := rest }).fix.p12 = true := hi.p12
      rw [if_pos hp12]
      exact popI (fun g' hm v => by rw [hgrp g' hm] at hcg; cases hcg)
    | some cg =>
      simp only []
      by_cases hg : g = cg
      · subst hg
        simp only [ne_eq, not_true_eq_false, if_false]
        refine popW _ (fun g' hm v => ?_)
        have : g' = g := by have := hgrp g' hm; rw [hcg] at this; cases this; rfl
        subst this
        simp [viewStep, OutMsg.isJoin, pend, resolve_eq]
        rfl
      · simp only [ne_eq, hg, not_false_eq_true, if_true]
        refine popI (fun g' hm v => ?_)
        have : g' = cg := by have := hgrp g' hm; rw [hcg] at this; cases this; rfl
        subst this
        simp [pend, hg]
  | joined g kind =>
    have hstep : ∀ (m : OutMsg), m.type = "joined" → m.kind = kind → m.group = g →
        ∀ g', Ref.web i ∈ mem w g' → ∀ v, viewStep g' v m = pend w.heap g' v (.joined g kind) := by
      intro m h1 h2 h3 g' _ v
      simp only [viewStep, OutMsg.isJoin, h1, h2, h3, pend, true_and]
      split_ifs <;> first | rfl | (exfalso; simp_all)
    simp only []
    split
    · exact popW _ (hstep _ rfl rfl rfl)
    · split_ifs
      · refine WInv.of_neutral (neutral_foldl _ _ _ (fun w en => neutral_write _ _ _ (by simp [OutMsg.quiet]))) ?_
        refine WInv.of_neutral (neutral_modGroup _ g _ (fun _ => ⟨rfl, rfl⟩)) ?_
        exact popW _ (hstep _ rfl rfl rfl)
      · exact popW _ (hstep _ rfl rfl rfl)
  | changePerm kind => cases htame
  | permChanged => cases htame
  | kick id user msg => exact popI (fun g _ v => rfl)

/-- **one iteration of an action loop preserves the invariant** (including the close sequence
if the action was a kick) -/
theorem stepAction_inv (w : World) (i : Nat) (hi : WInv w) : WInv (stepAction w i).1 := by
  unfold stepAction
  split
  · exact hi
  · rename_i c hc
    split
    · exact hi
    · rename_i a rest hq
      simp only []
      have h := handleAction_inv w i c a rest hi hc hq
      split_ifs
      · exact h
      · split
        · exact (finish_inv _ i _ h).flush
        · exact h.flush

end Galene.Sig
