import GaleneVerif.Lemmas.SigWorldLeave
import GaleneVerif.Lemmas.SigHeap
/-
The permission skeleton of a world (C11 on the concrete signalling model, Props/C11World.lean).

`World.pk w : PK` keeps of a world exactly what "who is a member of what, and who holds which
permission slice" depends on: the repair flags, the slice heap, the token store, for every connection
its `group` field and its permission slice, and for every group name the indices of its web members.
Almost every function of Model/Signalling.lean leaves the skeleton alone (`*_pk` below: replies, chat,
locking, announcements, closing streams, the recorder, autoLockKick, …); the few that do not
(leaveGroup, joinGroup, the token effects, the permission-change action) are characterised exactly in
Lemmas/SigWorldPermsStep.lean.
-/
namespace Galene.Sig

/-! ### the skeleton -/

def webIdx : Ref → Option Nat
  | .web i => some i
  | _ => none

@[simp] theorem webIdx_web (i : Nat) : webIdx (.web i) = some i := rfl
@[simp] theorem webIdx_mock (id : String) : webIdx (.mock id) = none := rfl
@[simp] theorem webIdx_disk (id : String) : webIdx (.disk id) = none := rfl

/-- indices of the web members of group `n` -/
def webs (w : World) (n : String) : List Nat := (mem w n).filterMap webIdx

theorem mem_webs {w : World} {n : String} {i : Nat} : i ∈ webs w n ↔ Ref.web i ∈ mem w n := by
  unfold webs
  rw [List.mem_filterMap]
  constructor
  · rintro ⟨r, hr, h⟩
    cases r <;> simp [webIdx] at h
    subst h; exact hr
  · intro h; exact ⟨_, h, rfl⟩

/-- what the skeleton keeps of a connection: its `group` field and its permission slice -/
def Client.sk (c : Client) : Option String × Slice := (c.group, c.perms)

structure PK where
  fix : Fixes
  heap : Heap
  tokens : List Token
  /-- connection `i`: (group field, permission slice) -/
  cl : Nat → Option (Option String × Slice)
  /-- group name ↦ indices of its web members -/
  webs : String → List Nat

def World.pk (w : World) : PK :=
  { fix := w.fix, heap := w.heap, tokens := w.tokens, cl := fun i => (w.clients[i]?).map Client.sk, webs := webs w }

/-- the skeleton with another connection table / member table / heap / token store -/
def PK.withCl (p : PK) (cl : Nat → Option (Option String × Slice)) : PK := { p with cl := cl }
def PK.withWebs (p : PK) (wb : String → List Nat) : PK := { p with webs := wb }
def PK.withHeap (p : PK) (h : Heap) : PK := { p with heap := h }
def PK.withTokens (p : PK) (t : List Token) : PK := { p with tokens := t }

theorem PK.ext' {p q : PK} (h1 : p.fix = q.fix) (h2 : p.heap = q.heap) (h3 : p.tokens = q.tokens)
    (h4 : ∀ i, p.cl i = q.cl i) (h5 : ∀ n, p.webs n = q.webs n) : p = q := by
  cases p; cases q
  simp only [PK.mk.injEq]
  exact ⟨h1, h2, h3, funext h4, funext h5⟩

theorem pk_of_frame {w w' : World} (hfix : w'.fix = w.fix) (hh : w'.heap = w.heap) (ht : w'.tokens = w.tokens)
    (hc : w'.clients = w.clients) (hg : w'.groups = w.groups) : w'.pk = w.pk := by
  refine PK.ext' hfix hh ht (fun i => ?_) (fun n => ?_)
  · show (w'.clients[i]?).map Client.sk = (w.clients[i]?).map Client.sk
    rw [hc]
  · show webs w' n = webs w n
    unfold webs; rw [mem_of_groups hg]

/-! ### primitives -/

@[simp] theorem write_pk (w : World) (i : Nat) (m : OutMsg) : (w.write i m).pk = w.pk := rfl

/-- one connection modified -/
theorem modClient_pk (w : World) (i : Nat) (f : Client → Client) :
    (w.modClient i f).pk =
      w.pk.withCl (fun j => if i = j then (w.clients[j]?).map (fun c => (f c).sk) else w.pk.cl j) := by
  refine PK.ext' rfl rfl rfl (fun j => ?_) (fun n => rfl)
  show ((w.modClient i f).clients[j]?).map Client.sk =
    if i = j then (w.clients[j]?).map (fun c => (f c).sk) else (w.clients[j]?).map Client.sk
  rw [modClient_get]
  split_ifs
  · cases w.clients[j]? <;> rfl
  · rfl

/-- a change of a connection that touches neither its group field nor its permission slice -/
theorem modClient_pk_same (w : World) (i : Nat) (f : Client → Client) (hf : ∀ c, (f c).sk = c.sk) :
    (w.modClient i f).pk = w.pk := by
  rw [modClient_pk]
  refine PK.ext' rfl rfl rfl (fun j => ?_) (fun n => rfl)
  show (if i = j then (w.clients[j]?).map (fun c => (f c).sk) else (w.clients[j]?).map Client.sk) =
    (w.clients[j]?).map Client.sk
  split_ifs
  · cases w.clients[j]? <;> simp [hf]
  · rfl

@[simp] theorem enq_pk (w : World) (i : Nat) (a : Action) : (w.enq i a).pk = w.pk := by
  have : (w.enq i a).pk = (w.modClient i (fun c => { c with queue := c.queue ++ [a] })).pk := rfl
  rw [this]
  exact modClient_pk_same w i _ (fun _ => rfl)

theorem webs_modGroup (w : World) (n n' : String) (f : Group → Group) (hf : ∀ g, (f g).name = g.name) :
    webs (w.modGroup n f) n' =
      if n' = n then ((w.group? n').map fun g => (f g).members.filterMap webIdx).getD [] else webs w n' := by
  unfold webs
  rw [mem_modGroup w n n' f hf]
  split_ifs
  · cases w.group? n' <;> rfl
  · rfl

/-- a change of a group that touches neither its name nor its web members -/
theorem modGroup_pk_same (w : World) (n : String) (f : Group → Group)
    (hf : ∀ g, (f g).name = g.name ∧ (f g).members.filterMap webIdx = g.members.filterMap webIdx) :
    (w.modGroup n f).pk = w.pk := by
  refine PK.ext' rfl rfl rfl (fun j => rfl) (fun n' => ?_)
  show webs (w.modGroup n f) n' = webs w n'
  rw [webs_modGroup w n n' f (fun g => (hf g).1)]
  split_ifs
  · unfold webs mem
    cases w.group? n' <;> simp [(hf _).2]
  · rfl

theorem foldl_pk {α : Type} (f : World → α → World) (l : List α) (w : World)
    (h : ∀ w a, (f w a).pk = w.pk) : (l.foldl f w).pk = w.pk := by
  induction l generalizing w with
  | nil => rfl
  | cons a r ih => simp only [List.foldl_cons]; rw [ih, h]

@[simp] theorem flush_pk (w : World) : w.flush.pk = w.pk := by
  unfold World.flush
  show (List.foldl _ w w.deferred).pk = w.pk
  exact foldl_pk _ _ _ (fun w e => enq_pk w e.1 e.2)

@[simp] theorem pushClientTo_pk (w : World) (r : Ref) (a : Action) : (w.pushClientTo r a).pk = w.pk := by
  cases r <;> simp [World.pushClientTo]

@[simp] theorem joinedTo_pk (w : World) (r : Ref) (g k : String) : (w.joinedTo r g k).pk = w.pk := by
  cases r <;> simp [World.joinedTo]

/-- a new group without members -/
theorem newGroup_pk (w : World) (g : Group) (hm : g.members = []) :
    World.pk { w with groups := w.groups ++ [g] } = w.pk := by
  refine PK.ext' rfl rfl rfl (fun j => rfl) (fun n => ?_)
  show webs { w with groups := w.groups ++ [g] } n = webs w n
  unfold webs
  rw [(neutral_newGroup w g hm).mem]

/-! ### derived operations -/

@[simp] theorem autoLockKick_pk (w : World) (gn : String) : (autoLockKick w gn).pk = w.pk := by
  unfold autoLockKick
  split
  · rfl
  · rename_i g hg
    have hlock : ∀ w : World, (g.members.foldl (fun w r => w.joinedTo r gn "change")
        (w.modGroup gn (fun g => { g with locked := some "this group is locked" }))).pk = w.pk := by
      intro w
      rw [foldl_pk _ _ _ (fun w r => joinedTo_pk w r gn "change")]
      exact modGroup_pk_same w gn _ (fun g => ⟨rfl, rfl⟩)
    have hkick : ∀ w : World, (g.members.foldl (fun w r => match r with
          | .web i => { w with deferred := w.deferred ++ [(i, .kick "" none "there are no operators in this group")] }
          | _ => w) w).pk = w.pk := by
      intro w
      refine foldl_pk _ _ _ (fun w r => ?_)
      cases r <;> rfl
    split_ifs
    all_goals first
      | rfl
      | exact (hkick _).trans (hlock w)
      | exact hlock w
      | exact hkick w

@[simp] theorem addGroup_pk (w : World) (n : String) : (addGroup w n).1.pk = w.pk := by
  unfold addGroup
  split_ifs
  · rfl
  · split
    · exact autoLockKick_pk w n
    · split
      · rfl
      · simp only []
        rw [autoLockKick_pk]
        exact newGroup_pk w _ rfl

@[simp] theorem joinFail_pk (w : World) (i : Nat) (g : String) (e : JoinErr) : (joinFail w i g e).pk = w.pk := rfl

@[simp] theorem delUpConn_pk (w : World) (i : Nat) (id : String) (push : Bool) : (delUpConn w i id push).1.pk = w.pk := by
  unfold delUpConn
  split
  · rfl
  · split
    · rfl
    · simp only []
      have h0 : (w.modClient i fun c => { c with up := c.up.filter fun x => x.1 ≠ id }).pk = w.pk :=
        modClient_pk_same w i _ (fun _ => rfl)
      split
      · exact h0
      · split
        · exact h0
        · show World.pk (List.foldl _ _ _) = w.pk
          rw [foldl_pk]
          · exact h0
          · intro w r
            cases r <;> simp only []
            split_ifs <;> simp

@[simp] theorem broadcastChange_pk (w : World) (gn : String) (a : Action) : (broadcastChange w gn a).pk = w.pk := by
  unfold broadcastChange
  split
  · rfl
  · simp only []
    split
    · rw [foldl_pk]; intro w j; simp
    · show (List.foldl _ w _).pk = w.pk
      rw [foldl_pk]; intro w j; simp

@[simp] theorem wallOps_pk (w : World) (gn t : String) : (wallOps w gn t).pk = w.pk := by
  unfold wallOps
  split
  · rfl
  · rw [foldl_pk]
    intro w r
    cases r <;> simp only []
    split_ifs <;> simp

/-! ### group.DelClient -/

theorem filterMap_webIdx_filter (l : List Ref) (r : Ref) :
    (l.filter (· != r)).filterMap webIdx = (l.filterMap webIdx).filter (fun j => Ref.web j != r) := by
  induction l with
  | nil => rfl
  | cons x l ih =>
    rw [List.filter_cons]
    cases x with
    | web k =>
      by_cases h : (Ref.web k != r) = true
      · rw [if_pos h]; simp only [List.filterMap_cons, webIdx_web, List.filter_cons, h, if_true, ih]
      · rw [if_neg h]; simp only [List.filterMap_cons, webIdx_web, List.filter_cons, h, ih]; simp
    | mock id =>
      split_ifs <;> simp only [List.filterMap_cons, webIdx_mock, ih]
    | disk id =>
      split_ifs <;> simp only [List.filterMap_cons, webIdx_disk, ih]

/-- group.DelClient: the member disappears from the group's list, nothing else changes in the skeleton -/
theorem delClient_pk (w : World) (r : Ref) (gn : String) :
    (delClient w r gn).pk =
      w.pk.withWebs (fun n => if n = gn then (w.pk.webs n).filter (fun j => Ref.web j != r) else w.pk.webs n) := by
  unfold delClient
  split
  · rename_i hg
    refine PK.ext' rfl rfl rfl (fun j => rfl) (fun n => ?_)
    show webs w n = if n = gn then (webs w n).filter _ else webs w n
    split_ifs with hn
    · subst hn
      unfold webs mem; rw [hg]; rfl
    · rfl
  · rename_i g hg
    split_ifs with hc
    · refine PK.ext' rfl rfl rfl (fun j => rfl) (fun n => ?_)
      show webs w n = if n = gn then (webs w n).filter _ else webs w n
      split_ifs with hn
      · subst hn
        symm
        rw [List.filter_eq_self]
        intro j hj
        rw [mem_webs, mem_of_group? hg] at hj
        have hnc : r ∉ g.members := by simpa using hc
        simp only [bne_iff_ne, ne_eq]
        intro e; rw [← e] at hnc; exact hnc hj
      · rfl
    · simp only []
      rw [foldl_pk _ _ _ (fun w cc => pushClientTo_pk w cc _), joinedTo_pk, autoLockKick_pk]
      refine PK.ext' rfl rfl rfl (fun j => rfl) (fun n => ?_)
      show webs (w.modGroup gn _) n = if n = gn then (webs w n).filter _ else webs w n
      rw [webs_modGroup w gn n (fun g => { g with members := g.members.filter (· != r) }) (fun _ => rfl)]
      split_ifs with hn
      · subst hn
        rw [hg]
        show (g.members.filter (· != r)).filterMap webIdx = (webs w n).filter _
        rw [filterMap_webIdx_filter]
        unfold webs; rw [mem_of_group? hg]
      · rfl

/-- removing a member that is not a web client changes nothing in the skeleton -/
theorem delClient_pk_nonweb (w : World) (r : Ref) (gn : String) (hr : webIdx r = none) :
    (delClient w r gn).pk = w.pk := by
  rw [delClient_pk]
  refine PK.ext' rfl rfl rfl (fun j => rfl) (fun n => ?_)
  show (if n = gn then (w.pk.webs n).filter (fun j => Ref.web j != r) else w.pk.webs n) = w.pk.webs n
  split_ifs
  · rw [List.filter_eq_self]
    intro j _
    cases r <;> simp [webIdx] at hr <;> simp
  · rfl

end Galene.Sig
