import GaleneVerif.Lemmas.CodecsBasic
/-
Bound / no-panic lemmas for the pion parser models (rtp.Packet.Unmarshal,
VP8Packet.Unmarshal, VP9Packet.Unmarshal) and for the fuelled loops of codecs.go,
stated as `Post` triples.
-/
namespace Galene.Codecs

/-- rewrite a `Post` goal about a straight-line `do` block into a first-order condition -/
macro "wp_simp" : tactic =>
  `(tactic| simp only [post_bind, post_ite, post_byteAt, post_pure, post_throw, ge_iff_le, gt_iff_lt])

/-- split the first-order condition into its paths -/
macro "vc_split" : tactic => `(tactic| repeat' first | (intro _) | (apply And.intro) | trivial)

/-! ### rtp.Packet.Unmarshal -/

theorem extWalk_post (b : Bytes) (oneByte : Bool) (extEnd : Nat) (h : extEnd ≤ b.length) :
    ∀ fuel n, Post (extWalk b oneByte extEnd fuel n) (fun _ => True) := by
  intro fuel
  induction fuel with
  | zero => intro n; simp [extWalk]
  | succ k ih =>
    intro n
    unfold extWalk
    wp_simp
    vc_split
    all_goals first | omega | apply ih

theorem extWalk_wp {b : Bytes} {oneByte : Bool} {extEnd fuel n : Nat} {Q : Unit → Prop}
    (h : extEnd ≤ b.length) (hq : Q ()) : Post (extWalk b oneByte extEnd fuel n) Q :=
  (extWalk_post b oneByte extEnd h fuel n).mono (fun _ _ => hq)

/-- `rtpUnmarshal` never panics and the payload bounds it returns are ordered and inside the buffer -/
theorem rtp_post (b : Bytes) :
    Post (rtpUnmarshal b)
      (fun r => 12 ≤ r.payloadStart ∧ r.payloadStart ≤ r.payloadEnd ∧ r.payloadEnd ≤ b.length) := by
  unfold rtpUnmarshal
  wp_simp
  repeat' first | (intro _) | (apply And.intro) | trivial | (apply extWalk_wp)
  all_goals omega

/-! ### VP8Packet.Unmarshal -/

/-- `vp8Unmarshal` never panics; on success the payload is non-empty and the descriptor ends inside it -/
theorem vp8_post (p : Bytes) :
    Post (vp8Unmarshal p) (fun v => v.payloadStart ≤ p.length ∧ 0 < p.length) := by
  unfold vp8Unmarshal
  wp_simp
  vc_split
  all_goals omega

/-! ### VP9Packet.Unmarshal -/

theorem refIndices_post (p : Bytes) :
    ∀ fuel pos cnt, pos ≤ p.length → Post (refIndices p fuel pos cnt) (fun pos' => pos' ≤ p.length) := by
  intro fuel
  induction fuel with
  | zero => intro pos cnt h; simpa [refIndices] using h
  | succ k ih =>
    intro pos cnt h
    unfold refIndices
    wp_simp
    vc_split
    all_goals first | omega | (apply ih; omega)

theorem refIndices_wp {p : Bytes} {fuel pos cnt : Nat} {Q : Nat → Prop}
    (h : pos ≤ p.length) (hq : ∀ a, a ≤ p.length → Q a) : Post (refIndices p fuel pos cnt) Q :=
  (refIndices_post p fuel pos cnt h).mono hq

theorem ssDims_post (p : Bytes) :
    ∀ k pos acc, pos ≤ p.length → Post (ssDims p k pos acc) (fun r => r.1 ≤ p.length) := by
  intro k
  induction k with
  | zero => intro pos acc h; simpa [ssDims] using h
  | succ k ih =>
    intro pos acc h
    unfold ssDims
    wp_simp
    vc_split
    all_goals first | omega | (apply ih; omega)

theorem ssDims_wp {p : Bytes} {k pos : Nat} {acc : List (Nat × Nat)} {Q : Nat × List (Nat × Nat) → Prop}
    (h : pos ≤ p.length) (hq : ∀ a, a.1 ≤ p.length → Q a) : Post (ssDims p k pos acc) Q :=
  (ssDims_post p k pos acc h).mono hq

theorem ssGroups_post (p : Bytes) :
    ∀ k pos, pos ≤ p.length → Post (ssGroups p k pos) (fun pos' => pos' ≤ p.length) := by
  intro k
  induction k with
  | zero => intro pos h; simpa [ssGroups] using h
  | succ k ih =>
    intro pos h
    unfold ssGroups
    wp_simp
    vc_split
    all_goals first | omega | (apply ih; omega)

theorem ssGroups_wp {p : Bytes} {k pos : Nat} {Q : Nat → Prop}
    (h : pos ≤ p.length) (hq : ∀ a, a ≤ p.length → Q a) : Post (ssGroups p k pos) Q :=
  (ssGroups_post p k pos h).mono hq

/-- `vp9Unmarshal` never panics; on success the payload is non-empty and the descriptor ends inside it -/
theorem vp9_post (p : Bytes) :
    Post (vp9Unmarshal p) (fun v => v.payloadStart ≤ p.length ∧ 0 < p.length) := by
  unfold vp9Unmarshal
  wp_simp
  repeat' first | (intro _) | (apply And.intro) | trivial
                | (apply refIndices_wp) | (apply ssDims_wp) | (apply ssGroups_wp)
  all_goals omega

end Galene.Codecs
