import GaleneVerif.Lemmas.SigWorldNeutral
/-
Departures (C14 on the concrete model).

* `Ext w w' E`: `w'` is `w` with the actions `E i` appended to client `i`'s queue, nothing else
  changed (the shape of every announcement loop of group.go);
* `pushAll_ext`: the loop `for cc in clients: cc.PushClient(a)`;
* `delClient_inv`: group.DelClient preserves the invariant, for any kind of member;
* `leaveGroup_inv`, `finish_inv`: so do leaveGroup and the close sequence of a connection.
-/
namespace Galene.Sig

structure Ext (w w' : World) (E : Nat → List Action) : Prop where
  fix : w'.fix = w.fix
  crashed : w'.crashed = w.crashed
  tokens : w'.tokens = w.tokens
  heap : w'.heap = w.heap
  groups : w'.groups = w.groups
  deferred : w'.deferred = w.deferred
  len : w'.clients.length = w.clients.length
  cl : ∀ (i : Nat) (c : Client), w.clients[i]? = some c → w'.clients[i]? = some { c with queue := c.queue ++ E i }
  log : ∃ lx, w'.log = w.log ++ lx ∧ ∀ x ∈ lx, x.quiet

theorem Ext.refl (w : World) : Ext w w (fun _ => []) where
  fix := rfl
  crashed := rfl
  tokens := rfl
  heap := rfl
  groups := rfl
  deferred := rfl
  len := rfl
  cl := fun i c h => by rw [h]; simp
  log := ⟨[], by simp, by simp⟩

theorem Ext.congr {w w' : World} {E E' : Nat → List Action} (h : Ext w w' E) (he : ∀ j, E j = E' j) : Ext w w' E' := by
  have : E = E' := funext he
  rw [← this]; exact h

theorem Ext.trans {w w1 w2 : World} {E1 E2 : Nat → List Action} (h1 : Ext w w1 E1) (h2 : Ext w1 w2 E2) :
    Ext w w2 (fun j => E1 j ++ E2 j) where
  fix := h2.fix.trans h1.fix
  crashed := h2.crashed.trans h1.crashed
  tokens := h2.tokens.trans h1.tokens
  heap := h2.heap.trans h1.heap
  groups := h2.groups.trans h1.groups
  deferred := h2.deferred.trans h1.deferred
  len := h2.len.trans h1.len
  cl := by
    intro i c hc
    rw [h2.cl i _ (h1.cl i c hc)]
    simp [List.append_assoc]
  log := by
    obtain ⟨e1, h1', q1⟩ := h1.log
    obtain ⟨e2, h2', q2⟩ := h2.log
    refine ⟨e1 ++ e2, by rw [h2', h1', List.append_assoc], ?_⟩
    intro x hx
    rcases List.mem_append.mp hx with h | h
    · exact q1 x h
    · exact q2 x h

theorem Ext.enq (w : World) (i : Nat) (a : Action) : Ext w (w.enq i a) (fun j => if j = i then [a] else []) where
  fix := rfl
  crashed := rfl
  tokens := rfl
  heap := rfl
  groups := rfl
  deferred := rfl
  len := by simp [World.enq, World.modClient]
  cl := by
    intro j c hc
    have : (w.enq i a).clients = w.clients.modify i (fun c => { c with queue := c.queue ++ [a] }) := rfl
    rw [this, modify_get, hc]
    by_cases h : i = j
    · subst h; simp
    · have h' : ¬ (j = i) := fun e => h e.symm
      simp [h, h']
  log := ⟨[.enq i a _], rfl, by intro x hx; simp only [List.mem_singleton] at hx; subst hx; trivial⟩

theorem Ext.none {w w' : World} {E : Nat → List Action} (h : Ext w w' E) (i : Nat) (hn : w.clients[i]? = none) :
    w'.clients[i]? = none := by
  rw [List.getElem?_eq_none_iff] at hn ⊢
  rw [h.len]; exact hn

theorem Ext.refId {w w' : World} {E : Nat → List Action} (h : Ext w w' E) (r : Ref) : w'.refId r = w.refId r := by
  cases r with
  | web i =>
    cases hc : w.clients[i]? with
    | none => simp [World.refId, World.client?, hc, h.none i hc]
    | some c => simp [World.refId, World.client?, hc, h.cl i c hc]
  | mock id => rfl
  | disk id => rfl

theorem Ext.attrOf {w w' : World} {E : Nat → List Action} (h : Ext w w' E) (r : Ref) : attrOf w' r = attrOf w r := by
  cases r with
  | web i =>
    cases hc : w.clients[i]? with
    | none =>
      simp [Galene.Sig.attrOf, World.refUsername, World.refPerms, World.permsOf, World.refData, World.client?, hc,
        h.none i hc]
    | some c =>
      simp [Galene.Sig.attrOf, World.refUsername, World.refPerms, World.permsOf, World.refData, World.client?, hc,
        h.cl i c hc, h.heap]
  | mock id => rfl
  | disk id => rfl

theorem Ext.truth {w w' : World} {E : Nat → List Action} (h : Ext w w' E) (g : String) : truth w' g = truth w g :=
  truth_congr (mem_of_groups h.groups g) (fun r _ => ⟨h.refId r, h.attrOf r⟩)

theorem Ext.pview {w w' : World} {E : Nat → List Action} (h : Ext w w' E) {i : Nat} {c : Client}
    (hc : w.clients[i]? = some c) (hal : ∀ a ∈ c.queue, a.aliasOK w.heap) (g : String) :
    pview w' i g = (E i).foldl (pend w.heap g) (Galene.Sig.pview w i g) := by
  obtain ⟨lx, hl, hlq⟩ := h.log
  rw [pview_ext g hc (h.cl i c hc) (E i) rfl [] (by rw [h.heap]; simp) hal lx hl hlq, h.heap]

theorem WStruct.ext {w w' : World} {E : Nat → List Action} (hi : WStruct w) (h : Ext w w' E)
    (hE : ∀ i, ∀ a ∈ E i, a.tame = true ∧ a.aliasOK w.heap) : WStruct w' where
  p12 := by rw [h.fix]; exact hi.p12
  p18 := by rw [h.fix]; exact hi.p18
  ok := by rw [h.crashed]; exact hi.ok
  memb := by
    intro g i hm
    rw [mem_of_groups h.groups] at hm
    obtain ⟨c, hc, hg⟩ := hi.memb g i hm
    exact ⟨_, h.cl i c hc, hg⟩
  ids := by
    intro g
    rw [mem_of_groups h.groups]
    have : (mem w g).map w'.refId = (mem w g).map w.refId := List.map_congr_left (fun r _ => h.refId r)
    rw [this]
    exact hi.ids g
  tame := by
    intro i c' hc' a ha
    cases hc : w.clients[i]? with
    | none => rw [h.none i hc] at hc'; cases hc'
    | some c =>
      rw [h.cl i c hc] at hc'
      cases hc'
      rw [h.heap]
      rcases List.mem_append.mp ha with ha | ha
      · exact hi.tame i c hc a ha
      · exact hE i a ha
  dfr := by rw [h.deferred]; exact hi.dfr
  permsR := by
    intro g i c' hm hc'
    rw [mem_of_groups h.groups] at hm
    obtain ⟨c, hc, _⟩ := hi.memb g i hm
    rw [h.cl i c hc] at hc'
    cases hc'
    rw [h.heap]
    exact hi.permsR g i c hm hc
  toksR := by rw [h.tokens, h.heap]; exact hi.toksR

/-- `for cc in l: cc.PushClient(a)` -/
theorem pushAll_ext (a : Action) (l : List Ref) (w : World) :
    Ext w (l.foldl (fun w cc => w.pushClientTo cc a) w) (fun j => List.replicate (l.count (.web j)) a) := by
  induction l generalizing w with
  | nil => exact (Ext.refl w).congr (fun j => by simp)
  | cons r l ih =>
    simp only [List.foldl_cons]
    have h1 : Ext w (w.pushClientTo r a) (fun j => if r = .web j then [a] else []) := by
      cases r with
      | web k =>
        refine (Ext.enq w k a).congr (fun j => ?_)
        by_cases h : j = k
        · subst h; simp
        · have : ¬ (k = j) := fun e => h e.symm
          simp [h, this]
      | mock id => exact (Ext.refl w).congr (fun j => by simp)
      | disk id => exact (Ext.refl w).congr (fun j => by simp)
    refine (h1.trans (ih _)).congr (fun j => ?_)
    rw [List.count_cons]
    by_cases h : r = .web j
    · simp [h, List.replicate_succ]
    · simp [h]

/-! ### group.DelClient -/

theorem refId_groups (w : World) (gs : List Group) (r : Ref) : World.refId { w with groups := gs } r = w.refId r := by
  cases r <;> rfl

theorem attrOf_groups (w : World) (gs : List Group) (r : Ref) : attrOf { w with groups := gs } r = attrOf w r := by
  cases r <;> rfl

/-- removing members keeps the structural invariant -/
theorem WStruct.shrink {w : World} (hi : WStruct w) (gs : List Group)
    (hs : ∀ g, (mem { w with groups := gs } g).Sublist (mem w g)) : WStruct { w with groups := gs } where
  p12 := hi.p12
  p18 := hi.p18
  ok := hi.ok
  memb := fun g i hm => hi.memb g i ((hs g).subset hm)
  ids := by
    intro g
    have : (mem { w with groups := gs } g).map (World.refId { w with groups := gs }) =
        (mem { w with groups := gs } g).map w.refId := List.map_congr_left (fun r _ => refId_groups w gs r)
    rw [this]
    exact (hi.ids g).sublist ((hs g).map _)
  tame := hi.tame
  dfr := hi.dfr
  permsR := fun g i c hm hc => hi.permsR g i c ((hs g).subset hm) hc
  toksR := hi.toksR

theorem mem_of_group? {w : World} {gn : String} {g : Group} (h : w.group? gn = some g) : mem w gn = g.members := by
  simp [mem, h]

theorem nodup_map_inj {α β : Type} {f : α → β} {l : List α} (hn : (l.map f).Nodup) {x y : α} (hx : x ∈ l) (hy : y ∈ l)
    (e : f x = f y) : x = y := by
  induction l with
  | nil => cases hx
  | cons a l ih =>
    simp only [List.map_cons, List.nodup_cons, List.mem_map, not_exists, not_and] at hn
    rcases List.mem_cons.mp hx with hx1 | hx1 <;> rcases List.mem_cons.mp hy with hy1 | hy1
    · rw [hx1, hy1]
    · subst hx1; exact absurd e.symm (hn.1 y hy1)
    · subst hy1; exact absurd e (hn.1 x hx1)
    · exact ih hn.2 hx1 hy1

/-- removing a ref from a duplicate-free member list = removing its id from the finite map -/
theorem filter_ref_pairs (w : World) (M : List Ref) (r : Ref) (hn : (M.map w.refId).Nodup) (hr : r ∈ M) :
    (M.filter (· != r)).map (fun x => (w.refId x, attrOf w x)) =
      (M.map fun x => (w.refId x, attrOf w x)).filter (·.1 ≠ w.refId r) := by
  rw [List.filter_map]
  congr 1
  apply List.filter_congr
  intro x hx
  simp only [Function.comp]
  by_cases h : x = r
  · simp [h]
  · have hne : w.refId x ≠ w.refId r := fun e => h (nodup_map_inj hn hx hr e)
    simp [h, hne]

theorem pend_del (h : Heap) (gn id u : String) (v : UView) :
    pend h gn v (Action.pushClient gn "delete" id u (.fixed []) []) = uupd v id none := by
  simp [pend, foldEv]

theorem foldl_del (h : Heap) (gn id u : String) (k : Nat) (v : UView) :
    (List.replicate k (Action.pushClient gn "delete" id u (.fixed []) [])).foldl (pend h gn) (uupd v id none) =
      uupd v id none := by
  induction k with
  | zero => rfl
  | succ k ih =>
    rw [List.replicate_succ, List.foldl_cons, pend_del]
    have : uupd (uupd v id none) id none = uupd v id none := by
      funext j; simp only [uupd]; split_ifs <;> rfl
    rw [this, ih]

theorem foldl_other (h : Heap) (g gn kind id u : String) (p : PermRef) (d : Dict) (hne : gn ≠ g) (k : Nat) (v : UView) :
    (List.replicate k (Action.pushClient gn kind id u p d)).foldl (pend h g) v = v := by
  induction k with
  | zero => rfl
  | succ k ih => rw [List.replicate_succ, List.foldl_cons]; simp only [pend, if_neg hne]; exact ih

/-- the three stages of group.DelClient: the member list is filtered (`wA`), then something neutral
happens (autoLockKick, the `joined`/`leave` for the departing client: `wC`), then the `delete` is
pushed to the remaining members (`wD`) -/
theorem delClient_core (w : World) (r : Ref) (gn : String) (g : Group) (hi : WInv w) (hg : w.group? gn = some g)
    (hr : r ∈ g.members) (wA wC wD : World)
    (hwA : wA = w.modGroup gn fun g => { g with members := g.members.filter (· != r) })
    (hN : Neutral wA wC)
    (hX : Ext wC wD (fun j => List.replicate ((g.members.filter (· != r)).count (.web j))
      (.pushClient gn "delete" (w.refId r) (w.refUsername r) (.fixed []) []))) :
    WInv wD ∧ ∀ g', mem wD g' = if g' = gn then (mem w gn).filter (· != r) else mem w g' := by
  have hM : mem w gn = g.members := mem_of_group? hg
  have hAmem : ∀ g', mem wA g' = if g' = gn then (mem w gn).filter (· != r) else mem w g' := by
    intro g'
    rw [hwA, mem_modGroup w gn g' (fun g => { g with members := g.members.filter (· != r) }) (fun _ => rfl)]
    split_ifs with h
    · subst h; simp [hg, hM]
    · rfl
  have hAeq : wA = { w with groups := wA.groups } := by rw [hwA]; rfl
  have hsA : WStruct wA := by
    rw [hAeq]
    apply hi.toWStruct.shrink
    intro g'
    rw [← hAeq, hAmem]
    split_ifs with h
    · subst h; exact List.filter_sublist
    · exact List.Sublist.refl _
  have hsC : WStruct wC := hsA.neutral hN
  have hsD : WStruct wD := hsC.ext hX (by
    intro i a ha
    rw [List.eq_of_mem_replicate ha]
    exact ⟨rfl, trivial⟩)
  have hDmem : ∀ g', mem wD g' = if g' = gn then (mem w gn).filter (· != r) else mem w g' := by
    intro g'
    rw [mem_of_groups hX.groups, hN.mem, hAmem]
  refine ⟨⟨hsD, ?_⟩, hDmem⟩
  intro g' i hm
  have hmA : Ref.web i ∈ mem wA g' := by rw [← hN.mem, ← mem_of_groups hX.groups]; exact hm
  have hmW : Ref.web i ∈ mem w g' := by
    rw [hAmem] at hmA
    split_ifs at hmA with h
    · subst h; exact (List.mem_filter.mp hmA).1
    · exact hmA
  obtain ⟨c, hc, hcg⟩ := hi.memb g' i hmW
  have hcA : wA.clients[i]? = some c := by rw [hwA]; exact hc
  obtain ⟨c1, hc1, _, _, ext1, hq1, hx1⟩ := hN.cl i c hcA
  obtain ⟨hext, hh⟩ := hN.heap
  obtain ⟨lx, hl, hlq⟩ := hN.log
  have hpA : pview wA i g' = pview w i g' := by rw [hwA]; rfl
  have hpC : pview wC i g' = pview w i g' := by
    rw [pview_ext g' hcA hc1 ext1 hq1 hext hh (fun a ha => (hsA.tame i c hcA a ha).2) lx hl hlq,
      foldl_pend_quiet _ _ _ _ hx1, hpA]
  rw [hX.pview hc1 (fun a ha => (hsC.tame i c1 hc1 a ha).2), hpC, hi.view g' i hmW, hX.truth,
    truth_congr (hN.mem g') (fun x hx => neutral_ref_eq hN hsA hx)]
  have htA : truth wA g' = truthL ((mem wA g').map fun x => (w.refId x, attrOf w x)) := by
    unfold truth
    congr 1
    apply List.map_congr_left
    intro x _
    rw [hAeq, refId_groups, attrOf_groups]
  rw [htA, hAmem]
  by_cases hgg : g' = gn
  · subst hgg
    rw [if_pos rfl, hM, filter_ref_pairs w g.members r (by rw [← hM]; exact hi.ids g') hr, truthL_filter]
    have hcnt : 0 < (g.members.filter (· != r)).count (.web i) := by
      rw [List.count_pos_iff]
      rw [hAmem, if_pos rfl, hM] at hmA
      exact hmA
    obtain ⟨k, hk⟩ : ∃ k, (g.members.filter (· != r)).count (.web i) = k + 1 :=
      ⟨_, (Nat.succ_pred_eq_of_pos hcnt).symm⟩
    simp only [hk]
    rw [List.replicate_succ, List.foldl_cons, pend_del, foldl_del]
    unfold truth
    rw [hM]
  · rw [if_neg hgg, foldl_other _ _ _ _ _ _ _ _ (fun e => hgg e.symm)]
    rfl

/-- **group.DelClient preserves the invariant**, whatever kind of member leaves; the membership
afterwards is the old one without the ref. -/
theorem delClient_inv (w : World) (r : Ref) (gn : String) (hi : WInv w) :
    WInv (delClient w r gn) ∧
      ∀ g', mem (delClient w r gn) g' = if g' = gn then (mem w gn).filter (· != r) else mem w g' := by
  unfold delClient
  split
  · rename_i hg
    refine ⟨hi, fun g' => ?_⟩
    split_ifs with h
    · subst h; simp [mem, hg]
    · rfl
  · rename_i g hg
    have hM : mem w gn = g.members := mem_of_group? hg
    split_ifs with hcont
    · refine ⟨hi, fun g' => ?_⟩
      split_ifs with h
      · subst h
        rw [hM]
        symm
        apply List.filter_eq_self.mpr
        intro x hx
        have hnot : r ∉ g.members := by simpa using hcont
        simp only [bne_iff_ne, ne_eq]
        intro e; subst e; exact hnot hx
      · rfl
    · have hr : r ∈ g.members := by simpa using hcont
      simp only []
      exact delClient_core w r gn g hi hg hr _ _ _ rfl
        ((neutral_autoLockKick _ gn).trans (neutral_joinedTo _ r gn "leave" (by decide)))
        (pushAll_ext _ _ _)

/-! ### leaveGroup and the close sequence -/

theorem WInv.write {w : World} (hi : WInv w) (i : Nat) (m : OutMsg) (hm : m.quiet) : WInv (w.write i m) :=
  hi.neutral (neutral_write w i m hm)

/-- **leaveGroup preserves the invariant** (and so does it when the connection is in no group, or
in a group it is not a member of). -/
theorem leaveGroup_inv (w : World) (i : Nat) (hi : WInv w) : WInv (leaveGroup w i) := by
  unfold leaveGroup
  split
  · exact hi
  · rename_i c hc
    have hc' : w.clients[i]? = some c := hc
    split
    · exact hi
    · rename_i gn hgn
      simp only []
      have hN1 : Neutral w (c.up.foldl (fun w u => (delUpConn w i u.1 true).1) w) :=
        neutral_foldl _ _ _ (fun w u => neutral_delUpConn w i u.1 true)
      have hi1 := hi.neutral hN1
      obtain ⟨hi2, hmem2⟩ := delClient_inv _ (.web i) gn hi1
      refine hi2.neutral (neutral_modClient_nm _ i _ ?_ (fun c => ⟨rfl, rfl⟩))
      intro g' hm
      rw [hmem2] at hm
      split_ifs at hm with h
      · simp at hm
      · rw [hN1.mem] at hm
        obtain ⟨c2, hc2, hg2⟩ := hi.memb g' i hm
        rw [hc'] at hc2
        cases hc2
        rw [hgn] at hg2
        cases hg2
        exact h rfl

/-- **the close sequence of a connection preserves the invariant** (whatever the reason:
protocol error, kick, websocket closed) -/
theorem finish_inv (w : World) (i : Nat) (e : CloseErr) (hi : WInv w) : WInv (finish w i e) := by
  unfold finish
  simp only []
  have h1 := hi.neutral (neutral_modClient w i (fun c => { c with alive := false }) (fun c => ⟨rfl, rfl, rfl, rfl, rfl, rfl⟩))
  have h2 := leaveGroup_inv _ i h1
  have hframe : ∀ (code : Nat) (text : String),
      OutMsg.quiet { closeCode := some code, value := .sc (.str text) } := by
    intro code text; simp [OutMsg.quiet]
  split
  · exact h2.write i _ (hframe _ _)
  · exact (h2.write i _ (errMsg_quiet _ _)).write i _ (hframe _ _)
  · exact (h2.write i _ (errMsg_quiet _ _)).write i _ (hframe _ _)
  · exact (h2.write i _ (by simp [OutMsg.quiet])).write i _ (hframe _ _)
  · exact h2.write i _ (hframe _ _)

end Galene.Sig
