import GaleneVerif.Lemmas.CodecsParsers
/-
Closed form of the model of pion's VP8Packet.Unmarshal: the parser is equal to a
non-monadic description (`vp8Fields` + a length test).  Used by Props/C02 to relate
the picture id written by RewritePacket to the one an independent parser reads back.
-/
namespace Galene.Codecs

/-- closed form of the fields computed by VP8Packet.Unmarshal (when it succeeds) -/
def vp8Fields (p : Bytes) : VP8 :=
  let b0 := p.getD 0 0
  let x := bit b0 0x80
  let b1 := if x then p.getD 1 0 else 0
  let i := bit b1 0x80
  let l := bit b1 0x40
  let t := bit b1 0x20
  let k := bit b1 0x10
  let idx1 := if x then 2 else 1
  let b2 := p.getD idx1 0
  let m := i && bit b2 0x80
  let pictureID := if i then (if m then (b2 % 128) * 256 + p.getD (idx1 + 1) 0 else b2) else 0
  let idx2 := idx1 + (if i then (if m then 2 else 1) else 0)
  let idx3 := idx2 + (if l then 1 else 0)
  let b3 := p.getD idx3 0
  { x := x, n := bit b0 0x20, s := bit b0 0x10, pid := b0 % 8, i := i, l := l, t := t, k := k, m := m,
    pictureID := pictureID, tid := if t then b3 / 64 else 0, y := t && bit b3 0x20,
    payloadStart := idx3 + (if t || k then 1 else 0) }

macro "wp2_simp" : tactic =>
  `(tactic| simp only [post2_bind, post2_ite, post2_byteAt, post2_pure, post2_throw, ge_iff_le, gt_iff_lt])

theorem bit_zero (m : Nat) : bit 0 m = false := by simp [bit]

theorem vp8_closed_post (p : Bytes) :
    Post2 (vp8Unmarshal p) (fun v => v = vp8Fields p)
      (fun e => e = .err ∧ (p.length = 0 ∨ p.length < (vp8Fields p).payloadStart)) := by
  unfold vp8Unmarshal
  wp2_simp
  vc_split
  all_goals try omega
  all_goals try simp only [Nat.reduceAdd] at *
  all_goals try (simp [vp8Fields, bit_zero, *]; done)
  all_goals try (simp [vp8Fields, bit_zero, *]; omega)
  all_goals (simp_all [vp8Fields]; done)

/-- closed form of VP8Packet.Unmarshal: it succeeds iff the payload is non-empty and the descriptor
(whose length is determined by the X, I, M, L, T, K bits) fits, and then returns `vp8Fields` -/
theorem vp8Unmarshal_eq (p : Bytes) :
    vp8Unmarshal p =
      if 0 < p.length ∧ (vp8Fields p).payloadStart ≤ p.length then .ok (vp8Fields p) else .error .err := by
  have h1 := vp8_closed_post p
  have h2 := vp8_post p
  cases h : vp8Unmarshal p with
  | ok v =>
    have e := h1.of_ok h
    have b := h2.of_ok h
    subst e
    rw [if_pos ⟨b.2, b.1⟩]
  | error e =>
    have := h1.of_error h
    rw [if_neg (by omega), this.1]

theorem vp8Fields_pid15 {p p' : Bytes} {y2 y3 : Nat}
    (h0 : p'[0]? = p[0]?) (h1 : p'[1]? = p[1]?) (h4 : p'[4]? = p[4]?) (h5 : p'[5]? = p[5]?)
    (hX : bit (p.getD 0 0) 128 = true) (hI : bit (p.getD 1 0) 128 = true)
    (hM : bit (p.getD 2 0) 128 = true)
    (h2 : p'[2]? = some y2) (h3 : p'[3]? = some y3) (hy : bit y2 128 = true) :
    vp8Fields p' = { vp8Fields p with pictureID := (y2 % 128) * 256 + y3 } := by
  rw [List.getD_eq_getElem?_getD] at hX hI hM
  cases hl : bit (p[1]?.getD 0) 64 <;>
    simp [vp8Fields, h0, h1, h2, h3, h4, h5, hX, hI, hM, hy, hl]

theorem vp8Fields_pid7 {p p' : Bytes} {y2 : Nat}
    (h0 : p'[0]? = p[0]?) (h1 : p'[1]? = p[1]?) (h3 : p'[3]? = p[3]?) (h4 : p'[4]? = p[4]?)
    (hX : bit (p.getD 0 0) 128 = true) (hI : bit (p.getD 1 0) 128 = true)
    (hM : bit (p.getD 2 0) 128 = false)
    (h2 : p'[2]? = some y2) (hy : bit y2 128 = false) :
    vp8Fields p' = { vp8Fields p with pictureID := y2 } := by
  rw [List.getD_eq_getElem?_getD] at hX hI hM
  cases hl : bit (p[1]?.getD 0) 64 <;>
    simp [vp8Fields, h0, h1, h2, h3, h4, hX, hI, hM, hy, hl]

/-! ### the RTP payload slice `buf[payloadStart:payloadEnd]` -/

theorem payload_length {d : Bytes} {ps pe : Nat} (h : pe ≤ d.length) :
    ((d.take pe).drop ps).length = pe - ps := by
  rw [List.length_drop, List.length_take, Nat.min_eq_left h]

theorem payload_getElem? (d : Bytes) (ps pe k : Nat) :
    ((d.take pe).drop ps)[k]? = if ps + k < pe then d[ps + k]? else none := by
  rw [List.getElem?_drop, List.getElem?_take]

theorem payload_getD {d : Bytes} {ps pe k : Nat} (h : ps + k < pe) :
    ((d.take pe).drop ps).getD k 0 = d.getD (ps + k) 0 := by
  rw [List.getD_eq_getElem?_getD, List.getD_eq_getElem?_getD, payload_getElem?, if_pos h]

/-- two buffers of the same length that agree on the payload range except at offsets `a`, `b`
have payloads that agree except at the corresponding positions -/
theorem payload_congr {d d' : Bytes} {ps pe a b : Nat}
    (h : ∀ i, ps ≤ i → i < pe → i ≠ a → i ≠ b → d'[i]? = d[i]?) (k : Nat)
    (ha : ps + k ≠ a) (hb : ps + k ≠ b) :
    ((d'.take pe).drop ps)[k]? = ((d.take pe).drop ps)[k]? := by
  rw [payload_getElem?, payload_getElem?]
  split
  · exact h _ (by omega) (by assumption) ha hb
  · rfl

theorem vp8Fields_i {p : Bytes} (h : (vp8Fields p).i = true) :
    bit (p.getD 0 0) 128 = true ∧ bit (p.getD 1 0) 128 = true := by
  unfold vp8Fields at h
  simp only [] at h
  cases hx : bit (p.getD 0 0) 128
  · rw [hx] at h; simp only [Bool.false_eq_true, if_false, bit_zero] at h
  · rw [hx] at h; simp only [if_true] at h; exact ⟨rfl, h⟩

theorem vp8Fields_X {p : Bytes} (hX : bit (p.getD 0 0) 128 = true) :
    (vp8Fields p).i = bit (p.getD 1 0) 128 ∧ 2 ≤ (vp8Fields p).payloadStart := by
  unfold vp8Fields
  simp only [hX, if_true]
  refine ⟨trivial, ?_⟩
  omega

theorem vp8Fields_XI {p : Bytes} (hX : bit (p.getD 0 0) 128 = true) (hI : bit (p.getD 1 0) 128 = true) :
    (vp8Fields p).m = bit (p.getD 2 0) 128 ∧
    (vp8Fields p).pictureID =
      (if bit (p.getD 2 0) 128 = true then (p.getD 2 0 % 128) * 256 + p.getD 3 0 else p.getD 2 0) ∧
    (if bit (p.getD 2 0) 128 = true then 4 else 3) ≤ (vp8Fields p).payloadStart := by
  unfold vp8Fields
  simp only [hX, hI, if_true, Bool.true_and]
  refine ⟨trivial, trivial, ?_⟩
  split <;> omega

end Galene.Codecs
