import GaleneVerif.Lemmas.SigWorldPermsInv
import GaleneVerif.Lemmas.SigWorldJoin
/-
What each step of the signalling model does to the permission skeleton (`World.pk`): exact
characterisations of leaveGroup, the close sequence, joinGroup, every effect of `applyEffect`,
`handleAction` and `stepAction` in terms of the transitions of Lemmas/SigWorldPermsInv.lean.
-/
namespace Galene.Sig

theorem pk_cl (w : World) (i : Nat) : w.pk.cl i = (w.clients[i]?).map Client.sk := rfl

theorem pk_cl_some {w : World} {i : Nat} {c : Client} (h : w.clients[i]? = some c) :
    w.pk.cl i = some (c.group, c.perms) := by rw [pk_cl, h]; rfl

theorem pk_cl_none {w : World} {i : Nat} (h : w.clients[i]? = none) : w.pk.cl i = none := by rw [pk_cl, h]; rfl

theorem pk_cl_inv {w : World} {i : Nat} {g : Option String} {s : Slice} (h : w.pk.cl i = some (g, s)) :
    ∃ c, w.clients[i]? = some c ∧ c.group = g ∧ c.perms = s := by
  rw [pk_cl] at h
  cases hc : w.clients[i]? with
  | none => rw [hc] at h; cases h
  | some c =>
    rw [hc] at h
    simp only [Option.map_some, Option.some.injEq, Client.sk, Prod.mk.injEq] at h
    exact ⟨c, rfl, h.1, h.2⟩

/-- one connection modified, in terms of the skeleton -/
theorem modClient_pk' (w : World) (i : Nat) (f : Client → Client) (F : Option String × Slice → Option String × Slice)
    (hF : ∀ c, (f c).sk = F c.sk) : (w.modClient i f).pk = w.pk.modCl i F := by
  rw [modClient_pk]
  refine PK.ext' rfl rfl rfl (fun j => ?_) (fun n => rfl)
  show (if i = j then (w.clients[j]?).map (fun c => (f c).sk) else (w.clients[j]?).map Client.sk) =
    if j = i then ((w.clients[j]?).map Client.sk).map F else (w.clients[j]?).map Client.sk
  by_cases h : i = j
  · subst h
    rw [if_pos rfl, if_pos rfl]
    cases w.clients[i]? <;> simp [hF]
  · rw [if_neg h, if_neg (fun e => h e.symm)]

/-! ### leaving -/

theorem leaveGroup_pk (w : World) (i : Nat) : (leaveGroup w i).pk = w.pk.leave i := by
  unfold leaveGroup
  cases hc : w.client? i with
  | none =>
    simp only []
    have : w.pk.cl i = none := pk_cl_none hc
    unfold PK.leave; rw [this]
  | some c =>
    simp only []
    cases hg : c.group with
    | none =>
      simp only []
      have : w.pk.cl i = some (none, c.perms) := by rw [pk_cl_some hc, hg]
      unfold PK.leave; rw [this]
    | some gn =>
      simp only []
      have : w.pk.cl i = some (some gn, c.perms) := by rw [pk_cl_some hc, hg]
      have hf : (c.up.foldl (fun w u => (delUpConn w i u.1 true).1) w).pk = w.pk :=
        foldl_pk _ _ _ (fun w (u : String × String) => delUpConn_pk w i u.1 true)
      rw [modClient_pk' _ i _ (fun _ => (none, nilSlice)) (fun _ => rfl), delClient_pk, hf]
      unfold PK.leave; rw [this]
      simp only []
      congr 1

theorem finish_pk (w : World) (i : Nat) (e : CloseErr) : (finish w i e).pk = w.pk.leave i := by
  have h1 : (leaveGroup (w.modClient i (fun c => { c with alive := false })) i).pk = w.pk.leave i := by
    rw [leaveGroup_pk, modClient_pk_same w i (fun c => { c with alive := false }) (fun _ => rfl)]
  unfold finish
  simp only []
  split <;> simp only [write_pk, h1]

/-! ### joining -/

theorem world_heap_nil (w : World) : ({ w with heap := w.heap ++ [] } : World) = w := by
  simp

theorem specPerms_ext (w : World) (g : Group) (u : String) (p : PermSpec) :
    ∃ ext, (specPerms w g u p).1 = { w with heap := w.heap ++ ext } ∧ FreshFor w.heap ext (specPerms w g u p).2 := by
  unfold specPerms
  split
  · rename_i l
    obtain ⟨ext, he, hf, _⟩ := alloc_fresh w.heap l
    exact ⟨ext, by simp only []; rw [he], hf⟩
  · simp only []
    split_ifs
    all_goals first
      | exact ⟨[], (world_heap_nil w).symm, Or.inl rfl⟩
      | (obtain ⟨ext, he, hf, _⟩ := allocCap_fresh w.heap _ _
         exact ⟨ext, by simp only []; rw [he], hf⟩)

theorem gp_goal_same (w : World) (r : Except JoinErr (String × Slice))
    (h : ∀ u s, r = .ok (u, s) → w.fix.tokClone = true → False) :
    ∃ ext, w = { w with heap := w.heap ++ ext } ∧
      ∀ u s, r = .ok (u, s) → w.fix.tokClone = true → FreshFor w.heap ext s :=
  ⟨[], (world_heap_nil w).symm, fun u s hr ht => (h u s hr ht).elim⟩

theorem gp_goal_alloc (w : World) (l : List String) (r : Except JoinErr (String × Slice))
    (h : ∀ u s, r = .ok (u, s) → s = (w.heap.alloc l).2) :
    ∃ ext, ({ w with heap := (w.heap.alloc l).1 } : World) = { w with heap := w.heap ++ ext } ∧
      ∀ u s, r = .ok (u, s) → w.fix.tokClone = true → FreshFor w.heap ext s := by
  obtain ⟨ext, he, hf, _⟩ := alloc_fresh w.heap l
  exact ⟨ext, by rw [he], fun u s hr _ => by rw [h u s hr]; exact hf⟩

theorem gp_goal_spec (w : World) (g : Group) (un : String) (p : PermSpec) (r : Except JoinErr (String × Slice))
    (h : ∀ u s, r = .ok (u, s) → s = (specPerms w g un p).2) :
    ∃ ext, (specPerms w g un p).1 = { w with heap := w.heap ++ ext } ∧
      ∀ u s, r = .ok (u, s) → w.fix.tokClone = true → FreshFor w.heap ext s := by
  obtain ⟨ext, he, hf⟩ := specPerms_ext w g un p
  exact ⟨ext, he, fun u s hr _ => by rw [h u s hr]; exact hf⟩

/-- Description.GetPermission only allocates; with `Stateful.Check` returning a copy, the slice it
grants is nil or freshly allocated -/
theorem getPermission_ext' (w : World) (g : Group) (cr : Creds) (w' : World) (r : Except JoinErr (String × Slice))
    (hgp : getPermission w g cr = (w', r)) :
    ∃ ext, w' = { w with heap := w.heap ++ ext } ∧
      ∀ u s, r = .ok (u, s) → w.fix.tokClone = true → FreshFor w.heap ext s := by
  unfold getPermission at hgp
  simp only [] at hgp
  repeat' (first | split_ifs at hgp | split at hgp)
  all_goals (simp only [Prod.mk.injEq] at hgp; obtain ⟨rfl, rfl⟩ := hgp)
  all_goals first
    | (refine gp_goal_same w _ ?_
       intro u s h ht
       first
         | (cases h; done)
         | (exact absurd ht (by assumption)))
    | (refine gp_goal_alloc w _ _ ?_
       intro u s h
       first
         | (cases h; done)
         | (cases h; rfl))
    | (refine gp_goal_spec w g _ _ _ ?_
       intro u s h
       first
         | (cases h; done)
         | (cases h; rfl))

theorem getPermission_ext (w : World) (g : Group) (cr : Creds) :
    ∃ ext, (getPermission w g cr).1 = { w with heap := w.heap ++ ext } ∧
      ∀ u s, (getPermission w g cr).2 = .ok (u, s) → w.fix.tokClone = true → FreshFor w.heap ext s :=
  getPermission_ext' w g cr _ _ rfl

theorem announce_pk (w : World) (i : Nat) (gname : String) (selfAdd : Action) (l : List Ref) :
    (announce w i gname selfAdd l).pk = w.pk := by
  unfold announce
  exact foldl_pk _ _ _ (fun w r => by rw [pushClientTo_pk, enq_pk])

theorem insertTail_pk (w : World) (i : Nat) (gname : String) (clients : List Ref) (selfAdd : Action)
    (hg : (w.group? gname).isSome = true) : (insertTail w i gname clients selfAdd).pk = w.pk.appWeb gname i := by
  unfold insertTail
  simp only []
  rw [announce_pk, enq_pk, enq_pk]
  refine PK.ext' rfl rfl rfl (fun j => rfl) (fun n => ?_)
  show webs (w.modGroup gname _) n = if n = gname then webs w n ++ [i] else webs w n
  rw [webs_modGroup w gname n (fun g => { g with members := g.members ++ [.web i] }) (fun _ => rfl)]
  split_ifs with hn
  · subst hn
    obtain ⟨g0, hg0⟩ := Option.isSome_iff_exists.mp hg
    rw [hg0]
    show (g0.members ++ [Ref.web i]).filterMap webIdx = webs w n ++ [i]
    unfold webs
    rw [mem_of_group? hg0, List.filterMap_append]
    rfl
  · rfl

/-- the end of group.AddClient and of the `join` case, with the repairs P10 and P18: the client is
accepted, and in the `redirect` case removed again at once -/
theorem insertClient_pk (w : World) (i : Nat) (gname : String) (g : Group) (username : String) (perms : Slice)
    (h10 : w.fix.p10 = true) (h18 : w.fix.p18 = true) (hg : (w.group? gname).isSome = true) :
    (insertClient w i gname g username perms).pk =
      if g.cfg.redirect ≠ "" then (w.pk.accept i gname perms).leave i else w.pk.accept i gname perms := by
  rw [insertClient_eq, insertRest_eq, h10, if_pos rfl]
  have hg' : ((w.modClient i (fun c => { c with username := username, perms := perms })).group? gname).isSome = true := hg
  have hpre : (w.modClient i (fun c => { c with username := username, perms := perms })).pk =
      w.pk.modCl i (fun x => (x.1, perms)) := modClient_pk' w i _ _ (fun _ => rfl)
  have hT : ∀ a, (insertTail (w.modClient i (fun c => { c with username := username, perms := perms })) i gname g.members a).pk =
      (w.pk.modCl i (fun x => (x.1, perms))).appWeb gname i := by
    intro a; rw [insertTail_pk _ i gname g.members a hg', hpre]
  have hfix : ∀ a, (insertTail (w.modClient i (fun c => { c with username := username, perms := perms })) i gname g.members a).fix =
      w.fix := fun a => congrArg PK.fix (hT a)
  have hA : ∀ a, ((insertTail (w.modClient i (fun c => { c with username := username, perms := perms })) i gname g.members
      a).modClient i (fun c => { c with group := some gname })).pk = w.pk.accept i gname perms := by
    intro a
    rw [modClient_pk' _ i _ (fun x => (some gname, x.2)) (fun _ => rfl), hT a]
    rfl
  split_ifs with hr h18'
  · rw [write_pk, leaveGroup_pk, hA]
  · rw [hfix] at h18'; exact absurd h18 h18'
  · exact hA _

/-- the admission checks: refused (nothing changes), or accepted -/
theorem admission_pk (w : World) (i : Nat) (gname : String) (g : Group) (username : String) (perms : Slice)
    (h10 : w.fix.p10 = true) (h18 : w.fix.p18 = true) (hg : (w.group? gname).isSome = true) :
    (admission w i gname g username perms).pk = w.pk ∨
      ((w.pk.cl i).isSome = true ∧
        ((admission w i gname g username perms).pk = w.pk.accept i gname perms ∨
         (admission w i gname g username perms).pk = (w.pk.accept i gname perms).leave i)) := by
  unfold admission
  simp only []
  split_ifs
  all_goals first
    | (left; exact joinFail_pk _ _ _ _)
    | skip
  have hcid : ¬ ((w.client? i).map (·.id)).getD "" = "" := by assumption
  right
  refine ⟨?_, ?_⟩
  · rw [pk_cl]
    cases hc : w.clients[i]? with
    | none =>
      exfalso; apply hcid
      show ((w.clients[i]?).map (·.id)).getD "" = ""
      rw [hc]; rfl
    | some c => rfl
  · rw [insertClient_pk w i gname g username perms h10 h18 hg]
    split_ifs
    · exact Or.inr rfl
    · exact Or.inl rfl

/-- the slice `s` is what Description.GetPermission grants to the credentials `cr` in group `gname`
(looked up, as in group.AddClient, after group.Add), the heap having grown by `ext` -/
def Granted (w : World) (i : Nat) (gname : String) (cr : Creds) (data : Dict) (ext : Heap) (s : Slice) : Prop :=
  ∃ w1 gr w2 u, addGroup (w.modClient i (fun c => { c with data := data })) gname = (w1, .ok ()) ∧
    w1.group? gname = some gr ∧ getPermission w1 gr cr = (w2, .ok (u, s)) ∧ w2.heap = w.heap ++ ext

/-- group.AddClient for a web client followed by the tail of the `join` case, with the repairs P10 and
P18: the heap may have grown (`ext`: the permission list allocated for the client), and then either
nothing else has changed (the join was refused), or the client has been accepted with a slice that is
nil or lies in `ext`, or it has been accepted and removed again (`redirect`) -/
theorem joinGroup_pk (w : World) (i : Nat) (gname : String) (cr : Creds) (data : Dict)
    (h10 : w.fix.p10 = true) (h18 : w.fix.p18 = true) :
    ∃ ext, (joinGroup w i gname cr data).pk = w.pk.withHeap (w.heap ++ ext) ∨
      ∃ s, (w.pk.cl i).isSome = true ∧ (w.fix.tokClone = true → FreshFor w.heap ext s) ∧
        Granted w i gname cr data ext s ∧
        ((joinGroup w i gname cr data).pk = (w.pk.withHeap (w.heap ++ ext)).accept i gname s ∨
         (joinGroup w i gname cr data).pk = ((w.pk.withHeap (w.heap ++ ext)).accept i gname s).leave i) := by
  have hnil : w.pk.withHeap (w.heap ++ []) = w.pk := by
    refine PK.ext' rfl ?_ rfl (fun _ => rfl) (fun _ => rfl)
    show w.heap ++ [] = w.heap
    simp
  have h0 : (w.modClient i (fun c => { c with data := data })).pk = w.pk :=
    modClient_pk_same w i (fun c => { c with data := data }) (fun _ => rfl)
  unfold joinGroup
  simp only []
  split
  · next w1 e h1 =>
    have e1 : w1.pk = w.pk := by
      have := addGroup_pk (w.modClient i fun c => { c with data := data }) gname
      rw [h1] at this; rw [← h0]; exact this
    exact ⟨[], Or.inl (by rw [joinFail_pk, e1, hnil])⟩
  · next w1 h1 =>
    have e1 : w1.pk = w.pk := by
      have := addGroup_pk (w.modClient i fun c => { c with data := data }) gname
      rw [h1] at this; rw [← h0]; exact this
    split
    · exact ⟨[], Or.inl (by rw [joinFail_pk, e1, hnil])⟩
    · next gr hgr =>
      have hfix1 : w1.fix = w.fix := congrArg PK.fix e1
      have hheap1 : w1.heap = w.heap := congrArg PK.heap e1
      split
      · next w2 e h2 =>
        obtain ⟨ext, he, _⟩ := getPermission_ext' w1 gr cr w2 _ h2
        refine ⟨ext, Or.inl ?_⟩
        rw [joinFail_pk, he, ← hheap1, ← e1]
        rfl
      · next w2 username perms h2 =>
        obtain ⟨ext, he, hfr⟩ := getPermission_ext' w1 gr cr w2 _ h2
        have e2 : w2.pk = w.pk.withHeap (w.heap ++ ext) := by
          rw [he, ← hheap1, ← e1]; rfl
        have hfix2 : w2.fix = w.fix := by rw [he]; exact hfix1
        have hg2 : (w2.group? gname).isSome = true := by
          rw [he]
          show (w1.group? gname).isSome = true
          rw [hgr]; rfl
        refine ⟨ext, ?_⟩
        rw [hfix2, h10, if_pos rfl]
        rcases admission_pk w2 i gname gr username perms (by rw [hfix2]; exact h10) (by rw [hfix2]; exact h18) hg2
          with h | ⟨hc, h⟩
        · exact Or.inl (by rw [h, e2])
        · refine Or.inr ⟨perms, ?_, ?_, ?_, ?_⟩
          · rw [e2] at hc; exact hc
          · intro ht
            rw [← hheap1]
            exact hfr username perms rfl (by rw [hfix1]; exact ht)
          · exact ⟨w1, gr, w2, username, h1, hgr, h2, by rw [he, ← hheap1]⟩
          · rw [e2] at h; exact h

/-! ### effects -/

/-- the effects that leave the skeleton alone: everything except `join`, `leave`, the closing error
and the two effects that write the token store -/
def Effect.plain : Effect → Bool
  | .join .. => false
  | .leave => false
  | .fail _ => false
  | .mintToken .. => false
  | .editToken .. => false
  | _ => true

theorem applyEffect_pk_plain (w : World) (i : Nat) (e : Effect) (he : e.plain = true) : (applyEffect w i e).pk = w.pk := by
  unfold applyEffect
  simp only []
  cases e with
  | reply m => rfl
  | deliver dest m =>
    simp only []
    split <;> rfl
  | broadcast noecho m =>
    simp only []
    split
    · rfl
    · refine foldl_pk _ _ _ (fun w r => ?_)
      cases r <;> simp only []
      split_ifs <;> rfl
  | consumeFresh => rfl
  | histAdd en => exact modGroup_pk_same w _ _ (fun _ => ⟨rfl, rfl⟩)
  | histClear id uid => exact modGroup_pk_same w _ _ (fun _ => ⟨rfl, rfl⟩)
  | setLocked l msg =>
    simp only []
    have h1 := modGroup_pk_same w ((((w.client? i).getD {}).group).getD "")
      (fun g => { g with locked := if l then some msg else none }) (fun _ => ⟨rfl, rfl⟩)
    split
    · exact h1
    · rw [foldl_pk _ _ _ (fun w r => joinedTo_pk w r _ "change")]; exact h1
  | groupData d =>
    simp only []
    have h1 := modGroup_pk_same w ((((w.client? i).getD {}).group).getD "")
      (fun g => { g with data := Dict.merge g.data d }) (fun _ => ⟨rfl, rfl⟩)
    split
    · exact h1
    · rw [foldl_pk _ _ _ (fun w r => joinedTo_pk w r _ "change")]; exact h1
  | changePerm dest kind =>
    simp only []
    split
    · exact enq_pk _ _ _
    · rfl
  | kick dest id user msg =>
    simp only []
    split
    · exact enq_pk _ _ _
    · rw [delClient_pk_nonweb _ _ _ rfl]; rfl
    · rfl
  | identify dest =>
    simp only []
    split
    · rfl
    · rename_i r _
      cases r <;> rfl
  | record =>
    simp only []
    have ha := addGroup_pk w ((((w.client? i).getD {}).group).getD "")
    split
    · exact ha
    · rename_i g hg
      rw [foldl_pk, foldl_pk _ _ _ (fun w cc => pushClientTo_pk w cc _)]
      · rw [modGroup_pk_same _ _ (fun g => { g with members := g.members ++ [Ref.disk (addGroup w ((((w.client? i).getD {}).group).getD "")).1.fresh] })
          (fun g => ⟨rfl, by simp [List.filterMap_append]⟩)]
        exact ha
      · intro w cc
        cases cc <;> first | rfl | exact enq_pk _ _ _
  | unrecord =>
    simp only []
    split
    · rfl
    · refine foldl_pk _ _ _ (fun w r => ?_)
      cases r with
      | web j => rfl
      | mock id => rfl
      | disk d => simp only []; rw [delClient_pk_nonweb _ _ _ rfl]; rfl
  | subgroups => rfl
  | listTokens g => rfl
  | setOwnData d =>
    simp only []
    rw [broadcastChange_pk]
    exact modClient_pk_same w i (fun c => { c with data := Dict.merge c.data d }) (fun _ => rfl)
  | request =>
    simp only []
    split
    · rfl
    · refine foldl_pk _ _ _ (fun w r => ?_)
      cases r <;> simp only []
      split_ifs
      · rfl
      · exact enq_pk _ _ _
  | publish id sdpOk replace =>
    simp only []
    split
    · have hx : ∀ w' : World, w'.pk = w.pk →
          ((w'.write i { type := "abort", id := id }).write i (errMsg ((w.client? i).getD {}).id "OTHER")).pk = w.pk :=
        fun w' h => h
      apply hx
      split_ifs
      · exact delUpConn_pk _ _ _ _
      · rw [delUpConn_pk]
        exact modClient_pk_same w i (fun c => { c with up := c.up.map (fun u => if u.1 = id then (u.1, replace) else u) })
          (fun _ => rfl)
      · rfl
    · split_ifs <;> rfl
  | unpublish id => exact delUpConn_pk _ _ _ _
  | leave => cases he
  | fail err => cases he
  | mintToken _ _ _ => cases he
  | editToken _ _ _ => cases he
  | join _ _ _ => cases he

/-- the two effects that write the token store: the heap may have grown, and every token of the new
store carries the slice of an old token or one allocated for the occasion -/
theorem applyEffect_pk_tok (w : World) (i : Nat) (e : Effect)
    (he : (∃ t id by_, e = .mintToken t id by_) ∨ (∃ old ex nb, e = .editToken old ex nb)) :
    ∃ ext ts, (applyEffect w i e).pk = (w.pk.withHeap (w.heap ++ ext)).withTokens ts ∧
      ∀ t ∈ ts, (∃ t0 ∈ w.tokens, t.perms = t0.perms) ∨ FreshFor w.heap ext t.perms := by
  have hsame : ∃ ext ts, w.pk = (w.pk.withHeap (w.heap ++ ext)).withTokens ts ∧
      ∀ t ∈ ts, (∃ t0 ∈ w.tokens, t.perms = t0.perms) ∨ FreshFor w.heap ext t.perms := by
    refine ⟨[], w.tokens, ?_, fun t ht => Or.inl ⟨t, ht, rfl⟩⟩
    refine PK.ext' rfl ?_ rfl (fun _ => rfl) (fun _ => rfl)
    show w.heap = w.heap ++ []
    simp
  rcases he with ⟨t, id, by_, rfl⟩ | ⟨old, ex, nb, rfl⟩
  · unfold applyEffect
    simp only []
    by_cases hsf : w.storeFault = true
    · rw [if_pos hsf]; exact hsame
    · rw [if_neg hsf]
      obtain ⟨ext, hx, hf, _⟩ := alloc_fresh w.heap (t.perms.getD [])
      refine ⟨ext, _, PK.ext' rfl hx rfl (fun _ => rfl) (fun _ => rfl), ?_⟩
      intro t' ht'
      rcases List.mem_append.mp ht' with h | h
      · exact Or.inl ⟨t', h, rfl⟩
      · simp only [List.mem_singleton] at h
        subst h
        exact Or.inr hf
  · unfold applyEffect
    simp only []
    by_cases hsf : w.storeFault = true
    · rw [if_pos hsf]; exact hsame
    · rw [if_neg hsf]
      obtain ⟨ext, hx, hf, _⟩ := alloc_fresh w.heap (w.heap.get old.perms)
      refine ⟨ext, _, PK.ext' rfl hx rfl (fun _ => rfl) (fun _ => rfl), ?_⟩
      intro t' ht'
      obtain ⟨x, hx', hxe⟩ := List.mem_map.mp ht'
      by_cases hid : x.id = old.id
      · rw [if_pos hid] at hxe
        subst hxe
        exact Or.inr hf
      · rw [if_neg hid] at hxe
        subst hxe
        exact Or.inl ⟨x, hx', rfl⟩

/-! ### the action loop -/

/-- the heap edit of changePermissionsAction (a copy of the model's text): `rec` says whether the
client's group allows recording, `fx` carries the repair flag of `remove` -/
def permEdit (fx : Fixes) (h : Heap) (s : Slice) (rec : Bool) (kind : String) : Option (Heap × Slice) :=
  if kind = "op" then
    let (h, s) := addnewS h s "op"
    if rec then some (addnewS h s "record")
    else some (h, s)
  else if kind = "unop" then
    let (h, s) := removeFix fx h s "op"
    some (removeFix fx h s "record")
  else if kind = "present" then some (addnewS h s "present")
  else if kind = "unpresent" then some (removeFix fx h s "present")
  else if kind = "shutup" then some (removeFix fx h s "message")
  else if kind = "unshutup" then some (addnewS h s "message")
  else none

/-- the permission-change action, spelled out -/
theorem handleAction_changePerm (w : World) (i : Nat) (c : Client) (kind : String) (hc : w.client? i = some c) :
    handleAction w i (.changePerm kind) =
      if w.fix.p19 ∧ c.group.isNone then (w, none) else
      match permEdit w.fix w.heap c.perms ((c.group.bind w.group?).any (fun g => g.cfg.allowRecording)) kind with
      | none => (w, some (.user "unknown permission"))
      | some (h, s) =>
        ((({ w with heap := h } : World).modClient i (fun c => { c with perms := s })).enq i .permChanged, none) := by
  unfold handleAction
  rw [hc]
  rfl

theorem permEdit_ok (fx : Fixes) (h : Heap) (s : Slice) (rec : Bool) (kind : String) (r : Heap × Slice) (hw : h.WF s)
    (he : permEdit fx h s rec kind = some r) : EditOK h s r := by
  unfold permEdit at he
  split_ifs at he
  all_goals (simp only [Option.some.injEq] at he; try subst he)
  all_goals first
    | exact addnewS_ok h s _ hw
    | exact removeFix_ok fx h s _ hw
    | exact (addnewS_ok h s _ hw).trans (addnewS_ok _ _ _ (addnewS_ok h s _ hw).wf)
    | exact (removeFix_ok fx h s _ hw).trans (removeFix_ok fx _ _ _ (removeFix_ok fx h s _ hw).wf)

/-- every action except the permission change leaves the skeleton alone -/
theorem handleAction_pk_plain (w : World) (i : Nat) (a : Action) (ha : ∀ k, a ≠ .changePerm k) :
    (handleAction w i a).1.pk = w.pk := by
  unfold handleAction
  split
  · rfl
  · rename_i c hc
    cases a with
    | pushConn g id hasUp replace =>
      simp only []
      split_ifs <;> rfl
    | requestConns g target id =>
      simp only []
      split_ifs
      · rfl
      · refine foldl_pk _ _ _ (fun w u => ?_)
        split_ifs
        · rfl
        · cases target with
          | web j => exact enq_pk _ _ _
          | mock id => rfl
          | disk d =>
            simp only []
            split
            · split_ifs
              · rfl
              · exact wallOps_pk _ _ _
            · rfl
    | pushClient g kind id username perms data =>
      simp only []
      split
      · split_ifs <;> rfl
      · split_ifs <;> rfl
    | joined g kind =>
      simp only []
      split
      · rfl
      · split_ifs
        · simp only []
          rw [foldl_pk _ _ _ (fun w en => write_pk w i _)]
          exact modGroup_pk_same _ _ _ (fun _ => ⟨rfl, rfl⟩)
        · rfl
    | changePerm kind => exact absurd rfl (ha kind)
    | permChanged =>
      simp only []
      split
      · split_ifs <;> rfl
      · simp only []
        rw [broadcastChange_pk]
        split_ifs
        · rfl
        · refine foldl_pk _ _ _ (fun w u => ?_)
          have := delUpConn_pk w i u.1 true
          split_ifs
          · simp only [write_pk]; exact this
          · exact this
    | kick id user msg => rfl

end Galene.Sig
