import GaleneVerif.Model.PacketMap
import GaleneVerif.Lemmas.Ring
/-
The interval table as an abstract newest-first list `tbl m`.  `addMapping`, `direct` and
`Reverse` are re-expressed as functions of `tbl m` (`absAdd`, `walkL`), under the strengthened
index invariant `SWF` (which also records that a table that is not yet full has its newest
slot at the end, so that `append` keeps the ring order).
-/
namespace Galene.Lemmas.Table
open Galene.PacketMap Galene.Lemmas.Ring

/-- strengthened index invariant -/
structure SWF (P : Params) (m : State) : Prop where
  len : m.entries.length ≤ P.maxEntries
  idx : m.entries ≠ [] → m.lastEntry < m.entries.length
  nil : m.entries = [] → m.lastEntry = 0
  top : m.entries.length < P.maxEntries → m.entries ≠ [] → m.lastEntry + 1 = m.entries.length

theorem swf_init (P : Params) : SWF P {} := by
  constructor <;> simp

theorem swf_start (P : Params) (a b : Nat) : SWF P { started := true, next := a, nextPid := b } := by
  constructor <;> simp

/-- the table, newest interval first -/
def tbl (m : State) : List Entry := ringNF m.entries m.lastEntry

theorem tbl_length (m : State) : (tbl m).length = m.entries.length := ringNF_length _ _

theorem tbl_nil (m : State) (h : m.entries = []) : tbl m = [] := by
  simp [tbl, ringNF, h]

/-- the test "extend the newest interval" of `addMapping` -/
def extendCond (P : Params) (ei : Entry) (s d pd : Nat) : Bool :=
  d = ei.delta && pd = ei.pidDelta && sub16 s ei.first < P.maxCount

/-- `first` of a freshly created interval -/
def newFirst (P : Params) (ei : Entry) (s d : Nat) : Nat :=
  if sub16 ei.delta d < P.W then
    if PacketMap.compare (add16 (add16 ei.first ei.count) (sub16 ei.delta d)) s < 0
    then add16 (add16 ei.first ei.count) (sub16 ei.delta d) else s
  else s

/-- a freshly created interval -/
def newEntry (P : Params) (ei : Entry) (s d pd : Nat) : Entry :=
  { first := newFirst P ei s d, count := add16 (sub16 s (newFirst P ei s d)) 1, delta := d, pidDelta := pd }

/-- `addMapping` on the newest-first list -/
def absAdd (P : Params) (t : List Entry) (s d pd : Nat) : List Entry :=
  match t with
  | [] => []
  | ei :: tl =>
    if extendCond P ei s d pd then { ei with count := add16 (sub16 s ei.first) 1 } :: tl
    else if (ei :: tl).length < P.maxEntries then newEntry P ei s d pd :: ei :: tl
    else newEntry P ei s d pd :: (ei :: tl).dropLast

theorem ne_nil_of_length_ne_zero {α} {l : List α} (h : ¬ l.length = 0) : l ≠ [] := by
  intro hc; rw [hc] at h; simp at h

theorem length_ne_zero_of_ne_nil {α} {l : List α} (h : l ≠ []) : ¬ l.length = 0 := by
  intro hc; exact h (List.eq_nil_of_length_eq_zero hc)

theorem set_ne_nil {α} (l : List α) (i : Nat) (x : α) (h : l ≠ []) : l.set i x ≠ [] := by
  intro hc
  have := congrArg List.length hc
  simp only [List.length_set, List.length_nil] at this
  exact length_ne_zero_of_ne_nil h this

/-- **`addMapping` never panics, keeps the index invariant, and acts on the newest-first view
as `absAdd`**; it touches nothing but the table. -/
theorem addMapping_spec (P : Params) (hP : 0 < P.maxEntries) (m : State) (s d pd : Nat)
    (h : SWF P m) (hne : m.entries ≠ []) :
    ∃ m', addMapping P m s d pd = some m' ∧ SWF P m' ∧ m'.entries ≠ [] ∧
      tbl m' = absAdd P (tbl m) s d pd ∧
      m'.next = m.next ∧ m'.nextPid = m.nextPid ∧ m'.delta = m.delta ∧ m'.pidDelta = m.pidDelta ∧
      m'.started = m.started := by
  have h0 : ¬ m.entries.length = 0 := length_ne_zero_of_ne_nil hne
  have hl := h.idx hne
  unfold tbl
  have htbl : ringNF m.entries m.lastEntry
      = m.entries[m.lastEntry] :: (ringNF m.entries m.lastEntry).tail := by
    rw [ringNF_eq_cons _ _ hl]; rfl
  have hlen : (m.entries[m.lastEntry] :: (ringNF m.entries m.lastEntry).tail).length
      = m.entries.length := by
    rw [← htbl, ringNF_length]
  unfold addMapping
  simp only [h0, if_false]
  rw [List.getElem?_eq_getElem hl]
  simp only
  rw [htbl]
  simp only [absAdd, extendCond, hlen]
  rw [← htbl]
  split
  · refine ⟨_, rfl, ?_, set_ne_nil _ _ _ hne, ?_, rfl, rfl, rfl, rfl, rfl⟩
    · constructor
      · simp only [List.length_set]; exact h.len
      · intro _; simp only [List.length_set]; exact hl
      · intro hc; exact absurd hc (set_ne_nil _ _ _ hne)
      · intro h1 _; simp only [List.length_set] at h1 ⊢; exact h.top h1 hne
    · rw [ringNF_set_last _ _ _ hl]
  · split
    · rename_i hlt
      have htop := h.top hlt hne
      refine ⟨_, rfl, ?_, by simp, ?_, rfl, rfl, rfl, rfl, rfl⟩
      · constructor
        · simp only [List.length_append, List.length_singleton]; omega
        · intro _; simp only [List.length_append, List.length_singleton]; omega
        · intro hc; simp at hc
        · intro _ _; simp only [List.length_append, List.length_singleton]
      · rw [ringNF_append _ _ _ htop]
        rfl
    · rename_i hlt
      have hfull : m.entries.length = P.maxEntries := by have := h.len; omega
      have hj : (m.lastEntry + 1) % P.maxEntries < m.entries.length := by
        rw [hfull]; exact Nat.mod_lt _ hP
      simp only [hj, if_true]
      refine ⟨_, rfl, ?_, set_ne_nil _ _ _ hne, ?_, rfl, rfl, rfl, rfl, rfl⟩
      · constructor
        · simp only [List.length_set]; exact h.len
        · intro _; simp only [List.length_set]; exact hj
        · intro hc; exact absurd hc (set_ne_nil _ _ _ hne)
        · intro h1 _; simp only [List.length_set] at h1; omega
      · by_cases hw : m.lastEntry + 1 < m.entries.length
        · have : (m.lastEntry + 1) % P.maxEntries = m.lastEntry + 1 := by
            rw [← hfull]; exact Nat.mod_eq_of_lt hw
          rw [this, ringNF_set_next _ _ _ hw]
          rfl
        · have hw' : m.lastEntry + 1 = m.entries.length := by omega
          have : (m.lastEntry + 1) % P.maxEntries = 0 := by
            rw [← hfull, hw']; exact Nat.mod_self _
          rw [this, ringNF_set_zero _ _ _ hw']
          rfl

/-- `direct` as a scan of the newest-first table -/
theorem direct_eq (P : Params) (m : State) (s : Nat) (h : SWF P m) (hne : m.entries ≠ []) :
    direct m s = some (walkL (fun e => classify s e.first e.count (add16 s e.delta) e.pidDelta) (tbl m)) := by
  unfold direct
  simp only [length_ne_zero_of_ne_nil hne, if_false]
  exact walk_eq_walkL _ _ _ (h.idx hne)

/-- `Reverse` as a scan of the newest-first table -/
theorem reverse_eq (P : Params) (m : State) (n : Nat) (h : SWF P m) (hne : m.entries ≠ []) :
    reverse m n = some (walkL (fun e => classify n (add16 e.first e.delta) e.count (sub16 n e.delta) e.pidDelta) (tbl m)) := by
  unfold reverse
  simp only [length_ne_zero_of_ne_nil hne, if_false]
  exact walk_eq_walkL _ _ _ (h.idx hne)

/-- `Drop` keeps the index invariant -/
theorem dropOp_swf (P : Params) (hP : 0 < P.maxEntries) (m : State) (s pid : Nat) (h : SWF P m) :
    SWF P (dropOp P m s pid).1 := by
  unfold dropOp
  split
  · exact h
  · by_cases h0 : m.entries.length = 0
    · have hnil : m.entries = [] := List.eq_nil_of_length_eq_zero h0
      have hl := h.nil hnil
      simp only [h0, if_true]
      constructor
      · simp only [List.length_singleton]; omega
      · intro _; simp only [List.length_singleton]; omega
      · intro hc; simp at hc
      · intro _ _; simp only [List.length_singleton]; omega
    · simp only [h0, if_false]
      exact ⟨h.len, h.idx, h.nil, h.top⟩

end Galene.Lemmas.Table
