import GaleneVerif.Model.Paths
/-
Lemmas about the model of Go's `path.Clean` (Model/Paths.lean): the byte-level lazybuf loop computes
the lexical resolution of the '/'-separated components of its input (`clean_eq_spec`), for every
input string, rooted or not.  Everything in Props/C19.lean is derived from that characterisation.
All core Lean.
-/
set_option linter.unusedSimpArgs false

namespace Galene.Paths

/-! ### splitting on '/' and joining with '/' -/

/-- the '/'-separated components of a string: "a//b" ↦ ["a", "", "b"], "" ↦ [""], "/" ↦ ["", ""] -/
def splitSlash : Str → List Str
  | [] => [[]]
  | c :: t => if c = '/' then [] :: splitSlash t else (c :: (splitSlash t).headD []) :: (splitSlash t).tail

/-- components joined by '/' (`strings.Join(cs, "/")`) -/
def joinSlash : List Str → Str
  | [] => []
  | [c] => c
  | c :: d :: r => c ++ '/' :: joinSlash (d :: r)

theorem splitSlash_ne_nil (s : Str) : splitSlash s ≠ [] := by
  cases s with
  | nil => simp [splitSlash]
  | cons c t => simp only [splitSlash]; split <;> simp

theorem splitSlash_eq_head_tail (s : Str) : splitSlash s = (splitSlash s).headD [] :: (splitSlash s).tail := by
  have h := splitSlash_ne_nil s
  cases hs : splitSlash s with
  | nil => exact absurd hs h
  | cons a b => simp

theorem splitSlash_cons_slash (t : Str) : splitSlash ('/' :: t) = [] :: splitSlash t := by
  simp [splitSlash]

theorem splitSlash_cons_ne {c : Char} (h : c ≠ '/') (t : Str) :
    splitSlash (c :: t) = (c :: (splitSlash t).headD []) :: (splitSlash t).tail := by
  simp [splitSlash, h]

/-- no component contains a '/' -/
theorem splitSlash_noSlash (s : Str) : ∀ c ∈ splitSlash s, '/' ∉ c := by
  induction s with
  | nil => simp [splitSlash]
  | cons a t ih =>
    by_cases ha : a = '/'
    · subst ha; rw [splitSlash_cons_slash]; simpa using ih
    · rw [splitSlash_cons_ne ha]
      rw [splitSlash_eq_head_tail t] at ih
      intro c hc
      simp only [List.mem_cons] at hc ih
      rcases hc with rfl | hc
      · have := ih ((splitSlash t).headD []) (Or.inl rfl)
        simp only [List.mem_cons, not_or]
        exact ⟨fun h => ha h.symm, this⟩
      · exact ih c (Or.inr hc)

theorem joinSlash_cons_cons (c d : Str) (r : List Str) :
    joinSlash (c :: d :: r) = c ++ '/' :: joinSlash (d :: r) := rfl

theorem joinSlash_cons_of_ne_nil (c : Str) {r : List Str} (h : r ≠ []) :
    joinSlash (c :: r) = c ++ '/' :: joinSlash r := by
  cases r with
  | nil => exact absurd rfl h
  | cons d r => rfl

/-- joining undoes splitting -/
theorem joinSlash_splitSlash (s : Str) : joinSlash (splitSlash s) = s := by
  induction s with
  | nil => simp [splitSlash, joinSlash]
  | cons a t ih =>
    by_cases ha : a = '/'
    · subst ha; rw [splitSlash_cons_slash, joinSlash_cons_of_ne_nil _ (splitSlash_ne_nil t), ih]; simp
    · rw [splitSlash_cons_ne ha]
      rw [splitSlash_eq_head_tail t] at ih
      cases htl : (splitSlash t).tail with
      | nil => rw [htl] at ih; simpa [joinSlash] using ih
      | cons d r =>
        rw [htl] at ih
        rw [joinSlash_cons_cons] at ih ⊢
        rw [List.cons_append, ih]

theorem splitSlash_append_slash (a b : Str) : splitSlash (a ++ '/' :: b) = splitSlash a ++ splitSlash b := by
  induction a with
  | nil => simp [splitSlash]
  | cons x a ih =>
    by_cases hx : x = '/'
    · subst hx; simp [splitSlash_cons_slash, ih]
    · rw [List.cons_append, splitSlash_cons_ne hx, splitSlash_cons_ne hx, ih]
      rw [splitSlash_eq_head_tail a]
      simp

theorem splitSlash_of_noSlash {s : Str} (h : '/' ∉ s) : splitSlash s = [s] := by
  induction s with
  | nil => rfl
  | cons a t ih =>
    simp only [List.mem_cons, not_or] at h
    rw [splitSlash_cons_ne (fun e => h.1 e.symm), ih h.2]; rfl

/-- splitting undoes joining, for a non-empty list of '/'-free components -/
theorem splitSlash_joinSlash {cs : List Str} (hne : cs ≠ []) (h : ∀ c ∈ cs, '/' ∉ c) :
    splitSlash (joinSlash cs) = cs := by
  induction cs with
  | nil => exact absurd rfl hne
  | cons c r ih =>
    cases r with
    | nil => simpa [joinSlash] using splitSlash_of_noSlash (h c (by simp))
    | cons d r =>
      rw [joinSlash_cons_cons, splitSlash_append_slash, splitSlash_of_noSlash (h c (by simp)),
        ih (by simp) (fun x hx => h x (List.mem_cons_of_mem _ hx))]
      rfl

theorem joinSlash_append {a b : List Str} (ha : a ≠ []) (hb : b ≠ []) :
    joinSlash (a ++ b) = joinSlash a ++ '/' :: joinSlash b := by
  induction a with
  | nil => exact absurd rfl ha
  | cons c r ih =>
    cases r with
    | nil => simp [joinSlash_cons_of_ne_nil _ hb, joinSlash]
    | cons d r =>
      rw [List.cons_append, joinSlash_cons_of_ne_nil _ (by simp), ih (by simp), joinSlash_cons_cons]
      simp

theorem joinSlash_append_singleton (a : List Str) (c : Str) :
    joinSlash (a ++ [c]) = if a = [] then c else joinSlash a ++ '/' :: c := by
  by_cases h : a = []
  · simp [h, joinSlash]
  · simp [h, joinSlash_append h (by simp : [c] ≠ []), joinSlash]

theorem joinSlash_eq_nil {l : List Str} (h : ∀ c ∈ l, c ≠ []) : joinSlash l = [] ↔ l = [] := by
  cases l with
  | nil => simp [joinSlash]
  | cons c r =>
    cases r with
    | nil => simpa [joinSlash] using h c (by simp)
    | cons d r => simp [joinSlash_cons_cons]

theorem length_joinSlash_append_ge (a b : List Str) : (joinSlash a).length ≤ (joinSlash (a ++ b)).length := by
  by_cases ha : a = []
  · simp [ha, joinSlash]
  · by_cases hb : b = []
    · simp [hb]
    · rw [joinSlash_append ha hb]; simp only [List.length_append, List.length_cons]; omega

/-! ### the byte loop processes one component at a time -/

/-- what the loop does with one whole component `comp` (state: reversed buffer, `dotdot`) -/
def stepComp (rooted : Bool) (st : Str × Nat) (comp : Str) : Str × Nat :=
  if comp = [] ∨ comp = ['.'] then st
  else if comp = ['.', '.'] then
    if st.1.length > st.2 then (backtrack st.2 st.1, st.2)
    else if !rooted then
      let rout1 := if st.1.length > 0 then '/' :: st.1 else st.1
      ('.' :: '.' :: rout1, ('.' :: '.' :: rout1).length)
    else st
  else
    let rout1 := if (rooted && st.1.length != 1) || (!rooted && st.1.length != 0) then '/' :: st.1 else st.1
    (comp.reverse ++ rout1, st.2)

theorem copyElem_spec (s : Str) : ∀ rout : Str,
    (copyElem s rout).2 = ((splitSlash s).headD []).reverse ++ rout ∧
    splitSlash (copyElem s rout).1 = [] :: (splitSlash s).tail ∧
    (copyElem s rout).1.length ≤ s.length := by
  induction s with
  | nil => intro rout; simp [copyElem, splitSlash]
  | cons c t ih =>
    intro rout
    by_cases hc : c = '/'
    · subst hc; simp [copyElem, splitSlash_cons_slash]
    · have := ih (c :: rout)
      simp only [copyElem, hc, if_false, splitSlash_cons_ne hc, List.headD_cons, List.tail_cons,
        List.reverse_cons, List.append_assoc, List.singleton_append, List.length_cons]
      exact ⟨this.1, this.2.1, by omega⟩

theorem head_nil_iff (t : Str) : (t = [] ∨ t.head? = some '/') ↔ (splitSlash t).headD [] = [] := by
  cases t with
  | nil => simp [splitSlash]
  | cons x t =>
    by_cases hx : x = '/'
    · subst hx; simp [splitSlash_cons_slash]
    · simp [splitSlash_cons_ne hx, hx]

theorem head_dot_iff (t : Str) :
    (t.head? = some '.' ∧ (t.tail = [] ∨ t.tail.head? = some '/')) ↔ (splitSlash t).headD [] = ['.'] := by
  cases t with
  | nil => simp [splitSlash]
  | cons x t =>
    by_cases hx : x = '/'
    · subst hx; simp [splitSlash_cons_slash]
    · rw [splitSlash_cons_ne hx]
      simp only [List.head?_cons, Option.some.injEq, List.tail_cons, List.headD_cons, List.cons.injEq]
      rw [head_nil_iff]

theorem foldl_stepComp_nil (rooted : Bool) (st : Str × Nat) (l : List Str) :
    ([] :: l).foldl (stepComp rooted) st = l.foldl (stepComp rooted) st := by
  simp [stepComp]

/-- the loop of `path.Clean` is a fold of `stepComp` over the components of the unread input -/
theorem cleanLoop_eq_foldl (rooted : Bool) : ∀ (fuel : Nat) (rest rout : Str) (dd : Nat), rest.length ≤ fuel →
    cleanLoop rooted fuel rest rout dd = ((splitSlash rest).foldl (stepComp rooted) (rout, dd)).1 := by
  intro fuel
  induction fuel with
  | zero =>
    intro rest rout dd h
    have : rest = [] := List.length_eq_zero_iff.mp (by omega)
    subst this
    simp [cleanLoop, splitSlash, stepComp]
  | succ fuel ih =>
    intro rest rout dd h
    cases rest with
    | nil => simp [cleanLoop, splitSlash, stepComp]
    | cons c t =>
      have ht : t.length ≤ fuel := by simpa using h
      by_cases hc : c = '/'
      · subst hc
        rw [splitSlash_cons_slash, foldl_stepComp_nil]
        simp only [cleanLoop, if_true]
        exact ih t rout dd ht
      · rw [splitSlash_cons_ne hc, List.foldl_cons]
        have hsp := splitSlash_eq_head_tail t
        by_cases h1 : c = '.' ∧ (t = [] ∨ t.head? = some '/')
        · -- "." element
          have hh : (splitSlash t).headD [] = [] := (head_nil_iff t).mp h1.2
          simp only [cleanLoop, hc, if_false, h1, and_self, if_true]
          rw [ih t rout dd ht, hsp, hh, foldl_stepComp_nil]
          simp [stepComp, h1.1]
        · by_cases h2 : c = '.' ∧ t.head? = some '.' ∧ (t.tail = [] ∨ t.tail.head? = some '/')
          · -- ".." element
            have hh : (splitSlash t).headD [] = ['.'] := (head_dot_iff t).mp h2.2
            obtain ⟨hcd, h2a, h2b⟩ := h2
            cases t with
            | nil => simp at h2a
            | cons x t' =>
              simp only [List.head?_cons, Option.some.injEq] at h2a
              subst h2a
              have ht' : t'.length ≤ fuel := by simp at ht; omega
              have htl : (splitSlash ('.' :: t')).tail = (splitSlash t').tail := by
                rw [splitSlash_cons_ne (by decide)]; rfl
              have hh' : (splitSlash t').headD [] = [] := (head_nil_iff t').mp h2b
              have hsp' := splitSlash_eq_head_tail t'
              rw [hh'] at hsp'
              have key : ∀ st : Str × Nat, cleanLoop rooted fuel t' st.1 st.2
                  = (List.foldl (stepComp rooted) st (splitSlash ('.' :: t')).tail).1 := by
                intro st
                rw [ih t' st.1 st.2 ht', htl]
                conv => lhs; rw [hsp', foldl_stepComp_nil]
              rw [hh, hcd]
              have e0 : cleanLoop rooted (fuel + 1) ('.' :: '.' :: t') rout dd
                  = cleanLoop rooted fuel t' (stepComp rooted (rout, dd) ['.', '.']).1 (stepComp rooted (rout, dd) ['.', '.']).2 := by
                simp only [cleanLoop, show ¬ (('.' : Char) = '/') by decide, if_false, List.head?_cons, List.tail_cons,
                  true_and, if_pos h2b, show ¬ ('.' :: t' = [] ∨ some '.' = some '/') by simp]
                simp only [stepComp, List.cons_ne_nil, List.cons.injEq, and_true, or_self, if_false, if_true,
                  show ¬ (['.', '.'] = ['.']) by decide]
                simp only [List.tail_cons] at h2b
                rw [if_pos h2b]
                by_cases hw : rout.length > dd
                · simp only [hw, if_true]
                · simp only [hw, if_false]
                  cases rooted <;> simp
              rw [e0]
              exact key _
          · -- real path element
            have hne1 : ¬ (c :: (splitSlash t).headD [] = ['.']) := by
              intro e
              simp only [List.cons.injEq] at e
              exact h1 ⟨e.1, (head_nil_iff t).mpr e.2⟩
            have hne2 : ¬ (c :: (splitSlash t).headD [] = ['.', '.']) := by
              intro e
              simp only [List.cons.injEq] at e
              exact h2 ⟨e.1, (head_dot_iff t).mpr (by simpa using e.2)⟩
            simp only [cleanLoop, hc, if_false, h1, h2]
            have hcp := copyElem_spec (c :: t)
              (if (rooted && rout.length != 1) || (!rooted && rout.length != 0) then '/' :: rout else rout)
            generalize hp : copyElem (c :: t)
              (if (rooted && rout.length != 1) || (!rooted && rout.length != 0) then '/' :: rout else rout) = p at hcp
            obtain ⟨rest', rout2⟩ := p
            simp only at hcp ⊢
            obtain ⟨e1, e2, e3⟩ := hcp
            have hlen : rest'.length ≤ fuel := by
              have : copyElem (c :: t)
                  (if (rooted && rout.length != 1) || (!rooted && rout.length != 0) then '/' :: rout else rout)
                  = copyElem t (c :: (if (rooted && rout.length != 1) || (!rooted && rout.length != 0) then '/' :: rout else rout)) := by
                simp [copyElem, hc]
              rw [this] at hp
              have := (copyElem_spec t (c :: (if (rooted && rout.length != 1) || (!rooted && rout.length != 0) then '/' :: rout else rout))).2.2
              rw [hp] at this
              simp only at this
              omega
            rw [ih rest' rout2 dd hlen, e2, foldl_stepComp_nil, e1, splitSlash_cons_ne hc]
            simp only [List.headD_cons, List.tail_cons]
            simp only [stepComp, List.cons_ne_nil, false_or, hne1, hne2, if_false]

/-! ### backtracking removes exactly the last component -/

theorem backtrackLoop_slash (dd : Nat) (Y : Str) (hY : dd ≤ Y.length) :
    ∀ (u : Str) (x : Char), x ≠ '/' → (∀ c ∈ u, c ≠ '/') → backtrackLoop dd (u ++ '/' :: Y) x = Y := by
  intro u
  induction u with
  | nil =>
    intro x hx _
    simp only [List.nil_append, backtrackLoop, List.length_cons]
    rw [if_pos ⟨by omega, hx⟩]
    cases Y with
    | nil => rfl
    | cons c r => simp [backtrackLoop]
  | cons a u ih =>
    intro x hx hu
    simp only [List.cons_append, backtrackLoop, List.length_cons, List.length_append]
    rw [if_pos ⟨by omega, hx⟩]
    exact ih a (hu a (by simp)) (fun c hc => hu c (List.mem_cons_of_mem _ hc))

theorem backtrackLoop_stop (dd : Nat) (Z : Str) (hZ : Z.length = dd) :
    ∀ (u : Str) (x : Char), x ≠ '/' → (∀ c ∈ u, c ≠ '/') → backtrackLoop dd (u ++ Z) x = Z := by
  intro u
  induction u with
  | nil =>
    intro x _ _
    cases Z with
    | nil => rfl
    | cons c r =>
      simp only [List.nil_append, backtrackLoop]
      rw [if_neg (by omega)]
  | cons a u ih =>
    intro x hx hu
    simp only [List.cons_append, backtrackLoop, List.length_cons, List.length_append]
    rw [if_pos ⟨by omega, hx⟩]
    exact ih a (hu a (by simp)) (fun c hc => hu c (List.mem_cons_of_mem _ hc))

/-- a buffer that ends in `…/w` (w non-empty, '/'-free) backtracks to what precedes the slash -/
theorem backtrack_slash (dd : Nat) (w Y : Str) (hw : w ≠ []) (hns : '/' ∉ w) (hY : dd ≤ Y.length) :
    backtrack dd (w.reverse ++ '/' :: Y) = Y := by
  have hr : w.reverse ≠ [] := by simpa using hw
  cases hwr : w.reverse with
  | nil => exact absurd hwr hr
  | cons x u =>
    have hmem : ∀ c ∈ x :: u, c ≠ '/' := by
      intro c hc e
      subst e
      rw [← hwr] at hc
      exact hns (by simpa using hc)
    simp only [List.cons_append, backtrack]
    exact backtrackLoop_slash dd Y hY u x (hmem x (by simp)) (fun c hc => hmem c (List.mem_cons_of_mem _ hc))

/-- a buffer that is `dotdot` bytes followed by a non-empty '/'-free `w` backtracks to those bytes -/
theorem backtrack_stop (dd : Nat) (w Z : Str) (hw : w ≠ []) (hns : '/' ∉ w) (hZ : Z.length = dd) :
    backtrack dd (w.reverse ++ Z) = Z := by
  have hr : w.reverse ≠ [] := by simpa using hw
  cases hwr : w.reverse with
  | nil => exact absurd hwr hr
  | cons x u =>
    have hmem : ∀ c ∈ x :: u, c ≠ '/' := by
      intro c hc e
      subst e
      rw [← hwr] at hc
      exact hns (by simpa using hc)
    simp only [List.cons_append, backtrack]
    exact backtrackLoop_stop dd Z hZ u x (hmem x (by simp)) (fun c hc => hmem c (List.mem_cons_of_mem _ hc))

/-! ### the lexical specification and the refinement invariant -/

/-- a path component that names something below the current directory -/
def SafeComp (c : Str) : Prop := c ≠ [] ∧ c ≠ ['.'] ∧ c ≠ ['.', '.'] ∧ '/' ∉ c

instance : DecidablePred SafeComp := fun c => by unfold SafeComp; infer_instance

/-- lexical resolution of one component against (number of leading "..", stack of names):
rules 1–4 of the documentation of `path.Clean` -/
def resolveStep (rooted : Bool) (st : Nat × List Str) (comp : Str) : Nat × List Str :=
  if comp = [] ∨ comp = ['.'] then st
  else if comp = ['.', '.'] then
    if st.2 ≠ [] then (st.1, st.2.dropLast)
    else if rooted then st else (st.1 + 1, [])
  else (st.1, st.2 ++ [comp])

def resolve (rooted : Bool) (comps : List Str) : Nat × List Str := comps.foldl (resolveStep rooted) (0, [])

def bodyOf (σ : Nat × List Str) : Str := joinSlash (List.replicate σ.1 ['.', '.'] ++ σ.2)

/-- what `path.Clean` is documented to compute -/
def cleanSpec (path : Str) : Str :=
  if path = [] then ['.']
  else
    let rooted : Bool := path.head? = some '/'
    let body := bodyOf (resolve rooted (splitSlash path))
    if rooted then '/' :: body else if body = [] then ['.'] else body

def pre (rooted : Bool) : Str := if rooted then ['/'] else []

structure Inv (rooted : Bool) (st : Str × Nat) (σ : Nat × List Str) : Prop where
  out : st.1.reverse = pre rooted ++ bodyOf σ
  dd : st.2 = (pre rooted ++ joinSlash (List.replicate σ.1 ['.', '.'])).length
  ups : rooted = true → σ.1 = 0
  safe : ∀ c ∈ σ.2, SafeComp c

theorem comps_ne_nil {n : Nat} {names : List Str} (h : ∀ c ∈ names, SafeComp c) :
    ∀ c ∈ List.replicate n ['.', '.'] ++ names, c ≠ [] := by
  intro c hc
  rcases List.mem_append.mp hc with h1 | h1
  · rw [(List.mem_replicate.mp h1).2]; simp
  · exact (h c h1).1

theorem bodyOf_eq_nil {σ : Nat × List Str} (h : ∀ c ∈ σ.2, SafeComp c) : bodyOf σ = [] ↔ σ.1 = 0 ∧ σ.2 = [] := by
  unfold bodyOf
  rw [joinSlash_eq_nil (comps_ne_nil h)]
  simp [List.replicate_eq_nil_iff]

theorem Inv.step {rooted : Bool} {st : Str × Nat} {σ : Nat × List Str} (h : Inv rooted st σ)
    {comp : Str} (hns : '/' ∉ comp) : Inv rooted (stepComp rooted st comp) (resolveStep rooted σ comp) := by
  obtain ⟨rout, dd⟩ := st
  obtain ⟨ups, names⟩ := σ
  obtain ⟨hout, hdd, hups, hsafe⟩ := h
  simp only at hout hdd hups hsafe
  have hrout : rout = (pre rooted ++ bodyOf (ups, names)).reverse := by rw [← hout, List.reverse_reverse]
  by_cases h1 : comp = [] ∨ comp = ['.']
  · simp only [stepComp, resolveStep, h1, if_true]; exact ⟨hout, hdd, hups, hsafe⟩
  by_cases h2 : comp = ['.', '.']
  · subst h2
    simp only [stepComp, resolveStep, h1, if_false, if_true]
    by_cases hn : names = []
    · -- nothing to pop
      subst hn
      have hlen : ¬ rout.length > dd := by
        rw [hrout, hdd]; simp only [bodyOf, List.append_nil, List.length_reverse, List.length_append]; omega
      simp only [hlen, if_false, ne_eq, not_true_eq_false]
      cases rooted with
      | true => simp only [Bool.not_true, Bool.false_eq_true, if_false, if_true]; exact ⟨hout, hdd, hups, hsafe⟩
      | false =>
        simp only [Bool.not_false, if_true, Bool.false_eq_true, if_false]
        have hb : bodyOf (ups + 1, []) = (if rout.length > 0 then rout.reverse ++ ['/'] else rout.reverse) ++ ['.', '.'] := by
          simp only [bodyOf, List.append_nil, List.replicate_succ', joinSlash_append_singleton, hrout, pre,
            Bool.false_eq_true, if_false, List.nil_append, List.length_reverse, List.reverse_reverse]
          by_cases hu : ups = 0
          · simp [hu, joinSlash]
          · have : (joinSlash (List.replicate ups ['.', '.'])).length > 0 := by
              cases ups with
              | zero => exact absurd rfl hu
              | succ k => cases k <;> simp [List.replicate_succ, joinSlash]
            simp [List.replicate_eq_nil_iff, hu, this]
        refine ⟨?_, ?_, by simp, by simp⟩
        · simp only [List.reverse_cons, hb]
          split <;> simp [pre]
        · simp only [pre, Bool.false_eq_true, if_false, List.nil_append]
          have := congrArg List.length hb
          simp only [bodyOf, List.append_nil] at this
          rw [this]
          split <;> simp
    · -- pop the last name
      have hlast : names = names.dropLast ++ [names.getLast hn] := (List.dropLast_concat_getLast hn).symm
      generalize names.dropLast = init at hlast
      generalize names.getLast hn = last at hlast
      subst hlast
      have hl : SafeComp last := hsafe last (by simp)
      have hsafe' : ∀ c ∈ init, SafeComp c := fun c hc => hsafe c (by simp [hc])
      simp only [ne_eq, List.append_eq_nil_iff, List.cons_ne_nil, and_false, not_false_eq_true, if_true,
        List.dropLast_concat]
      have hb : bodyOf (ups, init ++ [last])
          = if List.replicate ups ['.', '.'] ++ init = [] then last
            else bodyOf (ups, init) ++ '/' :: last := by
        simp only [bodyOf, ← List.append_assoc, joinSlash_append_singleton]
      have hge : dd ≤ (pre rooted ++ bodyOf (ups, init)).length := by
        rw [hdd]; simp only [List.length_append, bodyOf]
        have := length_joinSlash_append_ge (List.replicate ups ['.', '.']) init
        omega
      by_cases hP : List.replicate ups ['.', '.'] ++ init = []
      · have hb0 : bodyOf (ups, init) = [] := by simp [bodyOf, hP, joinSlash]
        have hU : joinSlash (List.replicate ups ['.', '.']) = [] := by
          have : List.replicate ups ['.', '.'] = [] := (List.append_eq_nil_iff.mp hP).1
          rw [this]; rfl
        rw [hb, if_pos hP] at hrout
        have hr2 : rout = last.reverse ++ (pre rooted).reverse := by rw [hrout]; simp
        have hZ : (pre rooted).reverse.length = dd := by rw [hdd, hU]; simp
        have hgt : rout.length > dd := by
          rw [hr2, ← hZ]; simp only [List.length_append, List.length_reverse]
          have : last.length > 0 := List.length_pos_iff.mpr hl.1
          omega
        simp only [hgt, if_true]
        rw [hr2, backtrack_stop dd last _ hl.1 hl.2.2.2 hZ]
        exact ⟨by simp [hb0], hdd, hups, hsafe'⟩
      · rw [hb, if_neg hP] at hrout
        have hr2 : rout = last.reverse ++ '/' :: (pre rooted ++ bodyOf (ups, init)).reverse := by
          rw [hrout]; simp
        have hgt : rout.length > dd := by
          rw [hr2]; simp only [List.length_append, List.length_reverse, List.length_cons]
          simp only [List.length_append] at hge
          omega
        simp only [hgt, if_true]
        rw [hr2, backtrack_slash dd last _ hl.1 hl.2.2.2 (by rw [List.length_reverse]; exact hge)]
        exact ⟨by simp, hdd, hups, hsafe'⟩
  · -- a real element is pushed
    have hc : SafeComp comp := ⟨fun e => h1 (Or.inl e), fun e => h1 (Or.inr e), h2, hns⟩
    simp only [stepComp, resolveStep, h1, h2, if_false]
    have hlen : rout.length = (pre rooted).length + (bodyOf (ups, names)).length := by
      rw [hrout]; simp only [List.length_reverse, List.length_append]
    have hbn := bodyOf_eq_nil (σ := (ups, names)) hsafe
    have hb : bodyOf (ups, names ++ [comp])
        = if bodyOf (ups, names) = [] then comp else bodyOf (ups, names) ++ '/' :: comp := by
      simp only [bodyOf, ← List.append_assoc, joinSlash_append_singleton]
      have := joinSlash_eq_nil (comps_ne_nil (n := ups) hsafe)
      simp only [bodyOf] at hbn
      by_cases hP : List.replicate ups ['.', '.'] ++ names = []
      · simp [hP, joinSlash]
      · simp [hP, this]
    refine ⟨?_, hdd, hups, ?_⟩
    · simp only [List.reverse_append, List.reverse_reverse, hb]
      by_cases hbe : bodyOf (ups, names) = []
      · have : rout.length = (pre rooted).length := by rw [hlen, hbe]; simp
        cases rooted <;> simp_all [pre]
      · have : (bodyOf (ups, names)).length > 0 := List.length_pos_iff.mpr hbe
        have hpos : rout.length > (pre rooted).length := by omega
        have hne : (rooted && rout.length != 1 || !rooted && rout.length != 0) = true := by
          cases rooted with
          | true =>
            have : rout.length ≠ 1 := by simp [pre] at hpos; omega
            simp [this]
          | false =>
            have : rout.length ≠ 0 := by simp [pre] at hpos; omega
            simp [this]
        simp only [hne, if_true, hbe, if_false, List.reverse_cons, hout]
        simp
    · intro c hcm
      rcases List.mem_append.mp hcm with h | h
      · exact hsafe c h
      · simp only [List.mem_singleton] at h; exact h ▸ hc

theorem Inv.foldl {rooted : Bool} : ∀ (comps : List Str) {st : Str × Nat} {σ : Nat × List Str},
    Inv rooted st σ → (∀ c ∈ comps, '/' ∉ c) →
    Inv rooted (comps.foldl (stepComp rooted) st) (comps.foldl (resolveStep rooted) σ) := by
  intro comps
  induction comps with
  | nil => intro st σ h _; exact h
  | cons c r ih =>
    intro st σ h hns
    exact ih (h.step (hns c (by simp))) (fun x hx => hns x (List.mem_cons_of_mem _ hx))

/-- **`path.Clean` computes the lexical resolution of its input**, for every string: the lazybuf
byte loop (Model/Paths.lean `clean`) equals the component-level specification `cleanSpec`. -/
theorem clean_eq_spec (path : Str) : clean path = cleanSpec path := by
  cases path with
  | nil => rfl
  | cons c0 t0 =>
    by_cases hr : c0 = '/'
    · subst hr
      have hinv : Inv true (['/'], 1) (0, []) :=
        ⟨by simp [pre, bodyOf, joinSlash], by simp [pre, joinSlash], fun _ => rfl, by simp⟩
      have hf := Inv.foldl (splitSlash t0) hinv (splitSlash_noSlash t0)
      have hres : resolve true (splitSlash ('/' :: t0)) = (splitSlash t0).foldl (resolveStep true) (0, []) := by
        simp [resolve, splitSlash_cons_slash, resolveStep]
      simp only [clean, cleanSpec, List.cons_ne_nil, if_false, List.head?_cons, decide_true, if_true, hres]
      rw [cleanLoop_eq_foldl true _ t0 ['/'] 1 (by simp)]
      have ho := hf.out
      simp only [pre, if_true, List.singleton_append] at ho
      have hl : ((splitSlash t0).foldl (stepComp true) (['/'], 1)).1.length ≠ 0 := by
        intro e
        have := congrArg List.length ho
        simp [e] at this
      rw [if_neg hl, ho]
    · have hinv : Inv false ([], 0) (0, []) :=
        ⟨by simp [pre, bodyOf, joinSlash], by simp [pre, joinSlash], by simp, by simp⟩
      have hf := Inv.foldl (splitSlash (c0 :: t0)) hinv (splitSlash_noSlash (c0 :: t0))
      have hd : decide (c0 = '/') = false := by simp [hr]
      have hd2 : decide ((c0 :: t0).head? = some '/') = false := by simp [hr]
      simp only [clean, cleanSpec, List.cons_ne_nil, if_false, hd, hd2, Bool.false_eq_true, resolve]
      rw [cleanLoop_eq_foldl false _ (c0 :: t0) [] 0 (by simp)]
      have ho := hf.out
      simp only [pre, Bool.false_eq_true, if_false, List.nil_append] at ho
      rw [← ho]
      by_cases he : ((splitSlash (c0 :: t0)).foldl (stepComp false) ([], 0)).1.length = 0
      · rw [if_pos he, if_pos (by simpa using he)]
      · rw [if_neg he, if_neg (by simpa using he)]

end Galene.Paths
