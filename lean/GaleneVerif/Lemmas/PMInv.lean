import GaleneVerif.Model.PacketMap
import GaleneVerif.Lemmas.Mod16
import GaleneVerif.Lemmas.Ring
import GaleneVerif.Lemmas.Count
import GaleneVerif.Lemmas.Table
/-
Representation invariant of packetmap.Map against the ghost history
(`U` = unwrapped next, `D` = withheld packets, `run` = current drop run), and the soundness of
the table scan under it.
-/
namespace Galene.Lemmas.PMInv
open Galene.PacketMap Galene.Lemmas.Mod16 Galene.Lemmas.Ring Galene.Lemmas.Count Galene.Lemmas.Table

/-- arithmetic side conditions on the constants; `R` bounds the length of a run of consecutive
accepted drops.  The shipped constants `W = 8192`, `maxCount = 16384` satisfy them with `R = 8193`
(and with no larger `R`; `C01Deep.C01_forwarded_number_false_for_R8194` shows this is sharp). -/
structure Side (P : Params) (R : Nat) : Prop where
  hE : 0 < P.maxEntries
  hW0 : 0 < P.W
  hWC : P.W < P.maxCount
  hC : P.maxCount < 32768
  hB : P.maxCount + R + P.W ≤ 32769

theorem side_default : Side {} 8193 := by
  constructor <;> decide

/-- table interval `e` stands for the unwrapped range `[F, F + e.count)`: no withheld packet
inside, and its offset is minus the number of withheld packets below it -/
structure IntervalOK (P : Params) (D : List Nat) (F : Nat) (e : Entry) : Prop where
  first : e.first = F % 65536
  bound : e.count ≤ P.maxCount
  delta : e.delta = neg (cnt D F)
  free : ∀ d ∈ D, ¬ (F ≤ d ∧ d < F + e.count)

/-- a newest-first list of intervals, all below `B`, strictly ordered, each starting within
half a lap of the start of its successor (`B - 1 ≤ F + 2^15`, the largest distance at which the
modular `compare` still orders a packet below `B` correctly against `F`) -/
def Chain (P : Params) (D : List Nat) : Nat → List Entry → Prop
  | _, [] => True
  | B, e :: rest => ∃ F, IntervalOK P D F e ∧ F + e.count ≤ B ∧ B ≤ F + 32769 ∧ Chain P D F rest

theorem intervalOK_consD (P : Params) (D : List Nat) (F x : Nat) (e : Entry)
    (h : IntervalOK P D F e) (hx : F + e.count ≤ x) : IntervalOK P (x :: D) F e := by
  refine ⟨h.first, h.bound, ?_, ?_⟩
  · rw [cnt_cons_ge x D F (by omega)]; exact h.delta
  · intro d hd
    rcases List.mem_cons.mp hd with rfl | hd
    · omega
    · exact h.free d hd

/-- withholding a packet at or above the bound keeps the chain -/
theorem chain_consD (P : Params) (D : List Nat) (x : Nat) :
    ∀ (l : List Entry) (B : Nat), Chain P D B l → B ≤ x → Chain P (x :: D) B l := by
  intro l
  induction l with
  | nil => intro B _ _; trivial
  | cons e rest ih =>
    intro B h hx
    obtain ⟨F, hok, h1, h2, hc⟩ := h
    exact ⟨F, intervalOK_consD P D F x e hok (by omega), h1, h2, ih F hc (by omega)⟩

/-- evicting the oldest interval keeps the chain -/
theorem chain_dropLast (P : Params) (D : List Nat) :
    ∀ (l : List Entry) (B : Nat), Chain P D B l → Chain P D B l.dropLast := by
  intro l
  induction l with
  | nil => intro B _; trivial
  | cons e rest ih =>
    intro B h
    obtain ⟨F, hok, h1, h2, hc⟩ := h
    cases rest with
    | nil => trivial
    | cons e2 rest2 =>
      rw [List.dropLast_cons_of_ne_nil (by simp)]
      exact ⟨F, hok, h1, h2, ih F hc⟩

/-- `tgt D x` = position of `x` in the outgoing numbering (unwrapped) -/
def tgt (D : List Nat) (x : Nat) : Nat := x - cnt D x

theorem tgt_mono (D : List Nat) (hs : Desc D) (a b : Nat) (h : a ≤ b) : tgt D a ≤ tgt D b := by
  unfold tgt
  have h1 := cnt_split D a b h
  have h2 := cntIn_le D a b hs
  have h3 := cnt_le D a hs
  omega

theorem tgt_lip (D : List Nat) (hs : Desc D) (a b : Nat) (h : a ≤ b) : tgt D b - tgt D a ≤ b - a := by
  unfold tgt
  have h1 := cnt_split D a b h
  have h3 := cnt_le D a hs
  omega

/-- packets that are not withheld get strictly increasing outgoing positions -/
theorem tgt_strict (D : List Nat) (hs : Desc D) (a b : Nat) (ha : a ∉ D) (hab : a < b) :
    tgt D a < tgt D b := by
  have h1 := cnt_split D a b (by omega)
  rw [cntIn_succ_of_not_mem D a b ha] at h1
  have h2 := cntIn_le D (a + 1) b hs
  have h3 := cnt_le D a hs
  unfold tgt
  omega

theorem out_eq_tgt (D : List Nat) (u : Nat) : out D u = tgt D u % 65536 := rfl

/-! ### soundness of the scan for `direct` -/

/-- classifier used by `direct` -/
def dcls (s : Nat) (e : Entry) : Cls := classify s e.first e.count (add16 s e.delta) e.pidDelta

/-- classifier used by `Reverse` -/
def rcls (n : Nat) (e : Entry) : Cls :=
  classify n (add16 e.first e.delta) e.count (sub16 n e.delta) e.pidDelta

/-- how `direct` classifies the unwrapped `v` against an interval `[F, F+count)` within half a lap -/
theorem dcls_spec (P : Params) (hC : P.maxCount < 32768) (D : List Nat) (F v : Nat) (e : Entry)
    (hok : IntervalOK P D F e) (h1 : F < v + 32768) (h2 : v ≤ F + 32768) :
    dcls (v % 65536) e =
      if v < F then .cont
      else if v < F + e.count then .inside (add16 (v % 65536) e.delta) e.pidDelta else .stop := by
  unfold dcls classify
  rw [hok.first, add16_mod]
  have hb := hok.bound
  by_cases hlt : v < F
  · rw [compare_lt v F hlt (by omega)]
    simp [hlt]
  · have hge : PacketMap.compare (v % 65536) (F % 65536) ≥ 0 := by
      rcases Nat.lt_or_ge F v with h | h
      · rw [compare_gt v F h (by omega)]; omega
      · have : v = F := by omega
        subst this; rw [compare_self]; omega
    simp only [hge, if_true, hlt, if_false]
    by_cases hin : v < F + e.count
    · rw [compare_lt v (F + e.count) hin (by omega)]
      simp [hin]
    · have : ¬ PacketMap.compare (v % 65536) ((F + e.count) % 65536) < 0 := by
        rcases Nat.lt_or_ge (F + e.count) v with h | h
        · rw [compare_gt v (F + e.count) h (by omega)]; omega
        · have : v = F + e.count := by omega
          rw [this, compare_self]; omega
      simp only [this, if_false, hin]

/-- the number `direct` computes inside an interval is the specified outgoing number -/
theorem inside_number (P : Params) (D : List Nat) (hs : Desc D) (F v : Nat) (e : Entry)
    (hok : IntervalOK P D F e) (h1 : F ≤ v) (h2 : v < F + e.count) :
    v ∉ D ∧ add16 (v % 65536) e.delta = out D v ∧ cnt D v = cnt D F := by
  have hfree : ∀ d ∈ D, ¬ (F ≤ d ∧ d < v) := by
    intro d hd hc
    exact hok.free d hd ⟨hc.1, by omega⟩
  have hcnt : cnt D v = cnt D F := cnt_eq_of_none_between D F v h1 hfree
  refine ⟨?_, ?_, hcnt⟩
  · intro hv; exact hok.free v hv ⟨h1, h2⟩
  · rw [hok.delta, add16_neg v (cnt D F) (by have := cnt_le D F hs; omega)]
    unfold out
    rw [hcnt]

/-- **soundness of `direct`'s scan**: a hit for `v` (below the bound, within half a lap of it)
is never a withheld packet and carries `out D v` -/
theorem walkL_direct_sound (P : Params) (hC : P.maxCount < 32768) (D : List Nat) (hs : Desc D) (v : Nat) :
    ∀ (l : List Entry) (B : Nat), Chain P D B l → v < B → B < v + 32768 →
      ∀ n pd, walkL (dcls (v % 65536)) l = (true, n, pd) → v ∉ D ∧ n = out D v := by
  intro l
  induction l with
  | nil => intro B _ _ _ n pd h; simp [walkL] at h
  | cons e rest ih =>
    intro B hch hv hB n pd h
    obtain ⟨F, hok, h1, h2, hc⟩ := hch
    have hcls := dcls_spec P hC D F v e hok (by omega) (by omega)
    simp only [walkL] at h
    rw [hcls] at h
    by_cases hlt : v < F
    · simp only [hlt, if_true] at h
      exact ih F hc hlt (by omega) n pd h
    · by_cases hin : v < F + e.count
      · simp only [hlt, hin, if_true, if_false, Prod.mk.injEq, true_and] at h
        obtain ⟨hv1, hv2, _⟩ := inside_number P D hs F v e hok (by omega) hin
        exact ⟨hv1, by rw [← h.1, hv2]⟩
      · simp only [hlt, hin, if_false, Prod.mk.injEq] at h
        exact absurd h.1 (by decide)

/-! ### the ghost-augmented state and its invariant -/

/-- model state plus ghost history: `U` unwrapped next, `D` withheld packets (newest first),
`run` number of accepted drops since the last in-order `Map` -/
structure GState where
  m : State
  U : Nat
  D : List Nat
  run : Nat
  deriving DecidableEq

/-- the representation invariant -/
structure Inv (P : Params) (R : Nat) (g : GState) : Prop where
  swf : SWF P g.m
  started : g.m.started = true
  next : g.m.next = g.U % 65536
  big : 65536 ≤ g.U
  desc : Desc g.D
  below : ∀ d ∈ g.D, d < g.U
  delta : g.m.delta = neg g.D.length
  runR : g.run ≤ R
  runD : cnt g.D (g.U - g.run) + g.run = g.D.length
  ident : g.m.entries = [] → g.D = [] ∧ g.run = 0
  head : g.m.entries ≠ [] → ∃ F e rest, tbl g.m = e :: rest ∧ IntervalOK P g.D F e ∧
    F + e.count + g.run = g.U ∧ Chain P g.D F rest

/-- start states: fresh (or just reset) map whose next expected packet is `U0` -/
def start (U0 p : Nat) : GState :=
  { m := { started := true, next := U0 % 65536, nextPid := p }, U := U0, D := [], run := 0 }

theorem inv_start (P : Params) (R : Nat) (U0 p : Nat) (h : 65536 ≤ U0) : Inv P R (start U0 p) := by
  refine ⟨swf_start P _ _, rfl, rfl, h, List.Pairwise.nil, by simp [start], by simp [start, neg],
    Nat.zero_le _, by simp [start, cnt], fun _ => ⟨rfl, rfl⟩, fun hc => absurd rfl hc⟩

/-- under the invariant the whole table is a chain below `U` -/
theorem Inv.chainU {P : Params} {R : Nat} {g : GState} (hS : Side P R) (h : Inv P R g)
    (hne : g.m.entries ≠ []) : Chain P g.D g.U (tbl g.m) := by
  obtain ⟨F, e, rest, ht, hok, hsum, hc⟩ := h.head hne
  rw [ht]
  have := hok.bound
  have := h.runR
  have := hS.hB
  exact ⟨F, hok, by omega, by omega, hc⟩

end Galene.Lemmas.PMInv
