import GaleneVerif.Model.TokenStore
/-
Lemmas about the token-store model: the map operations, parsing (later line wins), writing a
duplicate-free map out and reading it back, and closed forms for `load`, `rewrite`, `add`.
`expireSweep` is `Expire` up to and including the rewrite (all of `Expire` before the fix that added
the `state.reset()` on failure); the lemmas about it carry the pre-fix side conditions, the lemmas
about `expire` (sweep + reset on error) are unconditional.
-/
namespace Galene.TokenStore

/-! ### the map -/

theorem find_nil (id : String) : TMap.find [] id = none := rfl

theorem find_cons (t : Tok) (m : TMap) (id : String) :
    TMap.find (t :: m) id = if t.id = id then some t else TMap.find m id := by
  simp only [TMap.find, List.find?_cons]
  by_cases h : t.id = id
  · simp [h]
  · have : (t.id == id) = false := by simpa using h
    simp [this, h]

theorem find_erase (m : TMap) (i id : String) :
    TMap.find (TMap.erase m i) id = if i = id then none else TMap.find m id := by
  induction m with
  | nil => simp [TMap.erase, TMap.find]
  | cons t m ih =>
    by_cases ht : t.id = i
    · have : TMap.erase (t :: m) i = TMap.erase m i := by simp [TMap.erase, ht]
      rw [this, ih, find_cons]
      by_cases hi : i = id
      · simp [hi]
      · have : t.id ≠ id := by rw [ht]; exact hi
        simp [hi, this]
    · have : TMap.erase (t :: m) i = t :: TMap.erase m i := by simp [TMap.erase, ht]
      rw [this, find_cons, find_cons, ih]
      by_cases hi : i = id
      · have : t.id ≠ id := by rw [← hi]; exact ht
        simp [hi, this]
      · simp [hi]

theorem find_insert (m : TMap) (t : Tok) (id : String) :
    TMap.find (TMap.insert m t) id = if t.id = id then some t else TMap.find m id := by
  rw [TMap.insert, find_cons, find_erase]
  by_cases h : t.id = id <;> simp [h]

theorem find_some (m : TMap) (id : String) (t : Tok) (h : TMap.find m id = some t) : t ∈ m ∧ t.id = id := by
  unfold TMap.find at h
  exact ⟨List.mem_of_find?_eq_some h, by simpa using List.find?_some h⟩

theorem find_none (m : TMap) (id : String) : TMap.find m id = none ↔ ∀ t ∈ m, t.id ≠ id := by
  simp [TMap.find, List.find?_eq_none]

def ids (m : TMap) : List String := m.map (·.id)

theorem find_of_mem_nodup (m : TMap) (h : (ids m).Nodup) (t : Tok) (ht : t ∈ m) : TMap.find m t.id = some t := by
  induction m with
  | nil => cases ht
  | cons u m ih =>
    simp only [ids, List.map_cons, List.nodup_cons] at h
    rw [find_cons]
    rcases List.mem_cons.mp ht with e | hm
    · simp [e]
    · have : u.id ≠ t.id := by
        intro e
        exact h.1 (e ▸ List.mem_map_of_mem hm)
      simp [this, ih h.2 hm]


theorem ids_filter_sublist (m : TMap) (p : Tok → Bool) : (ids (m.filter p)).Sublist (ids m) :=
  List.Sublist.map _ List.filter_sublist

theorem nodup_filter (m : TMap) (p : Tok → Bool) (h : (ids m).Nodup) : (ids (m.filter p)).Nodup :=
  h.sublist (ids_filter_sublist m p)

theorem nodup_erase (m : TMap) (i : String) (h : (ids m).Nodup) : (ids (TMap.erase m i)).Nodup :=
  nodup_filter m _ h

theorem not_mem_ids_erase (m : TMap) (i : String) : i ∉ ids (TMap.erase m i) := by
  simp [ids, TMap.erase]

theorem nodup_insert (m : TMap) (t : Tok) (h : (ids m).Nodup) : (ids (TMap.insert m t)).Nodup := by
  simp only [TMap.insert, ids, List.map_cons, List.nodup_cons]
  exact ⟨not_mem_ids_erase m t.id, nodup_erase m t.id h⟩

/-- lookup-equality of two maps -/
def Equiv (a b : TMap) : Prop := ∀ id, TMap.find a id = TMap.find b id
/-- everything in `a` is in `b`, with the same contents -/
def Sub (a b : TMap) : Prop := ∀ id t, TMap.find a id = some t → TMap.find b id = some t

theorem equiv_of_mem_iff (a b : TMap) (_ha : (ids a).Nodup) (hb : (ids b).Nodup) (h : ∀ t, t ∈ a ↔ t ∈ b) :
    Equiv a b := by
  intro id
  cases hf : TMap.find a id with
  | none =>
    symm
    rw [find_none] at hf ⊢
    intro t ht
    exact hf t ((h t).mpr ht)
  | some t =>
    obtain ⟨hm, hid⟩ := find_some a id t hf
    rw [← hid, find_of_mem_nodup b hb t ((h t).mp hm)]

theorem sub_filter (m : TMap) (p : Tok → Bool) (h : (ids m).Nodup) : Sub (m.filter p) m := by
  intro id t hf
  obtain ⟨hm, hid⟩ := find_some _ id t hf
  rw [← hid]
  exact find_of_mem_nodup m h t (List.mem_filter.mp hm).1

/-! ### sorting -/

theorem insertSorted_perm (t : Tok) (l : List Tok) : (insertSorted t l).Perm (t :: l) := by
  induction l with
  | nil => exact List.Perm.refl _
  | cons u us ih =>
    simp only [insertSorted]
    split
    · exact List.Perm.refl _
    · exact (List.Perm.cons u ih).trans (List.Perm.swap t u us)

theorem sortExp_perm (m : List Tok) : (sortExp m).Perm m := by
  induction m with
  | nil => exact List.Perm.refl _
  | cons t m ih =>
    simp only [sortExp, List.foldr_cons]
    exact (insertSorted_perm t _).trans (List.Perm.cons t ih)

theorem sortExp_ne_nil (t : Tok) (m : List Tok) : sortExp (t :: m) ≠ [] := by
  intro h
  have := (sortExp_perm (t :: m)).length_eq
  simp [h] at this

/-! ### parsing -/

def parseToks (l : List Tok) : TMap := l.foldl TMap.insert []

theorem foldl_parseStep_none (ls : List Line) : ls.foldl parseStep none = none := by
  induction ls with
  | nil => rfl
  | cons l ls ih => simpa [List.foldl_cons, parseStep] using ih

theorem foldl_parseStep_toks (l : List Tok) (acc : TMap) :
    (l.map Line.tok).foldl parseStep (some acc) = some (l.foldl TMap.insert acc) := by
  induction l generalizing acc with
  | nil => rfl
  | cons t l ih => simp [List.foldl_cons, parseStep, ih]

theorem parse_map_tok (l : List Tok) : parse (l.map Line.tok) = some (parseToks l) :=
  foldl_parseStep_toks l []

theorem parse_append_tok (ls : List Line) (t : Tok) :
    parse (ls ++ [Line.tok t]) = (parse ls).map (fun m => TMap.insert m t) := by
  simp only [parse, List.foldl_append, List.foldl_cons, List.foldl_nil]
  cases ls.foldl parseStep (some []) <;> simp [parseStep]

theorem parse_nil : parse [] = some [] := rfl

theorem foldl_parseStep_nodup (ls : List Line) (acc : Option TMap) (h : ∀ a, acc = some a → (ids a).Nodup)
    (m : TMap) (hm : ls.foldl parseStep acc = some m) : (ids m).Nodup := by
  induction ls generalizing acc with
  | nil => exact h m hm
  | cons l ls ih =>
    rw [List.foldl_cons] at hm
    refine ih (parseStep acc l) ?_ hm
    intro a ha
    cases acc with
    | none => simp [parseStep] at ha
    | some a0 =>
      cases l with
      | junk => simp [parseStep] at ha
      | tok t =>
        simp only [parseStep, Option.some.injEq] at ha
        rw [← ha]
        exact nodup_insert a0 t (h a0 rfl)

theorem parse_nodup (ls : List Line) (m : TMap) (h : parse ls = some m) : (ids m).Nodup :=
  foldl_parseStep_nodup ls (some []) (by intro a ha; cases ha; exact List.nodup_nil) m h

theorem find_foldl_insert (l : List Tok) (acc : TMap) (id : String) :
    TMap.find (l.foldl TMap.insert acc) id = (TMap.find l.reverse id).or (TMap.find acc id) := by
  induction l generalizing acc with
  | nil => simp [TMap.find]
  | cons x l ih =>
    rw [List.foldl_cons, ih, find_insert]
    simp only [TMap.find, List.reverse_cons, List.find?_append, List.find?_cons, List.find?_nil]
    cases List.find? (fun t => t.id == id) l.reverse with
    | some t => simp
    | none =>
      by_cases h : x.id = id
      · simp [h]
      · have : (x.id == id) = false := by simpa using h
        simp [h, this]

theorem nodup_foldl_insert (l : List Tok) (acc : TMap) (h : (ids acc).Nodup) :
    (ids (l.foldl TMap.insert acc)).Nodup := by
  induction l generalizing acc with
  | nil => exact h
  | cons x l ih => exact ih _ (nodup_insert acc x h)

/-- Writing a duplicate-free map out (in any order) and parsing it again gives the same map. -/
theorem equiv_parseToks_of_perm (m l : List Tok) (hm : (ids m).Nodup) (hp : l.Perm m) :
    Equiv m (parseToks l) := by
  intro id
  rw [parseToks, find_foldl_insert, find_nil, Option.or_none]
  have hl : (ids l.reverse).Nodup := by
    have : (ids l.reverse).Perm (ids m) := ((List.reverse_perm l).trans hp).map _
    exact this.nodup_iff.mpr hm
  exact equiv_of_mem_iff m l.reverse hm hl (fun t => by
    rw [List.mem_reverse]; exact (hp.mem_iff).symm) id

theorem equiv_parse_sortExp (m : TMap) (hm : (ids m).Nodup) :
    ∃ m', parse ((sortExp m).map Line.tok) = some m' ∧ Equiv m m' :=
  ⟨_, parse_map_tok _, equiv_parseToks_of_perm m _ hm (sortExp_perm m)⟩


def fileVer (s : St) : Option Nat := s.file.map (·.2)

/-! ### closed forms -/

theorem load_cases (s : St) (f : Fault) :
    (s.file = none ∧ load s f = (s.reset, some none)) ∨
    (∃ ls v, s.file = some (ls, v) ∧ s.memVer = some v ∧ load s f = (s, some (some v))) ∨
    (∃ ls v, s.file = some (ls, v) ∧ s.memVer ≠ some v ∧ load s f = (s.reset, none)) ∨
    (∃ ls v m, s.file = some (ls, v) ∧ s.memVer ≠ some v ∧ f ≠ .fd ∧ parse ls = some m ∧
      load s f = ({ s with mem := some m, memVer := some v }, some (some v))) := by
  unfold load
  cases hf : s.file with
  | none => left; simp
  | some lv =>
    obtain ⟨ls, v⟩ := lv
    right
    by_cases hv : s.memVer = some v
    · left; exact ⟨ls, v, rfl, hv, by simp [hv, St.etag]⟩
    · right
      by_cases hfd : f = .fd
      · left; exact ⟨ls, v, rfl, hv, by simp [hv, hfd]⟩
      · cases hp : parse ls with
        | none => left; exact ⟨ls, v, rfl, hv, by simp [hv, hfd, hp]⟩
        | some m => right; exact ⟨ls, v, m, rfl, hv, hfd, hp, by simp [hv, hfd, hp]⟩

/-- what a successful `load` establishes -/
structure Loaded (s s1 : St) : Prop where
  file : s1.file = s.file
  next : s1.next = s.next
  ver : s1.memVer = fileVer s
  memNone : s.file = none → s1.mem = none

theorem load_ok (s : St) (f : Fault) (s1 : St) (e : Option Nat) (h : load s f = (s1, some e)) :
    Loaded s s1 ∧ e = fileVer s := by
  rcases load_cases s f with ⟨hf, hl⟩ | ⟨ls, v, hf, hv, hl⟩ | ⟨ls, v, hf, hv, hl⟩ | ⟨ls, v, m, hf, hv, _, hp, hl⟩
  · rw [hl] at h; cases h
    exact ⟨⟨rfl, rfl, by simp [St.reset, fileVer, hf], fun _ => rfl⟩, by simp [fileVer, hf]⟩
  · rw [hl] at h; cases h
    exact ⟨⟨rfl, rfl, by simp [fileVer, hf, hv], fun h' => by simp [hf] at h'⟩, by simp [fileVer, hf]⟩
  · rw [hl] at h; cases h
  · rw [hl] at h; cases h
    exact ⟨⟨rfl, rfl, by simp [fileVer, hf], fun h' => by simp [hf] at h'⟩, by simp [fileVer, hf]⟩

theorem load_err (s : St) (f : Fault) (s1 : St) (h : load s f = (s1, none)) : s1 = s.reset := by
  rcases load_cases s f with ⟨_, hl⟩ | ⟨_, _, _, _, hl⟩ | ⟨_, _, _, _, hl⟩ | ⟨_, _, _, _, _, _, _, hl⟩ <;>
    rw [hl] at h <;> cases h <;> rfl

theorem rewrite_empty (s : St) (f : Fault) (hm : s.mem = none ∨ s.mem = some []) :
    rewrite s f = ({ s with file := none }, true) := by
  unfold rewrite
  rcases hm with h | h <;> simp [h]

theorem rewrite_nonempty (s : St) (f : Fault) (x : Tok) (xs : List Tok) (ls : List Line) (v : Nat)
    (hm : s.mem = some (x :: xs)) (hf : s.file = some (ls, v)) (hv : s.memVer = some v) :
    rewrite s f = if f = .none then
        ({ s with file := some ((sortExp (x :: xs)).map Line.tok, s.next), memVer := some s.next,
                  next := s.next + 1 }, true)
      else (s, false) := by
  have hl : ∀ f, load s f = (s, some (some v)) := by
    intro f; unfold load; simp [hf, hv, St.etag]
  unfold rewrite
  cases f with
  | fd => simp [hm]
  | fs => simp [hm, hl, sortExp_ne_nil]
  | none => simp [hm, hl]

theorem add_cases (s : St) (t : Tok) (f : Fault) :
    add s t f =
      match f with
      | .fd => (s, false)
      | .fs => (match s.file with
          | none => { s with file := some ([], s.next), next := s.next + 1 }
          | some _ => s, false)
      | .none =>
        ({ s with file := some ((match s.file with | none => [] | some (ls, _) => ls) ++ [.tok t], s.next),
                  next := s.next + 1, mem := some (TMap.insert (s.mem.getD []) t), memVer := some s.next }, true) := by
  unfold add
  cases f with
  | fd => simp
  | fs => cases s.file <;> simp
  | none =>
    simp only [reduceCtorEq, ↓reduceIte]
    cases s.file with
    | none => rfl
    | some p => rfl


theorem equiv_refl (a : TMap) : Equiv a a := fun _ => rfl
theorem equiv_symm {a b : TMap} (h : Equiv a b) : Equiv b a := fun id => (h id).symm
theorem equiv_trans {a b c : TMap} (h1 : Equiv a b) (h2 : Equiv b c) : Equiv a c :=
  fun id => (h1 id).trans (h2 id)
theorem sub_of_equiv {a b : TMap} (h : Equiv a b) : Sub a b := fun id t ht => by rw [← h id]; exact ht
theorem sub_trans {a b c : TMap} (h1 : Sub a b) (h2 : Sub b c) : Sub a c :=
  fun id t ht => h2 id t (h1 id t ht)

theorem equiv_insert {a b : TMap} (t : Tok) (h : Equiv a b) : Equiv (TMap.insert a t) (TMap.insert b t) := by
  intro id; rw [find_insert, find_insert, h id]

theorem sub_insert {a b : TMap} (t : Tok) (h : Sub a b) : Sub (TMap.insert a t) (TMap.insert b t) := by
  intro id u hu
  rw [find_insert] at hu ⊢
  by_cases hid : t.id = id
  · simpa [hid] using hu
  · simp only [hid, ↓reduceIte] at hu ⊢
    exact h id u hu

/-- the rollback of `Update`: putting the old token back over the new one restores the map -/
theorem equiv_insert_insert_old (m : TMap) (t old : Tok) (h : TMap.find m t.id = some old) :
    Equiv (TMap.insert (TMap.insert m t) old) m := by
  have hid : old.id = t.id := (find_some m t.id old h).2
  intro id
  rw [find_insert, find_insert, hid]
  by_cases e : t.id = id
  · simp [e, ← h]
  · simp [e]

/-- the rollback of `Delete` -/
theorem equiv_insert_erase_old (m : TMap) (i : String) (old : Tok) (h : TMap.find m i = some old) :
    Equiv (TMap.insert (TMap.erase m i) old) m := by
  have hid : old.id = i := (find_some m i old h).2
  intro id
  rw [find_insert, find_erase, hid]
  by_cases e : i = id
  · simp [e, ← h]
  · simp [e]

/-- what the proofs need of the relation between the live map and the parsed file -/
structure RelOK (R : TMap → TMap → Prop) : Prop where
  ofEquiv : ∀ a b, Equiv a b → R a b
  trans : ∀ a b c, R a b → R b c → R a c
  insert : ∀ a b t, R a b → R (TMap.insert a t) (TMap.insert b t)

theorem relOK_equiv : RelOK Equiv := ⟨fun _ _ h => h, fun _ _ _ => equiv_trans, fun _ _ t => equiv_insert t⟩
theorem relOK_sub : RelOK Sub := ⟨fun _ _ => sub_of_equiv, fun _ _ _ => sub_trans, fun _ _ t => sub_insert t⟩

/-- The invariant.  `R = Equiv`: the live map mirrors the file; `R = Sub`: it holds nothing the file lacks. -/
structure Inv (R : TMap → TMap → Prop) (s : St) : Prop where
  fileLt : ∀ ls v, s.file = some (ls, v) → v < s.next
  memLt : ∀ v, s.memVer = some v → v < s.next
  nodup : ∀ m, s.mem = some m → (ids m).Nodup
  sync : ∀ ls v, s.file = some (ls, v) → s.memVer = some v →
    ∃ m m', s.mem = some m ∧ parse ls = some m' ∧ R m m'

variable {R : TMap → TMap → Prop}

theorem inv_init : Inv R {} :=
  ⟨(by intro ls v h; cases h), (by intro v h; cases h), (by intro m h; cases h), (by intro ls v h; cases h)⟩

theorem inv_reset {s : St} (h : Inv R s) : Inv R s.reset :=
  ⟨h.fileLt, (by intro v hv; cases hv), (by intro m hm; cases hm), (by intro ls v _ hv; cases hv)⟩

theorem load_inv (hR : RelOK R) (s : St) (f : Fault) (h : Inv R s) : Inv R (load s f).1 := by
  rcases load_cases s f with ⟨_, hl⟩ | ⟨_, _, _, _, hl⟩ | ⟨_, _, _, _, hl⟩ | ⟨ls, v, m, hf, _, _, hp, hl⟩
  · rw [hl]; exact inv_reset h
  · rw [hl]; exact h
  · rw [hl]; exact inv_reset h
  · rw [hl]
    refine ⟨h.fileLt, ?_, ?_, ?_⟩
    · intro v' hv'; cases hv'; exact h.fileLt ls v hf
    · intro m' hm'; cases hm'; exact parse_nodup ls m hp
    · intro ls' v' hf' _
      have : ls' = ls := by simp only [hf] at hf'; cases hf'; rfl
      subst this
      exact ⟨m, m, rfl, hp, hR.ofEquiv _ _ (equiv_refl m)⟩

/-- replacing the map by one related to it (rollbacks; the sweep that is not rolled back) -/
theorem inv_setMem {s : St} (hR : RelOK R) (h : Inv R s) (m m4 : TMap) (hm : s.mem = some m)
    (hn : (ids m4).Nodup) (hr : R m4 m) : Inv R { s with mem := some m4 } := by
  refine ⟨h.fileLt, h.memLt, ?_, ?_⟩
  · intro m' hm'; cases hm'; exact hn
  · intro ls v hf hv
    obtain ⟨m0, m', hm0, hp, hr'⟩ := h.sync ls v hf hv
    rw [hm] at hm0; cases hm0
    exact ⟨m4, m', rfl, hp, hR.trans _ _ _ hr hr'⟩

/-- `if state.tokens == nil { state.tokens = make(...) }` -/
theorem inv_setMem_nil {s : St} (h : Inv R s) (hm : s.mem = none) : Inv R { s with mem := some [] } := by
  refine ⟨h.fileLt, h.memLt, ?_, ?_⟩
  · intro m' hm'; cases hm'; exact List.nodup_nil
  · intro ls v hf hv
    obtain ⟨m0, _, hm0, _⟩ := h.sync ls v hf hv
    rw [hm] at hm0; cases hm0

/-- `rewrite` of a state in sync with an existing file whose map was replaced by `m3` -/
theorem rewrite_inv (hR : RelOK R) (s : St) (h : Inv R s) (f : Fault) (ls : List Line) (v : Nat)
    (hf : s.file = some (ls, v)) (hv : s.memVer = some v) (m3 : TMap) (hn : (ids m3).Nodup) :
    ((rewrite { s with mem := some m3 } f).2 = true → Inv R (rewrite { s with mem := some m3 } f).1) ∧
    ((rewrite { s with mem := some m3 } f).2 = false →
      (rewrite { s with mem := some m3 } f).1 = { s with mem := some m3 } ∧ f ≠ .none) := by
  cases m3 with
  | nil =>
    rw [rewrite_empty _ f (Or.inr rfl)]
    refine ⟨fun _ => ⟨?_, h.memLt, ?_, ?_⟩, fun h' => by cases h'⟩
    · intro ls' v' h'; cases h'
    · intro m hm; cases hm; exact List.nodup_nil
    · intro ls' v' h'; cases h'
  | cons x xs =>
    rw [rewrite_nonempty { s with mem := some (x :: xs) } f x xs ls v rfl hf hv]
    by_cases hfn : f = .none
    · simp only [hfn, ↓reduceIte, forall_const, Bool.true_eq_false, false_implies, and_true]
      refine ⟨?_, ?_, ?_, ?_⟩
      · intro ls' v' h'; cases h'; exact Nat.lt_succ_self _
      · intro v' h'; cases h'; exact Nat.lt_succ_self _
      · intro m hm; cases hm; exact hn
      · intro ls' v' h' _
        cases h'
        obtain ⟨m', hp, he⟩ := equiv_parse_sortExp (x :: xs) hn
        exact ⟨_, m', rfl, hp, hR.ofEquiv _ _ he⟩
    · simp [hfn]


/-- after a successful load that left a non-nil map, the file exists and is mirrored -/
theorem loaded_file_of_mem {s s1 : St} (hL : Loaded s s1) (m : TMap) (hm : s1.mem = some m) :
    ∃ ls v, s1.file = some (ls, v) ∧ s1.memVer = some v := by
  cases hf : s.file with
  | none => rw [hL.memNone hf] at hm; cases hm
  | some lv =>
    obtain ⟨ls, v⟩ := lv
    exact ⟨ls, v, by rw [hL.file, hf], by rw [hL.ver, fileVer, hf]; rfl⟩

theorem update_inv (hR : RelOK R) (s : St) (t : Tok) (e : Option Nat) (f : Fault) (h : Inv R s) :
    Inv R (update s t e f).1 := by
  unfold update
  have h1 := load_inv hR s f h
  cases hl : load s f with
  | mk s1 r =>
  rw [hl] at h1
  cases r with
  | none => exact h1
  | some e0 =>
    obtain ⟨hL, _⟩ := load_ok s f s1 e0 hl
    simp only
    cases hm1 : s1.mem with
    | none =>
      -- the map is created empty; the token is not found
      have h2 : Inv R { s1 with mem := some [] } := inv_setMem_nil h1 hm1
      simp only [Option.getD_some, find_nil]
      by_cases he : e = none
      · simp only [he, ne_eq, not_true_eq_false, ↓reduceIte]
        rw [add_cases]
        cases f with
        | fd => exact h2
        | fs =>
          simp only
          cases hf : s1.file with
          | some _ => simp only; rw [hf] at h2; exact h2
          | none =>
            simp only
            refine ⟨?_, ?_, h2.nodup, ?_⟩
            · intro ls v h'; cases h'; exact Nat.lt_succ_self _
            · intro v hv; exact Nat.lt_succ_of_lt (h2.memLt v hv)
            · intro ls v h' hv
              cases h'
              exact absurd (h2.memLt _ hv) (Nat.lt_irrefl _)
        | none =>
          simp only
          refine ⟨?_, ?_, ?_, ?_⟩
          · intro ls v h'; cases h'; exact Nat.lt_succ_self _
          · intro v h'; cases h'; exact Nat.lt_succ_self _
          · intro m hm; cases hm; exact nodup_insert _ _ List.nodup_nil
          · intro ls v h' _
            cases h'
            -- the file was absent (nil map after a successful load) or in sync
            cases hf : s1.file with
            | none =>
              exact ⟨_, TMap.insert [] t, rfl, rfl, hR.ofEquiv _ _ (equiv_refl _)⟩
            | some lv =>
              obtain ⟨ls0, v0⟩ := lv
              have hv0 : s1.memVer = some v0 := by rw [hL.ver, fileVer, ← hL.file, hf]; rfl
              obtain ⟨m0, _, hm0, _⟩ := h1.sync ls0 v0 hf hv0
              rw [hm1] at hm0; cases hm0
      · simp only [ne_eq, he, not_false_eq_true, ↓reduceIte]
        exact h2
    | some m =>
      have h2 : Inv R s1 := h1
      simp only [Option.getD_some, hm1]
      obtain ⟨ls, v, hf, hv⟩ := loaded_file_of_mem hL m hm1
      cases hfind : TMap.find m t.id with
      | some old =>
        simp only
        by_cases he : e = s1.etag
        · simp only [he, ne_eq, not_true_eq_false, ↓reduceIte]
          have hn3 : (ids (TMap.insert m t)).Nodup := nodup_insert m t (h1.nodup m hm1)
          obtain ⟨hok, hfail⟩ := rewrite_inv hR s1 h1 f ls v hf hv (TMap.insert m t) hn3
          cases hrw : rewrite { s1 with mem := some (TMap.insert m t) } f with
          | mk s4 ok =>
          rw [hrw] at hok hfail
          cases ok with
          | true => exact hok rfl
          | false =>
            simp only [Bool.false_eq_true, ↓reduceIte]
            obtain ⟨hs4, _⟩ := hfail rfl
            simp only at hs4
            rw [hs4, rollback]
            simp only
            exact inv_setMem hR h1 m _ hm1 (nodup_insert _ _ hn3)
              (hR.ofEquiv _ _ (equiv_insert_insert_old m t old hfind))
        · simp only [ne_eq, he, not_false_eq_true, ↓reduceIte]
          exact h2
      | none =>
        simp only
        by_cases he : e = none
        · simp only [he, ne_eq, not_true_eq_false, ↓reduceIte]
          rw [add_cases]
          cases f with
          | fd => exact h2
          | fs => simp only [hf]; exact h2
          | none =>
            simp only [hf, hm1, Option.getD_some]
            refine ⟨?_, ?_, ?_, ?_⟩
            · intro ls' v' h'; cases h'; exact Nat.lt_succ_self _
            · intro v' h'; cases h'; exact Nat.lt_succ_self _
            · intro m' hm'; cases hm'; exact nodup_insert _ _ (h1.nodup m hm1)
            · intro ls' v' h' _
              cases h'
              obtain ⟨m0, m', hm0, hp, hr⟩ := h1.sync ls v hf hv
              rw [hm1] at hm0; cases hm0
              exact ⟨_, TMap.insert m' t, rfl, by simp [parse_append_tok, hp], hR.insert _ _ t hr⟩
        · simp only [ne_eq, he, not_false_eq_true, ↓reduceIte]
          exact h2


theorem delete_inv (hR : RelOK R) (s : St) (id : String) (e : Option Nat) (f : Fault) (h : Inv R s) :
    Inv R (delete s id e f).1 := by
  unfold delete
  have h1 := load_inv hR s f h
  cases hl : load s f with
  | mk s1 r =>
  rw [hl] at h1
  cases r with
  | none => exact h1
  | some e0 =>
    obtain ⟨hL, _⟩ := load_ok s f s1 e0 hl
    simp only
    cases hm1 : s1.mem with
    | none => exact h1
    | some m =>
      simp only
      obtain ⟨ls, v, hf, hv⟩ := loaded_file_of_mem hL m hm1
      cases hfind : TMap.find m id with
      | none => exact h1
      | some old =>
        simp only
        by_cases he : e = s1.etag
        · simp only [he, ne_eq, not_true_eq_false, ↓reduceIte]
          have hn3 : (ids (TMap.erase m id)).Nodup := nodup_erase m id (h1.nodup m hm1)
          obtain ⟨hok, hfail⟩ := rewrite_inv hR s1 h1 f ls v hf hv (TMap.erase m id) hn3
          cases hrw : rewrite { s1 with mem := some (TMap.erase m id) } f with
          | mk s4 ok =>
          rw [hrw] at hok hfail
          cases ok with
          | true => exact hok rfl
          | false =>
            simp only [Bool.false_eq_true, ↓reduceIte]
            obtain ⟨hs4, _⟩ := hfail rfl
            simp only at hs4
            rw [hs4, rollback]
            simp only
            exact inv_setMem hR h1 m _ hm1 (nodup_insert _ _ hn3)
              (hR.ofEquiv _ _ (equiv_insert_erase_old m id old hfind))
        · simp only [ne_eq, he, not_false_eq_true, ↓reduceIte]
          exact h1

/-- The sweep without the reload-on-failure (`Expire` before the fix) keeps the invariant only if
the relation tolerates dropping entries from the live map (`Sub` does), or the sweep is not made to
fail. -/
theorem expireSweep_inv (hR : RelOK R) (s : St) (now : Int) (f : Fault) (h : Inv R s)
    (hs : (∀ (m : TMap) (p : Tok → Bool), (ids m).Nodup → R (m.filter p) m) ∨ f = .none ∨
      (expireSweep s now f).2 = .ok) :
    Inv R (expireSweep s now f).1 := by
  unfold expireSweep at hs ⊢
  have h1 := load_inv hR s f h
  cases hl : load s f with
  | mk s1 r =>
  rw [hl] at h1 hs
  cases r with
  | none => exact h1
  | some e0 =>
    obtain ⟨hL, _⟩ := load_ok s f s1 e0 hl
    simp only at hs ⊢
    cases hm1 : s1.mem with
    | none => exact h1
    | some m =>
      simp only [hm1] at hs ⊢
      obtain ⟨ls, v, hf, hv⟩ := loaded_file_of_mem hL m hm1
      by_cases hlen : (List.filter (fun t => !sweepable now t) m).length = m.length
      · simp only [hlen, ↓reduceIte]; exact h1
      · simp only [hlen, ↓reduceIte] at hs ⊢
        have hn3 : (ids (m.filter (fun t => !sweepable now t))).Nodup := nodup_filter m _ (h1.nodup m hm1)
        obtain ⟨hok, hfail⟩ := rewrite_inv hR s1 h1 f ls v hf hv _ hn3
        cases hrw : rewrite { s1 with mem := some (m.filter (fun t => !sweepable now t)) } f with
        | mk s4 ok =>
        rw [hrw] at hok hfail hs
        cases ok with
        | true => exact hok rfl
        | false =>
          obtain ⟨hs4, hfn⟩ := hfail rfl
          simp only at hs4 ⊢
          rw [hs4]
          rcases hs with hsub | hnone | hres
          · exact inv_setMem hR h1 m _ hm1 hn3 (hsub m _ (h1.nodup m hm1))
          · exact absurd hnone hfn
          · simp at hres

theorem get_inv (hR : RelOK R) (s : St) (id : String) (h : Inv R s) : Inv R (get s id).1 := by
  unfold get
  have h1 := load_inv hR s .none h
  cases hl : load s .none with
  | mk s1 r =>
  rw [hl] at h1
  cases r with
  | none => exact h1
  | some e0 =>
    simp only
    cases s1.mem with
    | none => exact h1
    | some m =>
      simp only
      cases TMap.find m id <;> exact h1

theorem list_inv (hR : RelOK R) (s : St) (g : Option String) (h : Inv R s) : Inv R (list s g).1 := by
  unfold list
  have h1 := load_inv hR s .none h
  cases hl : load s .none with
  | mk s1 r =>
  rw [hl] at h1
  cases r <;> exact h1

theorem extEdit_inv (s : St) (ls : List Line) (h : Inv R s) : Inv R (extEdit s ls) := by
  refine ⟨?_, ?_, h.nodup, ?_⟩
  · intro ls' v h'; cases h'; exact Nat.lt_succ_self _
  · intro v hv; exact Nat.lt_succ_of_lt (h.memLt v hv)
  · intro ls' v h' hv
    cases h'
    exact absurd (h.memLt _ hv) (Nat.lt_irrefl _)

theorem extRemove_inv (s : St) (h : Inv R s) : Inv R (extRemove s) :=
  ⟨(by intro ls v h'; cases h'), h.memLt, h.nodup, (by intro ls v h'; cases h')⟩

theorem restart_inv (s : St) (h : Inv R s) : Inv R (restart s) :=
  ⟨h.fileLt, (by intro v hv; cases hv), (by intro m hm; cases hm), (by intro ls v _ hv; cases hv)⟩

theorem setFile_inv (s : St) (h : Inv R s) : Inv R (setFile s) :=
  ⟨h.fileLt, (by intro v hv; cases hv), h.nodup, (by intro ls v _ hv; cases hv)⟩

theorem load_ok_none_fault (s : St) (f : Fault) (s1 : St) (e0 : Option Nat) (h : load s f = (s1, some e0)) :
    load s .none = (s1, some e0) := by
  rcases load_cases s f with ⟨hf, hl⟩ | ⟨ls, v, hf, hv, hl⟩ | ⟨ls, v, hf, hv, hl⟩ | ⟨ls, v, m, hf, hv, _, hp, hl⟩
  · rw [← h, hl]; unfold load; simp [hf]
  · rw [← h, hl]; unfold load; simp [hf, hv, St.etag]
  · rw [hl] at h; cases h
  · rw [← h, hl]; unfold load; simp [hf, hv, hp]

theorem honoured_of_load (s : St) (f : Fault) (s1 : St) (e0 : Option Nat) (h : load s f = (s1, some e0)) :
    honoured s = some (s1.mem.getD []) := by
  unfold honoured
  rw [load_ok_none_fault s f s1 e0 h]

theorem st_eta (s : St) (m : TMap) (h : s.mem = some m) : { s with mem := some m } = s := by
  cases s; simp only at h; subst h; rfl

/-- `Update` after a successful `load`, in closed form. -/
theorem update_closed (s : St) (t : Tok) (e : Option Nat) (f : Fault) (s1 : St) (e0 : Option Nat)
    (hl : load s f = (s1, some e0)) :
    update s t e f =
      match TMap.find (s1.mem.getD []) t.id with
      | some old =>
        if e ≠ s1.memVer then ({ s1 with mem := some (s1.mem.getD []) }, .mismatch)
        else if f = .none then
          ({ s1 with mem := some (TMap.insert (s1.mem.getD []) t),
                     file := some ((sortExp (TMap.insert (s1.mem.getD []) t)).map Line.tok, s1.next),
                     memVer := some s1.next, next := s1.next + 1 }, .ok)
        else ({ s1 with mem := some (TMap.insert (TMap.insert (s1.mem.getD []) t) old) }, .err)
      | none =>
        if e ≠ none then ({ s1 with mem := some (s1.mem.getD []) }, .mismatch)
        else ((add { s1 with mem := some (s1.mem.getD []) } t f).1,
              if (add { s1 with mem := some (s1.mem.getD []) } t f).2 then .ok else .err) := by
  obtain ⟨hL, _⟩ := load_ok s f s1 e0 hl
  unfold update
  rw [hl]
  obtain ⟨mem1, ver1, file1, next1⟩ := s1
  simp only
  cases mem1 with
  | none => simp [find_nil]
  | some m =>
    simp only [Option.getD_some]
    obtain ⟨ls, v, hf, hv⟩ := loaded_file_of_mem hL m rfl
    simp only at hf hv
    subst hf hv
    cases hfind : TMap.find m t.id with
    | none => simp
    | some old =>
      simp only [St.etag]
      by_cases he : e = some v
      · simp only [he, ne_eq, not_true_eq_false, ↓reduceIte]
        have := rewrite_nonempty { mem := some (TMap.insert m t), memVer := some v, file := some (ls, v), next := next1 }
          f t (TMap.erase m t.id) ls v rfl rfl rfl
        rw [this]
        by_cases hfn : f = .none
        · simp [hfn, TMap.insert]
        · simp [hfn, rollback]
      · simp [he]

/-- `Delete` after a successful `load`, in closed form. -/
theorem delete_closed (s : St) (id : String) (e : Option Nat) (f : Fault) (s1 : St) (e0 : Option Nat)
    (hl : load s f = (s1, some e0)) :
    delete s id e f =
      match TMap.find (s1.mem.getD []) id with
      | none => (s1, .notfound)
      | some old =>
        if e ≠ s1.memVer then (s1, .mismatch)
        else if TMap.erase (s1.mem.getD []) id = [] then
          ({ s1 with mem := some [], file := none }, .ok)
        else if f = .none then
          ({ s1 with mem := some (TMap.erase (s1.mem.getD []) id),
                     file := some ((sortExp (TMap.erase (s1.mem.getD []) id)).map Line.tok, s1.next),
                     memVer := some s1.next, next := s1.next + 1 }, .ok)
        else ({ s1 with mem := some (TMap.insert (TMap.erase (s1.mem.getD []) id) old) }, .err) := by
  obtain ⟨hL, _⟩ := load_ok s f s1 e0 hl
  unfold delete
  rw [hl]
  simp only
  cases hm1 : s1.mem with
  | none => simp [find_nil]
  | some m =>
    simp only [Option.getD_some]
    obtain ⟨ls, v, hf, hv⟩ := loaded_file_of_mem hL m hm1
    cases hfind : TMap.find m id with
    | none => simp
    | some old =>
      simp only [St.etag]
      by_cases he : e = s1.memVer
      · simp only [he, ne_eq, not_true_eq_false, ↓reduceIte]
        cases her : TMap.erase m id with
        | nil =>
          rw [rewrite_empty _ f (Or.inr rfl)]
          simp
        | cons x xs =>
          have := rewrite_nonempty { s1 with mem := some (x :: xs) } f x xs ls v rfl hf hv
          rw [this]
          by_cases hfn : f = .none
          · simp [hfn]
          · simp [hfn, rollback]
      · simp [he]

/-- The sweep of `Expire` (without the reload-on-failure) after a successful `load`, in closed form. -/
theorem expireSweep_closed (s : St) (now : Int) (f : Fault) (s1 : St) (e0 : Option Nat)
    (hl : load s f = (s1, some e0)) :
    expireSweep s now f =
      let m := s1.mem.getD []
      let keep := m.filter (fun t => !sweepable now t)
      if keep.length = m.length then (s1, .ok)
      else if keep = [] then ({ s1 with mem := some [], file := none }, .ok)
      else if f = .none then
        ({ s1 with mem := some keep, file := some ((sortExp keep).map Line.tok, s1.next),
                   memVer := some s1.next, next := s1.next + 1 }, .ok)
      else ({ s1 with mem := some keep }, .err) := by
  obtain ⟨hL, _⟩ := load_ok s f s1 e0 hl
  unfold expireSweep
  rw [hl]
  simp only
  cases hm1 : s1.mem with
  | none => simp
  | some m =>
    simp only [Option.getD_some]
    obtain ⟨ls, v, hf, hv⟩ := loaded_file_of_mem hL m hm1
    by_cases hlen : (List.filter (fun t => !sweepable now t) m).length = m.length
    · simp [hlen]
    · simp only [hlen, ↓reduceIte]
      cases hk : List.filter (fun t => !sweepable now t) m with
      | nil =>
        rw [rewrite_empty _ f (Or.inr rfl)]
        simp
      | cons x xs =>
        have := rewrite_nonempty { s1 with mem := some (x :: xs) } f x xs ls v rfl hf hv
        rw [this]
        by_cases hfn : f = .none
        · simp [hfn]
        · simp [hfn]


/-! ### how an operation can move the file version -/

/-- The file keeps its version, disappears, or gets the version `s.next` (never used before). -/
structure FileStep (s s' : St) : Prop where
  mono : s.next ≤ s'.next
  ver : fileVer s' = fileVer s ∨ fileVer s' = none ∨ (fileVer s' = some s.next ∧ s.next < s'.next)

theorem fileStep_same {s s' : St} (hf : s'.file = s.file) (hn : s'.next = s.next) : FileStep s s' :=
  ⟨by rw [hn]; exact Nat.le_refl _, Or.inl (by simp [fileVer, hf])⟩

theorem fileStep_of_eq {s s1 s' : St} (hf : s1.file = s.file) (hn : s1.next = s.next) (h : FileStep s1 s') :
    FileStep s s' := by
  have hv : fileVer s1 = fileVer s := by simp [fileVer, hf]
  exact ⟨hn ▸ h.mono, by rw [← hv, ← hn]; exact h.ver⟩

theorem fileStep_fresh (s : St) (m : Option TMap) (ls : List Line) :
    FileStep s { s with mem := m, file := some (ls, s.next), memVer := some s.next, next := s.next + 1 } :=
  ⟨Nat.le_succ _, Or.inr (Or.inr ⟨rfl, Nat.lt_succ_self _⟩)⟩

theorem fileStep_gone (s : St) (m : Option TMap) : FileStep s { s with mem := m, file := none } :=
  ⟨Nat.le_refl _, Or.inr (Or.inl rfl)⟩

theorem fileStep_mem (s : St) (m : Option TMap) : FileStep s { s with mem := m } := fileStep_same rfl rfl

theorem load_file (s : St) (f : Fault) : (load s f).1.file = s.file ∧ (load s f).1.next = s.next := by
  rcases load_cases s f with ⟨_, hl⟩ | ⟨_, _, _, _, hl⟩ | ⟨_, _, _, _, hl⟩ | ⟨_, _, _, _, _, _, _, hl⟩ <;>
    rw [hl] <;> exact ⟨rfl, rfl⟩

theorem add_fileStep (s : St) (t : Tok) (f : Fault) : FileStep s (add s t f).1 := by
  rw [add_cases]
  cases f with
  | fd => exact fileStep_same rfl rfl
  | fs =>
    cases hf : s.file with
    | some _ => simp only; exact fileStep_same rfl rfl
    | none => exact ⟨Nat.le_succ _, Or.inr (Or.inr ⟨rfl, Nat.lt_succ_self _⟩)⟩
  | none => exact ⟨Nat.le_succ _, Or.inr (Or.inr ⟨rfl, Nat.lt_succ_self _⟩)⟩

theorem update_fileStep (s : St) (t : Tok) (e : Option Nat) (f : Fault) : FileStep s (update s t e f).1 := by
  have hlf := load_file s f
  cases hl : load s f with
  | mk s1 r =>
  rw [hl] at hlf
  simp only at hlf
  refine fileStep_of_eq hlf.1 hlf.2 ?_
  cases r with
  | none =>
    have : update s t e f = (s1, .err) := by unfold update; rw [hl]
    rw [this]; exact fileStep_same rfl rfl
  | some e0 =>
    rw [update_closed s t e f s1 e0 hl]
    cases TMap.find (s1.mem.getD []) t.id with
    | some old =>
      simp only
      split
      · exact fileStep_mem s1 _
      · split
        · exact fileStep_fresh s1 _ _
        · exact fileStep_mem s1 _
    | none =>
      simp only
      split
      · exact fileStep_mem s1 _
      · exact fileStep_of_eq (s1 := { s1 with mem := some (s1.mem.getD []) }) rfl rfl (add_fileStep _ t f)

theorem delete_fileStep (s : St) (id : String) (e : Option Nat) (f : Fault) : FileStep s (delete s id e f).1 := by
  have hlf := load_file s f
  cases hl : load s f with
  | mk s1 r =>
  rw [hl] at hlf
  simp only at hlf
  refine fileStep_of_eq hlf.1 hlf.2 ?_
  cases r with
  | none =>
    have : delete s id e f = (s1, .err) := by unfold delete; rw [hl]
    rw [this]; exact fileStep_same rfl rfl
  | some e0 =>
    rw [delete_closed s id e f s1 e0 hl]
    cases TMap.find (s1.mem.getD []) id with
    | none => exact fileStep_same rfl rfl
    | some old =>
      simp only
      split
      · exact fileStep_same rfl rfl
      · split
        · exact fileStep_gone s1 _
        · split
          · exact fileStep_fresh s1 _ _
          · exact fileStep_mem s1 _

theorem expireSweep_fileStep (s : St) (now : Int) (f : Fault) : FileStep s (expireSweep s now f).1 := by
  have hlf := load_file s f
  cases hl : load s f with
  | mk s1 r =>
  rw [hl] at hlf
  simp only at hlf
  refine fileStep_of_eq hlf.1 hlf.2 ?_
  cases r with
  | none =>
    have : expireSweep s now f = (s1, .err) := by unfold expireSweep; rw [hl]
    rw [this]; exact fileStep_same rfl rfl
  | some e0 =>
    rw [expireSweep_closed s now f s1 e0 hl]
    simp only
    split
    · exact fileStep_same rfl rfl
    · split
      · exact fileStep_gone s1 _
      · split
        · exact fileStep_fresh s1 _ _
        · exact fileStep_mem s1 _

/-- the reload-on-failure of `Expire` touches neither the file nor the version counter -/
theorem expire_fst (s : St) (now : Int) (f : Fault) :
    (expire s now f).1 = (expireSweep s now f).1 ∨ (expire s now f).1 = (expireSweep s now f).1.reset := by
  unfold expire
  simp only
  split
  · exact Or.inr rfl
  · exact Or.inl rfl

theorem expire_fileStep (s : St) (now : Int) (f : Fault) : FileStep s (expire s now f).1 := by
  have h := expireSweep_fileStep s now f
  rcases expire_fst s now f with e | e
  · rw [e]; exact h
  · rw [e]; exact ⟨h.mono, h.ver⟩

theorem get_file (s : St) (id : String) : (get s id).1 = (load s .none).1 := by
  unfold get
  cases load s .none with
  | mk s1 r =>
  cases r with
  | none => rfl
  | some e0 =>
    simp only
    cases s1.mem with
    | none => rfl
    | some m => simp only; cases TMap.find m id <;> rfl

theorem list_file (s : St) (g : Option String) : (list s g).1 = (load s .none).1 := by
  unfold list
  cases load s .none with
  | mk s1 r => cases r <;> rfl

theorem step_fileStep (s : St) (op : Op) : FileStep s (step s op).1 := by
  cases op with
  | update t e f => exact update_fileStep s t e f
  | delete id e f => exact delete_fileStep s id e f
  | get id =>
    have := load_file s .none
    simp only [step]; rw [get_file]; exact fileStep_same this.1 this.2
  | list g =>
    have := load_file s .none
    simp only [step]; rw [list_file]; exact fileStep_same this.1 this.2
  | expire now f => exact expire_fileStep s now f
  | extEdit ls => exact ⟨Nat.le_succ _, Or.inr (Or.inr ⟨rfl, Nat.lt_succ_self _⟩)⟩
  | extRemove => exact ⟨Nat.le_refl _, Or.inr (Or.inl rfl)⟩
  | restart => exact fileStep_same rfl rfl
  | setFile => exact fileStep_same rfl rfl

/-- version `v` belongs to the past: it was handed out, and the file is not at it -/
def Stale (v : Nat) (s : St) : Prop := v < s.next ∧ fileVer s ≠ some v

theorem stale_fileStep {v : Nat} {s s' : St} (h : Stale v s) (hs : FileStep s s') : Stale v s' := by
  refine ⟨Nat.lt_of_lt_of_le h.1 hs.mono, ?_⟩
  rcases hs.ver with e | e | ⟨e, _⟩
  · rw [e]; exact h.2
  · rw [e]; simp
  · rw [e]; intro h'; cases h'; exact Nat.lt_irrefl _ h.1

theorem stale_run {v : Nat} (ops : List Op) {s : St} (h : Stale v s) : Stale v (run s ops) := by
  induction ops generalizing s with
  | nil => exact h
  | cons op ops ih => exact ih (stale_fileStep h (step_fileStep s op))


/-! ### what a successful conditional write implies -/

theorem update_ok (s : St) (t : Tok) (e : Option Nat) (f : Fault) (h : (update s t e f).2 = .ok) :
    fileVer (update s t e f).1 = some s.next ∧
    ((∃ m old, honoured s = some m ∧ TMap.find m t.id = some old ∧ e = fileVer s ∧ e ≠ none) ∨
     (∃ m, honoured s = some m ∧ TMap.find m t.id = none ∧ e = none)) := by
  cases hl : load s f with
  | mk s1 r =>
  cases r with
  | none =>
    have : update s t e f = (s1, .err) := by unfold update; rw [hl]
    rw [this] at h; cases h
  | some e0 =>
    obtain ⟨hL, _⟩ := load_ok s f s1 e0 hl
    have hh := honoured_of_load s f s1 e0 hl
    rw [update_closed s t e f s1 e0 hl] at h ⊢
    cases hfind : TMap.find (s1.mem.getD []) t.id with
    | some old =>
      simp only [hfind] at h ⊢
      by_cases he : e = s1.memVer
      · simp only [he, ne_eq, not_true_eq_false, ↓reduceIte] at h ⊢
        by_cases hfn : f = .none
        · simp only [hfn, ↓reduceIte]
          refine ⟨by simp [fileVer, hL.next], Or.inl ⟨_, old, hh, hfind, hL.ver, ?_⟩⟩
          -- the map is not empty, so the file exists
          cases hm1 : s1.mem with
          | none => simp [hm1, find_nil] at hfind
          | some m =>
            obtain ⟨ls, v, _, hv⟩ := loaded_file_of_mem hL m hm1
            simp [hv]
        · simp [hfn] at h
      · simp [he] at h
    | none =>
      simp only [hfind] at h ⊢
      by_cases he : e = none
      · simp only [he, ne_eq, not_true_eq_false, ↓reduceIte] at h ⊢
        rw [add_cases] at h ⊢
        cases f with
        | fd => simp at h
        | fs => simp at h
        | none =>
          simp only
          exact ⟨by simp [fileVer, hL.next], Or.inr ⟨_, hh, hfind, by trivial⟩⟩
      · simp [he] at h

theorem delete_ok (s : St) (id : String) (e : Option Nat) (f : Fault) (h : (delete s id e f).2 = .ok) :
    (fileVer (delete s id e f).1 = some s.next ∨ fileVer (delete s id e f).1 = none) ∧
    ∃ m old, honoured s = some m ∧ TMap.find m id = some old ∧ e = fileVer s ∧ e ≠ none := by
  cases hl : load s f with
  | mk s1 r =>
  cases r with
  | none =>
    have : delete s id e f = (s1, .err) := by unfold delete; rw [hl]
    rw [this] at h; cases h
  | some e0 =>
    obtain ⟨hL, _⟩ := load_ok s f s1 e0 hl
    have hh := honoured_of_load s f s1 e0 hl
    rw [delete_closed s id e f s1 e0 hl] at h ⊢
    cases hfind : TMap.find (s1.mem.getD []) id with
    | none => simp [hfind] at h
    | some old =>
      simp only [hfind] at h ⊢
      have hne : s1.memVer ≠ none := by
        cases hm1 : s1.mem with
        | none => simp [hm1, find_nil] at hfind
        | some m =>
          obtain ⟨ls, v, _, hv⟩ := loaded_file_of_mem hL m hm1
          simp [hv]
      by_cases he : e = s1.memVer
      · simp only [he, ne_eq, not_true_eq_false, ↓reduceIte] at h ⊢
        refine ⟨?_, _, old, hh, hfind, hL.ver, hne⟩
        split
        · right; rfl
        · split
          · left; simp [fileVer, hL.next]
          · rename_i h1 h2; simp [h1, h2] at h
      · simp [he] at h

/-! ### no panic -/

theorem update_no_panic (s : St) (t : Tok) (e : Option Nat) (f : Fault) : (update s t e f).2 ≠ .panic := by
  cases hl : load s f with
  | mk s1 r =>
  cases r with
  | none =>
    have : update s t e f = (s1, .err) := by unfold update; rw [hl]
    rw [this]; simp
  | some e0 =>
    rw [update_closed s t e f s1 e0 hl]
    cases TMap.find (s1.mem.getD []) t.id with
    | some old => simp only; repeat' split
                  all_goals simp
    | none => simp only; repeat' split
              all_goals simp

theorem delete_no_panic (s : St) (id : String) (e : Option Nat) (f : Fault) : (delete s id e f).2 ≠ .panic := by
  cases hl : load s f with
  | mk s1 r =>
  cases r with
  | none =>
    have : delete s id e f = (s1, .err) := by unfold delete; rw [hl]
    rw [this]; simp
  | some e0 =>
    rw [delete_closed s id e f s1 e0 hl]
    cases TMap.find (s1.mem.getD []) id with
    | none => simp
    | some old => simp only; repeat' split
                  all_goals simp

theorem expireSweep_no_panic (s : St) (now : Int) (f : Fault) : (expireSweep s now f).2 ≠ .panic := by
  cases hl : load s f with
  | mk s1 r =>
  cases r with
  | none =>
    have : expireSweep s now f = (s1, .err) := by unfold expireSweep; rw [hl]
    rw [this]; simp
  | some e0 =>
    rw [expireSweep_closed s now f s1 e0 hl]
    simp only
    repeat' split
    all_goals simp

theorem expire_no_panic (s : St) (now : Int) (f : Fault) : (expire s now f).2 ≠ .panic := by
  have h := expireSweep_no_panic s now f
  unfold expire
  simp only
  split
  · simp
  · exact h

theorem step_no_panic (s : St) (op : Op) : (step s op).2 ≠ .panic := by
  cases op with
  | update t e f => exact update_no_panic s t e f
  | delete id e f => exact delete_no_panic s id e f
  | get id =>
    simp only [step, get]
    cases load s .none with
    | mk s1 r =>
    cases r with
    | none => simp
    | some e0 =>
      simp only
      cases s1.mem with
      | none => simp
      | some m => simp only; cases TMap.find m id <;> simp
  | list g => simp only [step]; split <;> simp
  | expire now f => exact expire_no_panic s now f
  | extEdit ls => simp [step]
  | extRemove => simp [step]
  | restart => simp [step]
  | setFile => simp [step]


/-- the sweep returns `ok` or `err` -/
theorem expireSweep_res (s : St) (now : Int) (f : Fault) :
    (expireSweep s now f).2 = .ok ∨ (expireSweep s now f).2 = .err := by
  cases hl : load s f with
  | mk s1 r =>
  cases r with
  | none =>
    have : expireSweep s now f = (s1, .err) := by unfold expireSweep; rw [hl]
    rw [this]; exact Or.inr rfl
  | some e0 =>
    rw [expireSweep_closed s now f s1 e0 hl]
    simp only
    repeat' split
    all_goals simp

/-- a successful `Expire` is its sweep -/
theorem expire_of_ok (s : St) (now : Int) (f : Fault) (h : (expire s now f).2 = .ok) :
    expire s now f = expireSweep s now f := by
  unfold expire at h ⊢
  simp only at h ⊢
  split
  · rename_i herr; simp [herr] at h
  · rfl

/-- a failed `Expire` leaves the reset state of its sweep -/
theorem expire_of_err (s : St) (now : Int) (f : Fault) (h : (expireSweep s now f).2 = .err) :
    expire s now f = ((expireSweep s now f).1.reset, .err) := by
  unfold expire
  simp only [h, ↓reduceIte]

theorem expire_res (s : St) (now : Int) (f : Fault) : (expire s now f).2 = .ok ∨ (expire s now f).2 = .err := by
  rcases expireSweep_res s now f with hok | herr
  · left
    unfold expire
    simp only [hok, reduceCtorEq, ↓reduceIte]
  · right; rw [expire_of_err s now f herr]

theorem fileLt_fileStep {s s' : St} (h : ∀ ls v, s.file = some (ls, v) → v < s.next) (hs : FileStep s s') :
    ∀ ls v, s'.file = some (ls, v) → v < s'.next := by
  intro ls v hf
  have hv : fileVer s' = some v := by simp [fileVer, hf]
  rcases hs.ver with e | e | ⟨e, hlt⟩
  · rw [hv] at e
    cases hf0 : s.file with
    | none => simp [fileVer, hf0] at e
    | some lv =>
      obtain ⟨ls0, v0⟩ := lv
      simp only [fileVer, hf0, Option.map_some, Option.some.injEq] at e
      subst e
      exact Nat.lt_of_lt_of_le (h ls0 _ hf0) hs.mono
  · rw [hv] at e; cases e
  · rw [hv] at e; cases e; exact hlt

/-- a reset state satisfies the invariant as soon as the file version is below the counter -/
theorem inv_reset_of_fileLt {s : St} (h : ∀ ls v, s.file = some (ls, v) → v < s.next) : Inv R s.reset :=
  ⟨h, (by intro v hv; cases hv), (by intro m hm; cases hm), (by intro ls v _ hv; cases hv)⟩

/-- `Expire` (with the reload-on-failure) keeps the invariant, for either relation and every fault:
a successful sweep keeps it, a failed one is followed by `reset`, after which nothing is mirrored. -/
theorem expire_inv (hR : RelOK R) (s : St) (now : Int) (f : Fault) (h : Inv R s) :
    Inv R (expire s now f).1 := by
  rcases expireSweep_res s now f with hok | herr
  · have he : expire s now f = expireSweep s now f := by
      unfold expire
      simp only [hok, reduceCtorEq, ↓reduceIte]
    rw [he]
    exact expireSweep_inv hR s now f h (Or.inr (Or.inr hok))
  · rw [expire_of_err s now f herr]
    exact inv_reset_of_fileLt (fileLt_fileStep h.fileLt (expireSweep_fileStep s now f))

theorem step_inv (hR : RelOK R) (s : St) (op : Op) (h : Inv R s) : Inv R (step s op).1 := by
  cases op with
  | update t e f => exact update_inv hR s t e f h
  | delete id e f => exact delete_inv hR s id e f h
  | get id => exact get_inv hR s id h
  | list g => exact list_inv hR s (some g) h
  | expire now f => exact expire_inv hR s now f h
  | extEdit ls => exact extEdit_inv s ls h
  | extRemove => exact extRemove_inv s h
  | restart => exact restart_inv s h
  | setFile => exact setFile_inv s h

/-- states reachable by any history (faults, external edits, restarts included) -/
inductive Reach : St → Prop where
  | init : Reach {}
  | step (s : St) (op : Op) : Reach s → Reach (step s op).1

theorem inv_sub_of_equiv {s : St} (h : Inv Equiv s) : Inv Sub s :=
  ⟨h.fileLt, h.memLt, h.nodup, fun ls v hf hv =>
    let ⟨m, m', hm, hp, he⟩ := h.sync ls v hf hv
    ⟨m, m', hm, hp, sub_of_equiv he⟩⟩

/-- every reachable state mirrors the file exactly (when it mirrors anything) -/
theorem reach_inv {s : St} (h : Reach s) : Inv Equiv s := by
  induction h with
  | init => exact inv_init
  | step s op _ ih => exact step_inv relOK_equiv s op ih

theorem reach_inv_sub {s : St} (h : Reach s) : Inv Sub s := inv_sub_of_equiv (reach_inv h)

def OptRel (R : TMap → TMap → Prop) : Option TMap → Option TMap → Prop
  | none, none => True
  | some a, some b => R a b
  | _, _ => False

/-- The live view against the view of a freshly started server, for either relation. -/
theorem honoured_rel (hR : RelOK R) (s : St) (h : Inv R s) : OptRel R (honoured s) (freshHonoured s) := by
  unfold freshHonoured honoured
  rcases load_cases s .none with ⟨hf, hl⟩ | ⟨ls, v, hf, hv, hl⟩ | ⟨ls, v, hf, hv, hl⟩ | ⟨ls, v, m, hf, hv, _, hp, hl⟩
  · -- no file: nothing honoured, by either
    have hl' : load (restart s) .none = ((restart s).reset, some none) := by
      unfold load; simp [restart, hf]
    rw [hl, hl']
    exact hR.ofEquiv _ _ (equiv_refl _)
  · -- the live server trusts its copy
    obtain ⟨m, m', hm, hp, hr⟩ := h.sync ls v hf hv
    have hl' : load (restart s) .none = ({ restart s with mem := some m', memVer := some v }, some (some v)) := by
      unfold load; simp [restart, hf, hp]
    rw [hl, hl']
    simpa [OptRel, hm] using hr
  · -- the live server re-reads and fails: so does the fresh one
    have hp : parse ls = none := by
      unfold load at hl
      simp only [hf, hv, ↓reduceIte, reduceCtorEq] at hl
      cases hp : parse ls with
      | none => rfl
      | some m => simp [hp] at hl
    have hl' : load (restart s) .none = ((restart s).reset, none) := by
      unfold load; simp [restart, hf, hp]
    rw [hl, hl']
    trivial
  · -- both re-read
    have hl' : load (restart s) .none = ({ restart s with mem := some m, memVer := some v }, some (some v)) := by
      unfold load; simp [restart, hf, hp]
    rw [hl, hl']
    exact hR.ofEquiv _ _ (equiv_refl _)


/-! ### revocation: a token id absent from memory and from the file -/

/-- `id` is in neither the in-memory map (mirrored or stale) nor the parsed file. -/
def Absent (id : String) (s : St) : Prop :=
  (∀ m, s.mem = some m → TMap.find m id = none) ∧
  (∀ ls v m', s.file = some (ls, v) → parse ls = some m' → TMap.find m' id = none)

theorem find_filter_none (m : TMap) (p : Tok → Bool) (id : String) (h : TMap.find m id = none) :
    TMap.find (m.filter p) id = none := by
  rw [find_none] at h ⊢
  intro t ht
  exact h t (List.mem_filter.mp ht).1

theorem find_erase_none (m : TMap) (i id : String) (h : TMap.find m id = none) :
    TMap.find (TMap.erase m i) id = none := find_filter_none m _ id h

theorem find_insert_none (m : TMap) (t : Tok) (id : String) (ht : t.id ≠ id) (h : TMap.find m id = none) :
    TMap.find (TMap.insert m t) id = none := by
  rw [find_insert]; simp [ht, h]

theorem find_getD_none (mem : Option TMap) (id : String) (h : ∀ m, mem = some m → TMap.find m id = none) :
    TMap.find (mem.getD []) id = none := by
  cases mem with
  | none => rfl
  | some m => exact h m rfl

/-- a file written from a map that lacks `id` parses to a map that lacks `id` -/
theorem find_parse_sortExp_none (m3 : TMap) (id : String) (h : TMap.find m3 id = none) (m' : TMap)
    (hp : parse ((sortExp m3).map Line.tok) = some m') : TMap.find m' id = none := by
  rw [parse_map_tok] at hp
  cases hp
  rw [parseToks, find_foldl_insert, find_nil, Option.or_none]
  rw [find_none] at h ⊢
  intro t ht
  exact h t ((sortExp_perm m3).mem_iff.mp (List.mem_reverse.mp ht))

theorem absent_setMem {id : String} {s : St} (h : Absent id s) (m : TMap) (hm : TMap.find m id = none) :
    Absent id { s with mem := some m } :=
  ⟨by intro m' hm'; cases hm'; exact hm, h.2⟩

theorem absent_gone {id : String} {s : St} (m : TMap) (hm : TMap.find m id = none) :
    Absent id { s with mem := some m, file := none } :=
  ⟨by intro m' hm'; cases hm'; exact hm, by intro ls v m' h'; cases h'⟩

theorem absent_rewritten {id : String} (s : St) (m : TMap) (hm : TMap.find m id = none) :
    Absent id { s with mem := some m, file := some ((sortExp m).map Line.tok, s.next), memVer := some s.next,
                       next := s.next + 1 } :=
  ⟨by intro m' hm'; cases hm'; exact hm,
   by intro ls v m' h' hp; cases h'; exact find_parse_sortExp_none m id hm m' hp⟩

theorem load_absent {id : String} (s : St) (f : Fault) (h : Absent id s) : Absent id (load s f).1 := by
  rcases load_cases s f with ⟨_, hl⟩ | ⟨_, _, _, _, hl⟩ | ⟨_, _, _, _, hl⟩ | ⟨ls, v, m, hf, _, _, hp, hl⟩
  · rw [hl]; exact ⟨(by intro m hm; cases hm), h.2⟩
  · rw [hl]; exact h
  · rw [hl]; exact ⟨(by intro m hm; cases hm), h.2⟩
  · rw [hl]; exact ⟨by intro m' hm'; cases hm'; exact h.2 ls v m hf hp, h.2⟩

theorem add_absent {id : String} (s : St) (t : Tok) (f : Fault) (ht : t.id ≠ id) (h : Absent id s) :
    Absent id (add s t f).1 := by
  rw [add_cases]
  cases f with
  | fd => exact h
  | fs =>
    cases hf : s.file with
    | some _ => exact h
    | none =>
      refine ⟨h.1, ?_⟩
      intro ls v m' h' hp
      cases h'
      cases hp
      rfl
  | none =>
    refine ⟨?_, ?_⟩
    · intro m hm; cases hm
      exact find_insert_none _ t id ht (find_getD_none _ id h.1)
    · intro ls v m' h' hp
      cases h'
      rw [parse_append_tok] at hp
      cases hf : s.file with
      | none =>
        rw [hf] at hp
        simp only [parse_nil, Option.map_some, Option.some.injEq] at hp
        rw [← hp]
        exact find_insert_none _ t id ht rfl
      | some lv =>
        obtain ⟨ls0, v0⟩ := lv
        rw [hf] at hp
        simp only at hp
        cases hp0 : parse ls0 with
        | none => simp [hp0] at hp
        | some m0 =>
          simp only [hp0, Option.map_some, Option.some.injEq] at hp
          rw [← hp]
          exact find_insert_none _ t id ht (h.2 ls0 v0 m0 hf hp0)

theorem update_absent {id : String} (s : St) (t : Tok) (e : Option Nat) (f : Fault) (ht : t.id ≠ id)
    (h : Absent id s) : Absent id (update s t e f).1 := by
  have h1 := load_absent s f h
  cases hl : load s f with
  | mk s1 r =>
  rw [hl] at h1
  simp only at h1
  cases r with
  | none =>
    have : update s t e f = (s1, .err) := by unfold update; rw [hl]
    rw [this]; exact h1
  | some e0 =>
    rw [update_closed s t e f s1 e0 hl]
    have hm := find_getD_none s1.mem id h1.1
    cases hfind : TMap.find (s1.mem.getD []) t.id with
    | some old =>
      have hold : old.id ≠ id := by rw [(find_some _ _ _ hfind).2]; exact ht
      simp only
      split
      · exact absent_setMem h1 _ hm
      · split
        · exact absent_rewritten s1 _ (find_insert_none _ t id ht hm)
        · exact absent_setMem h1 _ (find_insert_none _ old id hold (find_insert_none _ t id ht hm))
    | none =>
      simp only
      split
      · exact absent_setMem h1 _ hm
      · exact add_absent _ t f ht (absent_setMem h1 _ hm)

theorem delete_absent {id : String} (s : St) (i : String) (e : Option Nat) (f : Fault)
    (h : Absent id s) : Absent id (delete s i e f).1 := by
  have h1 := load_absent s f h
  cases hl : load s f with
  | mk s1 r =>
  rw [hl] at h1
  simp only at h1
  cases r with
  | none =>
    have : delete s i e f = (s1, .err) := by unfold delete; rw [hl]
    rw [this]; exact h1
  | some e0 =>
    rw [delete_closed s i e f s1 e0 hl]
    have hm := find_getD_none s1.mem id h1.1
    cases hfind : TMap.find (s1.mem.getD []) i with
    | none => exact h1
    | some old =>
      have hold : old.id ≠ id := by
        intro e'
        have := (find_some _ _ _ hfind).2
        rw [e'] at this
        rw [← this, hm] at hfind
        cases hfind
      simp only
      split
      · exact h1
      · split
        · exact absent_gone [] rfl
        · split
          · exact absent_rewritten s1 _ (find_erase_none _ i id hm)
          · exact absent_setMem h1 _ (find_insert_none _ old id hold (find_erase_none _ i id hm))

/-- a successful `Delete(id)` leaves `id` absent, whatever the state was -/
theorem delete_ok_absent (s : St) (id : String) (e : Option Nat) (f : Fault) (h : (delete s id e f).2 = .ok) :
    Absent id (delete s id e f).1 := by
  cases hl : load s f with
  | mk s1 r =>
  cases r with
  | none =>
    have : delete s id e f = (s1, .err) := by unfold delete; rw [hl]
    rw [this] at h; cases h
  | some e0 =>
    rw [delete_closed s id e f s1 e0 hl] at h ⊢
    have hm : TMap.find (TMap.erase (s1.mem.getD []) id) id = none := by rw [find_erase]; simp
    cases hfind : TMap.find (s1.mem.getD []) id with
    | none => simp [hfind] at h
    | some old =>
      simp only [hfind] at h ⊢
      split
      · rename_i h1; simp [h1] at h
      · split
        · exact absent_gone [] rfl
        · split
          · exact absent_rewritten s1 _ hm
          · rename_i h1 h2 h3; simp [h1, h2, h3] at h

theorem expireSweep_absent {id : String} (s : St) (now : Int) (f : Fault) (h : Absent id s) :
    Absent id (expireSweep s now f).1 := by
  have h1 := load_absent s f h
  cases hl : load s f with
  | mk s1 r =>
  rw [hl] at h1
  simp only at h1
  cases r with
  | none =>
    have : expireSweep s now f = (s1, .err) := by unfold expireSweep; rw [hl]
    rw [this]; exact h1
  | some e0 =>
    rw [expireSweep_closed s now f s1 e0 hl]
    have hm := find_filter_none _ (fun t => !sweepable now t) id (find_getD_none s1.mem id h1.1)
    simp only
    split
    · exact h1
    · split
      · exact absent_gone [] rfl
      · split
        · exact absent_rewritten s1 _ hm
        · exact absent_setMem h1 _ hm

theorem absent_reset {id : String} {s : St} (h : Absent id s) : Absent id s.reset :=
  ⟨(by intro m hm; cases hm), h.2⟩

theorem expire_absent {id : String} (s : St) (now : Int) (f : Fault) (h : Absent id s) :
    Absent id (expire s now f).1 := by
  have h1 := expireSweep_absent s now f h
  rcases expire_fst s now f with e | e
  · rw [e]; exact h1
  · rw [e]; exact absent_reset h1

/-- a successful sweep leaves every token it had to sweep absent (`m` duplicate-free) -/
theorem expireSweep_ok_absent (s : St) (now : Int) (f : Fault) (h : (expireSweep s now f).2 = .ok)
    (m : TMap) (hh : honoured s = some m) (hn : (ids m).Nodup) (id : String) (t : Tok)
    (ht : TMap.find m id = some t) (hsw : sweepable now t = true) : Absent id (expireSweep s now f).1 := by
  cases hl : load s f with
  | mk s1 r =>
  cases r with
  | none =>
    have : expireSweep s now f = (s1, .err) := by unfold expireSweep; rw [hl]
    rw [this] at h; cases h
  | some e0 =>
    have hh' := honoured_of_load s f s1 e0 hl
    rw [hh] at hh'
    cases hh'
    rw [expireSweep_closed s now f s1 e0 hl] at h ⊢
    obtain ⟨htm, htid⟩ := find_some _ _ _ ht
    have hkeep : TMap.find ((s1.mem.getD []).filter (fun t => !sweepable now t)) id = none := by
      rw [find_none]
      intro u hu huid
      obtain ⟨hum, hup⟩ := List.mem_filter.mp hu
      have h1 := find_of_mem_nodup _ hn u hum
      rw [huid, ht] at h1
      cases h1
      simp [hsw] at hup
    simp only at h ⊢
    split
    · rename_i hlen
      rw [List.length_filter_eq_length_iff] at hlen
      have := hlen t htm
      simp [hsw] at this
    · split
      · exact absent_gone [] rfl
      · split
        · exact absent_rewritten s1 _ hkeep
        · rename_i h1 h2 h3; simp [h1, h2, h3] at h

/-- a successful `Expire` leaves every token it had to sweep absent (`m` duplicate-free) -/
theorem expire_ok_absent (s : St) (now : Int) (f : Fault) (h : (expire s now f).2 = .ok)
    (m : TMap) (hh : honoured s = some m) (hn : (ids m).Nodup) (id : String) (t : Tok)
    (ht : TMap.find m id = some t) (hsw : sweepable now t = true) : Absent id (expire s now f).1 := by
  have he := expire_of_ok s now f h
  rw [he] at h ⊢
  exact expireSweep_ok_absent s now f h m hh hn id t ht hsw

/-- operations that can bring a token id back -/
def recreates (id : String) : Op → Prop
  | .update t _ _ => t.id = id
  | .extEdit _ => True
  | _ => False

theorem step_absent {id : String} (s : St) (op : Op) (hop : ¬recreates id op) (h : Absent id s) :
    Absent id (step s op).1 := by
  cases op with
  | update t e f => exact update_absent s t e f (by simpa [recreates] using hop) h
  | delete i e f => exact delete_absent s i e f h
  | get i => simp only [step]; rw [get_file]; exact load_absent s .none h
  | list g => simp only [step]; rw [list_file]; exact load_absent s .none h
  | expire now f => exact expire_absent s now f h
  | extEdit ls => exact absurd trivial hop
  | extRemove => exact ⟨h.1, by intro ls v m' h'; cases h'⟩
  | restart => exact ⟨(by intro m hm; cases hm), h.2⟩
  | setFile => exact ⟨h.1, h.2⟩

theorem run_absent {id : String} (ops : List Op) (s : St) (hops : ∀ op ∈ ops, ¬recreates id op)
    (h : Absent id s) : Absent id (run s ops) := by
  induction ops generalizing s with
  | nil => exact h
  | cons op ops ih =>
    exact ih (step s op).1 (fun o ho => hops o (List.mem_cons_of_mem _ ho))
      (step_absent s op (hops op List.mem_cons_self) h)

theorem absent_not_honoured {id : String} (s : St) (h : Absent id s) (m : TMap) (hm : honoured s = some m) :
    TMap.find m id = none := by
  have h1 := load_absent s .none h
  unfold honoured at hm
  cases hl : load s .none with
  | mk s1 r =>
  rw [hl] at hm h1
  cases r with
  | none => simp at hm
  | some e0 =>
    simp only [Option.some.injEq] at hm
    rw [← hm]
    exact find_getD_none _ id h1.1

theorem absent_restart {id : String} (s : St) (h : Absent id s) : Absent id (restart s) :=
  ⟨(by intro m hm; cases hm), h.2⟩

theorem absent_get {id : String} (s : St) (h : Absent id s) :
    (get s id).2 = .error .notfound ∨ (get s id).2 = .error .err := by
  have h1 := load_absent s .none h
  unfold get
  cases hl : load s .none with
  | mk s1 r =>
  rw [hl] at h1
  cases r with
  | none => right; rfl
  | some e0 =>
    left
    simp only
    cases hm1 : s1.mem with
    | none => rfl
    | some m =>
      simp only
      rw [h1.1 m hm1]


end Galene.TokenStore
