import GaleneVerif.Lemmas.CodecsParsers
import GaleneVerif.Lemmas.CodecsRewrite
/-
Lock-step (relational) reasoning for two runs of the same parser on two buffers, and its
application to rtp.Packet.Unmarshal: the result depends only on the length, byte 0, byte 1
(marker), the bytes between offset 4 and the payload start, and (with padding) the last byte.
-/
namespace Galene.Codecs

/-- lock-step relation between two runs: both succeed with related values, or both fail with the
same error -/
def Rel2 {α : Type} (r r' : R α) (Q : α → α → Prop) : Prop :=
  match r, r' with
  | .ok a, .ok a' => Q a a'
  | .error e, .error e' => e = e'
  | _, _ => False

theorem rel_pure {α} {a a' : α} {Q : α → α → Prop} (h : Q a a') : Rel2 (pure a : R α) (pure a') Q := h

theorem rel_throw_bind {α β} {e : Fail} {f f' : α → R β} {Q : β → β → Prop} :
    Rel2 ((throw e : R α) >>= f) ((throw e : R α) >>= f') Q := rfl

theorem rel_ite {α} {c : Prop} [Decidable c] {a a' b b' : R α} {Q : α → α → Prop}
    (h1 : c → Rel2 a a' Q) (h2 : ¬ c → Rel2 b b' Q) :
    Rel2 (if c then a else b) (if c then a' else b') Q := by
  by_cases h : c <;> simp [h, h1, h2]

theorem rel_bind_eq {α β} {x x' : R α} {f f' : α → R β} {Q : β → β → Prop}
    (hx : x' = x) (h : ∀ a, x = .ok a → Rel2 (f a) (f' a) Q) : Rel2 (x >>= f) (x' >>= f') Q := by
  rw [hx]
  cases x with
  | ok a => exact h a rfl
  | error e => exact rfl

theorem rel_bind_byteAt_same {β} {d d' : Bytes} {i : Nat} {f f' : Nat → R β} {Q : β → β → Prop}
    (hx : d'[i]? = d[i]?) (h : ∀ x, d[i]? = some x → Rel2 (f x) (f' x) Q) :
    Rel2 (byteAt d i >>= f) (byteAt d' i >>= f') Q := by
  apply rel_bind_eq
  · unfold byteAt; rw [hx]
  · intro a ha; exact h a (byteAt_eq_ok.1 ha)

theorem rel_bind_byteAt_any {β} {d d' : Bytes} (i : Nat) {f f' : Nat → R β} {Q : β → β → Prop}
    (hl : d'.length = d.length)
    (h : ∀ x x', d[i]? = some x → d'[i]? = some x' → Rel2 (f x) (f' x') Q) :
    Rel2 (byteAt d i >>= f) (byteAt d' i >>= f') Q := by
  by_cases hi : i < d.length
  · rw [byteAt_of_lt hi, byteAt_of_lt (hl ▸ hi)]
    exact h _ _ (List.getElem?_eq_getElem hi) (List.getElem?_eq_getElem (hl ▸ hi))
  · have h1 : byteAt d i = .error .panic := byteAt_panic.2 (by omega)
    have h2 : byteAt d' i = .error .panic := byteAt_panic.2 (by omega)
    rw [h1, h2]; rfl

theorem rel_throw {α} {e : Fail} {Q : α → α → Prop} : Rel2 (throw e : R α) (throw e) Q := rfl

theorem eq_of_rel_unit {r r' : R Unit} (h : Rel2 r r' (fun _ _ => True)) : r' = r := by
  cases r with
  | ok a => cases r' with
    | ok a' => rfl
    | error e' => exact h.elim
  | error e => cases r' with
    | ok a' => exact h.elim
    | error e' => rw [show e = e' from h]

macro "rel_steps" : tactic =>
  `(tactic| repeat' first
      | (intro _)
      | (with_reducible apply rel_ite)
      | (with_reducible apply rel_throw_bind)
      | (with_reducible apply rel_throw)
      | (with_reducible apply rel_pure)
      | (with_reducible apply rel_bind_byteAt_same)
      | (with_reducible apply rel_bind_eq))

theorem extWalk_rel (b b' : Bytes) (oneByte : Bool) (extEnd : Nat) :
    ∀ fuel n, (∀ i, n ≤ i → i < extEnd → b'[i]? = b[i]?) →
      Rel2 (extWalk b oneByte extEnd fuel n) (extWalk b' oneByte extEnd fuel n) (fun _ _ => True) := by
  intro fuel
  induction fuel with
  | zero => intro n _; exact True.intro
  | succ k ih =>
    intro n h
    unfold extWalk
    rel_steps
    all_goals first
      | (exact True.intro)
      | (apply h <;> omega)
      | (apply ih; intro i h1 h2; apply h <;> omega)

macro "rel_steps1" : tactic =>
  `(tactic| repeat' first
      | (intro _)
      | (with_reducible apply rel_ite)
      | (with_reducible apply rel_throw_bind)
      | (with_reducible apply rel_throw)
      | (with_reducible apply rel_pure)
      | (with_reducible apply rel_bind_byteAt_any 1 (by assumption))
      | (with_reducible apply rel_bind_byteAt_same)
      | (with_reducible apply rel_bind_eq))

theorem payloadOffset_of_ext {d : Bytes} {x0 l0 l1 : Nat} (h0 : d[0]? = some x0)
    (hx : bit x0 16 = true) (h2 : d[12 + x0 % 16 * 4 + 2]? = some l0)
    (h3 : d[12 + x0 % 16 * 4 + 3]? = some l1) :
    payloadOffset d = 12 + x0 % 16 * 4 + 4 + (l0 * 256 + l1) * 4 := by
  unfold payloadOffset
  simp only [getD_of_getElem? h0, hx, if_true, getD_of_getElem? h2, getD_of_getElem? h3]

theorem payloadOffset_ext_ge {d : Bytes} {x0 : Nat} (h0 : d[0]? = some x0) (hx : bit x0 16 = true) :
    12 + x0 % 16 * 4 + 4 ≤ payloadOffset d := by
  unfold payloadOffset
  simp only [getD_of_getElem? h0, hx, if_true]
  omega

theorem rtp_rel (d d' : Bytes) (hl : d'.length = d.length)
    (hag : ∀ i, i = 0 ∨ (4 ≤ i ∧ i < payloadOffset d) → d'[i]? = d[i]?)
    (hlast : bit (d.getD 0 0) 0x20 = true → d'[d.length - 1]? = d[d.length - 1]?) :
    Rel2 (rtpUnmarshal d) (rtpUnmarshal d')
      (fun pkt pkt' => pkt' = { pkt with marker := pkt'.marker }) := by
  unfold rtpUnmarshal
  simp only [hl]
  rel_steps1
  all_goals first
    | rfl
    | (apply hag; left; rfl)
    | (apply hag; right
       have := payloadOffset_ext_ge (d := d) (by assumption) (by assumption)
       omega)
    | (apply hlast
       rw [getD_of_getElem? (l := d) (i := 0) (by assumption)]
       assumption)
    | (apply eq_of_rel_unit; apply extWalk_rel; intro i h1 h2; apply hag; right
       rw [payloadOffset_of_ext (d := d) (by assumption) (by assumption) (by assumption) (by assumption)]
       omega)

theorem payloadOffset_of_noext {d : Bytes} {x0 : Nat} (h0 : d[0]? = some x0)
    (hx : ¬ bit x0 16 = true) : payloadOffset d = 12 + x0 % 16 * 4 := by
  unfold payloadOffset
  simp only [getD_of_getElem? h0, hx, Bool.false_eq_true, if_false]

/-- facts about a successful `rtpUnmarshal`: the payload starts where RewritePacket computes it, the
marker is bit 7 of byte 1, and with padding the payload ends before the last byte -/
theorem rtp_facts (d : Bytes) :
    Post (rtpUnmarshal d) (fun pkt => pkt.payloadStart = payloadOffset d ∧
      pkt.marker = bit (d.getD 1 0) 128 ∧ pkt.ext = bit (d.getD 0 0) 16 ∧
      (bit (d.getD 0 0) 32 = true → pkt.payloadEnd < d.length)) := by
  unfold rtpUnmarshal
  wp_simp
  repeat' first | (intro _) | (refine ⟨?_, ?_⟩) | (exact True.intro) | (apply extWalk_wp)
  all_goals first
    | omega
    | (exact (payloadOffset_of_ext (by assumption) (by assumption) (by assumption) (by assumption)).symm)
    | (exact (payloadOffset_of_noext (by assumption) (by assumption)).symm)
    | (rw [getD_of_getElem? (l := d) (i := 1) (by assumption)])
    | (rw [getD_of_getElem? (l := d) (i := 0) (by assumption)])
    | (simp_all [List.getD_eq_getElem?_getD]; done)

end Galene.Codecs
