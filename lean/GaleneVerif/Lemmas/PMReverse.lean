import GaleneVerif.Lemmas.PMInv
/-
Soundness of `Reverse`'s scan of the interval table, jointly with `direct`'s: both walk the same
newest-first list; `Reverse` compares in the outgoing numbering (`tgt D x = x − |{d ∈ D | d < x}|`),
`direct` in the source numbering.
-/
namespace Galene.Lemmas.PMReverse
open Galene.PacketMap Galene.Lemmas.Mod16 Galene.Lemmas.Ring Galene.Lemmas.Count Galene.Lemmas.Table
open Galene.Lemmas.PMInv

/-- classification of the unwrapped `v` against an interval `[F, F+count)` within half a lap -/
theorem classify_spec (v F count tg pd : Nat) (hc : count < 32768)
    (h1 : F < v + 32768) (h2 : v ≤ F + 32768) :
    classify (v % 65536) (F % 65536) count tg pd =
      if v < F then .cont else if v < F + count then .inside tg pd else .stop := by
  unfold classify
  rw [add16_mod]
  by_cases hlt : v < F
  · rw [compare_lt v F hlt (by omega)]
    simp [hlt]
  · have hge : PacketMap.compare (v % 65536) (F % 65536) ≥ 0 := by
      rcases Nat.lt_or_ge F v with h | h
      · rw [compare_gt v F h (by omega)]; omega
      · have : v = F := by omega
        subst this; rw [compare_self]; omega
    simp only [hge, if_true, hlt, if_false]
    by_cases hin : v < F + count
    · rw [compare_lt v (F + count) hin (by omega)]
      simp [hin]
    · have : ¬ PacketMap.compare (v % 65536) ((F + count) % 65536) < 0 := by
        rcases Nat.lt_or_ge (F + count) v with h | h
        · rw [compare_gt v (F + count) h (by omega)]; omega
        · have : v = F + count := by omega
          rw [this, compare_self]; omega
      simp only [this, if_false, hin]

/-- how `Reverse` classifies the unwrapped outgoing number `t` against an interval -/
theorem rcls_spec (P : Params) (hC : P.maxCount < 32768) (D : List Nat) (hs : Desc D) (F t : Nat)
    (e : Entry) (hok : IntervalOK P D F e)
    (h1 : tgt D F < t + 32768) (h2 : t ≤ tgt D F + 32768) :
    rcls (t % 65536) e =
      if t < tgt D F then .cont
      else if t < tgt D F + e.count then .inside ((t + cnt D F) % 65536) e.pidDelta else .stop := by
  have hk := cnt_le D F hs
  have hb := hok.bound
  unfold rcls
  rw [hok.first, hok.delta, add16_neg F (cnt D F) hk, sub16_neg]
  exact classify_spec t (F - cnt D F) e.count _ _ (by omega) h1 h2

/-- **soundness of `Reverse`'s scan, with `direct` consistency.**  For an unwrapped outgoing number
`t` below the outgoing position of the bound `B` and within half a lap of it: a hit returns
`u % 65536` for a source packet `u < B` that is not withheld and whose outgoing position is `t`;
and if `u` is within half a lap of `B`, `direct`'s scan for `u` hits the same interval. -/
theorem walkL_reverse_sound (P : Params) (hC : P.maxCount < 32768) (D : List Nat) (hs : Desc D) (t : Nat) :
    ∀ (l : List Entry) (B : Nat), Chain P D B l → t < tgt D B → tgt D B < t + 32768 →
      ∀ s pd, walkL (rcls (t % 65536)) l = (true, s, pd) →
        ∃ u, u < B ∧ s = u % 65536 ∧ u ∉ D ∧ tgt D u = t ∧
          (B < u + 32768 → walkL (dcls (u % 65536)) l = (true, t % 65536, pd)) := by
  intro l
  induction l with
  | nil => intro B _ _ _ s pd h; simp [walkL] at h
  | cons e rest ih =>
    intro B hch ht hB s pd h
    obtain ⟨F, hok, h1, h2, hc⟩ := hch
    have hmono := tgt_mono D hs F B (by omega)
    have hlip := tgt_lip D hs F B (by omega)
    have hk := cnt_le D F hs
    have hcls := rcls_spec P hC D hs F t e hok (by omega) (by omega)
    simp only [walkL] at h
    rw [hcls] at h
    by_cases hlt : t < tgt D F
    · simp only [hlt, if_true] at h
      obtain ⟨u, hu1, hu2, hu3, hu4, hu5⟩ := ih F hc hlt (by omega) s pd h
      refine ⟨u, by omega, hu2, hu3, hu4, ?_⟩
      intro hBu
      have hd := dcls_spec P hC D F u e hok (by omega) (by omega)
      rw [walkL_cons_cont _ _ _ (by rw [hd]; simp [hu1])]
      exact hu5 (by omega)
    · by_cases hin : t < tgt D F + e.count
      · simp only [hlt, hin, if_true, if_false, Prod.mk.injEq, true_and] at h
        have hT : tgt D F = F - cnt D F := rfl
        have hF : F ≤ t + cnt D F := by omega
        have hF2 : t + cnt D F < F + e.count := by omega
        obtain ⟨hv1, hv2, hv3⟩ := inside_number P D hs F (t + cnt D F) e hok hF hF2
        have htg : tgt D (t + cnt D F) = t := by unfold tgt; rw [hv3]; omega
        refine ⟨t + cnt D F, by omega, h.1.symm, hv1, htg, ?_⟩
        intro _
        have hd := dcls_spec P hC D F (t + cnt D F) e hok (by omega) (by omega)
        simp only [walkL]
        rw [hd]
        have hnlt : ¬ t + cnt D F < F := by omega
        simp only [hnlt, hF2, if_true, if_false, Prod.mk.injEq, true_and]
        refine ⟨?_, h.2⟩
        rw [hv2, out_eq_tgt, htg]
      · simp only [hlt, hin, if_false, Prod.mk.injEq] at h
        exact absurd h.1 (by decide)

/-- a hit of `direct`'s scan for the (not withheld) packet `v` is also a hit of `Reverse`'s scan
for `v`'s outgoing number, in the same interval -/
theorem walkL_direct_reverse_aux (P : Params) (hC : P.maxCount < 32768) (D : List Nat) (hs : Desc D)
    (v : Nat) (hv : v ∉ D) :
    ∀ (l : List Entry) (B : Nat), Chain P D B l → v < B → B < v + 32768 →
      ∀ n pd, walkL (dcls (v % 65536)) l = (true, n, pd) →
        walkL (rcls (tgt D v % 65536)) l = (true, v % 65536, pd) := by
  intro l
  induction l with
  | nil => intro B _ _ _ n pd h; simp [walkL] at h
  | cons e rest ih =>
    intro B hch hvB hB n pd h
    obtain ⟨F, hok, h1, h2, hc⟩ := hch
    have hk := cnt_le D F hs
    have hd := dcls_spec P hC D F v e hok (by omega) (by omega)
    simp only [walkL] at h
    rw [hd] at h
    by_cases hlt : v < F
    · simp only [hlt, if_true] at h
      have hst := tgt_strict D hs v F hv hlt
      have hlip := tgt_lip D hs v F (by omega)
      have hr := rcls_spec P hC D hs F (tgt D v) e hok (by omega) (by omega)
      rw [walkL_cons_cont _ _ _ (by rw [hr]; simp [hst])]
      exact ih F hc hlt (by omega) n pd h
    · by_cases hin : v < F + e.count
      · simp only [hlt, hin, if_true, if_false, Prod.mk.injEq, true_and] at h
        have hmono := tgt_mono D hs F v (by omega)
        have hlip := tgt_lip D hs F v (by omega)
        obtain ⟨_, _, hv3⟩ := inside_number P D hs F v e hok (by omega) hin
        have hT : tgt D F = F - cnt D F := rfl
        have ht : tgt D v = v - cnt D F := by unfold tgt; rw [hv3]
        have hr := rcls_spec P hC D hs F (tgt D v) e hok (by omega) (by omega)
        simp only [walkL]
        rw [hr]
        have h1' : ¬ tgt D v < tgt D F := by omega
        have h2' : tgt D v < tgt D F + e.count := by omega
        have h3' : tgt D v + cnt D F = v := by omega
        simp only [h1', h2', if_true, if_false, h3', Prod.mk.injEq, true_and]
        exact h.2
      · simp only [hlt, hin, if_false, Prod.mk.injEq] at h
        exact absurd h.1 (by decide)

/-- **`Reverse` inverts `direct`**: if `direct`'s scan maps `v` to `(true, n, pd)` then
`Reverse`'s scan maps `n` back to `(true, v % 65536, pd)` -/
theorem walkL_direct_reverse (P : Params) (hC : P.maxCount < 32768) (D : List Nat) (hs : Desc D)
    (v : Nat) (l : List Entry) (B : Nat) (hch : Chain P D B l) (hvB : v < B) (hB : B < v + 32768)
    (n pd : Nat) (h : walkL (dcls (v % 65536)) l = (true, n, pd)) :
    walkL (rcls n) l = (true, v % 65536, pd) := by
  obtain ⟨hv, hn⟩ := walkL_direct_sound P hC D hs v l B hch hvB hB n pd h
  rw [hn, out_eq_tgt]
  exact walkL_direct_reverse_aux P hC D hs v hv l B hch hvB hB n pd h

/-- a packet inside the newest interval: both scans hit at once -/
theorem walkL_head_hit (P : Params) (hC : P.maxCount < 32768) (D : List Nat) (hs : Desc D)
    (F v : Nat) (e : Entry) (rest : List Entry) (hok : IntervalOK P D F e)
    (h1 : F ≤ v) (h2 : v < F + e.count) :
    walkL (dcls (v % 65536)) (e :: rest) = (true, out D v, e.pidDelta) ∧
    walkL (rcls (out D v)) (e :: rest) = (true, v % 65536, e.pidDelta) := by
  have hb := hok.bound
  have hk := cnt_le D F hs
  obtain ⟨_, hv2, hv3⟩ := inside_number P D hs F v e hok h1 h2
  have hd := dcls_spec P hC D F v e hok (by omega) (by omega)
  have hT : tgt D F = F - cnt D F := rfl
  have ht : tgt D v = v - cnt D F := by unfold tgt; rw [hv3]
  have hr := rcls_spec P hC D hs F (tgt D v) e hok (by omega) (by omega)
  have hnlt : ¬ v < F := by omega
  have h1' : ¬ tgt D v < tgt D F := by omega
  have h2' : tgt D v < tgt D F + e.count := by omega
  have h3' : tgt D v + cnt D F = v := by omega
  constructor
  · simp only [walkL]
    rw [hd]
    simp only [hnlt, h2, if_true, if_false, hv2]
  · rw [out_eq_tgt]
    simp only [walkL]
    rw [hr]
    simp only [h1', h2', if_true, if_false, h3']

end Galene.Lemmas.PMReverse
