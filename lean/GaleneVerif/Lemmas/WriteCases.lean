import GaleneVerif.Model.DownTrack
import GaleneVerif.Props.C01
import GaleneVerif.Props.C12Media
/-
Case analysis of the model of rtpDownTrack.Write (Model/DownTrack.lean), used by Props/C02Write.

* `layerStep` only ever changes the packed layer word: `layerStep_pm`.
* `pmStep` is the packet-map part of `Write` for one packet (Drop if the layer rules ask for it, then
  Map unless the drop was accepted), and `write_cases` describes the result of `write` as a function
  of `packetFlags`, `layerStep` and `pmStep`.

Proof-engineering note: never let the kernel compare `{ s with word := pack l }` with `s` by
unification (`rfl`, `dsimp`): it tries the fields first and starts evaluating `pack`.  Use
`setWord_pm`.
-/
namespace Galene.Down
open Galene Galene.Codecs

theorem setWord_pm (s : State) (w : Nat) : ({ s with word := w } : State).pm = s.pm := rfl

theorem adjustLayer_pm (C : Consts) (s : State) : (adjustLayer C s).pm = s.pm := by
  unfold adjustLayer
  extract_lets
  repeat' split
  all_goals first | exact setWord_pm _ _ | exact Eq.refl _

/-! ### `layerStep` in three stages -/

/-- first stage of `layerStep`: a layer above the known maximum is seen -/
def stage1 (C : Consts) (s : State) (flags : Flags) : State × Layer :=
  let layer := unpack s.word
    if flags.tid > layer.maxTid || flags.sid > layer.maxSid then
      let layer :=
        if flags.tid > layer.maxTid then
          let l := if layer.tid = layer.maxTid then { layer with wantedTid := flags.tid, tid := flags.tid } else layer
          { l with maxTid := flags.tid }
        else layer
      let layer :=
        if flags.sid > layer.maxSid then
          let l := if layer.sid = layer.maxSid && !layer.limitSid
                   then { layer with wantedSid := flags.sid, sid := flags.sid } else layer
          { l with maxSid := flags.sid }
        else layer
      let s := adjustLayer C { s with word := pack layer }
      (s, unpack s.word)
    else (s, layer)

/-- second stage: temporal layer switch at a frame start -/
def stage2 (flags : Flags) (s : State) (layer : Layer) : State × Layer :=
    if flags.start && layer.tid ≠ layer.wantedTid then
      if flags.keyframe then
        let l := { layer with tid := layer.wantedTid }; ({ s with word := pack l }, l)
      else if layer.wantedTid < layer.tid then
        let l := { layer with tid := layer.wantedTid }; ({ s with word := pack l }, l)
      else if flags.tidUpSync && flags.tid ≤ layer.wantedTid then
        let l := { layer with tid := flags.tid }; ({ s with word := pack l }, l)
      else (s, layer)
    else (s, layer)

/-- third stage: spatial layer switch at a keyframe start, or keyframe request -/
def stage3 (flags : Flags) (s : State) (layer : Layer) : State × Layer × Bool :=
  if flags.start && layer.sid ≠ layer.wantedSid then
    if flags.keyframe then
      let l := { layer with sid := layer.wantedSid }; ({ s with word := pack l }, l, false)
    else (s, layer, true)
  else (s, layer, false)

theorem layerStep_eq (C : Consts) (s : State) (f : Flags) :
    layerStep C s f =
      stage3 f (stage2 f (stage1 C s f).1 (stage1 C s f).2).1 (stage2 f (stage1 C s f).1 (stage1 C s f).2).2 := rfl

theorem stage1_pm (C : Consts) (s : State) (f : Flags) : (stage1 C s f).1.pm = s.pm := by
  unfold stage1
  extract_lets layer l1 layer1 l2 layer2 s2
  split
  · exact (adjustLayer_pm C _).trans (setWord_pm _ _)
  · exact Eq.refl _

theorem stage2_pm (f : Flags) (s : State) (l : Layer) : (stage2 f s l).1.pm = s.pm := by
  unfold stage2
  repeat' split
  all_goals first | exact setWord_pm _ _ | exact Eq.refl _

theorem stage3_pm (f : Flags) (s : State) (l : Layer) : (stage3 f s l).1.pm = s.pm := by
  unfold stage3
  repeat' split
  all_goals first | exact setWord_pm _ _ | exact Eq.refl _

/-- the layer bookkeeping of `Write` never touches the packet map -/
theorem layerStep_pm (C : Consts) (s : State) (f : Flags) : (layerStep C s f).1.pm = s.pm := by
  rw [layerStep_eq, stage3_pm, stage2_pm, stage1_pm]

/-! ### the packet-map part of `Write` -/

/-- `Write`'s marker decision: an End packet of the current spatial layer whose marker is not set -/
def setMarkerOf (flags : Flags) (layer : Layer) : Bool :=
  flags.sid = layer.sid && flags.end_ && !flags.marker

/-- the packet-map part of `Write` for one packet: `Drop` if the layer rules ask for it (`drop`),
then `Map` unless the drop was accepted.  `none` = index panic inside `Map`; `some (m', none)` = the
drop was accepted; `some (m', some r)` = `Map` returned `r`. -/
def pmStep (P : PacketMap.Params) (m : PacketMap.State) (drop : Bool) (seqno pid : Nat) :
    Option (PacketMap.State × Option PacketMap.Result) :=
  let dr := if drop then PacketMap.dropOp P m seqno pid else (m, false)
  if dr.2 then some (dr.1, none)
  else
    match PacketMap.mapOp P dr.1 seqno pid with
    | none => none
    | some (m', r) => some (m', some r)

/-- what `Write` does after the packet map has answered `(true, n, pd)` -/
def emit (codec : String) (buf : Bytes) (mk : Bool) (seqno n pd : Nat) (s : State) (kfreq : Bool) : WriteRes :=
  if !mk && n = seqno && pd = 0 then { st := s, out := .sent buf, kfreq }
  else
    match rewritePacket codec (buf.take 1504) mk n (PacketMap.sub16 0 pd) with
    | (d, .ok) => { st := s, out := .sent d, kfreq }
    | (_, .err) => { st := s, out := .err, kfreq }
    | (_, .panic) => { st := s, out := .err, kfreq, panic := true }

/-- `Write` after `PacketFlags` and the layer bookkeeping, as a function of the packet-map step -/
def finish (P : PacketMap.Params) (codec : String) (buf : Bytes) (flags : Flags) (s : State) (layer : Layer)
    (kfreq : Bool) : WriteRes :=
  match pmStep P s.pm (wantDrop flags layer) flags.seqno flags.pid with
  | none =>
    { st := { s with pm := (if wantDrop flags layer then PacketMap.dropOp P s.pm flags.seqno flags.pid
                            else (s.pm, false)).1 },
      out := .err, kfreq, panic := true }
  | some (m', none) => { st := { s with pm := m' }, out := .none, kfreq, dropped := true }
  | some (m', some (false, _, _)) => { st := { s with pm := m' }, out := .none, kfreq }
  | some (m', some (true, n, pd)) =>
    emit codec buf (setMarkerOf flags layer) flags.seqno n pd { s with pm := m' } kfreq

theorem write_cases (C : Consts) (P : PacketMap.Params) (codec : String) (s : State) (buf : Bytes) :
    write C P codec s buf =
      match packetFlags codec buf with
      | .error .err => { st := s, out := .err }
      | .error .panic => { st := s, out := .err, panic := true }
      | .ok flags =>
        finish P codec buf flags (layerStep C s flags).1 (layerStep C s flags).2.1 (layerStep C s flags).2.2 := by
  unfold write
  cases hf : packetFlags codec buf with
  | error e => cases e <;> rfl
  | ok flags =>
    simp only
    generalize layerStep C s flags = ls
    obtain ⟨s1, layer, kf⟩ := ls
    simp only [finish, pmStep]
    generalize (if wantDrop flags layer = true then PacketMap.dropOp P s1.pm flags.seqno flags.pid
      else (s1.pm, false)) = dr
    obtain ⟨pm1, dropped⟩ := dr
    cases dropped with
    | true => simp only [if_true]
    | false =>
      simp only [Bool.false_eq_true, if_false]
      cases hm : PacketMap.mapOp P pm1 flags.seqno flags.pid with
      | none => simp only
      | some r =>
        obtain ⟨pm2, ok, n, pd⟩ := r
        cases ok with
        | false => simp only [Bool.not_false, if_true]
        | true =>
          simp only [Bool.not_true, Bool.false_eq_true, if_false, emit, setMarkerOf]
          rfl

/-! ### `emit` -/

theorem emit_st (codec : String) (buf : Bytes) (mk : Bool) (seqno n pd : Nat) (s : State) (kf : Bool) :
    (emit codec buf mk seqno n pd s kf).st = s := by
  unfold emit
  split
  · rfl
  · split <;> rfl

theorem emit_kfreq (codec : String) (buf : Bytes) (mk : Bool) (seqno n pd : Nat) (s : State) (kf : Bool) :
    (emit codec buf mk seqno n pd s kf).kfreq = kf := by
  unfold emit
  split
  · rfl
  · split <;> rfl

/-- `RewritePacket` never panics, so neither does the tail of `Write` -/
theorem emit_panic (codec : String) (buf : Bytes) (mk : Bool) (seqno n pd : Nat) (s : State) (kf : Bool) :
    (emit codec buf mk seqno n pd s kf).panic = false := by
  unfold emit
  split
  · rfl
  · split
    · rfl
    · rfl
    · rename_i d heq
      have := Galene.Props.C02.C02_rewrite_total codec (buf.take 1504) mk n (PacketMap.sub16 0 pd)
      rw [heq] at this
      exact absurd rfl this

/-- the two ways in which the tail of `Write` hands bytes to the local track: the unmodified buffer
(nothing to change), or the result of a successful `RewritePacket` on the (at most 1504 byte) copy -/
theorem emit_sent {codec : String} {buf d : Bytes} {mk : Bool} {seqno n pd : Nat} {s : State} {kf : Bool}
    (h : (emit codec buf mk seqno n pd s kf).out = .sent d) :
    ((mk = false ∧ n = seqno ∧ pd = 0) ∧ d = buf) ∨
    (¬ (mk = false ∧ n = seqno ∧ pd = 0) ∧
      rewritePacket codec (buf.take 1504) mk n (PacketMap.sub16 0 pd) = (d, .ok)) := by
  unfold emit at h
  split at h
  · rename_i hp
    simp only [Bool.and_eq_true, Bool.not_eq_true', decide_eq_true_eq] at hp
    injection h with h
    exact Or.inl ⟨⟨hp.1.1, hp.1.2, hp.2⟩, h.symm⟩
  · rename_i hp
    simp only [Bool.and_eq_true, Bool.not_eq_true', decide_eq_true_eq] at hp
    split at h
    · rename_i d' heq
      injection h with h
      subst h
      exact Or.inr ⟨fun hc => hp ⟨⟨hc.1, hc.2.1⟩, hc.2.2⟩, heq⟩
    · cases h
    · cases h

/-! ### `pmStep` -/

open Galene.Props.C01 in
/-- a refused `Drop` leaves the map untouched, so `pmStep` is: accepted drop, or `Map` on the
original state -/
theorem pmStep_eq (P : PacketMap.Params) (m : PacketMap.State) (drop : Bool) (seqno pid : Nat) :
    pmStep P m drop seqno pid =
      if drop = true ∧ (PacketMap.dropOp P m seqno pid).2 = true then
        some ((PacketMap.dropOp P m seqno pid).1, none)
      else
        match PacketMap.mapOp P m seqno pid with
        | none => none
        | some (m', r) => some (m', some r) := by
  unfold pmStep
  cases drop with
  | false => simp
  | true =>
    simp only [if_true, true_and]
    by_cases ha : (PacketMap.dropOp P m seqno pid).2 = true
    · simp only [ha, if_true]
    · have hr : PacketMap.dropOp P m seqno pid = (m, false) := by
        apply C01_drop_refused_unchanged
        have : ¬ (m.started = true ∧ seqno = m.next) := fun hc => ha ((C01_drop_only_next P m seqno pid).mpr hc)
        by_cases hs : m.started = true
        · exact Or.inr (fun hc => this ⟨hs, hc⟩)
        · exact Or.inl (by simpa using hs)
      simp only [hr, Bool.false_eq_true, if_false]

open Galene.Props.C01 in
/-- under the index invariant the packet-map part of `Write` never panics and keeps the invariant -/
theorem pmStep_total (P : PacketMap.Params) (hP : 0 < P.maxEntries) (m : PacketMap.State) (drop : Bool)
    (seqno pid : Nat) (h : WF P m) :
    ∃ m' o, pmStep P m drop seqno pid = some (m', o) ∧ WF P m' := by
  rw [pmStep_eq]
  split
  · exact ⟨_, _, rfl, C01_drop_wf P hP m seqno pid h⟩
  · obtain ⟨m', r, e, hw⟩ := C01_map_total P hP m seqno pid h
    rw [e]
    exact ⟨_, _, rfl, hw⟩

/-- the packet map after `Write` is the one the packet-map step produced, whatever `RewritePacket`
does afterwards; an accepted drop sends nothing; `Write` sends nothing or reports an error unless
`Map` answered `true` -/
theorem write_pm {C : Consts} {P : PacketMap.Params} {codec : String} {s : State} {buf : Bytes}
    {flags : Flags} {m' : PacketMap.State} {o : Option PacketMap.Result}
    (hf : packetFlags codec buf = .ok flags)
    (hpm : pmStep P s.pm (wantDrop flags (layerStep C s flags).2.1) flags.seqno flags.pid = some (m', o)) :
    (write C P codec s buf).st.pm = m' ∧ (write C P codec s buf).panic = false ∧
    (o = none → (write C P codec s buf).out = .none ∧ (write C P codec s buf).dropped = true) ∧
    (∀ n pd, o = some (true, n, pd) → (write C P codec s buf).out ≠ .none) := by
  rw [write_cases, hf]
  simp only
  unfold finish
  rw [layerStep_pm, hpm]
  match o with
  | none => exact ⟨rfl, rfl, fun _ => ⟨rfl, rfl⟩, fun _ _ h => (by cases h)⟩
  | some (false, _, _) => exact ⟨rfl, rfl, fun h => (by cases h), fun _ _ h => (by cases h)⟩
  | some (true, n, pd) =>
    simp only
    rw [emit_st, emit_panic]
    refine ⟨rfl, rfl, fun h => (by cases h), fun _ _ _ => ?_⟩
    unfold emit
    split
    · intro h; cases h
    · split <;> (intro h; cases h)

end Galene.Down

namespace Galene.Codecs

/-- the header fields reported by a successful `PacketFlags`, for every codec -/
structure HdrOK (d : Bytes) (f : Flags) : Prop where
  len : 4 ≤ d.length
  seqno : f.seqno = d.getD 2 0 * 256 + d.getD 3 0
  marker : f.marker = bit (d.getD 1 0) 0x80

theorem packetFlags_hdr {c : String} {d : Bytes} {f : Flags} (hf : packetFlags c d = .ok f) : HdrOK d f := by
  have h : Post (packetFlags c d) (HdrOK d) := by
    unfold packetFlags
    wp_simp
    refine ⟨fun _ => trivial, fun h4 => ⟨by omega, fun b1 h1 => ⟨by omega, fun b2 h2 => ⟨by omega, fun b3 h3 => ?_⟩⟩⟩⟩
    have hs : b2 * 256 + b3 = d.getD 2 0 * 256 + d.getD 3 0 := by
      rw [getD_of_getElem? h2, getD_of_getElem? h3]
    have hm : bit b1 0x80 = bit (d.getD 1 0) 0x80 := by rw [getD_of_getElem? h1]
    have h4' : 4 ≤ d.length := by omega
    have hq : ∀ (f : Flags), f.seqno = b2 * 256 + b3 → f.marker = bit b1 0x80 → HdrOK d f :=
      fun f e1 e2 => ⟨h4', e1.trans hs, e2.trans hm⟩
    refine ⟨fun _ => ?_, fun _ => ⟨fun _ => ?_, fun _ => hq _ rfl rfl⟩⟩
    · apply post_intro ((rtp_post d).noPanic)
      intro pkt hpkt
      apply post_intro ((vp8_post _).noPanic)
      intro v hv
      vc_split
      all_goals first
        | omega
        | exact hq _ rfl rfl
        | simp_all
    · apply post_intro ((rtp_post d).noPanic)
      intro pkt hpkt
      apply post_intro ((vp9_post _).noPanic)
      intro v hv
      have := (vp9_post _).of_ok hv
      vc_split
      all_goals first
        | omega
        | exact hq _ rfl rfl
        | simp_all
  exact h.of_ok hf

end Galene.Codecs
