import GaleneVerif.Model.LossStats
/-
Modular (uint16) arithmetic facts about the loss-accounting model:
`sub16`, `add16`, `compare`, `seqnoInvalid`.  All core Lean (`omega`).
-/
set_option linter.unusedVariables false
namespace Galene.Lemmas.Loss16
open Galene.Loss

theorem sub16_lt (a b : Nat) : sub16 a b < 65536 := by unfold sub16; omega
theorem add16_lt (a b : Nat) : add16 a b < 65536 := by unfold add16; omega

theorem sub16_self (a : Nat) (ha : a < 65536) : sub16 a a = 0 := by unfold sub16; omega

theorem add16_zero (a : Nat) (ha : a < 65536) : add16 a 0 = a := by unfold add16; omega

/-- `a = b + (a - b)` modulo 2^16 -/
theorem add16_sub16 (a b : Nat) (ha : a < 65536) (hb : b < 65536) : add16 b (sub16 a b) = a := by
  unfold add16 sub16; omega

/-- `(a + k) - a = k` modulo 2^16 -/
theorem sub16_add16 (a k : Nat) (ha : a < 65536) (hk : k < 65536) : sub16 (add16 a k) a = k := by
  unfold add16 sub16; omega

theorem sub16_eq_zero (a b : Nat) (ha : a < 65536) (hb : b < 65536) (h : sub16 a b = 0) : a = b := by
  unfold sub16 at h; omega

/-- moving the reference forward by `k ≤ a - b` shortens the distance by `k` -/
theorem sub16_add16_right (a b k : Nat) (ha : a < 65536) (hb : b < 65536) (hk : k ≤ sub16 a b) :
    sub16 a (add16 b k) = sub16 a b - k := by
  unfold add16 sub16 at *; omega

/-- `(b + k) - a` when the sum does not wrap past `a` -/
theorem sub16_add16_left (a b k : Nat) (ha : a < 65536) (hb : b < 65536) (hk : sub16 b a + k < 65536) :
    sub16 (add16 b k) a = sub16 b a + k := by
  unfold add16 sub16 at *; omega

theorem add16_add16 (a j k : Nat) : add16 (add16 a j) k = add16 a (j + k) := by
  unfold add16; omega

theorem add16_inj (a j k : Nat) (hj : j < 65536) (hk : k < 65536) (h : add16 a j = add16 a k) : j = k := by
  unfold add16 at h; omega

theorem compare_lt_iff (a b : Nat) : Loss.compare a b < 0 ↔ a ≠ b ∧ sub16 b a < 32768 := by
  unfold Loss.compare
  split
  · simp_all
  · split <;> simp_all <;> omega

theorem compare_gt_iff (a b : Nat) : Loss.compare a b > 0 ↔ a ≠ b ∧ sub16 b a ≥ 32768 := by
  unfold Loss.compare
  split
  · simp_all
  · split <;> simp_all <;> omega

theorem compare_ge_iff (a b : Nat) : Loss.compare a b ≥ 0 ↔ a = b ∨ sub16 b a ≥ 32768 := by
  unfold Loss.compare
  split
  · simp_all
  · split <;> simp_all <;> omega

/-- `b` strictly after `a` (modulo 2^16, less than half the circle ahead) -/
theorem compare_lt_iff' (a b : Nat) (ha : a < 65536) (hb : b < 65536) :
    Loss.compare a b < 0 ↔ 1 ≤ sub16 b a ∧ sub16 b a < 32768 := by
  rw [compare_lt_iff]; unfold sub16; omega

/-- `seqno` is invalid w.r.t. `reference` iff it is more than 256 (and at most 32768) behind it -/
theorem seqnoInvalid_iff (s r : Nat) (hs : s < 65536) (hr : r < 65536) :
    seqnoInvalid s r = true ↔ 256 < sub16 r s ∧ sub16 r s ≤ 32768 := by
  unfold seqnoInvalid
  split
  · rename_i h
    rw [compare_lt_iff] at h
    unfold sub16 at *
    simp; omega
  · rename_i h
    rw [compare_lt_iff] at h
    split
    · unfold sub16 at *; simp; omega
    · unfold sub16 at *; simp; omega

end Galene.Lemmas.Loss16
