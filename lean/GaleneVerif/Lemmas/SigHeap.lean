import GaleneVerif.Model.SigValue
/-
Lemmas about the slice heap of Model/SigValue.lean: what `remove`/`addnew`
(webclient.go) do to the slice they are applied to, and that they leave every
slice of a *different* backing array alone (the frame property; slices of the
*same* array are affected — that is the sharing defect).
-/
namespace Galene.Sig

/-- the slice lies within the heap -/
def Heap.WF (h : Heap) (s : Slice) : Prop := s.arr < h.length ∧ s.len ≤ (h.arrOf s).length

/-- `addnew` on a plain list -/
def addnewL (v : String) (l : List String) : List String := if v ∈ l then l else l ++ [v]

theorem idxOf?_lt {v : String} {l : List String} {i : Nat} (h : idxOf? v l = some i) : i < l.length := by
  induction l generalizing i with
  | nil => simp [idxOf?] at h
  | cons x r ih =>
    unfold idxOf? at h
    split at h
    · simp at h; subst h; simp
    · cases hr : idxOf? v r with
      | none => simp [hr] at h
      | some j =>
        simp [hr] at h; subst h
        have := ih hr
        simp; omega

theorem idxOf?_none {v : String} {l : List String} (h : idxOf? v l = none) : v ∉ l := by
  induction l with
  | nil => simp
  | cons x r ih =>
    unfold idxOf? at h
    split at h
    · simp at h
    · rename_i hx
      cases hr : idxOf? v r with
      | none => simp; exact ⟨fun h' => hx h'.symm, ih hr⟩
      | some j => simp [hr] at h

theorem eraseIdx_idxOf? {v : String} {l : List String} {i : Nat} (h : idxOf? v l = some i) :
    l.eraseIdx i = l.erase v := by
  induction l generalizing i with
  | nil => simp [idxOf?] at h
  | cons x r ih =>
    unfold idxOf? at h
    split at h
    · rename_i hx
      simp at h; subst h; subst hx
      simp
    · rename_i hx
      cases hr : idxOf? v r with
      | none => simp [hr] at h
      | some j =>
        simp [hr] at h; subst h
        have hne : (x == v) = false := by simpa using hx
        simp [List.erase_cons, hne, ih hr]

theorem Heap.get_length {h : Heap} {s : Slice} (hw : h.WF s) : (h.get s).length = s.len := by
  have := hw.2
  simp [Heap.get, List.length_take]; omega

theorem getD_set_self (h : Heap) (i : Nat) (a : List String) (hi : i < h.length) : (h.set i a).getD i [] = a := by
  simp [List.getD_eq_getElem?_getD, hi]

theorem getD_set_ne (h : Heap) (i j : Nat) (a : List String) (hij : i ≠ j) : (h.set i a).getD j [] = h.getD j [] := by
  simp [List.getD_eq_getElem?_getD, List.getElem?_set_ne hij]

theorem removeS_none {h : Heap} {s : Slice} {v : String} (hi : idxOf? v (h.get s) = none) :
    removeS h s v = (h, s) := by
  unfold removeS; simp [hi]

theorem removeS_some {h : Heap} {s : Slice} {v : String} {i : Nat} (hi : idxOf? v (h.get s) = some i) :
    removeS h s v = (h.set s.arr ((h.get s).eraseIdx i ++ (h.arrOf s).drop (s.len - 1)), ⟨s.arr, s.len - 1⟩) := by
  unfold removeS; simp [hi]

/-- **`remove` on its own slice**: the first occurrence is erased. -/
theorem removeS_get (h : Heap) (s : Slice) (v : String) (hw : h.WF s) :
    (removeS h s v).1.get (removeS h s v).2 = (h.get s).erase v := by
  cases hi : idxOf? v (h.get s) with
  | none =>
    rw [removeS_none hi]
    exact (List.erase_of_not_mem (idxOf?_none hi)).symm
  | some i =>
    rw [removeS_some hi]
    have hlen := Heap.get_length hw
    have hi' := idxOf?_lt hi
    have hl : ((h.get s).eraseIdx i).length = s.len - 1 := by
      rw [List.length_eraseIdx]; simp only [hlen]; split <;> omega
    show List.take (s.len - 1) ((h.set s.arr _).getD s.arr []) = _
    rw [getD_set_self h s.arr _ hw.1, List.take_append_of_le_length (by omega), List.take_of_length_le (by omega)]
    exact eraseIdx_idxOf? hi

/-! ### `remove` after the repair: every occurrence (the old step, iterated) -/

theorem idxOf?_of_not_mem {v : String} {l : List String} (h : v ∉ l) : idxOf? v l = none := by
  cases hi : idxOf? v l with
  | none => rfl
  | some i =>
    exfalso
    have hlt := idxOf?_lt hi
    have he := eraseIdx_idxOf? hi
    have : (l.erase v).length = l.length := by rw [List.erase_of_not_mem h]
    rw [← he, List.length_eraseIdx, if_pos hlt] at this
    omega

theorem removeS_arr (h : Heap) (s : Slice) (v : String) : (removeS h s v).2.arr = s.arr := by
  cases hi : idxOf? v (h.get s) with
  | none => rw [removeS_none hi]
  | some i => rw [removeS_some hi]

/-- the old step keeps the slice inside the heap -/
theorem removeS_WF (h : Heap) (s : Slice) (v : String) (hw : h.WF s) : (removeS h s v).1.WF (removeS h s v).2 := by
  cases hi : idxOf? v (h.get s) with
  | none => rw [removeS_none hi]; exact hw
  | some i =>
    rw [removeS_some hi]
    have hlen := Heap.get_length hw
    have hi' := idxOf?_lt hi
    have hl : ((h.get s).eraseIdx i).length = s.len - 1 := by
      rw [List.length_eraseIdx]; simp only [hlen]; split <;> omega
    have h2 := hw.2
    refine ⟨by simpa using hw.1, ?_⟩
    show s.len - 1 ≤ ((h.set s.arr _).getD s.arr []).length
    rw [getD_set_self h s.arr _ hw.1, List.length_append, hl, List.length_drop]
    omega

theorem removeS_len_of_mem (h : Heap) (s : Slice) (v : String) (hm : v ∈ h.get s) :
    (removeS h s v).2.len = s.len - 1 := by
  cases hi : idxOf? v (h.get s) with
  | none => exact absurd hm (idxOf?_none hi)
  | some i => rw [removeS_some hi]

theorem removeAllN_absent (n : Nat) (h : Heap) (s : Slice) (v : String) (hm : v ∉ h.get s) :
    removeAllN n h s v = (h, s) := by
  induction n with
  | zero => rfl
  | succ n ih =>
    unfold removeAllN
    rw [removeS_none (idxOf?_of_not_mem hm)]
    exact ih

theorem filter_ne_erase (v : String) (l : List String) : (l.erase v).filter (· ≠ v) = l.filter (· ≠ v) := by
  induction l with
  | nil => rfl
  | cons x r ih =>
    by_cases hx : x = v
    · subst hx; simp
    · have hne : (x == v) = false := by simpa using hx
      rw [List.erase_cons, hne]
      simp only [Bool.false_eq_true, if_false, List.filter_cons, ne_eq, hx, not_false_eq_true, decide_true, if_true]
      rw [← ih]

theorem removeAllN_get (n : Nat) (h : Heap) (s : Slice) (v : String) (hw : h.WF s) (hn : s.len ≤ n) :
    (removeAllN n h s v).1.get (removeAllN n h s v).2 = (h.get s).filter (· ≠ v) := by
  induction n generalizing h s with
  | zero =>
    have hl := Heap.get_length hw
    have : h.get s = [] := List.eq_nil_of_length_eq_zero (by omega)
    simp [removeAllN, this]
  | succ n ih =>
    by_cases hm : v ∈ h.get s
    · unfold removeAllN
      have hl := Heap.get_length hw
      have hpos : 0 < (h.get s).length := List.length_pos_of_mem hm
      rw [ih _ _ (removeS_WF h s v hw) (by rw [removeS_len_of_mem h s v hm]; omega), removeS_get h s v hw,
        filter_ne_erase]
    · rw [removeAllN_absent _ h s v hm]
      symm
      rw [List.filter_eq_self]
      intro x hx
      simp only [ne_eq, decide_not, Bool.not_eq_eq_eq_not, Bool.not_true, decide_eq_false_iff_not]
      intro e; exact hm (e ▸ hx)

/-- **`remove` (repaired) on its own slice**: every occurrence is gone, the rest keeps its order. -/
theorem removeAllS_get (h : Heap) (s : Slice) (v : String) (hw : h.WF s) :
    (removeAllS h s v).1.get (removeAllS h s v).2 = (h.get s).filter (· ≠ v) :=
  removeAllN_get s.len h s v hw (Nat.le_refl _)

theorem addnewS_mem {h : Heap} {s : Slice} {v : String} (hm : v ∈ h.get s) : addnewS h s v = (h, s) := by
  unfold addnewS; simp [hm]

theorem addnewS_room {h : Heap} {s : Slice} {v : String} (hm : v ∉ h.get s) (hc : s.len < (h.arrOf s).length) :
    addnewS h s v = (h.set s.arr ((h.arrOf s).set s.len v), ⟨s.arr, s.len + 1⟩) := by
  unfold addnewS; simp [hm, hc]

theorem addnewS_full {h : Heap} {s : Slice} {v : String} (hm : v ∉ h.get s) (hc : ¬ s.len < (h.arrOf s).length) :
    addnewS h s v = h.allocCap (h.get s ++ [v]) (growCap (h.arrOf s).length) := by
  unfold addnewS; simp [hm, hc]

/-- **`addnew` on its own slice**: appended unless present. -/
theorem addnewS_get (h : Heap) (s : Slice) (v : String) (hw : h.WF s) :
    (addnewS h s v).1.get (addnewS h s v).2 = addnewL v (h.get s) := by
  have hlen := Heap.get_length hw
  unfold addnewL
  by_cases hm : v ∈ h.get s
  · rw [addnewS_mem hm]; simp [hm]
  · rw [if_neg hm]
    by_cases hc : s.len < (h.arrOf s).length
    · rw [addnewS_room hm hc]
      show List.take (s.len + 1) ((h.set s.arr _).getD s.arr []) = _
      rw [getD_set_self h s.arr _ hw.1]
      rw [List.take_add_one]
      simp only [Heap.get]
      rw [List.take_set_of_le (Nat.le_refl _)]
      simp [hc]
    · rw [addnewS_full hm hc]
      show List.take (h.get s ++ [v]).length ((h ++ [_]).getD h.length []) = _
      have : (h ++ [h.get s ++ [v] ++ List.replicate (growCap (h.arrOf s).length - (h.get s ++ [v]).length) ""]).getD h.length [] =
          h.get s ++ [v] ++ List.replicate (growCap (h.arrOf s).length - (h.get s ++ [v]).length) "" := by
        simp [List.getD_eq_getElem?_getD]
      rw [this, List.take_append_of_le_length (Nat.le_refl _), List.take_of_length_le (Nat.le_refl _)]


/-- **frame, `remove`**: a slice of another backing array is not affected. -/
theorem removeS_frame (h : Heap) (s s' : Slice) (v : String) (hne : s'.arr ≠ s.arr) :
    (removeS h s v).1.get s' = h.get s' := by
  cases hi : idxOf? v (h.get s) with
  | none => rw [removeS_none hi]
  | some i =>
    rw [removeS_some hi]
    show List.take s'.len ((h.set s.arr _).getD s'.arr []) = _
    rw [getD_set_ne h s.arr s'.arr _ (Ne.symm hne)]
    rfl

/-- **frame, `addnew`**: a slice of another backing array (inside the heap) is not affected. -/
theorem addnewS_frame (h : Heap) (s s' : Slice) (v : String) (hne : s'.arr ≠ s.arr) (hin : s'.arr < h.length) :
    (addnewS h s v).1.get s' = h.get s' := by
  by_cases hm : v ∈ h.get s
  · rw [addnewS_mem hm]
  · by_cases hc : s.len < (h.arrOf s).length
    · rw [addnewS_room hm hc]
      show List.take s'.len ((h.set s.arr _).getD s'.arr []) = _
      rw [getD_set_ne h s.arr s'.arr _ (Ne.symm hne)]
      rfl
    · rw [addnewS_full hm hc]
      show List.take s'.len ((h ++ [_]).getD s'.arr []) = _
      have : ∀ x : List String, (h ++ [x]).getD s'.arr [] = h.getD s'.arr [] := by
        intro x; simp [List.getD_eq_getElem?_getD, List.getElem?_append_left hin]
      rw [this]; rfl

theorem removeAllN_frame (n : Nat) (h : Heap) (s s' : Slice) (v : String) (hne : s'.arr ≠ s.arr) :
    (removeAllN n h s v).1.get s' = h.get s' := by
  induction n generalizing h s with
  | zero => rfl
  | succ n ih =>
    unfold removeAllN
    rw [ih _ _ (by rw [removeS_arr]; exact hne), removeS_frame h s s' v hne]

/-- **frame, `remove` (repaired)**: a slice of another backing array is not affected. -/
theorem removeAllS_frame (h : Heap) (s s' : Slice) (v : String) (hne : s'.arr ≠ s.arr) :
    (removeAllS h s v).1.get s' = h.get s' := removeAllN_frame s.len h s s' v hne

/-- **no frame for slices of the same array** (the sharing defect): `addnew`
through one slice changes what another slice of the same array shows. -/
theorem addnewS_shared_example :
    let h : Heap := [[], ["present", "message"]]
    let s1 : Slice := ⟨1, 1⟩     -- after `shutup`: [present], capacity 2
    let s2 : Slice := ⟨1, 2⟩     -- another client's view of the same array
    h.get s2 = ["present", "message"] ∧ (addnewS h s1 "op").1.get s2 = ["present", "op"] := by
  decide

end Galene.Sig
