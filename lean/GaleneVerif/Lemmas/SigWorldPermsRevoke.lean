import GaleneVerif.Lemmas.SigWorldPermsMsg
/-
The permission-change action on the world model (C11, revocation): what `stepAction` does when the
oldest queued action is `changePerm` (the client's list is edited as asked) and `permChanged` (a
client that has lost `present` closes its streams).
-/
namespace Galene.Sig

/-! ### the edit, on plain lists -/

/-- webclient.go `remove` on a plain list: every occurrence (`all`, the repaired code) or the first one -/
def removeL (all : Bool) (v : String) (l : List String) : List String :=
  if all then l.filter (· ≠ v) else l.erase v

theorem removeFix_get (fx : Fixes) (h : Heap) (s : Slice) (v : String) (hw : h.WF s) :
    (removeFix fx h s v).1.get (removeFix fx h s v).2 = removeL fx.removeAll v (h.get s) := by
  unfold removeFix removeL
  split_ifs
  · exact removeAllS_get h s v hw
  · exact removeS_get h s v hw

/-- changePermissionsAction on a plain list: `all` is the repair flag of `remove`, `rec` says whether
the group allows recording -/
def permEditL (all : Bool) (l : List String) (rec : Bool) (kind : String) : Option (List String) :=
  if kind = "op" then some (if rec then addnewL "record" (addnewL "op" l) else addnewL "op" l)
  else if kind = "unop" then some (removeL all "record" (removeL all "op" l))
  else if kind = "present" then some (addnewL "present" l)
  else if kind = "unpresent" then some (removeL all "present" l)
  else if kind = "shutup" then some (removeL all "message" l)
  else if kind = "unshutup" then some (addnewL "message" l)
  else none

/-- the heap edit shows, through the slice it returns, the list edit of the old list -/
theorem permEdit_get (fx : Fixes) (h : Heap) (s : Slice) (rec : Bool) (kind : String) (r : Heap × Slice) (hw : h.WF s)
    (he : permEdit fx h s rec kind = some r) : permEditL fx.removeAll (h.get s) rec kind = some (r.1.get r.2) := by
  unfold permEdit at he
  unfold permEditL
  by_cases h1 : kind = "op"
  · rw [if_pos h1] at he ⊢
    simp only [] at he
    cases rec with
    | true =>
      simp only [if_true, Option.some.injEq] at he ⊢
      rw [← he, addnewS_get _ _ _ (addnewS_ok h s "op" hw).wf, addnewS_get h s "op" hw]
    | false =>
      simp only [Bool.false_eq_true, if_false, Option.some.injEq] at he ⊢
      rw [← he]
      exact (addnewS_get h s "op" hw).symm
  rw [if_neg h1] at he ⊢
  by_cases h2 : kind = "unop"
  · rw [if_pos h2] at he ⊢
    simp only [Option.some.injEq] at he ⊢
    rw [← he, removeFix_get fx _ _ _ (removeFix_ok fx h s "op" hw).wf, removeFix_get fx h s "op" hw]
  rw [if_neg h2] at he ⊢
  by_cases h3 : kind = "present"
  · rw [if_pos h3] at he ⊢
    simp only [Option.some.injEq] at he ⊢
    rw [← he]; exact (addnewS_get h s _ hw).symm
  rw [if_neg h3] at he ⊢
  by_cases h4 : kind = "unpresent"
  · rw [if_pos h4] at he ⊢
    simp only [Option.some.injEq] at he ⊢
    rw [← he]; exact (removeFix_get fx h s _ hw).symm
  rw [if_neg h4] at he ⊢
  by_cases h5 : kind = "shutup"
  · rw [if_pos h5] at he ⊢
    simp only [Option.some.injEq] at he ⊢
    rw [← he]; exact (removeFix_get fx h s _ hw).symm
  rw [if_neg h5] at he ⊢
  by_cases h6 : kind = "unshutup"
  · rw [if_pos h6] at he ⊢
    simp only [Option.some.injEq] at he ⊢
    rw [← he]; exact (addnewS_get h s _ hw).symm
  rw [if_neg h6] at he
  cases he

theorem permEdit_isSome (fx : Fixes) (h : Heap) (s : Slice) (rec : Bool) (kind : String) :
    (permEdit fx h s rec kind).isSome = (permEditL fx.removeAll (h.get s) rec kind).isSome := by
  unfold permEdit permEditL
  split_ifs <;> rfl

/-! ### one iteration of the action loop, spelled out -/

theorem stepAction_cons (w : World) (i : Nat) (c : Client) (a : Action) (rest : List Action)
    (hc : w.clients[i]? = some c) (hq : c.queue = a :: rest) :
    stepAction w i =
      (if (handleAction (w.modClient i (fun c => { c with queue := rest })) i a).1.crashed then
        handleAction (w.modClient i (fun c => { c with queue := rest })) i a
      else match (handleAction (w.modClient i (fun c => { c with queue := rest })) i a).2 with
        | some e => ((finish (handleAction (w.modClient i (fun c => { c with queue := rest })) i a).1 i e).flush, some e)
        | none => ((handleAction (w.modClient i (fun c => { c with queue := rest })) i a).1.flush, none)) := by
  unfold stepAction
  have : w.client? i = some c := hc
  rw [this]
  simp only [hq]
  split_ifs
  · rfl
  · split <;> simp_all

theorem pk_withHeap (w : World) (h : Heap) : World.pk { w with heap := h } = w.pk.withHeap h := rfl

/-- the skeleton after the action loop of a member has handled a permission change -/
theorem stepAction_changePerm_pk (w : World) (i : Nat) (c : Client) (kind : String) (rest : List Action) (g : String)
    (hc : w.clients[i]? = some c) (hq : c.queue = .changePerm kind :: rest) (hg : c.group = some g)
    (r : Heap × Slice)
    (he : permEdit w.fix w.heap c.perms ((w.group? g).any (fun g => g.cfg.allowRecording)) kind = some r) :
    (stepAction w i).1.pk = w.pk.setPerms i r.1 r.2 := by
  have hc1 : (w.modClient i (fun c => { c with queue := rest })).client? i = some { c with queue := rest } := by
    show (w.modClient i _).clients[i]? = _
    rw [modClient_get, if_pos rfl, hc]; rfl
  have hgrp : ((({ c with queue := rest } : Client).group.bind (w.modClient i (fun c => { c with queue := rest })).group?).any
      (fun g => g.cfg.allowRecording)) = (w.group? g).any (fun g => g.cfg.allowRecording) := by
    show ((c.group.bind w.group?).any _) = _
    rw [hg]; rfl
  have hha : handleAction (w.modClient i (fun c => { c with queue := rest })) i (.changePerm kind) =
      (((({ (w.modClient i (fun c => { c with queue := rest })) with heap := r.1 } : World).modClient i
        (fun c => { c with perms := r.2 })).enq i .permChanged), none) := by
    rw [handleAction_changePerm _ i _ kind hc1]
    have hn : ¬ ((w.modClient i (fun c => { c with queue := rest })).fix.p19 = true ∧
        ({ c with queue := rest } : Client).group.isNone = true) := by
      intro h
      have : c.group.isNone = true := h.2
      rw [hg] at this; cases this
    rw [if_neg hn, hgrp]
    show (match permEdit w.fix w.heap c.perms _ kind with | none => _ | some (h, s) => _) = _
    rw [he]
  rw [stepAction_cons w i c _ rest hc hq, hha]
  have hpk : (((({ (w.modClient i (fun c => { c with queue := rest })) with heap := r.1 } : World).modClient i
        (fun c => { c with perms := r.2 })).enq i .permChanged)).pk = w.pk.setPerms i r.1 r.2 := by
    rw [enq_pk, modClient_pk' _ i _ (fun x => (x.1, r.2)) (fun _ => rfl)]
    have h0 : World.pk ({ (w.modClient i (fun c => { c with queue := rest })) with heap := r.1 } : World) =
        w.pk.withHeap r.1 := by
      have := modClient_pk_same w i (fun c => { c with queue := rest }) (fun _ => rfl)
      exact (pk_withHeap _ r.1).trans (by rw [this])
    rw [h0]
    rfl
  simp only []
  split_ifs
  · exact hpk
  · rw [flush_pk]; exact hpk

/-! ### the up connections of a connection -/

def upOf (w : World) (i : Nat) : Option (List (String × String)) := (w.clients[i]?).map (·.up)

@[simp] theorem upOf_write (w : World) (j : Nat) (m : OutMsg) (i : Nat) : upOf (w.write j m) i = upOf w i := rfl

theorem upOf_modClient_same (w : World) (j : Nat) (f : Client → Client) (hf : ∀ c, (f c).up = c.up) (i : Nat) :
    upOf (w.modClient j f) i = upOf w i := by
  unfold upOf
  rw [modClient_get]
  split_ifs
  · cases w.clients[i]? <;> simp [hf]
  · rfl

@[simp] theorem upOf_enq (w : World) (j : Nat) (a : Action) (i : Nat) : upOf (w.enq j a) i = upOf w i :=
  upOf_modClient_same w j (fun c => { c with queue := c.queue ++ [a] }) (fun _ => rfl) i

theorem upOf_foldl {α : Type} (i : Nat) (f : World → α → World) (l : List α) (w : World)
    (h : ∀ w a, upOf (f w a) i = upOf w i) : upOf (l.foldl f w) i = upOf w i := by
  induction l generalizing w with
  | nil => rfl
  | cons a r ih => simp only [List.foldl_cons]; rw [ih, h]

@[simp] theorem upOf_flush (w : World) (i : Nat) : upOf w.flush i = upOf w i := by
  unfold World.flush
  show upOf (List.foldl _ w w.deferred) i = upOf w i
  exact upOf_foldl i _ _ _ (fun w e => upOf_enq w e.1 e.2 i)

@[simp] theorem upOf_broadcastChange (w : World) (gn : String) (a : Action) (i : Nat) :
    upOf (broadcastChange w gn a) i = upOf w i := by
  unfold broadcastChange
  split
  · rfl
  · simp only []
    split
    · exact upOf_foldl i _ _ _ (fun w j => upOf_enq w j a i)
    · show upOf (List.foldl _ w _) i = upOf w i
      exact upOf_foldl i _ _ _ (fun w j => upOf_enq w j a i)

/-- delUpConn removes the stream from the connection's own list (and nothing else from it) -/
theorem upOf_delUpConn (w : World) (i : Nat) (id : String) (push : Bool) :
    upOf (delUpConn w i id push).1 i = (upOf w i).map (fun U => U.filter (fun x => x.1 ≠ id)) := by
  unfold delUpConn
  cases hc : w.client? i with
  | none =>
    have : w.clients[i]? = none := hc
    simp only [upOf, this]; rfl
  | some c =>
    have hc' : w.clients[i]? = some c := hc
    simp only []
    cases hf : c.up.find? (fun u => u.1 = id) with
    | none =>
      simp only [upOf, hc', Option.map_some, Option.some.injEq]
      symm
      rw [List.filter_eq_self]
      intro x hx
      have := List.find?_eq_none.mp hf x hx
      simpa using this
    | some u =>
      simp only []
      have h0 : upOf (w.modClient i fun c => { c with up := c.up.filter fun x => x.1 ≠ id }) i =
          (upOf w i).map (fun U => U.filter (fun x => x.1 ≠ id)) := by
        unfold upOf
        rw [modClient_get, if_pos rfl, hc']
        rfl
      split
      · exact h0
      · split
        · exact h0
        · rw [upOf_foldl i _ _ _ ?_]
          · exact h0
          · intro w r
            cases r <;> simp only []
            split_ifs <;> simp

/-- closing every stream of a list, one after the other -/
theorem upOf_closeAll (i : Nat) (F : World → (String × String) → World)
    (hF : ∀ w u, upOf (F w u) i = (upOf w i).map (fun U => U.filter (fun x => x.1 ≠ u.1))) :
    ∀ (L : List (String × String)) (w : World),
      upOf (L.foldl F w) i = (upOf w i).map (fun U => U.filter (fun x => L.all (fun u => x.1 ≠ u.1))) := by
  intro L
  induction L with
  | nil =>
    intro w
    simp only [List.foldl_nil, List.all_nil]
    cases upOf w i with
    | none => rfl
    | some U =>
      simp only [Option.map_some, Option.some.injEq]
      exact (List.filter_eq_self.mpr (fun _ _ => rfl)).symm
  | cons u r ih =>
    intro w
    simp only [List.foldl_cons]
    rw [ih, hF]
    cases upOf w i with
    | none => rfl
    | some U =>
      simp only [Option.map_some, Option.some.injEq, List.filter_filter, List.all_cons]
      apply List.filter_congr
      intro x _
      simp only [Bool.and_comm]

theorem filter_all_self (L : List (String × String)) : L.filter (fun x => L.all (fun u => x.1 ≠ u.1)) = [] := by
  rw [List.filter_eq_nil_iff]
  intro x hx h
  rw [List.all_eq_true] at h
  have := h x hx
  simp at this

/-- a member that handles `permChanged` without holding `present` closes all its streams -/
theorem handleAction_permChanged_up (w : World) (i : Nat) (c : Client) (gr : Group) (hc : w.clients[i]? = some c)
    (hgr : c.group.bind w.group? = some gr) (hp : "present" ∉ w.heap.get c.perms) :
    upOf (handleAction w i .permChanged).1 i = some [] ∧ (handleAction w i .permChanged).2 = none := by
  unfold handleAction
  have : w.client? i = some c := hc
  rw [this]
  simp only []
  rw [hgr]
  simp only [hp, not_false_eq_true, if_true]
  refine ⟨?_, trivial⟩
  rw [upOf_broadcastChange, upOf_closeAll i _ ?_ c.up]
  · rw [upOf_write]
    simp only [upOf, hc, Option.map_some, filter_all_self]
  · intro w u
    have := upOf_delUpConn w i u.1 true
    split_ifs
    · rw [upOf_write, upOf_write]; exact this
    · exact this

end Galene.Sig
