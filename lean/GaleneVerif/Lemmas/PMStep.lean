import GaleneVerif.Lemmas.PMInv
/-
One-step lemmas: what `Drop` and the three in-window branches of `Map` do to the
ghost-augmented state, and that the representation invariant is preserved.
-/
namespace Galene.Lemmas.PMStep
open Galene.PacketMap Galene.Lemmas.Mod16 Galene.Lemmas.Ring Galene.Lemmas.Count Galene.Lemmas.Table
open Galene.Lemmas.PMInv

/-! ### Drop -/

theorem dropOp_accept (P : Params) (m : State) (pid : Nat) (hs : m.started = true) :
    dropOp P m m.next pid =
      ({ m with entries := (if m.entries.length = 0 then
                  [{ first := sub16 m.next P.W, count := P.W, delta := 0, pidDelta := 0 : Entry }]
                else m.entries),
                pidDelta := add16 m.pidDelta (sub16 pid m.nextPid),
                nextPid := pid,
                delta := sub16 m.delta 1,
                next := add16 m.next 1 }, true) := by
  simp [dropOp, hs]

/-- an accepted drop (at the unwrapped next `U`) preserves the invariant, with `U` withheld -/
theorem inv_drop (P : Params) (R : Nat) (hS : Side P R) (g : GState) (pid : Nat)
    (h : Inv P R g) (hrun : g.run < R) :
    Inv P R { m := (dropOp P g.m (g.U % 65536) pid).1, U := g.U + 1, D := g.U :: g.D, run := g.run + 1 } := by
  have hW := hS.hWC
  have hB := hS.hB
  have hbig := h.big
  rw [← h.next, dropOp_accept P g.m pid h.started]
  have hdesc : Desc (g.U :: g.D) := by
    unfold Desc
    rw [List.pairwise_cons]
    exact ⟨fun d hd => h.below d hd, h.desc⟩
  have hswf : SWF P (dropOp P g.m g.m.next pid).1 := dropOp_swf P hS.hE g.m g.m.next pid h.swf
  rw [dropOp_accept P g.m pid h.started] at hswf
  refine ⟨hswf, h.started, ?_, ?_, hdesc, ?_, ?_, ?_, ?_, ?_, ?_⟩
  · simp only [h.next]; unfold add16; omega
  · simp only; omega
  · intro d hd
    rcases List.mem_cons.mp hd with rfl | hd
    · simp only; omega
    · have := h.below d hd; simp only; omega
  · simp only [h.delta, List.length_cons]; exact sub16_neg_one _
  · simp only; omega
  · simp only [List.length_cons]
    have e1 : g.U + 1 - (g.run + 1) = g.U - g.run := by omega
    rw [e1, cnt_cons_ge g.U g.D (g.U - g.run) (by omega)]
    have := h.runD; omega
  · intro hc
    exfalso
    simp only at hc
    split at hc
    · simp at hc
    · rename_i h0; exact h0 (by rw [hc]; rfl)
  · intro _
    by_cases h0 : g.m.entries.length = 0
    · -- first drop: install the identity interval [U - W, U)
      have hnil : g.m.entries = [] := List.eq_nil_of_length_eq_zero h0
      obtain ⟨hD, hr⟩ := h.ident hnil
      have hl := h.swf.nil hnil
      refine ⟨g.U - P.W, { first := sub16 g.m.next P.W, count := P.W, delta := 0, pidDelta := 0 }, [], ?_, ?_, ?_, trivial⟩
      · simp only [tbl, h0, if_true, hl]
        rfl
      · refine ⟨?_, ?_, ?_, ?_⟩
        · simp only [h.next]; unfold sub16; omega
        · simp only; omega
        · simp only [hD]
          rw [cnt_cons_ge _ _ _ (by omega), cnt_nil]
          decide
        · intro d hd
          simp only [hD, List.mem_singleton] at hd
          subst hd
          simp only; omega
      · simp only [hr]; omega
    · -- later drops: the table is untouched
      have hne : g.m.entries ≠ [] := ne_nil_of_length_ne_zero h0
      obtain ⟨F, e, rest, ht, hok, hsum, hc⟩ := h.head hne
      refine ⟨F, e, rest, ?_, intervalOK_consD P g.D F g.U e hok (by omega), ?_, chain_consD P g.D g.U rest F hc (by omega)⟩
      · simp only [tbl, h0, if_false]
        exact ht
      · simp only; omega

/-! ### Map, in order: `addMapping` on the abstract table -/

/-- the `first` chosen for a fresh interval is the unwrapped old next `U` when the drop run is
shorter than `W`, and the packet itself otherwise; in both cases it lies in `[U, u]` -/
theorem newFirst_spec (P : Params) (R : Nat) (hS : Side P R) (a run U u F : Nat) (e : Entry)
    (hfirst : e.first = F % 65536) (hdelta : e.delta = neg a) (hsum : F + e.count + run = U)
    (hrunR : run ≤ R) (hu1 : U ≤ u) (hu2 : u ≤ U + P.W) :
    ∃ F', U ≤ F' ∧ F' ≤ u ∧ newFirst P e (u % 65536) (neg (a + run)) = F' % 65536 := by
  have hB := hS.hB
  have hW := hS.hWC
  unfold newFirst
  rw [hdelta, sub16_neg_neg, hfirst, add16_mod, add16_mod]
  have hr : run % 65536 = run := Nat.mod_eq_of_lt (by omega)
  rw [hr]
  by_cases hw : run < P.W
  · simp only [hw, if_true]
    rw [hsum]
    rcases Nat.lt_or_ge U u with hlt | hge
    · rw [compare_lt U u hlt (by omega)]
      exact ⟨U, Nat.le_refl _, hu1, by simp⟩
    · have : u = U := by omega
      subst this
      rw [compare_self]
      exact ⟨u, Nat.le_refl _, Nat.le_refl _, by simp⟩
  · simp only [hw, if_false]
    exact ⟨u, hu1, Nat.le_refl _, rfl⟩

/-- **`addMapping` for an in-order packet `u ∈ [U, U+W]`** keeps the table a chain of valid
intervals and makes the newest interval end exactly at `u + 1`. -/
theorem absAdd_fwd (P : Params) (R : Nat) (hS : Side P R) (D : List Nat)
    (U run u F : Nat) (e : Entry) (rest : List Entry) (pd : Nat)
    (hok : IntervalOK P D F e) (hsum : F + e.count + run = U) (hc : Chain P D F rest)
    (hbelow : ∀ d ∈ D, d < U) (hrunD : cnt D (U - run) + run = D.length) (hrunR : run ≤ R)
    (hu1 : U ≤ u) (hu2 : u ≤ U + P.W) :
    ∃ F' e' rest', absAdd P (e :: rest) (u % 65536) (neg D.length) pd = e' :: rest' ∧
      IntervalOK P D F' e' ∧ F' + e'.count = u + 1 ∧ Chain P D F' rest' ∧
      F' ≤ u ∧ e'.pidDelta = pd := by
  have hB := hS.hB
  have hW := hS.hWC
  have hcb := hok.bound
  -- number of withheld packets: `a` below the newest interval plus the current run
  have hUr : U - run = F + e.count := by omega
  have ha : cnt D (F + e.count) = cnt D F :=
    cnt_eq_of_none_between D F (F + e.count) (by omega) hok.free
  have hlen : D.length = cnt D F + run := by rw [← hrunD, hUr, ha]
  have hall : ∀ x, U ≤ x → cnt D x = D.length := by
    intro x hx
    exact cnt_all D x (fun d hd => by have := hbelow d hd; omega)
  have hsub : sub16 (u % 65536) e.first = u - F := by
    rw [hok.first]; exact sub16_mod_small u F (by omega) (by omega)
  simp only [absAdd]
  by_cases hext : extendCond P e (u % 65536) (neg D.length) pd = true
  · -- extend the newest interval
    rw [if_pos hext]
    unfold extendCond at hext
    simp only [Bool.and_eq_true, decide_eq_true_eq] at hext
    obtain ⟨⟨hd, hpd⟩, hcnt⟩ := hext
    rw [hsub] at hcnt
    have hrun0 : run = 0 := by
      rw [hok.delta, hlen] at hd
      exact neg_eq_neg _ _ hd (by omega)
    refine ⟨F, _, rest, rfl, ⟨hok.first, ?_, hok.delta, ?_⟩, ?_, hc, by omega, hpd.symm⟩
    · simp only [hsub]; unfold add16; omega
    · intro d hd hcon
      simp only [hsub] at hcon
      have h1 := hbelow d hd
      exact hok.free d hd ⟨hcon.1, by omega⟩
    · simp only [hsub]; unfold add16; omega
  · -- start a fresh interval
    rw [if_neg hext]
    obtain ⟨F', hF1, hF2, hnf⟩ := newFirst_spec P R hS (cnt D F) run U u F e hok.first hok.delta hsum hrunR hu1 hu2
    rw [← hlen] at hnf
    have hcount : add16 (sub16 (u % 65536) (F' % 65536)) 1 = u - F' + 1 := by
      rw [sub16_mod_small u F' hF2 (by omega)]; unfold add16; omega
    have hnew : IntervalOK P D F' (newEntry P e (u % 65536) (neg D.length) pd) := by
      refine ⟨?_, ?_, ?_, ?_⟩
      · simp only [newEntry, hnf]
      · simp only [newEntry, hnf, hcount]; omega
      · simp only [newEntry]; rw [hall F' hF1]
      · intro d hd hcon
        have := hbelow d hd; omega
    have hsum' : F' + (newEntry P e (u % 65536) (neg D.length) pd).count = u + 1 := by
      simp only [newEntry, hnf, hcount]; omega
    have hold : Chain P D F' (e :: rest) := ⟨F, hok, by omega, by omega, hc⟩
    split
    · exact ⟨F', _, _, rfl, hnew, hsum', hold, hF2, rfl⟩
    · exact ⟨F', _, _, rfl, hnew, hsum', chain_dropLast P D _ F' hold, hF2, rfl⟩

/-! ### the three in-window branches of `Map` -/

/-- within the window, the modular test `compare next seqno ≤ 0` is `U ≤ u` -/
theorem cond_fwd (P : Params) (R : Nat) (hS : Side P R) (g : GState) (u : Nat) (h : Inv P R g)
    (hw1 : g.U ≤ u + P.W) (hw2 : u ≤ g.U + P.W) :
    PacketMap.compare g.m.next (u % 65536) ≤ 0 ↔ g.U ≤ u := by
  have hB := hS.hB
  have hW := hS.hWC
  rw [h.next]
  exact compare_le_iff g.U u (by omega) (by omega)

theorem not_far_fwd (P : Params) (R : Nat) (hS : Side P R) (g : GState) (u : Nat) (h : Inv P R g)
    (hu1 : g.U ≤ u) (hw2 : u ≤ g.U + P.W) : ¬ sub16 (u % 65536) g.m.next > P.W := by
  have hB := hS.hB
  rw [h.next, sub16_mod_small u g.U hu1 (by omega)]
  omega

theorem not_far_back (P : Params) (R : Nat) (hS : Side P R) (g : GState) (u : Nat) (h : Inv P R g)
    (hu1 : u ≤ g.U) (hw1 : g.U ≤ u + P.W) : ¬ sub16 g.m.next (u % 65536) > P.W := by
  have hB := hS.hB
  rw [h.next, sub16_mod_small g.U u hu1 (by omega)]
  omega

/-- identity state (nothing withheld yet): every in-window packet is forwarded unchanged -/
theorem map_ident (P : Params) (R : Nat) (hS : Side P R) (g : GState) (u pid : Nat) (h : Inv P R g)
    (hnil : g.m.entries = []) (hw1 : g.U ≤ u + P.W) (hw2 : u ≤ g.U + P.W) :
    mapOp P g.m (u % 65536) pid =
      some ((if g.U ≤ u then { g.m with started := true, next := add16 (u % 65536) 1, nextPid := pid } else g.m),
            (true, u % 65536, 0)) := by
  have hd : g.m.delta = 0 := by rw [h.delta, (h.ident hnil).1]; rfl
  unfold mapOp
  simp only [hd, hnil, List.length_nil, decide_true, Bool.and_self, if_true, h.started, Bool.not_true,
    Bool.false_or]
  by_cases hu : g.U ≤ u
  · have := (cond_fwd P R hS g u h hw1 hw2).mpr hu
    simp only [this, decide_true, Bool.true_or, if_true, hu]
  · have h1 : ¬ PacketMap.compare g.m.next (u % 65536) ≤ 0 := fun hc => hu ((cond_fwd P R hS g u h hw1 hw2).mp hc)
    have h2 := not_far_back P R hS g u h (by omega) hw1
    simp only [h1, h2, decide_false, Bool.or_self, Bool.false_eq_true, if_false, hu]

/-- the invariant after an identity-state `Map` -/
theorem inv_map_ident (P : Params) (R : Nat) (g : GState) (u pid : Nat) (h : Inv P R g)
    (hnil : g.m.entries = []) :
    Inv P R { m := (if g.U ≤ u then { g.m with started := true, next := add16 (u % 65536) 1, nextPid := pid } else g.m),
              U := (if g.U ≤ u then u + 1 else g.U), D := g.D, run := (if g.U ≤ u then 0 else g.run) } := by
  by_cases hu : g.U ≤ u
  · simp only [hu, if_true]
    obtain ⟨hD, hr⟩ := h.ident hnil
    have hbig := h.big
    refine ⟨⟨h.swf.len, h.swf.idx, h.swf.nil, h.swf.top⟩, rfl, ?_, ?_, h.desc, ?_, h.delta, Nat.zero_le _, ?_,
      fun _ => ⟨hD, rfl⟩, fun hc => absurd hnil hc⟩
    · simp only; unfold add16; omega
    · simp only; omega
    · intro d hd; have := h.below d hd; simp only; omega
    · simp only [hD]; rfl
  · simp only [hu, if_false]
    exact h

/-- **in-order packet with a non-empty table**: forwarded as `out D u`; the invariant is kept
with `U := u + 1`, `run := 0` -/
theorem map_fwd (P : Params) (R : Nat) (hS : Side P R) (g : GState) (u pid : Nat) (h : Inv P R g)
    (hne : g.m.entries ≠ []) (hu1 : g.U ≤ u) (hu2 : u ≤ g.U + P.W) :
    ∃ m', mapOp P g.m (u % 65536) pid = some (m', (true, out g.D u, g.m.pidDelta)) ∧
      Inv P R { m := m', U := u + 1, D := g.D, run := 0 } ∧
      (∃ F' e' rest', tbl m' = e' :: rest' ∧ IntervalOK P g.D F' e' ∧ F' ≤ u ∧ F' + e'.count = u + 1 ∧
        e'.pidDelta = g.m.pidDelta) := by
  obtain ⟨m1, e1, hswf1, hne1, htbl1, hn1, _, hd1, hp1, hst1⟩ :=
    addMapping_spec P hS.hE g.m (u % 65536) g.m.delta g.m.pidDelta h.swf hne
  obtain ⟨F, e, rest, ht, hok, hsum, hc⟩ := h.head hne
  rw [ht, h.delta] at htbl1
  obtain ⟨F', e', rest', hadd, hok', hsum', hc', hF'u, hpd'⟩ :=
    absAdd_fwd P R hS g.D g.U g.run u F e rest g.m.pidDelta hok hsum hc h.below h.runD h.runR hu1 hu2
  rw [hadd] at htbl1
  have hall : cnt g.D u = g.D.length := cnt_all g.D u (fun d hd => by have := h.below d hd; omega)
  have hle : g.D.length ≤ u := by rw [← hall]; exact cnt_le g.D u h.desc
  have hbig := h.big
  refine ⟨{ m1 with next := add16 (u % 65536) 1, nextPid := pid }, ?_, ?_,
    ⟨F', e', rest', htbl1, hok', hF'u, hsum', hpd'⟩⟩
  · unfold mapOp
    have h0 : (decide (g.m.delta = 0) && decide (g.m.entries.length = 0)) = false := by
      simp only [Bool.and_eq_false_iff, decide_eq_false_iff_not]
      exact Or.inr (length_ne_zero_of_ne_nil hne)
    have hf := (cond_fwd P R hS g u h (by omega) hu2).mpr hu1
    have hnf := not_far_fwd P R hS g u h hu1 hu2
    simp only [h0, Bool.false_eq_true, if_false, hf, if_true, hnf, e1]
    rw [hd1, hp1, h.delta, add16_neg u g.D.length hle]
    unfold out
    rw [hall]
  · refine ⟨⟨hswf1.len, hswf1.idx, hswf1.nil, hswf1.top⟩, by simp only; rw [hst1]; exact h.started,
      ?_, ?_, h.desc, ?_, ?_, Nat.zero_le _, ?_, fun hc => absurd hc hne1, ?_⟩
    · simp only; unfold add16; omega
    · simp only; omega
    · intro d hd; have := h.below d hd; simp only; omega
    · simp only; rw [hd1]; exact h.delta
    · simp only [Nat.sub_zero, Nat.add_zero]
      exact cnt_all g.D (u + 1) (fun d hd => by have := h.below d hd; omega)
    · intro _
      exact ⟨F', e', rest', htbl1, hok', by simp only; omega, hc'⟩

/-- **late packet with a non-empty table**: the state is unchanged and the answer is the scan of
the newest-first table -/
theorem map_late (P : Params) (R : Nat) (hS : Side P R) (g : GState) (u pid : Nat) (h : Inv P R g)
    (hne : g.m.entries ≠ []) (hu1 : u < g.U) (hu2 : g.U ≤ u + P.W) :
    mapOp P g.m (u % 65536) pid = some (g.m, walkL (dcls (u % 65536)) (tbl g.m)) := by
  unfold mapOp
  have h0 : (decide (g.m.delta = 0) && decide (g.m.entries.length = 0)) = false := by
    simp only [Bool.and_eq_false_iff, decide_eq_false_iff_not]
    exact Or.inr (length_ne_zero_of_ne_nil hne)
  have hf : ¬ PacketMap.compare g.m.next (u % 65536) ≤ 0 := by
    intro hc
    have := (cond_fwd P R hS g u h hu2 (by omega)).mp hc
    omega
  have hnf := not_far_back P R hS g u h (by omega) hu2
  simp only [h0, Bool.false_eq_true, if_false, hf, hnf]
  rw [direct_eq P g.m (u % 65536) h.swf hne]
  rfl

end Galene.Lemmas.PMStep
