import GaleneVerif.Lemmas.Clean
/-
Consequences of `clean_eq_spec` used by Props/C19.lean: rooted paths, fixpoints, and what
`filepath.Join(dir, "/c1/…/ck")` is for safe components.  All core Lean.
-/
set_option linter.unusedSimpArgs false

namespace Galene.Paths

theorem resolveStep_safe {rooted : Bool} (σ : Nat × List Str) {c : Str} (h : SafeComp c) :
    resolveStep rooted σ c = (σ.1, σ.2 ++ [c]) := by
  simp [resolveStep, h.1, h.2.1, h.2.2.1]

theorem foldl_resolveStep_safe {rooted : Bool} : ∀ (R : List Str) (σ : Nat × List Str), (∀ c ∈ R, SafeComp c) →
    R.foldl (resolveStep rooted) σ = (σ.1, σ.2 ++ R) := by
  intro R
  induction R with
  | nil => intro σ _; simp
  | cons c r ih =>
    intro σ h
    rw [List.foldl_cons, resolveStep_safe σ (h c (by simp)), ih _ (fun x hx => h x (List.mem_cons_of_mem _ hx))]
    simp

theorem resolveStep_rooted_fst (σ : Nat × List Str) (c : Str) : (resolveStep true σ c).1 = σ.1 := by
  unfold resolveStep
  split
  · rfl
  · split
    · split <;> simp
    · rfl

theorem foldl_resolveStep_rooted_fst : ∀ (cs : List Str) (σ : Nat × List Str),
    (cs.foldl (resolveStep true) σ).1 = σ.1 := by
  intro cs
  induction cs with
  | nil => intro σ; rfl
  | cons c r ih => intro σ; rw [List.foldl_cons, ih, resolveStep_rooted_fst]

theorem resolveStep_names_safe {rooted : Bool} {σ : Nat × List Str} (hs : ∀ c ∈ σ.2, SafeComp c) {comp : Str}
    (hns : '/' ∉ comp) : ∀ c ∈ (resolveStep rooted σ comp).2, SafeComp c := by
  unfold resolveStep
  split
  · exact hs
  · rename_i h1
    split
    · split
      · intro c hc; exact hs c (List.dropLast_subset _ hc)
      · split
        · exact hs
        · simp
    · rename_i h2
      intro c hc
      simp only [List.mem_append, List.mem_singleton] at hc
      rcases hc with hc | hc
      · exact hs c hc
      · subst hc; exact ⟨fun e => h1 (Or.inl e), fun e => h1 (Or.inr e), h2, hns⟩

theorem foldl_resolveStep_names_safe {rooted : Bool} : ∀ (cs : List Str) (σ : Nat × List Str),
    (∀ c ∈ σ.2, SafeComp c) → (∀ c ∈ cs, '/' ∉ c) → ∀ c ∈ (cs.foldl (resolveStep rooted) σ).2, SafeComp c := by
  intro cs
  induction cs with
  | nil => intro σ h _; exact h
  | cons a r ih =>
    intro σ h hns
    rw [List.foldl_cons]
    exact ih _ (resolveStep_names_safe h (hns a (by simp))) (fun x hx => hns x (List.mem_cons_of_mem _ hx))

/-- the names that remain after resolving the components of `s` against the root -/
def rootedNames (s : Str) : List Str := (resolve true (splitSlash s)).2

theorem rootedNames_safe (s : Str) : ∀ c ∈ rootedNames s, SafeComp c :=
  foldl_resolveStep_names_safe _ _ (by simp) (splitSlash_noSlash s)

/-- `path.Clean("/" + s)` is "/" followed by the resolved names joined by "/" -/
theorem clean_rooted (s : Str) : clean ('/' :: s) = '/' :: joinSlash (rootedNames s) := by
  rw [clean_eq_spec]
  have h1 : resolve true (splitSlash ('/' :: s)) = resolve true (splitSlash s) := by
    simp [resolve, splitSlash_cons_slash, resolveStep]
  have h2 : (resolve true (splitSlash s)).1 = 0 := foldl_resolveStep_rooted_fst _ _
  simp only [cleanSpec, List.cons_ne_nil, if_false, List.head?_cons, decide_true, if_true, h1, bodyOf, h2,
    List.replicate_zero, List.nil_append, rootedNames]

theorem rootedNames_joinSlash {cs : List Str} (h : ∀ c ∈ cs, SafeComp c) : rootedNames (joinSlash cs) = cs := by
  unfold rootedNames resolve
  by_cases hne : cs = []
  · subst hne; simp [joinSlash, splitSlash, resolveStep]
  · rw [splitSlash_joinSlash hne (fun c hc => (h c hc).2.2.2), foldl_resolveStep_safe cs _ h]; simp

/-- head of a joined list of non-empty components is the head of the first component -/
theorem head?_joinSlash {c : Str} {r : List Str} (hc : c ≠ []) : (joinSlash (c :: r)).head? = c.head? := by
  cases c with
  | nil => exact absurd rfl hc
  | cons x c => cases r <;> simp [joinSlash]

theorem joinSlash_ne_dot {L : List Str} (h : ∀ c ∈ L, c ≠ [] ∧ c ≠ ['.']) : joinSlash L ≠ ['.'] := by
  cases L with
  | nil => simp [joinSlash]
  | cons c r =>
    cases r with
    | nil => simpa [joinSlash] using (h c (by simp)).2
    | cons d r =>
      intro e
      have := congrArg List.length e
      rw [joinSlash_cons_cons] at this
      have hc : c.length > 0 := List.length_pos_iff.mpr (h c (by simp)).1
      simp at this
      omega

/-- the prefix under which `filepath.Join(dir, …)` puts things: the cleaned directory and a slash,
except that the root is just "/" and the current directory "." is the empty prefix -/
def dirPrefix (dir : Str) : Str :=
  if clean dir = ['/'] then ['/'] else if clean dir = ['.'] then [] else clean dir ++ ['/']

/-- **joining safe components below a directory**: for every non-empty `d` and safe components `R`,
`Clean(d + "/" + "/" + c1/…/ck)` is the cleaned `d` followed by `c1/…/ck`; with no component it is
the cleaned `d` itself. -/
theorem clean_join_safe {d : Str} (hd : d ≠ []) {R : List Str} (hR : ∀ c ∈ R, SafeComp c) :
    clean (d ++ '/' :: '/' :: joinSlash R) = if R = [] then clean d else dirPrefix d ++ joinSlash R := by
  obtain ⟨c0, t0, rfl⟩ : ∃ c0 t0, d = c0 :: t0 := by
    cases d with
    | nil => exact absurd rfl hd
    | cons a b => exact ⟨a, b, rfl⟩
  -- the components of the joined string
  have hsplit : splitSlash ((c0 :: t0) ++ '/' :: '/' :: joinSlash R)
      = splitSlash (c0 :: t0) ++ [] :: (if R = [] then [[]] else R) := by
    rw [splitSlash_append_slash, splitSlash_cons_slash]
    by_cases hRn : R = []
    · simp [hRn, joinSlash, splitSlash]
    · simp [hRn, splitSlash_joinSlash hRn (fun c hc => (hR c hc).2.2.2)]
  have hcl : ∀ p : Str, clean p = cleanSpec p := clean_eq_spec
  have hdir := hcl (c0 :: t0)
  rw [hcl]
  generalize hρ : (decide ((c0 :: t0).head? = some '/')) = ρ
  have hρ' : (decide (((c0 :: t0) ++ '/' :: '/' :: joinSlash R).head? = some '/')) = ρ := by
    rw [← hρ]; simp
  generalize hσ : resolve ρ (splitSlash (c0 :: t0)) = σ
  have hσsafe : ∀ c ∈ σ.2, SafeComp c := by
    rw [← hσ]; exact foldl_resolveStep_names_safe _ _ (by simp) (splitSlash_noSlash _)
  have hres : resolve ρ (splitSlash ((c0 :: t0) ++ '/' :: '/' :: joinSlash R)) = (σ.1, σ.2 ++ R) := by
    rw [hsplit]
    unfold resolve at hσ ⊢
    rw [List.foldl_append, hσ, List.foldl_cons]
    have h0 : resolveStep ρ σ [] = σ := by simp [resolveStep]
    rw [h0]
    by_cases hRn : R = []
    · simp [hRn, resolveStep]
    · simp only [hRn, if_false]; exact foldl_resolveStep_safe R σ hR
  have hspec1 : cleanSpec ((c0 :: t0) ++ '/' :: '/' :: joinSlash R)
      = if ρ then '/' :: bodyOf (σ.1, σ.2 ++ R) else if bodyOf (σ.1, σ.2 ++ R) = [] then ['.'] else bodyOf (σ.1, σ.2 ++ R) := by
    simp only [cleanSpec, List.cons_append, List.cons_ne_nil, if_false]
    simp only [List.cons_append] at hρ' hres
    rw [hρ', hres]
  have hspec0 : cleanSpec (c0 :: t0)
      = if ρ then '/' :: bodyOf σ else if bodyOf σ = [] then ['.'] else bodyOf σ := by
    simp only [cleanSpec, List.cons_ne_nil, if_false]
    rw [hρ, hσ]
  rw [hspec1]
  by_cases hRn : R = []
  · subst hRn; simp only [List.append_nil, if_true, hdir, hspec0]
  · simp only [hRn, if_false]
    -- all components of the cleaned directory are non-empty, '/'-free, and not "."
    have hL : ∀ c ∈ List.replicate σ.1 ['.', '.'] ++ σ.2, c ≠ [] ∧ c ≠ ['.'] ∧ '/' ∉ c := by
      intro c hc
      rcases List.mem_append.mp hc with h1 | h1
      · rw [(List.mem_replicate.mp h1).2]; decide
      · exact ⟨(hσsafe c h1).1, (hσsafe c h1).2.1, (hσsafe c h1).2.2.2⟩
    have hbody : bodyOf (σ.1, σ.2 ++ R)
        = if List.replicate σ.1 ['.', '.'] ++ σ.2 = [] then joinSlash R else bodyOf σ ++ '/' :: joinSlash R := by
      unfold bodyOf
      by_cases hLn : List.replicate σ.1 ['.', '.'] ++ σ.2 = []
      · rw [← List.append_assoc, hLn]; simp
      · rw [← List.append_assoc, joinSlash_append hLn hRn]; simp [hLn]
    have hRj : joinSlash R ≠ [] := by
      rw [Ne, joinSlash_eq_nil (fun c hc => (hR c hc).1)]; exact hRn
    by_cases hLn : List.replicate σ.1 ['.', '.'] ++ σ.2 = []
    · have hb0 : bodyOf σ = [] := by unfold bodyOf; rw [hLn]; rfl
      rw [hbody, if_pos hLn]
      unfold dirPrefix
      rw [hdir, hspec0, hb0]
      cases ρ <;> simp [hRj]
    · have hbn : bodyOf σ ≠ [] := by
        unfold bodyOf
        rw [Ne, joinSlash_eq_nil (fun c hc => (hL c hc).1)]; exact hLn
      rw [hbody, if_neg hLn]
      unfold dirPrefix
      rw [hdir, hspec0]
      cases ρ with
      | true => simp [hbn]
      | false =>
        have h1 : bodyOf σ ≠ ['/'] := by
          unfold bodyOf
          cases hLL : List.replicate σ.1 ['.', '.'] ++ σ.2 with
          | nil => exact absurd hLL hLn
          | cons c r =>
            have hc := hL c (by rw [hLL]; simp)
            intro e
            have := congrArg List.head? e
            rw [head?_joinSlash hc.1] at this
            cases c with
            | nil => exact hc.1 rfl
            | cons x c =>
              simp only [List.head?_cons, Option.some.injEq] at this
              exact hc.2.2 (by simp [this])
        have h2 : bodyOf σ ≠ ['.'] := joinSlash_ne_dot (fun c hc => ⟨(hL c hc).1, (hL c hc).2.1⟩)
        simp [hbn, h1, h2]

end Galene.Paths
