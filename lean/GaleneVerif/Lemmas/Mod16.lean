import GaleneVerif.Model.PacketMap
/-
16-bit modular arithmetic facts about `sub16`, `add16`, `compare` on values `a % 65536` of
unwrapped naturals `a`.  All by `omega` after unfolding.
-/
namespace Galene.Lemmas.Mod16
open Galene.PacketMap

/-- `neg k` = the uint16 value `-k` -/
def neg (k : Nat) : Nat := (65536 - k % 65536) % 65536

theorem neg_zero : neg 0 = 0 := by decide

theorem neg_lt (k : Nat) : neg k < 65536 := by unfold neg; omega

theorem sub16_neg_one (k : Nat) : sub16 (neg k) 1 = neg (k + 1) := by
  unfold sub16 neg; omega

/-- `a - b` on unwrapped values, when `b ≤ a` -/
theorem sub16_mod (a b : Nat) (h : b ≤ a) : sub16 (a % 65536) (b % 65536) = (a - b) % 65536 := by
  unfold sub16; omega

theorem sub16_mod_small (a b : Nat) (h : b ≤ a) (h2 : a - b < 65536) :
    sub16 (a % 65536) (b % 65536) = a - b := by
  unfold sub16; omega

theorem sub16_lit (a w : Nat) (h : w ≤ a) : sub16 (a % 65536) w = (a - w) % 65536 := by
  unfold sub16; omega

theorem add16_mod (a b : Nat) : add16 (a % 65536) b = (a + b) % 65536 := by
  unfold add16; omega

theorem add16_mod' (a b : Nat) : add16 (a % 65536) (b % 65536) = (a + b) % 65536 := by
  unfold add16; omega

/-- adding `-k` to `a` is `a - k` when `k ≤ a` -/
theorem add16_neg (a k : Nat) (h : k ≤ a) : add16 (a % 65536) (neg k) = (a - k) % 65536 := by
  unfold add16 neg; omega

/-- subtracting `-k` is adding `k` -/
theorem sub16_neg (a k : Nat) : sub16 (a % 65536) (neg k) = (a + k) % 65536 := by
  unfold sub16 neg; omega

/-- `(-a) - (-(a+r)) = r` -/
theorem sub16_neg_neg (a r : Nat) : sub16 (neg a) (neg (a + r)) = r % 65536 := by
  unfold sub16 neg; omega

theorem neg_eq_neg (a r : Nat) (h : neg (a + r) = neg a) (hr : r < 65536) : r = 0 := by
  unfold neg at h; omega

theorem compare_self (a : Nat) : PacketMap.compare a a = 0 := by
  unfold PacketMap.compare; simp

/-- modular comparison reflects `<` when the distance is below 2^15 -/
theorem compare_lt (a b : Nat) (h : a < b) (hd : b - a < 32768) :
    PacketMap.compare (a % 65536) (b % 65536) = -1 := by
  unfold PacketMap.compare sub16
  have h1 : ¬ a % 65536 = b % 65536 := by omega
  have h2 : ¬ (b % 65536 + 65536 - a % 65536 % 65536) % 65536 ≥ 32768 := by omega
  simp only [h1, h2, if_false]

/-- modular comparison reflects `>` when the distance is at most 2^15 -/
theorem compare_gt (a b : Nat) (h : b < a) (hd : a - b ≤ 32768) :
    PacketMap.compare (a % 65536) (b % 65536) = 1 := by
  unfold PacketMap.compare sub16
  have h1 : ¬ a % 65536 = b % 65536 := by omega
  have h2 : (b % 65536 + 65536 - a % 65536 % 65536) % 65536 ≥ 32768 := by omega
  simp only [h1, h2, if_false, if_true]

theorem compare_eq_mod (a : Nat) : PacketMap.compare (a % 65536) (a % 65536) = 0 := compare_self _

/-- **modular comparison agrees with the order of the unwrapped values** within half a lap -/
theorem compare_le_iff (a b : Nat) (h1 : a < b + 32768) (h2 : b < a + 32768) :
    PacketMap.compare (a % 65536) (b % 65536) ≤ 0 ↔ a ≤ b := by
  rcases Nat.lt_trichotomy a b with h | h | h
  · rw [compare_lt a b h (by omega)]; constructor <;> intro <;> omega
  · subst h; rw [compare_self]; constructor <;> intro <;> omega
  · rw [compare_gt a b h (by omega)]; constructor <;> intro <;> omega

theorem compare_lt_iff (a b : Nat) (h1 : a < b + 32768) (h2 : b < a + 32768) :
    PacketMap.compare (a % 65536) (b % 65536) < 0 ↔ a < b := by
  rcases Nat.lt_trichotomy a b with h | h | h
  · rw [compare_lt a b h (by omega)]; constructor <;> intro <;> omega
  · subst h; rw [compare_self]; constructor <;> intro <;> omega
  · rw [compare_gt a b h (by omega)]; constructor <;> intro <;> omega

theorem compare_ge_iff (a b : Nat) (h1 : a ≤ b + 32768) (h2 : b < a + 32768) :
    PacketMap.compare (a % 65536) (b % 65536) ≥ 0 ↔ b ≤ a := by
  rcases Nat.lt_trichotomy a b with h | h | h
  · rw [compare_lt a b h (by omega)]; constructor <;> intro <;> omega
  · subst h; rw [compare_self]; constructor <;> intro <;> omega
  · rw [compare_gt a b h (by omega)]; constructor <;> intro <;> omega

end Galene.Lemmas.Mod16
