/-
Counting withheld packets.  `D` is the list of unwrapped sequence numbers whose drop was
accepted; it is strictly decreasing (newest first) because a drop is only ever accepted at the
current unwrapped `next`.  `cnt D x` = number of withheld packets below `x`;
`out D u = (u - cnt D u) % 65536` is the specified outgoing number of source packet `u`.
-/
namespace Galene.Lemmas.Count

/-- number of withheld packets strictly below `x` -/
def cnt (D : List Nat) (x : Nat) : Nat := (D.filter (· < x)).length

/-- number of withheld packets in `[a, b)` -/
def cntIn (D : List Nat) (a b : Nat) : Nat := (D.filter (fun d => a ≤ d ∧ d < b)).length

/-- the specified outgoing sequence number of source packet `u` -/
def out (D : List Nat) (u : Nat) : Nat := (u - cnt D u) % 65536

/-- strictly decreasing -/
def Desc (D : List Nat) : Prop := D.Pairwise (· > ·)

theorem cnt_nil (x : Nat) : cnt [] x = 0 := rfl

theorem cnt_cons (d : Nat) (D : List Nat) (x : Nat) :
    cnt (d :: D) x = cnt D x + (if d < x then 1 else 0) := by
  unfold cnt
  by_cases h : d < x <;> simp [h]

theorem cntIn_cons (d : Nat) (D : List Nat) (a b : Nat) :
    cntIn (d :: D) a b = cntIn D a b + (if a ≤ d ∧ d < b then 1 else 0) := by
  unfold cntIn
  by_cases h : a ≤ d ∧ d < b <;> simp [h]

theorem cnt_le_length (D : List Nat) (x : Nat) : cnt D x ≤ D.length := by
  unfold cnt; exact List.length_filter_le _ _

/-- everything below `x`: the count is the length -/
theorem cnt_all (D : List Nat) (x : Nat) (h : ∀ d ∈ D, d < x) : cnt D x = D.length := by
  induction D with
  | nil => rfl
  | cons d D ih =>
    rw [cnt_cons, ih (fun e he => h e (List.mem_cons_of_mem _ he))]
    have := h d (List.mem_cons_self)
    simp [this]

/-- splitting the count at `a ≤ b` -/
theorem cnt_split (D : List Nat) (a b : Nat) (h : a ≤ b) : cnt D b = cnt D a + cntIn D a b := by
  induction D with
  | nil => rfl
  | cons d D ih =>
    rw [cnt_cons, cnt_cons, cntIn_cons, ih]
    by_cases h1 : d < a
    · have h2 : d < b := by omega
      have h3 : ¬ (a ≤ d ∧ d < b) := by omega
      rw [if_pos h1, if_pos h2, if_neg h3]; omega
    · by_cases h2 : d < b
      · have h3 : a ≤ d ∧ d < b := by omega
        rw [if_neg h1, if_pos h2, if_pos h3]; omega
      · have h3 : ¬ (a ≤ d ∧ d < b) := by omega
        rw [if_neg h1, if_neg h2, if_neg h3]; omega

theorem cntIn_eq_zero (D : List Nat) (a b : Nat) (h : ∀ d ∈ D, ¬ (a ≤ d ∧ d < b)) :
    cntIn D a b = 0 := by
  induction D with
  | nil => rfl
  | cons d D ih =>
    rw [cntIn_cons, ih (fun e he => h e (List.mem_cons_of_mem _ he))]
    have := h d (List.mem_cons_self)
    simp only [this, if_false]

/-- no withheld packet in `[a, b)`: the count is the same at both ends -/
theorem cnt_eq_of_none_between (D : List Nat) (a b : Nat) (hab : a ≤ b)
    (h : ∀ d ∈ D, ¬ (a ≤ d ∧ d < b)) : cnt D b = cnt D a := by
  rw [cnt_split D a b hab, cntIn_eq_zero D a b h]; rfl

theorem cnt_mono (D : List Nat) (a b : Nat) (h : a ≤ b) : cnt D a ≤ cnt D b := by
  rw [cnt_split D a b h]; omega

/-- a strictly decreasing list inside `[a, b)` has at most `b - a` elements -/
theorem desc_length_le (L : List Nat) (a b : Nat) (hs : Desc L) (h : ∀ d ∈ L, a ≤ d ∧ d < b) :
    L.length ≤ b - a := by
  induction L generalizing b with
  | nil => simp
  | cons d L ih =>
    have hd := h d (List.mem_cons_self)
    unfold Desc at hs
    rw [List.pairwise_cons] at hs
    have := ih d hs.2 (fun e he => ⟨(h e (List.mem_cons_of_mem _ he)).1, hs.1 e he⟩)
    simp only [List.length_cons]
    omega

theorem desc_filter (D : List Nat) (p : Nat → Bool) (hs : Desc D) : Desc (D.filter p) :=
  List.Pairwise.filter p hs

/-- distinct withheld packets in `[a, b)` number at most `b - a` -/
theorem cntIn_le (D : List Nat) (a b : Nat) (hs : Desc D) : cntIn D a b ≤ b - a := by
  unfold cntIn
  apply desc_length_le _ a b (desc_filter D _ hs)
  intro d hd
  simpa using (List.mem_filter.mp hd).2

/-- distinct withheld packets below `x` number at most `x` -/
theorem cnt_le (D : List Nat) (x : Nat) (hs : Desc D) : cnt D x ≤ x := by
  unfold cnt
  have := desc_length_le (D.filter (· < x)) 0 x (desc_filter D _ hs) (by
    intro d hd
    have := (List.mem_filter.mp hd).2
    simp at this
    omega)
  omega

/-- `cnt` restricted to `[a, b)` where an element `a ∉ D` is excluded: open interval -/
theorem cntIn_succ_of_not_mem (D : List Nat) (a b : Nat) (h : a ∉ D) :
    cntIn D a b = cntIn D (a + 1) b := by
  induction D with
  | nil => rfl
  | cons d D ih =>
    rw [cntIn_cons, cntIn_cons, ih (fun hc => h (List.mem_cons_of_mem _ hc))]
    have hne : d ≠ a := fun hc => h (by rw [hc]; exact List.mem_cons_self)
    by_cases h1 : a ≤ d ∧ d < b
    · have h2 : a + 1 ≤ d ∧ d < b := by omega
      rw [if_pos h1, if_pos h2]
    · have h2 : ¬ (a + 1 ≤ d ∧ d < b) := by omega
      rw [if_neg h1, if_neg h2]

/-- a new withheld packet at or above `x` does not change the count below `x` -/
theorem cnt_cons_ge (d : Nat) (D : List Nat) (x : Nat) (h : x ≤ d) : cnt (d :: D) x = cnt D x := by
  rw [cnt_cons]
  have : ¬ d < x := by omega
  simp only [this, if_false]; rfl

theorem filter_cons_ge (d : Nat) (D : List Nat) (x : Nat) (h : x ≤ d) :
    (d :: D).filter (· < x) = D.filter (· < x) := by
  have : ¬ d < x := by omega
  simp [this]

end Galene.Lemmas.Count
