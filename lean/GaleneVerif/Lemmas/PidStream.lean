import GaleneVerif.Lemmas.WriteCases
/-
In-order streams through the packet map, one packet at a time (used by Props/C02Write for the
picture-id accounting).

Vocabulary:
* `Clean m` — in the identity region (`delta = 0`, no table) the picture-id shift is 0; an
  invariant of every reachable map (`clean_map`, `clean_drop`, `clean_init`);
* `InOrder m u` — the map expects the packet with unwrapped number `u` next (or has not started and
  is in the identity region, so that it accepts any first packet);
* `Ready P m u` — `C01.WF`, `Clean` and `InOrder` together;
* `runFrame P drop pid m u k` — `k` consecutive packets `u, u+1, …` carrying picture id `pid` through
  the packet-map part of `Write` (`Down.pmStep`) with drop decision `drop`.
-/
namespace Galene.PidStream
open Galene.PacketMap
open Galene.Down (pmStep pmStep_eq)
open Galene.Props.C01

/-- in the identity region the picture-id shift is 0 -/
def Clean (m : State) : Prop := (m.delta = 0 ∧ m.entries.length = 0) → m.pidDelta = 0

/-- the map expects the packet with unwrapped number `u` next, or accepts any first packet -/
def InOrder (m : State) (u : Nat) : Prop :=
  (m.started = true ∧ m.next = u % 65536) ∨ (m.started = false ∧ m.delta = 0 ∧ m.entries.length = 0)

structure Ready (P : Params) (m : State) (u : Nat) : Prop where
  wf : WF P m
  clean : Clean m
  inorder : InOrder m u

theorem clean_init : Clean {} := fun _ => rfl

theorem ready_init (P : Params) (u : Nat) : Ready P {} u :=
  ⟨wf_init P, clean_init, Or.inr ⟨rfl, rfl, rfl⟩⟩

theorem sub16_self (a : Nat) : sub16 a a = 0 := by unfold sub16; omega

theorem compare_self_le (a : Nat) : PacketMap.compare a a ≤ 0 := by
  unfold PacketMap.compare; simp

/-- **one forwarded in-order packet**: `Map` answers `(true, seqno + delta, pidDelta)`, records the
picture id, keeps both offsets, and expects the next number -/
theorem map_inorder (P : Params) (hP : 0 < P.maxEntries) (m : State) (u pid : Nat) (h : Ready P m u) :
    ∃ m', mapOp P m (u % 65536) pid = some (m', (true, add16 (u % 65536) m.delta, m.pidDelta)) ∧
      Ready P m' (u + 1) ∧ m'.started = true ∧ m'.nextPid = pid ∧ m'.pidDelta = m.pidDelta ∧
      m'.delta = m.delta := by
  obtain ⟨hw, hc, hio⟩ := h
  have hu : u % 65536 < 65536 := Nat.mod_lt _ (by decide)
  by_cases hid : m.delta = 0 ∧ m.entries.length = 0
  · -- identity region
    have hpd := hc hid
    have hcond : (!m.started || decide (PacketMap.compare m.next (u % 65536) ≤ 0)
        || decide (sub16 m.next (u % 65536) > P.W)) = true := by
      rcases hio with ⟨hs, hn⟩ | ⟨hs, _⟩
      · rw [hn]; simp [compare_self_le]
      · simp [hs]
    refine ⟨{ m with started := true, next := add16 (u % 65536) 1, nextPid := pid }, ?_, ?_, rfl, rfl, rfl, rfl⟩
    · unfold mapOp
      simp only [hid.1, hid.2, decide_true, Bool.and_self, if_true]
      rw [if_pos hcond, hpd]
      have : add16 (u % 65536) 0 = u % 65536 := by unfold add16; omega
      rw [this]
    · refine ⟨hw, fun _ => hpd, Or.inl ⟨rfl, ?_⟩⟩
      show add16 (u % 65536) 1 = (u + 1) % 65536
      unfold add16; omega
  · -- translated region
    have hst : m.started = true ∧ m.next = u % 65536 := by
      rcases hio with h | ⟨_, h⟩
      · exact h
      · exact absurd h hid
    obtain ⟨m1, e1, hw1, hd1, hp1, _, _, hne1⟩ := addMapping_wf P hP m (u % 65536) m.delta m.pidDelta hw
    have hs1 := addMapping_started P m m1 _ _ _ e1
    refine ⟨{ m1 with next := add16 (u % 65536) 1, nextPid := pid }, ?_, ?_, ?_, rfl, hp1, hd1⟩
    · unfold mapOp
      have h1 : (decide (m.delta = 0) && decide (m.entries.length = 0)) = false := by
        simp only [Bool.and_eq_false_iff, decide_eq_false_iff_not]
        by_cases hd : m.delta = 0
        · exact Or.inr (fun hc => hid ⟨hd, hc⟩)
        · exact Or.inl hd
      simp only [h1, Bool.false_eq_true, if_false, hst.2, compare_self_le, if_true, sub16_self]
      have h2 : ¬ 0 > P.W := by omega
      simp only [h2, if_false, e1, hd1, hp1]
    · refine ⟨hw1, ?_, Or.inl ⟨hs1.trans hst.1, ?_⟩⟩
      · intro hc'
        exfalso
        apply hid
        refine ⟨hd1 ▸ hc'.1, ?_⟩
        apply Classical.byContradiction
        intro hl
        have := hne1 (ne_nil_of_length_ne_zero hl)
        exact this (List.eq_nil_of_length_eq_zero hc'.2)
      · show add16 (u % 65536) 1 = (u + 1) % 65536
        unfold add16; omega
    · exact hs1.trans hst.1

/-- **one withheld in-order packet**: `Drop` accepts, adds `pid - nextPid` (mod 2^16) to the picture-id
shift, records the picture id, lowers the offset by one and expects the next number -/
theorem drop_inorder (P : Params) (hP : 0 < P.maxEntries) (m : State) (u pid : Nat) (h : Ready P m u)
    (hs : m.started = true) :
    ∃ m', dropOp P m (u % 65536) pid = (m', true) ∧
      Ready P m' (u + 1) ∧ m'.started = true ∧ m'.nextPid = pid ∧
      m'.pidDelta = add16 m.pidDelta (sub16 pid m.nextPid) ∧ m'.delta = sub16 m.delta 1 := by
  obtain ⟨hw, hc, hio⟩ := h
  have hn : m.next = u % 65536 := by
    rcases hio with h | h
    · exact h.2
    · rw [hs] at h; cases h.1
  have hacc : (dropOp P m (u % 65536) pid).2 = true := (C01_drop_only_next P m _ pid).mpr ⟨hs, hn.symm⟩
  have hwf := C01_drop_wf P hP m (u % 65536) pid hw
  refine ⟨(dropOp P m (u % 65536) pid).1, ?_, ?_⟩
  · rw [← hacc]
  · unfold dropOp at hwf ⊢
    have hcnd : (!m.started || decide (u % 65536 ≠ m.next)) = false := by simp [hs, hn]
    simp only [hcnd, Bool.false_eq_true, if_false] at hwf ⊢
    refine ⟨⟨hwf, ?_, Or.inl ⟨hs, ?_⟩⟩, hs, ?_, ?_, ?_⟩
    rotate_left 2
    · trivial
    · trivial
    · trivial
    · intro hc'
      exfalso
      have := hc'.2
      simp only at this
      split at this
      · simp at this
      · rename_i hne; exact hne this
    · show add16 (u % 65536) 1 = (u + 1) % 65536
      unfold add16; omega

/-! ### `Clean` is an invariant of every reachable map -/

theorem clean_drop (P : Params) (m : State) (s pid : Nat) (h : Clean m) : Clean (dropOp P m s pid).1 := by
  unfold dropOp
  split
  · exact h
  · intro hc'
    exfalso
    have := hc'.2
    simp only at this
    split at this
    · simp at this
    · rename_i hne; exact hne this

theorem clean_map (P : Params) (hP : 0 < P.maxEntries) (m m' : State) (s pid : Nat) (r : Result)
    (hw : WF P m) (h : Clean m) (e : mapOp P m s pid = some (m', r)) : Clean m' := by
  unfold mapOp at e
  split at e
  · rename_i h0
    simp only [Bool.and_eq_true, decide_eq_true_eq] at h0
    simp only [Option.some.injEq, Prod.mk.injEq] at e
    rw [← e.1]
    split
    · intro _; exact h h0
    · exact h
  · rename_i h0
    have hid : ¬ (m.delta = 0 ∧ m.entries.length = 0) := by
      simpa only [Bool.and_eq_true, decide_eq_true_eq] using h0
    have hreset : ∀ (a b : Nat), Clean { m.reset with next := a, nextPid := b } := fun _ _ _ => rfl
    split at e
    · split at e
      · simp only [Option.some.injEq, Prod.mk.injEq] at e
        rw [← e.1]; exact hreset _ _
      · obtain ⟨m1, e1, _, hd1, _, _, _, hne1⟩ := addMapping_wf P hP m s m.delta m.pidDelta hw
        rw [e1] at e
        simp only [Option.some.injEq, Prod.mk.injEq] at e
        rw [← e.1]
        intro hc'
        exfalso
        apply hid
        refine ⟨hd1 ▸ hc'.1, ?_⟩
        apply Classical.byContradiction
        intro hl
        exact hne1 (ne_nil_of_length_ne_zero hl) (List.eq_nil_of_length_eq_zero hc'.2)
    · split at e
      · simp only [Option.some.injEq, Prod.mk.injEq] at e
        rw [← e.1]; exact hreset _ _
      · split at e
        · cases e
        · simp only [Option.some.injEq, Prod.mk.injEq] at e
          rw [← e.1]; exact h

/-! ### the packet-map part of `Write` on in-order packets -/

/-- a forwarded in-order packet through `pmStep` -/
theorem pmStep_fwd (P : Params) (hP : 0 < P.maxEntries) (m : State) (u pid : Nat) (h : Ready P m u) :
    ∃ m', pmStep P m false (u % 65536) pid
        = some (m', some (true, add16 (u % 65536) m.delta, m.pidDelta)) ∧
      Ready P m' (u + 1) ∧ m'.started = true ∧ m'.nextPid = pid ∧ m'.pidDelta = m.pidDelta ∧
      m'.delta = m.delta := by
  obtain ⟨m', e, hr⟩ := map_inorder P hP m u pid h
  refine ⟨m', ?_, hr⟩
  rw [pmStep_eq]
  simp only [Bool.false_eq_true, false_and, if_false, e]

/-- a withheld in-order packet through `pmStep`: the drop is accepted, nothing is mapped -/
theorem pmStep_drop (P : Params) (hP : 0 < P.maxEntries) (m : State) (u pid : Nat) (h : Ready P m u)
    (hs : m.started = true) :
    ∃ m', pmStep P m true (u % 65536) pid = some (m', none) ∧
      Ready P m' (u + 1) ∧ m'.started = true ∧ m'.nextPid = pid ∧
      m'.pidDelta = add16 m.pidDelta (sub16 pid m.nextPid) ∧ m'.delta = sub16 m.delta 1 := by
  obtain ⟨m', e, hr⟩ := drop_inorder P hP m u pid h hs
  refine ⟨m', ?_, hr⟩
  rw [pmStep_eq]
  simp only [e, and_self, if_true]

/-- `k` consecutive packets `u, u+1, …` of one frame (picture id `pid`) through the packet-map part of
`Write` with drop decision `drop`; returns the final map and the per-packet answers (`none` = drop
accepted, `some r` = `Map` returned `r`); the outer `none` is an index panic -/
def runFrame (P : Params) (drop : Bool) (pid : Nat) : State → Nat → Nat → Option (State × List (Option Result))
  | m, _, 0 => some (m, [])
  | m, u, k + 1 =>
    match pmStep P m drop (u % 65536) pid with
    | none => none
    | some (m', r) =>
      match runFrame P drop pid m' (u + 1) k with
      | none => none
      | some (m'', rs) => some (m'', r :: rs)

/-- a forwarded frame: every packet is mapped with the same picture-id shift -/
theorem runFrame_fwd (P : Params) (hP : 0 < P.maxEntries) (pid : Nat) (k : Nat) :
    ∀ (m : State) (u : Nat), Ready P m u →
      ∃ m' rs, runFrame P false pid m u k = some (m', rs) ∧ rs.length = k ∧
        (∀ r ∈ rs, ∃ n, r = some (true, n, m.pidDelta)) ∧
        Ready P m' (u + k) ∧ m'.pidDelta = m.pidDelta ∧
        (0 < k → m'.started = true ∧ m'.nextPid = pid) := by
  induction k with
  | zero =>
    intro m u h
    exact ⟨m, [], rfl, rfl, fun r hr => (by cases hr), h, rfl, fun h0 => absurd h0 (by decide)⟩
  | succ k ih =>
    intro m u h
    obtain ⟨m1, e1, hr1, hs1, hn1, hp1, _⟩ := pmStep_fwd P hP m u pid h
    obtain ⟨m2, rs, e2, hl, hall, hr2, hp2, hlast⟩ := ih m1 (u + 1) hr1
    refine ⟨m2, some (true, add16 (u % 65536) m.delta, m.pidDelta) :: rs, ?_, by simp [hl], ?_, ?_,
      hp2.trans hp1, fun _ => ?_⟩
    · simp only [runFrame, e1, e2]
    · intro r hr
      rcases List.mem_cons.mp hr with rfl | hr
      · exact ⟨_, rfl⟩
      · obtain ⟨n, hn⟩ := hall r hr
        exact ⟨n, by rw [hn, hp1]⟩
    · have : u + 1 + k = u + (k + 1) := by omega
      rw [← this]; exact hr2
    · by_cases hk : 0 < k
      · exact hlast hk
      · have hk0 : k = 0 := by omega
        subst hk0
        simp only [runFrame, Option.some.injEq, Prod.mk.injEq] at e2
        rw [← e2.1]
        exact ⟨hs1, hn1⟩

/-- the remaining packets of a withheld frame (the map has already recorded this frame's picture id):
every drop is accepted and the picture-id shift does not move -/
theorem runFrame_drop_same (P : Params) (hP : 0 < P.maxEntries) (pid : Nat) (k : Nat) :
    ∀ (m : State) (u : Nat), Ready P m u → m.started = true → m.nextPid = pid →
      ∃ m' rs, runFrame P true pid m u k = some (m', rs) ∧ rs.length = k ∧ (∀ r ∈ rs, r = none) ∧
        Ready P m' (u + k) ∧ m'.started = true ∧ m'.nextPid = pid ∧
        m'.pidDelta % 65536 = m.pidDelta % 65536 := by
  induction k with
  | zero =>
    intro m u h hs hn
    exact ⟨m, [], rfl, rfl, fun r hr => (by cases hr), h, hs, hn, rfl⟩
  | succ k ih =>
    intro m u h hs hn
    obtain ⟨m1, e1, hr1, hs1, hn1, hp1, _⟩ := pmStep_drop P hP m u pid h hs
    obtain ⟨m2, rs, e2, hl, hall, hr2, hs2, hn2, hp2⟩ := ih m1 (u + 1) hr1 hs1 hn1
    refine ⟨m2, none :: rs, ?_, by simp [hl], ?_, ?_, hs2, hn2, ?_⟩
    · simp only [runFrame, e1, e2]
    · intro r hr
      rcases List.mem_cons.mp hr with rfl | hr
      · rfl
      · exact hall r hr
    · have : u + 1 + k = u + (k + 1) := by omega
      rw [← this]; exact hr2
    · rw [hp2, hp1, hn, sub16_self]
      unfold add16; omega

/-- **the arithmetic of a withheld frame.**  Picture ids live modulo `Mw = 2^7` or `2^15`, but `Drop`
computes `pid - nextPid` modulo 2^16.  When the source id steps from `q` to `q + 1` (both reduced
modulo `Mw`) the contribution is 1, or `65537 - Mw` when the id wraps (`0 - 0x7FFF = 32769` for 15-bit
ids) — in both cases ≡ 1 modulo `Mw`. -/
theorem pid_step (Mw q x : Nat) (hM : Mw = 128 ∨ Mw = 32768) :
    add16 x (sub16 ((q + 1) % Mw) (q % Mw)) % Mw = (x + 1) % Mw := by
  unfold add16 sub16
  rcases hM with rfl | rfl <;> omega

/-- the wrapped step is not 1 in 16-bit arithmetic -/
theorem pid_step_wrap15 : sub16 ((0x7FFF + 1) % 32768) (0x7FFF % 32768) = 32769 := by decide

theorem pid_step_wrap7 : sub16 ((0x7F + 1) % 128) (0x7F % 128) = 65409 := by decide

theorem mod_of_mod16 (Mw a b : Nat) (hM : Mw = 128 ∨ Mw = 32768) (h : a % 65536 = b % 65536) :
    a % Mw = b % Mw := by
  rcases hM with rfl | rfl <;> omega

/-- a withheld frame with a new picture id (`q + 1` after `q`, modulo the id space `Mw`): every drop
is accepted and the picture-id shift grows by one modulo `Mw` -/
theorem runFrame_drop_new (P : Params) (hP : 0 < P.maxEntries) (Mw q : Nat) (hM : Mw = 128 ∨ Mw = 32768)
    (k : Nat) (hk : 0 < k) (m : State) (u : Nat) (h : Ready P m u) (hs : m.started = true)
    (hn : m.nextPid = q % Mw) :
    ∃ m' rs, runFrame P true ((q + 1) % Mw) m u k = some (m', rs) ∧ rs.length = k ∧ (∀ r ∈ rs, r = none) ∧
      Ready P m' (u + k) ∧ m'.started = true ∧ m'.nextPid = (q + 1) % Mw ∧
      m'.pidDelta % Mw = (m.pidDelta + 1) % Mw := by
  obtain ⟨k, rfl⟩ : ∃ k', k = k' + 1 := ⟨k - 1, by omega⟩
  obtain ⟨m1, e1, hr1, hs1, hn1, hp1, _⟩ := pmStep_drop P hP m u ((q + 1) % Mw) h hs
  obtain ⟨m2, rs, e2, hl, hall, hr2, hs2, hn2, hp2⟩ :=
    runFrame_drop_same P hP ((q + 1) % Mw) k m1 (u + 1) hr1 hs1 hn1
  refine ⟨m2, none :: rs, ?_, by simp [hl], ?_, ?_, hs2, hn2, ?_⟩
  · simp only [runFrame, e1, e2]
  · intro r hr
    rcases List.mem_cons.mp hr with rfl | hr
    · rfl
    · exact hall r hr
  · have : u + 1 + k = u + (k + 1) := by omega
    rw [← this]; exact hr2
  · rw [mod_of_mod16 Mw _ _ hM hp2, hp1, hn]
    exact pid_step Mw q m.pidDelta hM

/-! ### streams of frames -/

/-- one frame of an in-order, loss-free stream: `k` packets, wholly forwarded or wholly withheld -/
structure Frame where
  k : Nat
  fwd : Bool
  deriving Repr, DecidableEq

/-- An in-order, loss-free stream of frames through the packet-map part of `Write`: frame `i` of the
list has source picture id `(a + i) % Mw` and `k_i` packets; sequence numbers are consecutive over
the whole stream starting at `u`; every packet of a withheld frame asks for `Drop`, every packet of a
forwarded frame goes to `Map`.  Returns the final map and, per frame, the per-packet answers. -/
def runStream (P : Params) (Mw : Nat) : State → Nat → Nat → List Frame → Option (State × List (List (Option Result)))
  | m, _, _, [] => some (m, [])
  | m, u, a, f :: fs =>
    match runFrame P (!f.fwd) (a % Mw) m u f.k with
    | none => none
    | some (m', rs) =>
      match runStream P Mw m' (u + f.k) (a + 1) fs with
      | none => none
      | some (m'', outs) => some (m'', rs :: outs)

/-- number of withheld frames among the first `i` -/
def withheldBefore (fs : List Frame) (i : Nat) : Nat := ((fs.take i).filter (fun f => !f.fwd)).length

/-- number of forwarded frames among the first `i` -/
def fwdBefore (fs : List Frame) (i : Nat) : Nat := ((fs.take i).filter (fun f => f.fwd)).length

theorem withheldBefore_zero (fs : List Frame) : withheldBefore fs 0 = 0 := by simp [withheldBefore]

theorem withheldBefore_succ (f : Frame) (fs : List Frame) (i : Nat) :
    withheldBefore (f :: fs) (i + 1) = (if f.fwd then 0 else 1) + withheldBefore fs i := by
  unfold withheldBefore
  rw [List.take_succ_cons, List.filter_cons]
  cases f.fwd <;> simp <;> omega

theorem fwdBefore_zero (fs : List Frame) : fwdBefore fs 0 = 0 := by simp [fwdBefore]

theorem fwdBefore_succ (f : Frame) (fs : List Frame) (i : Nat) :
    fwdBefore (f :: fs) (i + 1) = (if f.fwd then 1 else 0) + fwdBefore fs i := by
  unfold fwdBefore
  rw [List.take_succ_cons, List.filter_cons]
  cases f.fwd <;> simp <;> omega

/-- every one of the first `i` frames is either forwarded or withheld -/
theorem fwd_add_withheld (fs : List Frame) : ∀ i, i ≤ fs.length → fwdBefore fs i + withheldBefore fs i = i := by
  induction fs with
  | nil => intro i hi; simp at hi; subst hi; simp [fwdBefore, withheldBefore]
  | cons f fs ih =>
    intro i hi
    cases i with
    | zero => simp [fwdBefore, withheldBefore]
    | succ i =>
      rw [fwdBefore_succ, withheldBefore_succ]
      have := ih i (by simpa using hi)
      cases f.fwd <;> simp <;> omega

/-- what must hold where a stream starts: either its first frame is forwarded (then `Map` records the
picture id whatever the map held before), or the map has started and holds the picture id of the
frame just before the stream -/
def StartOK (Mw : Nat) (m : State) (a : Nat) (fs : List Frame) : Prop :=
  (∃ f fs', fs = f :: fs' ∧ f.fwd = true) ∨ (m.started = true ∧ ∃ q, a = q + 1 ∧ m.nextPid = q % Mw)

theorem add_mod_congr (M x y c : Nat) (h : x % M = y % M) : (x + c) % M = (y + c) % M := by
  rw [Nat.add_mod, h, ← Nat.add_mod]

end Galene.PidStream
