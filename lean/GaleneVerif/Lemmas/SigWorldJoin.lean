import GaleneVerif.Lemmas.SigWorldLeave
/-
Arrivals (C14 on the concrete model): the end of group.AddClient (`insertClient`: the new member
is told about everybody, everybody is told about the new member, all under the group lock)
preserves the invariant; hence `joinGroup` does, whatever the outcome of the join.
-/
namespace Galene.Sig

/-! ### the sort used for map iterations is a permutation -/

theorem insertBy_perm {α : Type} (key : α → String) (x : α) (l : List α) : (insertBy key x l).Perm (x :: l) := by
  induction l with
  | nil => exact List.Perm.refl _
  | cons y r ih =>
    unfold insertBy
    split_ifs
    · exact List.Perm.refl _
    · exact (List.Perm.cons y ih).trans (List.Perm.swap x y r)

theorem sortBy_perm {α : Type} (key : α → String) (l : List α) : (sortBy key l).Perm l := by
  induction l with
  | nil => exact List.Perm.refl _
  | cons x r ih =>
    show (insertBy key x (sortBy key r)).Perm (x :: r)
    exact (insertBy_perm key x _).trans (List.Perm.cons x ih)

/-! ### the announcement loop of AddClient -/

/-- the `add` event that tells the newcomer about member `r` -/
def addAct (w : World) (gname : String) (r : Ref) : Action :=
  .pushClient gname "add" (w.refId r) (w.refUsername r)
    (match r with | .web j => .alias (((w.client? j).map (·.perms)).getD nilSlice) | _ => .fixed ["system"])
    (w.refData r)

/-- `for cc in clients: c.PushClient(cc…, "add"); cc.PushClient(c…, "add")` -/
def announce (w : World) (i : Nat) (gname : String) (selfAdd : Action) (l : List Ref) : World :=
  l.foldl (fun w r => (w.enq i (addAct w gname r)).pushClientTo r selfAdd) w

theorem pushClientTo_ext (w : World) (r : Ref) (a : Action) :
    Ext w (w.pushClientTo r a) (fun j => if r = .web j then [a] else []) := by
  cases r with
  | web k =>
    refine (Ext.enq w k a).congr (fun j => ?_)
    by_cases h : j = k
    · subst h; simp
    · have : ¬ (k = j) := fun e => h e.symm
      simp [h, this]
  | mock id => exact (Ext.refl w).congr (fun j => by simp)
  | disk id => exact (Ext.refl w).congr (fun j => by simp)

theorem addAct_ext {w w' : World} {E : Nat → List Action} (h : Ext w w' E) (gname : String) (r : Ref) :
    addAct w' gname r = addAct w gname r := by
  cases r with
  | web j =>
    cases hc : w.clients[j]? with
    | none => simp [addAct, World.refId, World.refUsername, World.refData, World.client?, hc, h.none j hc]
    | some c => simp [addAct, World.refId, World.refUsername, World.refData, World.client?, hc, h.cl j c hc]
  | mock id => rfl
  | disk id => rfl

theorem announce_ext (i : Nat) (gname : String) (selfAdd : Action) (l : List Ref) (w : World) (hi : Ref.web i ∉ l) :
    Ext w (announce w i gname selfAdd l)
      (fun j => if j = i then l.map (addAct w gname) else List.replicate (l.count (.web j)) selfAdd) := by
  induction l generalizing w with
  | nil => exact (Ext.refl w).congr (fun j => by simp)
  | cons r l ih =>
    simp only [List.mem_cons, not_or] at hi
    have h1 := (Ext.enq w i (addAct w gname r)).trans (pushClientTo_ext (w.enq i (addAct w gname r)) r selfAdd)
    have h2 := ih ((w.enq i (addAct w gname r)).pushClientTo r selfAdd) hi.2
    refine (h1.trans h2).congr (fun j => ?_)
    by_cases hj : j = i
    · subst hj
      have : ¬ (r = Ref.web j) := fun e => hi.1 e.symm
      simp only [if_true, if_neg this, List.append_nil, List.map_cons, List.singleton_append, List.cons.injEq, true_and]
      exact List.map_congr_left (fun r' _ => addAct_ext h1 gname r')
    · simp only [if_neg hj, List.nil_append]
      rw [List.count_cons]
      by_cases h : r = .web j
      · simp [h, List.replicate_succ]
      · simp [h]

/-! ### commuting a change of one client's group with queue extensions -/

theorem Ext.setGroup {w w' : World} {E : Nat → List Action} (h : Ext w w' E) (i : Nat) (gn : Option String) :
    Ext (w.modClient i fun c => { c with group := gn }) (w'.modClient i fun c => { c with group := gn }) E where
  fix := h.fix
  crashed := h.crashed
  tokens := h.tokens
  heap := h.heap
  groups := h.groups
  deferred := h.deferred
  len := by simp [World.modClient, h.len]
  cl := by
    intro j c hc
    rw [modClient_get] at hc ⊢
    by_cases hij : i = j
    · rw [if_pos hij] at hc ⊢
      cases hc0 : w.clients[j]? with
      | none => rw [hc0] at hc; cases hc
      | some c0 =>
        rw [hc0] at hc
        simp only [Option.map_some, Option.some.injEq] at hc
        subst hc
        rw [h.cl j c0 hc0]
        rfl
    · rw [if_neg hij] at hc ⊢
      exact h.cl j c hc
  log := h.log

theorem refId_setGroup (w : World) (i : Nat) (gn : Option String) (r : Ref) :
    (w.modClient i fun c => { c with group := gn }).refId r = w.refId r := by
  cases r with
  | web j =>
    simp only [World.refId, World.client?, modClient_get]
    split_ifs
    · cases w.clients[j]? <;> rfl
    · rfl
  | mock id => rfl
  | disk id => rfl

theorem attrOf_setGroup (w : World) (i : Nat) (gn : Option String) (r : Ref) :
    attrOf (w.modClient i fun c => { c with group := gn }) r = attrOf w r := by
  cases r with
  | web j =>
    simp only [attrOf, World.refUsername, World.refPerms, World.permsOf, World.refData, World.client?, modClient_get]
    split_ifs
    · cases w.clients[j]? <;> rfl
    · rfl
  | mock id => rfl
  | disk id => rfl

theorem pview_setGroup (w : World) (i j : Nat) (gn : Option String) (g : String) :
    pview (w.modClient i fun c => { c with group := gn }) j g = pview w j g := by
  unfold pview
  rw [modClient_get]
  split_ifs
  · cases w.clients[j]? <;> rfl
  · rfl

theorem refId_modGroup (w : World) (n : String) (f : Group → Group) (r : Ref) : (w.modGroup n f).refId r = w.refId r := by
  cases r <;> rfl

theorem attrOf_modGroup (w : World) (n : String) (f : Group → Group) (r : Ref) : attrOf (w.modGroup n f) r = attrOf w r := by
  cases r <;> rfl

theorem addAct_modGroup (w : World) (n : String) (f : Group → Group) (g : String) (r : Ref) :
    addAct (w.modGroup n f) g r = addAct w g r := by
  cases r <;> rfl

theorem pend_addAct (w : World) (gname : String) (r : Ref) (v : UView) :
    pend w.heap gname v (addAct w gname r) = uupd v (w.refId r) (some (attrOf w r)) := by
  cases r with
  | web j =>
    cases hc : w.clients[j]? with
    | none =>
      simp [addAct, pend, foldEv, attrOf, resolveH, World.refUsername, World.refPerms, World.permsOf, World.refData,
        World.client?, hc, nilSlice, Heap.get]
    | some c =>
      simp [addAct, pend, foldEv, attrOf, resolveH, World.refUsername, World.refPerms, World.permsOf, World.refData,
        World.client?, hc]
  | mock id => simp [addAct, pend, foldEv, attrOf, resolveH, World.refUsername, World.refPerms, World.refData]
  | disk id => simp [addAct, pend, foldEv, attrOf, resolveH, World.refUsername, World.refPerms, World.refData]

theorem pend_add (h : Heap) (gn id u : String) (p : PermRef) (d : Dict) (v : UView) :
    pend h gn v (Action.pushClient gn "add" id u p d) = uupd v id (some ⟨some u, resolveH h p, d⟩) := by
  simp [pend, foldEv]

theorem foldl_add (h : Heap) (gn id u : String) (p : PermRef) (d : Dict) (k : Nat) (v : UView) :
    (List.replicate k (Action.pushClient gn "add" id u p d)).foldl (pend h gn) (uupd v id (some ⟨some u, resolveH h p, d⟩)) =
      uupd v id (some ⟨some u, resolveH h p, d⟩) := by
  induction k with
  | zero => rfl
  | succ k ih =>
    rw [List.replicate_succ, List.foldl_cons, pend_add]
    have : uupd (uupd v id (some ⟨some u, resolveH h p, d⟩)) id (some ⟨some u, resolveH h p, d⟩) =
        uupd v id (some ⟨some u, resolveH h p, d⟩) := by
      funext j; simp only [uupd]; split_ifs <;> rfl
    rw [this, ih]

/-! ### the core of AddClient -/

/-- The admitted client `i` (record `c`, not a member of anything, id not used in the group) is
inserted into `gname`; its queue receives `joined`, its own `add`, and one `add` per member (in
some order `sorted`); every web member receives the newcomer's `add`; finally the connection's
`group` field is set.  The invariant is preserved. -/
theorem insertCore_inv (w : World) (i : Nat) (gname : String) (g : Group) (c : Client)
    (hi : WInv w) (hc : w.clients[i]? = some c) (hg : w.group? gname = some g)
    (hnm : ∀ g', Ref.web i ∉ mem w g') (hfresh : ∀ r ∈ g.members, w.refId r ≠ c.id) (hpr : InR w.heap c.perms)
    (sorted : List Ref) (hperm : sorted.Perm g.members) (w9 : World) (E : Nat → List Action)
    (hX : Ext (w.modGroup gname fun g => { g with members := g.members ++ [.web i] }) w9 E)
    (hEi : E i = [.joined gname "join", .pushClient gname "add" c.id c.username (.alias c.perms) c.data] ++
      sorted.map (addAct w gname))
    (hEj : ∀ j, j ≠ i → E j = List.replicate (sorted.count (.web j))
      (.pushClient gname "add" c.id c.username (.alias c.perms) c.data)) :
    WInv (w9.modClient i fun c => { c with group := some gname }) := by
  have hM : mem w gname = g.members := mem_of_group? hg
  have hX' := hX.setGroup i (some gname)
  generalize hwG : ((w.modGroup gname fun g => { g with members := g.members ++ [.web i] }).modClient i
    fun c => { c with group := some gname }) = wG at hX'
  have hGmem : ∀ g', mem wG g' = if g' = gname then g.members ++ [.web i] else mem w g' := by
    intro g'
    rw [← hwG]
    show mem (w.modGroup gname fun g => { g with members := g.members ++ [.web i] }) g' = _
    rw [mem_modGroup w gname g' (fun g => { g with members := g.members ++ [.web i] }) (fun _ => rfl)]
    split_ifs with h
    · subst h; simp [hg]
    · rfl
  have hGcl : ∀ j, wG.clients[j]? = if i = j then (w.clients[j]?).map (fun c => { c with group := some gname })
      else w.clients[j]? := by
    intro j; rw [← hwG]; exact modClient_get _ i j _
  have hGheap : wG.heap = w.heap := by rw [← hwG]; rfl
  have hGid : ∀ r, wG.refId r = w.refId r := by
    intro r; rw [← hwG, refId_setGroup, refId_modGroup]
  have hGattr : ∀ r, attrOf wG r = attrOf w r := by
    intro r; rw [← hwG, attrOf_setGroup, attrOf_modGroup]
  have hGpv : ∀ j g', pview wG j g' = pview w j g' := by
    intro j g'; rw [← hwG, pview_setGroup]; rfl
  have hnotin : Ref.web i ∉ g.members := by rw [← hM]; exact hnm gname
  have hidw : w.refId (.web i) = c.id := refId_web w i c hc
  have hids : ((g.members ++ [Ref.web i]).map w.refId).Nodup := by
    rw [List.map_append]
    refine List.nodup_append.mpr ⟨by rw [← hM]; exact hi.ids gname, by simp, ?_⟩
    intro a ha b hb
    simp only [List.map_cons, List.map_nil, List.mem_singleton] at hb
    obtain ⟨r, hr, rfl⟩ := List.mem_map.mp ha
    rw [hb, hidw]
    exact hfresh r hr
  -- the structural invariant of the world where only the membership has changed
  have hsG : WStruct wG := by
    refine ⟨?_, ?_, ?_, ?_, ?_, ?_, ?_, ?_, ?_⟩
    · rw [← hwG]; exact hi.p12
    · rw [← hwG]; exact hi.p18
    · rw [← hwG]; exact hi.ok
    · intro g' j hm
      rw [hGmem] at hm
      rw [hGcl]
      by_cases hij : i = j
      · subst hij
        rw [if_pos rfl, hc]
        refine ⟨_, rfl, ?_⟩
        split_ifs at hm with h
        · rw [h]
        · exact absurd hm (hnm g')
      · rw [if_neg hij]
        split_ifs at hm with h
        · subst h
          rcases List.mem_append.mp hm with h' | h'
          · exact hi.memb g' j (by rw [hM]; exact h')
          · simp only [List.mem_singleton, Ref.web.injEq] at h'; exact absurd h'.symm hij
        · exact hi.memb g' j hm
    · intro g'
      rw [hGmem]
      have : ∀ l : List Ref, l.map wG.refId = l.map w.refId := fun l => List.map_congr_left (fun r _ => hGid r)
      rw [this]
      split_ifs with h
      · exact hids
      · exact hi.ids g'
    · intro j cj hcj a ha
      rw [hGcl] at hcj
      rw [hGheap]
      by_cases hij : i = j
      · subst hij
        rw [if_pos rfl, hc] at hcj
        cases hcj
        exact hi.tame i c hc a ha
      · rw [if_neg hij] at hcj
        exact hi.tame j cj hcj a ha
    · rw [← hwG]; exact hi.dfr
    · intro g' j cj hm hcj
      rw [hGmem] at hm
      rw [hGcl] at hcj
      rw [hGheap]
      by_cases hij : i = j
      · subst hij
        rw [if_pos rfl, hc] at hcj
        cases hcj
        exact hpr
      · rw [if_neg hij] at hcj
        split_ifs at hm with h
        · subst h
          rcases List.mem_append.mp hm with h' | h'
          · exact hi.permsR g' j cj (by rw [hM]; exact h') hcj
          · simp only [List.mem_singleton, Ref.web.injEq] at h'; exact absurd h'.symm hij
        · exact hi.permsR g' j cj hm hcj
    · rw [← hwG]; exact hi.toksR
  -- members' permission slices lie in the heap, so do the aliases of the `add` events
  have haddOK : ∀ r ∈ g.members, (addAct w gname r).aliasOK w.heap := by
    intro r hr
    cases r with
    | web j =>
      obtain ⟨cj, hcj, _⟩ := hi.memb gname j (by rw [hM]; exact hr)
      have := hi.permsR gname j cj (by rw [hM]; exact hr) hcj
      simpa [addAct, Action.aliasOK, World.client?, hcj] using this
    | mock id => trivial
    | disk id => trivial
  have hET : ∀ j, ∀ a ∈ E j, a.tame = true ∧ a.aliasOK wG.heap := by
    intro j a ha
    rw [hGheap]
    by_cases hj : j = i
    · subst hj
      rw [hEi] at ha
      simp only [List.cons_append, List.nil_append, List.mem_cons, List.mem_map] at ha
      rcases ha with rfl | rfl | ⟨r, hr, rfl⟩
      · exact ⟨rfl, trivial⟩
      · exact ⟨rfl, hpr⟩
      · exact ⟨by cases r <;> rfl, haddOK r (hperm.mem_iff.mp hr)⟩
    · rw [hEj j hj] at ha
      rw [List.eq_of_mem_replicate ha]
      exact ⟨rfl, hpr⟩
  refine ⟨hsG.ext hX' hET, ?_⟩
  intro g' j hm
  rw [mem_of_groups hX'.groups, hGmem] at hm
  -- the client record of `j` in `wG`
  have hcG : ∃ cG, wG.clients[j]? = some cG ∧ ∀ a ∈ cG.queue, a.aliasOK wG.heap := by
    have : Ref.web j ∈ mem wG g' := by rw [hGmem]; exact hm
    obtain ⟨cG, hcG, _⟩ := hsG.memb g' j this
    exact ⟨cG, hcG, fun a ha => (hsG.tame j cG hcG a ha).2⟩
  obtain ⟨cG, hcG, halG⟩ := hcG
  rw [hX'.pview hcG halG, hGpv, hX'.truth, hGheap]
  have htG : truth wG g' = truthL ((mem wG g').map fun x => (w.refId x, attrOf w x)) := by
    unfold truth
    congr 1
    apply List.map_congr_left
    intro x _
    rw [hGid, hGattr]
  rw [htG, hGmem]
  have hattr_i : attrOf w (.web i) = ⟨some c.username, resolveH w.heap (.alias c.perms), c.data⟩ := attrOf_web w i c hc
  by_cases hgg : g' = gname
  · subst hgg
    rw [if_pos rfl] at hm ⊢
    have htruth : truthL ((g.members ++ [Ref.web i]).map fun x => (w.refId x, attrOf w x)) =
        uupd (truth w g') c.id (some ⟨some c.username, resolveH w.heap (.alias c.perms), c.data⟩) := by
      rw [List.map_append]
      simp only [List.map_cons, List.map_nil]
      rw [truthL_append]
      · simp only [hidw, hattr_i]
        unfold truth
        rw [hM]
      · simp only [List.map_map, hidw]
        intro hin
        obtain ⟨r, hr, hre⟩ := List.mem_map.mp hin
        exact hfresh r hr hre
    rw [htruth]
    by_cases hj : j = i
    · subst hj
      rw [hEi]
      simp only [List.cons_append, List.nil_append, List.foldl_cons]
      have h1 : pend w.heap g' (pview w j g') (Action.joined g' "join") = UView.empty := by simp [pend]
      rw [h1, pend_add, List.foldl_map]
      have h2 : ∀ (l : List Ref) (v : UView), l.foldl (fun v r => pend w.heap g' v (addAct w g' r)) v =
          (l.map fun x => (w.refId x, attrOf w x)).foldl (fun v p => uupd v p.1 (some p.2)) v := by
        intro l
        induction l with
        | nil => intro v; rfl
        | cons r l ih => intro v; simp only [List.foldl_cons, List.map_cons]; rw [pend_addAct, ih]
      have hsn : ((sorted.map fun x => (w.refId x, attrOf w x)).map (·.1)).Nodup := by
        simp only [List.map_map]
        have : ((fun x : String × UAttr => x.1) ∘ fun x => (w.refId x, attrOf w x)) = w.refId := rfl
        rw [this]
        exact (hperm.map _).nodup_iff.mpr (by rw [← hM]; exact hi.ids g')
      rw [h2, fold_adds _ _ hsn, truthL_perm (hperm.map _) hsn]
      funext x
      unfold truth
      rw [hM]
      simp only [uupd]
      by_cases hx : x = c.id
      · rw [if_pos hx, hx, truthL_notin]
        · simp
        · simp only [List.map_map]
          intro hin
          obtain ⟨r, hr, hre⟩ := List.mem_map.mp hin
          exact hfresh r hr hre
      · rw [if_neg hx]
        cases truthL (List.map (fun x => (w.refId x, attrOf w x)) g.members) x with
        | none => simp [hx, UView.empty]
        | some a => simp [hx]
    · have hjm : Ref.web j ∈ g.members := by
        rcases List.mem_append.mp hm with h' | h'
        · exact h'
        · simp only [List.mem_singleton, Ref.web.injEq] at h'; exact absurd h' hj
      rw [hEj j hj]
      have hcnt : 0 < sorted.count (.web j) := List.count_pos_iff.mpr (hperm.mem_iff.mpr hjm)
      obtain ⟨k, hk⟩ : ∃ k, sorted.count (.web j) = k + 1 := ⟨_, (Nat.succ_pred_eq_of_pos hcnt).symm⟩
      rw [hk, List.replicate_succ, List.foldl_cons, pend_add, foldl_add, hi.view g' j (by rw [hM]; exact hjm)]
  · rw [if_neg hgg] at hm ⊢
    have hj : j ≠ i := fun e => hnm g' (e ▸ hm)
    rw [hEj j hj, foldl_other _ _ _ _ _ _ _ _ (fun e => hgg e.symm), hi.view g' j hm]
    rfl

/-! ### insertClient, admission, joinGroup -/

/-- the part of `insertClient` between `c.Init` and the redirect test -/
def insertTail (w0 : World) (i : Nat) (gname : String) (clients : List Ref) (selfAdd : Action) : World :=
  let w8 := ((w0.modGroup gname fun g => { g with members := g.members ++ [.web i] }).enq i (.joined gname "join")).enq i selfAdd
  announce w8 i gname selfAdd (w8.sortedRefs clients)

theorem insertTail_inv (w0 : World) (i : Nat) (gname : String) (clients : List Ref) (c0 : Client)
    (cid username : String) (perms : Slice) (cdata : Dict)
    (hi0 : WInv w0) (hc0 : w0.clients[i]? = some c0) (hg0 : (w0.group? gname).isSome = true)
    (hM0 : mem w0 gname = clients) (hnm0 : ∀ g', Ref.web i ∉ mem w0 g')
    (hfresh0 : ∀ r ∈ clients, w0.refId r ≠ c0.id) (hpr0 : InR w0.heap c0.perms)
    (hcid : cid = c0.id) (hu : username = c0.username) (hp : perms = c0.perms) (hd : cdata = c0.data) :
    WInv ((insertTail w0 i gname clients (.pushClient gname "add" cid username (.alias perms) cdata)).modClient i
      fun c => { c with group := some gname }) ∧
    (insertTail w0 i gname clients (.pushClient gname "add" cid username (.alias perms) cdata)).fix = w0.fix := by
  subst hcid hu hp hd
  obtain ⟨g0, hg0⟩ := Option.isSome_iff_exists.mp hg0
  have hM : g0.members = clients := by rw [← hM0, mem_of_group? hg0]
  subst hM
  have hnot : Ref.web i ∉ g0.members := by rw [← mem_of_group? hg0]; exact hnm0 gname
  have h8 := (Ext.enq (w0.modGroup gname fun g => { g with members := g.members ++ [.web i] }) i (.joined gname "join")).trans
    (Ext.enq _ i (.pushClient gname "add" c0.id c0.username (.alias c0.perms) c0.data))
  have hperm := sortBy_perm (World.refId (((w0.modGroup gname fun g => { g with members := g.members ++ [.web i] }).enq i
      (.joined gname "join")).enq i (.pushClient gname "add" c0.id c0.username (.alias c0.perms) c0.data))) g0.members
  have hnot' : Ref.web i ∉ sortBy (World.refId (((w0.modGroup gname fun g => { g with members := g.members ++ [.web i] }).enq i
      (.joined gname "join")).enq i (.pushClient gname "add" c0.id c0.username (.alias c0.perms) c0.data))) g0.members :=
    fun h => hnot (hperm.mem_iff.mp h)
  have hX := h8.trans (announce_ext i gname (.pushClient gname "add" c0.id c0.username (.alias c0.perms) c0.data) _ _ hnot')
  refine ⟨insertCore_inv w0 i gname g0 c0 hi0 hc0 hg0 hnm0 hfresh0 hpr0 _ hperm _ _ hX ?_ ?_, hX.fix⟩
  · simp only [if_true, List.cons_append, List.nil_append, List.cons.injEq, true_and]
    exact List.map_congr_left (fun r _ => (addAct_ext h8 gname r).trans (addAct_modGroup w0 gname _ gname r))
  · intro j hj
    simp only [if_neg hj, List.nil_append]



/-- `insertClient` after `c.Init` (a copy of the model's text, with the id of the connection as a parameter) -/
def insertRest (w : World) (i : Nat) (gname : String) (g : Group) (username : String) (perms : Slice) (cid : String) : World :=
  let clients := g.members
  let w := w.modGroup gname (fun g => { g with members := g.members ++ [.web i] })
  let w := w.enq i (.joined gname "join")
  let cdata := ((w.client? i).map (·.data)).getD []
  let selfAdd := Action.pushClient gname "add" cid username (.alias perms) cdata
  let w := w.enq i selfAdd
  let w := (w.sortedRefs clients).foldl (fun w r =>
    let w := w.enq i (.pushClient gname "add" (w.refId r) (w.refUsername r)
      (match r with | .web j => .alias (((w.client? j).map (·.perms)).getD nilSlice) | _ => .fixed ["system"])
      (w.refData r))
    w.pushClientTo r selfAdd) w
  if g.cfg.redirect ≠ "" then
    let w := if w.fix.p18 then leaveGroup (w.modClient i (fun c => { c with group := some gname })) i else w
    w.write i { type := "joined", kind := "redirect", group := gname, username := some username,
                value := .sc (.str g.cfg.redirect) }
  else w.modClient i (fun c => { c with group := some gname })

theorem insertClient_eq (w : World) (i : Nat) (gname : String) (g : Group) (username : String) (perms : Slice) :
    insertClient w i gname g username perms =
      insertRest (if w.fix.p10 then w.modClient i (fun c => { c with username := username, perms := perms }) else w)
        i gname g username perms (((w.client? i).map (·.id)).getD "") := rfl

theorem insertRest_eq (w : World) (i : Nat) (gname : String) (g : Group) (username : String) (perms : Slice) (cid : String) :
    insertRest w i gname g username perms cid =
      if g.cfg.redirect ≠ "" then
        (if (insertTail w i gname g.members (.pushClient gname "add" cid username (.alias perms)
            (((((w.modGroup gname (fun g => { g with members := g.members ++ [.web i] })).enq i (.joined gname "join")).client? i).map
              (·.data)).getD []))).fix.p18 then
          leaveGroup ((insertTail w i gname g.members (.pushClient gname "add" cid username (.alias perms)
            (((((w.modGroup gname (fun g => { g with members := g.members ++ [.web i] })).enq i (.joined gname "join")).client? i).map
              (·.data)).getD []))).modClient i (fun c => { c with group := some gname })) i
         else insertTail w i gname g.members (.pushClient gname "add" cid username (.alias perms)
            (((((w.modGroup gname (fun g => { g with members := g.members ++ [.web i] })).enq i (.joined gname "join")).client? i).map
              (·.data)).getD []))).write i
          { type := "joined", kind := "redirect", group := gname, username := some username,
            value := .sc (.str g.cfg.redirect) }
      else (insertTail w i gname g.members (.pushClient gname "add" cid username (.alias perms)
            (((((w.modGroup gname (fun g => { g with members := g.members ++ [.web i] })).enq i (.joined gname "join")).client? i).map
              (·.data)).getD []))).modClient i (fun c => { c with group := some gname }) := rfl

theorem cdata_eq (w : World) (i : Nat) (n : String) (f : Group → Group) (a : Action) (c0 : Client)
    (hc0 : w.clients[i]? = some c0) :
    ((((w.modGroup n f).enq i a).client? i).map (·.data)).getD [] = c0.data := by
  simp [World.client?, World.enq, World.modClient, World.modGroup, hc0]

theorem insertRest_inv (w0 : World) (i : Nat) (gname : String) (g : Group) (c0 : Client)
    (cid username : String) (perms : Slice)
    (hi0 : WInv w0) (hc0 : w0.clients[i]? = some c0) (hg0 : (w0.group? gname).isSome = true)
    (hM0 : mem w0 gname = g.members) (hnm0 : ∀ g', Ref.web i ∉ mem w0 g')
    (hfresh0 : ∀ r ∈ g.members, w0.refId r ≠ c0.id) (hpr0 : InR w0.heap c0.perms)
    (hcid : cid = c0.id) (hu : username = c0.username) (hp : perms = c0.perms) :
    WInv (insertRest w0 i gname g username perms cid) := by
  rw [insertRest_eq]
  obtain ⟨key, hfix⟩ := insertTail_inv w0 i gname g.members c0 cid username perms _ hi0 hc0 hg0 hM0 hnm0 hfresh0 hpr0 hcid hu hp
    (cdata_eq w0 i gname _ _ c0 hc0)
  split_ifs with h1 h2
  · exact (leaveGroup_inv _ i key).write i _ (by simp [OutMsg.quiet])
  · rw [hfix, hi0.p18] at h2; exact absurd rfl h2
  · exact key



theorem refId_modClient (w : World) (i : Nat) (f : Client → Client) (hf : ∀ c, (f c).id = c.id) (r : Ref) :
    (w.modClient i f).refId r = w.refId r := by
  cases r with
  | web j =>
    simp only [World.refId, World.client?, modClient_get]
    split_ifs
    · cases w.clients[j]? <;> simp [hf]
    · rfl
  | mock id => rfl
  | disk id => rfl

/-- **the end of group.AddClient preserves the invariant** (redirect or not) -/
theorem insertClient_inv (w : World) (i : Nat) (gname : String) (g : Group) (username : String) (perms : Slice)
    (c : Client) (hi : WInv w) (hc : w.clients[i]? = some c) (hg : (w.group? gname).isSome = true)
    (hM : mem w gname = g.members) (hnm : ∀ g', Ref.web i ∉ mem w g')
    (hfresh : ∀ r ∈ g.members, w.refId r ≠ c.id) (hpr : InR w.heap perms)
    (hinit : w.fix.p10 = false → c.username = username ∧ c.perms = perms) :
    WInv (insertClient w i gname g username perms) := by
  rw [insertClient_eq]
  have hcid : ((w.client? i).map (·.id)).getD "" = c.id := by simp [World.client?, hc]
  cases hp10 : w.fix.p10 with
  | true =>
    simp only [if_true]
    have hN := neutral_modClient_nm w i (fun c => { c with username := username, perms := perms }) hnm
      (fun c => ⟨rfl, rfl⟩)
    refine insertRest_inv _ i gname g { c with username := username, perms := perms } _ username perms
      (hi.neutral hN) ?_ hg hM hnm ?_ hpr hcid rfl rfl
    · rw [modClient_get, if_pos rfl, hc]; rfl
    · intro r hr
      rw [refId_modClient w i (fun c => { c with username := username, perms := perms }) (fun _ => rfl)]
      exact hfresh r hr
  | false =>
    simp only [Bool.false_eq_true, if_false]
    obtain ⟨hu, hp⟩ := hinit hp10
    exact insertRest_inv w i gname g c _ username perms hi hc hg hM hnm hfresh (hp ▸ hpr) hcid hu.symm hp.symm

/-- **the admission checks of group.AddClient preserve the invariant**, whatever they decide -/
theorem admission_inv (w : World) (i : Nat) (gname : String) (g : Group) (username : String) (perms : Slice)
    (hi : WInv w) (hg : (w.group? gname).isSome = true) (hM : mem w gname = g.members)
    (hnm : ∀ g', Ref.web i ∉ mem w g') (hpr : InR w.heap perms)
    (hinit : w.fix.p10 = false → ∀ c, w.clients[i]? = some c → c.username = username ∧ c.perms = perms) :
    WInv (admission w i gname g username perms) := by
  unfold admission
  simp only []
  split_ifs
  all_goals try exact hi.neutral (neutral_joinFail _ _ _ _)
  rename_i h7 h8
  cases hc : w.clients[i]? with
  | none => exact absurd (by simp [World.client?, hc]) h7
  | some c =>
    have hcid : ((w.client? i).map (·.id)).getD "" = c.id := by simp [World.client?, hc]
    refine insertClient_inv w i gname g username perms c hi hc hg hM hnm ?_ hpr (fun h => hinit h c hc)
    intro r hr e
    apply h8
    rw [List.any_eq_true]
    exact ⟨r, hr, by simp [hcid, e]⟩

/-- **group.AddClient + the tail of the `join` case preserve the invariant**, for a connection
that is in no group, whatever the outcome (unknown group, wrong password, locked, full, duplicate
id, redirect, success …) -/
theorem joinGroup_inv (w : World) (i : Nat) (gname : String) (cr : Creds) (data : Dict) (hi : WInv w)
    (hnm : ∀ g', Ref.web i ∉ mem w g') : WInv (joinGroup w i gname cr data) := by
  unfold joinGroup
  simp only []
  have hN1 := neutral_modClient_nm w i (fun c => { c with data := data }) hnm (fun c => ⟨rfl, rfl⟩)
  split
  · rename_i w2 e heq
    have hN2 := neutral_addGroup (w.modClient i fun c => { c with data := data }) gname
    rw [heq] at hN2
    exact (hi.neutral (hN1.trans hN2)).neutral (neutral_joinFail _ _ _ _)
  · rename_i w2 heq
    have hN2 := neutral_addGroup (w.modClient i fun c => { c with data := data }) gname
    rw [heq] at hN2
    have hi2 := hi.neutral (hN1.trans hN2)
    split
    · exact hi2.neutral (neutral_joinFail _ _ _ _)
    · rename_i g hg
      split
      · rename_i w3 e heq3
        obtain ⟨hN3, _⟩ := getPermission_spec w2 g cr hi2.toksR w3 _ heq3
        exact (hi2.neutral hN3).neutral (neutral_joinFail _ _ _ _)
      · rename_i w3 username perms heq3
        obtain ⟨hN3, hpr⟩ := getPermission_spec w2 g cr hi2.toksR w3 _ heq3
        have hpr3 : InR w3.heap perms := hpr username perms rfl
        have hi3 := hi2.neutral hN3
        have hN03 := (hN1.trans hN2).trans hN3
        have hnm3 : ∀ g', Ref.web i ∉ mem w3 g' := fun g' => by rw [hN03.mem]; exact hnm g'
        have hg3 : (w3.group? gname).isSome = true := hN3.grp gname (by rw [hg]; rfl)
        have hM3 : mem w3 gname = g.members := by rw [hN3.mem, mem_of_group? hg]
        cases hp10 : w3.fix.p10 with
        | true =>
          simp only [if_true]
          exact admission_inv w3 i gname g username perms hi3 hg3 hM3 hnm3 hpr3 (fun h => by rw [hp10] at h; cases h)
        | false =>
          simp only [Bool.false_eq_true, if_false]
          have hN4 := neutral_modClient_nm w3 i (fun c => { c with username := username, perms := perms }) hnm3
            (fun c => ⟨rfl, rfl⟩)
          refine admission_inv _ i gname g username perms (hi3.neutral hN4) hg3 hM3 hnm3 hpr3 ?_
          intro _ c hc
          rw [modClient_get, if_pos rfl] at hc
          cases hc3 : w3.clients[i]? with
          | none => rw [hc3] at hc; cases hc
          | some c3 =>
            rw [hc3] at hc
            simp only [Option.map_some, Option.some.injEq] at hc
            subst hc
            exact ⟨rfl, rfl⟩

end Galene.Sig
