import GaleneVerif.Lemmas.CodecsBasic
/-
Case analysis of the model of codecs.RewritePacket.

Specification vocabulary (used in the statements of Props/C02):
* `payloadOffset d` — where RewritePacket looks for the VP8 payload descriptor:
  after the 12-byte fixed header, the CSRC list (CC * 4 bytes) and, when the X bit
  of byte 0 is set, the 4-byte extension header plus `length * 4` extension bytes;
* `pidOffsets c d δ` — the offsets of the VP8 picture-id bytes that RewritePacket
  may edit: none when δ = 0, when the codec is not VP8, when the descriptor has
  X = 0 or I = 0; one when M = 0; two when M = 1;
* `hdr d mk n` — `d` with the marker bit or-ed in (if `mk`) and the sequence
  number bytes 2, 3 replaced.
-/
namespace Galene.Codecs

/-- offset of the first byte after RTP fixed header, CSRCs and header extension, computed as
RewritePacket does (it does not look at the padding bit) -/
def payloadOffset (d : Bytes) : Nat :=
  let o := 12 + (d.getD 0 0 % 16) * 4
  if bit (d.getD 0 0) 0x10 then o + 4 + (d.getD (o + 2) 0 * 256 + d.getD (o + 3) 0) * 4 else o

/-- offsets of the picture-id bytes of a VP8 payload descriptor (`X` bit of the first descriptor
byte, `I` bit of the second, `M` bit of the third select none / one / two bytes) -/
def pidOffsets (c : String) (d : Bytes) (δ : Nat) : List Nat :=
  if δ = 0 then [] else
  if !isCodec c "video/vp8" then [] else
  let o := payloadOffset d
  if !bit (d.getD o 0) 0x80 then [] else
  if !bit (d.getD (o + 1) 0) 0x80 then [] else
  if bit (d.getD (o + 2) 0) 0x80 then [o + 2, o + 3] else [o + 2]

/-- the packet after the header edits of RewritePacket: marker or-ed in, seqno replaced -/
def hdr (d : Bytes) (mk : Bool) (n : Nat) : Bytes :=
  setByte (setByte (if mk then setByte d 1 (bor (d.getD 1 0) 0x80) else d) 2 (n / 256 % 256)) 3 (n % 256)

/-- The possible results of `rewritePacket` on a packet of at least 12 bytes, in terms of the
header-edited packet `h`: either `h` itself with a non-panic status (and status `ok` only if there
is no picture id to edit), or `h` with the 15-bit / 7-bit picture id advanced by `δ`. -/
inductive Outcome (c : String) (h : Bytes) (δ : Nat) : Bytes × Status → Prop
  | same (s : Status) (hs : s ≠ .panic) (hp : s = .ok → pidOffsets c h δ = []) : Outcome c h δ (h, s)
  | pid15 (x2 x3 : Nat) (hp : pidOffsets c h δ = [payloadOffset h + 2, payloadOffset h + 3])
      (h2 : h[payloadOffset h + 2]? = some x2) (h3 : h[payloadOffset h + 3]? = some x3) :
      Outcome c h δ
        (setByte (setByte h (payloadOffset h + 2) (bor 0x80 (((x2 % 128) * 256 + x3 + δ) % 32768 / 256 % 128)))
          (payloadOffset h + 3) (((x2 % 128) * 256 + x3 + δ) % 32768 % 256), .ok)
  | pid7 (x2 : Nat) (hp : pidOffsets c h δ = [payloadOffset h + 2])
      (h2 : h[payloadOffset h + 2]? = some x2) :
      Outcome c h δ (setByte h (payloadOffset h + 2) ((x2 + δ % 256) % 256 % 128), .ok)

theorem getD_of_getElem? {l : List Nat} {i x : Nat} (h : l[i]? = some x) : l.getD i 0 = x := by
  simp [List.getD_eq_getElem?_getD, h]

theorem afterExt_spec (h : Bytes) (hn : ¬ h.length ≤ 12 + h.getD 0 0 % 16 * 4)
    (r : Except Status Nat)
    (hr : (if bit (h.getD 0 0) 0x10 then
            if h.length < 12 + h.getD 0 0 % 16 * 4 + 4 then .error .err else
            match h[12 + h.getD 0 0 % 16 * 4 + 2]?, h[12 + h.getD 0 0 % 16 * 4 + 3]? with
            | some a, some b =>
              if h.length < 12 + h.getD 0 0 % 16 * 4 + 4 + (a * 256 + b) * 4 + 4 then .error .err
              else .ok (12 + h.getD 0 0 % 16 * 4 + 4 + (a * 256 + b) * 4)
            | _, _ => .error .panic
          else .ok (12 + h.getD 0 0 % 16 * 4) : Except Status Nat) = r) :
    match r with
    | .ok o => o = payloadOffset h ∧ o < h.length
    | .error s => s = .err := by
  by_cases hx : bit (h.getD 0 0) 0x10 = true
  · rw [if_pos hx] at hr
    by_cases h2 : h.length < 12 + h.getD 0 0 % 16 * 4 + 4
    · rw [if_pos h2] at hr; subst hr; rfl
    · rw [if_neg h2] at hr
      have ha : h[12 + h.getD 0 0 % 16 * 4 + 2]? = some (h[12 + h.getD 0 0 % 16 * 4 + 2]'(by omega)) :=
        List.getElem?_eq_getElem _
      have hb : h[12 + h.getD 0 0 % 16 * 4 + 3]? = some (h[12 + h.getD 0 0 % 16 * 4 + 3]'(by omega)) :=
        List.getElem?_eq_getElem _
      rw [ha, hb] at hr
      simp only at hr
      split at hr
      · subst hr; rfl
      · subst hr
        refine ⟨?_, by omega⟩
        simp only [payloadOffset, hx, if_true, getD_of_getElem? ha, getD_of_getElem? hb]
  · rw [if_neg hx] at hr
    subst hr
    refine ⟨?_, by omega⟩
    simp only [payloadOffset, hx, Bool.false_eq_true, ↓reduceIte]

theorem rewrite_cases (c : String) (d : Bytes) (mk : Bool) (n δ : Nat) (hlen : 12 ≤ d.length) :
    Outcome c (hdr d mk n) δ (rewritePacket c d mk n δ) := by
  unfold rewritePacket
  simp only [show ¬ d.length < 12 from by omega, if_false]
  unfold hdr
  generalize (setByte (setByte (if mk = true then setByte d 1 (bor (d.getD 1 0) 128) else d) 2 (n / 256 % 256)) 3 (n % 256)) = h
  split
  · rename_i hδ
    exact .same .ok (by decide) (fun _ => by simp [pidOffsets, hδ])
  rename_i hδ
  split
  · exact .same .err (by decide) (fun hh => by cases hh)
  rename_i hn
  split
  · rename_i s heq
    have hs : s = .err := afterExt_spec h hn _ heq
    rw [hs]
    exact .same .err (by decide) (fun hh => by cases hh)
  rename_i o heq
  obtain ⟨rfl, hlt⟩ := afterExt_spec h hn _ heq
  clear heq
  split
  · rename_i hc
    exact .same .ok (by decide) (fun _ => by simp [pidOffsets, hδ, hc])
  rename_i hc
  split
  · rename_i hnone
    exfalso; rw [List.getElem?_eq_none_iff] at hnone; omega
  rename_i x0 hx0
  split
  · rename_i hX
    exact .same .ok (by decide) (fun _ => by simp [pidOffsets, hδ, hc, hx0, hX])
  rename_i hX
  split
  · exact .same .err (by decide) (fun hh => by cases hh)
  rename_i hn1
  split
  · rename_i hnone
    exfalso; rw [List.getElem?_eq_none_iff] at hnone; omega
  rename_i x1 hx1
  split
  · rename_i hI
    exact .same .ok (by decide) (fun _ => by simp [pidOffsets, hδ, hc, hx0, hx1, hX, hI])
  rename_i hI
  split
  · exact .same .err (by decide) (fun hh => by cases hh)
  rename_i hn2
  split
  · rename_i hnone
    exfalso; rw [List.getElem?_eq_none_iff] at hnone; omega
  rename_i x2 hx2
  have e2 : payloadOffset h + 1 + 1 = payloadOffset h + 2 := rfl
  have e3 : payloadOffset h + 2 + 1 = payloadOffset h + 3 := rfl
  simp only [e2, e3] at hx2 ⊢
  have hX' : bit x0 128 = true := by simpa using hX
  have hI' : bit x1 128 = true := by simpa using hI
  split
  · rename_i hM
    split
    · exact .same .err (by decide) (fun hh => by cases hh)
    rename_i hn3
    split
    · rename_i hnone
      exfalso; rw [List.getElem?_eq_none_iff] at hnone; omega
    rename_i x3 hx3
    exact .pid15 x2 x3 (by simp [pidOffsets, hδ, hc, hx0, hx1, hx2, hX', hI', hM]) hx2 hx3
  · rename_i hM
    exact .pid7 x2 (by simp [pidOffsets, hδ, hc, hx0, hx1, hx2, hX', hI', hM]) hx2

/-! ### the header edits -/

theorem hdr_length (d : Bytes) (mk : Bool) (n : Nat) : (hdr d mk n).length = d.length := by
  unfold hdr setByte; split <;> simp

theorem hdr_getElem?_other (d : Bytes) (mk : Bool) (n : Nat) {i : Nat}
    (h1 : i ≠ 1) (h2 : i ≠ 2) (h3 : i ≠ 3) : (hdr d mk n)[i]? = d[i]? := by
  unfold hdr setByte
  rw [List.getElem?_set_ne (Ne.symm h3), List.getElem?_set_ne (Ne.symm h2)]
  split
  · rw [List.getElem?_set_ne (Ne.symm h1)]
  · rfl

theorem hdr_getD_other (d : Bytes) (mk : Bool) (n : Nat) {i : Nat}
    (h1 : i ≠ 1) (h2 : i ≠ 2) (h3 : i ≠ 3) : (hdr d mk n).getD i 0 = d.getD i 0 := by
  rw [List.getD_eq_getElem?_getD, List.getD_eq_getElem?_getD, hdr_getElem?_other d mk n h1 h2 h3]

theorem hdr_getElem?_1 (d : Bytes) (mk : Bool) (n : Nat) :
    (hdr d mk n)[1]? = if mk then d[1]?.map (· ||| 0x80) else d[1]? := by
  unfold hdr setByte
  rw [List.getElem?_set_ne (by decide), List.getElem?_set_ne (by decide)]
  cases mk with
  | false => rfl
  | true =>
    simp only [if_true]
    rw [List.getElem?_set_self']
    cases h : d[1]? with
    | none => rfl
    | some x => simp [bor, List.getD_eq_getElem?_getD, h]

theorem hdr_getElem?_2 (d : Bytes) (mk : Bool) (n : Nat) (hl : 12 ≤ d.length) :
    (hdr d mk n)[2]? = some (n / 256 % 256) := by
  unfold hdr setByte
  rw [List.getElem?_set_ne (by decide), List.getElem?_set_self]
  split
  · rw [List.length_set]; omega
  · omega

theorem hdr_getElem?_3 (d : Bytes) (mk : Bool) (n : Nat) (hl : 12 ≤ d.length) :
    (hdr d mk n)[3]? = some (n % 256) := by
  unfold hdr setByte
  rw [List.getElem?_set_self]
  rw [List.length_set]
  split
  · rw [List.length_set]; omega
  · omega

theorem payloadOffset_ge (d : Bytes) : 12 ≤ payloadOffset d := by
  unfold payloadOffset; simp only []; split <;> omega

theorem payloadOffset_hdr (d : Bytes) (mk : Bool) (n : Nat) :
    payloadOffset (hdr d mk n) = payloadOffset d := by
  unfold payloadOffset
  simp only [hdr_getD_other d mk n (i := 0) (by decide) (by decide) (by decide)]
  rw [hdr_getD_other d mk n (by omega) (by omega) (by omega),
      hdr_getD_other d mk n (by omega) (by omega) (by omega)]

theorem pidOffsets_hdr (c : String) (d : Bytes) (mk : Bool) (n δ : Nat) :
    pidOffsets c (hdr d mk n) δ = pidOffsets c d δ := by
  have := payloadOffset_ge d
  unfold pidOffsets
  simp only [payloadOffset_hdr]
  rw [hdr_getD_other d mk n (by omega) (by omega) (by omega),
      hdr_getD_other d mk n (by omega) (by omega) (by omega),
      hdr_getD_other d mk n (by omega) (by omega) (by omega)]

/-- every picture-id offset lies after the fixed header (in fact after the two descriptor bytes) -/
theorem pidOffsets_ge {c : String} {d : Bytes} {δ o : Nat} (h : o ∈ pidOffsets c d δ) : 14 ≤ o := by
  have := payloadOffset_ge d
  unfold pidOffsets at h
  simp only [] at h
  repeat' split at h
  all_goals simp at h
  all_goals omega

end Galene.Codecs
