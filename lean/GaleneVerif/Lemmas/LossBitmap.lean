import GaleneVerif.Lemmas.Loss16
import GaleneVerif.Lemmas.LossBits
/-
Functional descriptions of `Bitmap.get` and `Bitmap.set` (loss bitmap of the packet cache),
and the ghost representation invariant `Core` that both preserve.
-/
set_option linter.unusedVariables false
namespace Galene.Lemmas.LossBitmap
open Galene.Loss Galene.Lemmas.Loss16 Galene.Lemmas.LossBits

/-- the seqnos a NACK `(first, bitmap)` asks for: `first`, and `first + i + 1` for every set bit `i < 16` -/
def Named (f bm s : Nat) : Prop := s = f ∨ ∃ i, i < 16 ∧ bm.testBit i = true ∧ s = add16 f (i + 1)

/-- `first += k; bits >>= k` -/
def shiftBy (b : Bitmap) (k : Nat) : Bitmap := { b with bits := shr32 b.bits k, first := add16 b.first k }

theorem get_nop (b : Bitmap) (next : Nat) (h : Loss.compare b.first next ≥ 0) :
    b.get next = (b, (false, b.first, 0)) := by
  unfold Bitmap.get; simp only [h, if_true]

/-- the window mask computed by `get`: bit `j` set iff `j < count` and bit `j` of the bitmap is clear -/
theorem mask_testBit (bits count j : Nat) (hc : count ≤ 17) :
    (not32 bits % 2 ^ count).testBit j = (decide (j < count) && !bits.testBit j) := by
  rw [Nat.testBit_mod_two_pow, not32_testBit]
  by_cases h : j < count
  · have : j < 32 := by omega
    simp [h, this]
  · simp [h]

theorem mask_lt (bits count : Nat) (hc : count ≤ 17) : not32 bits % 2 ^ count < 131072 := by
  calc not32 bits % 2 ^ count < 2 ^ count := Nat.mod_lt _ (Nat.two_pow_pos _)
    _ ≤ 2 ^ 17 := Nat.pow_le_pow_right (by decide) hc
    _ = 131072 := by decide

/-- The NACK `(add16 first c, (m >> c >> 1) & 0xffff)` built from a mask `m < 2^17` whose lowest set bit is `c`
names exactly the set bits of the mask. -/
theorem named_of_mask (first m c : Nat) (hm : m < 131072)
    (hlow : ∀ j, j < c → m.testBit j = false) (hc : m.testBit c = true) :
    (shr32 m c / 2) % 65536 < 65536 ∧
    ∀ s, Named (add16 first c) ((shr32 m c / 2) % 65536) s ↔ ∃ j, m.testBit j = true ∧ s = add16 first j := by
  have hc17 : c < 17 := by
    apply Decidable.by_contra; intro hn
    have : m.testBit c = false := by
      apply Nat.testBit_lt_two_pow
      calc m < 2 ^ 17 := hm
        _ ≤ 2 ^ c := Nat.pow_le_pow_right (by decide) (by omega)
    rw [this] at hc; cases hc
  have hbit : ∀ i, ((shr32 m c / 2) % 65536).testBit i = (decide (i < 16) && m.testBit (i + 1 + c)) := by
    intro i
    have e : (65536 : Nat) = 2 ^ 16 := by decide
    rw [e, Nat.testBit_mod_two_pow, ← Nat.testBit_succ, shr32_testBit]
    have : c < 32 := by omega
    simp [this]
  refine ⟨Nat.mod_lt _ (by decide), ?_⟩
  intro s
  unfold Named
  constructor
  · rintro (h | ⟨i, hi, hb, hs⟩)
    · exact ⟨c, hc, h⟩
    · rw [hbit] at hb
      simp only [Bool.and_eq_true, decide_eq_true_eq] at hb
      exact ⟨i + 1 + c, hb.2, by rw [hs, add16_add16]; congr 1; omega⟩
  · rintro ⟨j, hj, hs⟩
    have hjc : c ≤ j := by
      apply Decidable.by_contra; intro hn
      rw [hlow j (by omega)] at hj; cases hj
    have hj17 : j < 17 := by
      apply Decidable.by_contra; intro hn
      have : m.testBit j = false := by
        apply Nat.testBit_lt_two_pow
        calc m < 2 ^ 17 := hm
          _ ≤ 2 ^ j := Nat.pow_le_pow_right (by decide) (by omega)
      rw [this] at hj; cases hj
    by_cases hjeq : j = c
    · exact Or.inl (by rw [hs, hjeq])
    · refine Or.inr ⟨j - c - 1, by omega, ?_, ?_⟩
      · rw [hbit]
        have e : j - c - 1 + 1 + c = j := by omega
        simp only [e, hj, Bool.and_true, decide_eq_true_eq]; omega
      · rw [hs, add16_add16]; congr 1; omega


/-- Complete functional description of `get` in the branch where it does something
(`next` strictly after `first`). -/
theorem get_spec (b : Bitmap) (next : Nat) (hf : b.first < 65536)
    (hlt : ¬ Loss.compare b.first next ≥ 0) :
    let count := min (sub16 next b.first) 17
    (b.get next).1 = shiftBy b count ∧
    ((b.get next).2.1 = true ↔ ∃ j, j < count ∧ b.bits.testBit j = false) ∧
    ((b.get next).2.1 = false → (b.get next).2.2 = (b.first, 0)) ∧
    ((b.get next).2.1 = true → (b.get next).2.2.2 < 65536 ∧
      ∀ s, Named (b.get next).2.2.1 (b.get next).2.2.2 s ↔
        ∃ j, j < count ∧ b.bits.testBit j = false ∧ s = add16 b.first j) := by
  intro count
  have hc : count ≤ 17 := Nat.min_le_right _ _
  have hmask := mask_testBit b.bits count (hc := hc)
  have hmlt := mask_lt b.bits count hc
  have hex : ∀ s, (∃ j, (not32 b.bits % 2 ^ count).testBit j = true ∧ s = add16 b.first j) ↔
      ∃ j, j < count ∧ b.bits.testBit j = false ∧ s = add16 b.first j := by
    intro s
    constructor
    · rintro ⟨j, hj, hs⟩
      rw [hmask] at hj
      simp only [Bool.and_eq_true, decide_eq_true_eq, Bool.not_eq_true'] at hj
      exact ⟨j, hj.1, hj.2, hs⟩
    · rintro ⟨j, h1, h2, hs⟩
      exact ⟨j, by rw [hmask]; simp [h1, h2], hs⟩
  generalize hm : not32 b.bits % 2 ^ count = m at *
  have hget0 : m = 0 → b.get next = (shiftBy b count, (false, b.first, 0)) := by
    intro h0; unfold Bitmap.get; simp only [hlt, if_false]; rw [if_pos (by rw [← h0, ← hm])]; rfl
  have hget1 : m ≠ 0 → m % 2 = 0 → b.get next =
      (shiftBy b count, (true, add16 b.first (tz32 m), (shr32 m (tz32 m) / 2) % 65536)) := by
    intro h0 h2; unfold Bitmap.get; simp only [hlt, if_false]
    rw [if_neg (by rw [← hm] at h0; exact h0), if_pos (by rw [← hm] at h2; exact h2), ← hm]; rfl
  have hget2 : m ≠ 0 → m % 2 ≠ 0 → b.get next = (shiftBy b count, (true, b.first, (m / 2) % 65536)) := by
    intro h0 h2; unfold Bitmap.get; simp only [hlt, if_false]
    rw [if_neg (by rw [← hm] at h0; exact h0), if_neg (by rw [← hm] at h2; exact h2), ← hm]; rfl
  by_cases h0 : m = 0
  · rw [hget0 h0]
    refine ⟨rfl, ?_, fun _ => rfl, fun h => by cases h⟩
    constructor
    · intro h; cases h
    · rintro ⟨j, h1, h2⟩
      have := hmask j
      rw [h0, Nat.zero_testBit] at this
      simp [h1, h2] at this
  · have hfound : ∃ j, j < count ∧ b.bits.testBit j = false := by
      apply Decidable.by_contra; intro hn
      apply h0
      apply Nat.eq_of_testBit_eq
      intro j
      rw [hmask, Nat.zero_testBit]
      by_cases hj : j < count
      · cases hb : b.bits.testBit j
        · exact absurd ⟨j, hj, hb⟩ hn
        · simp
      · simp [hj]
    by_cases h2 : m % 2 = 0
    · rw [hget1 h0 h2]
      have hm32 : m < 4294967296 := by omega
      have htz := tz32_lt m hm32 h0
      obtain ⟨_, hlow, hset⟩ := tz32_spec m
      obtain ⟨n1, n2⟩ := named_of_mask b.first m (tz32 m) hmlt hlow (hset htz)
      refine ⟨rfl, Iff.intro (fun _ => hfound) (fun _ => rfl), fun h => (by cases h), fun _ => ⟨n1, ?_⟩⟩
      intro s
      rw [← hex s]; exact n2 s
    · rw [hget2 h0 h2]
      have hodd : m % 2 = 1 := by omega
      have hz := tz32_odd m hodd
      obtain ⟨_, hlow, hset⟩ := tz32_spec m
      obtain ⟨n1, n2⟩ := named_of_mask b.first m (tz32 m) hmlt hlow (hset (by omega))
      rw [hz] at n1 n2
      have e1 : shr32 m 0 = m := by simp [shr32]
      rw [e1, add16_zero _ hf] at n2
      rw [e1] at n1
      refine ⟨rfl, Iff.intro (fun _ => hfound) (fun _ => rfl), fun h => (by cases h), fun _ => ⟨n1, ?_⟩⟩
      intro s
      rw [← hex s]; exact n2 s



theorem shiftBy_zero (b : Bitmap) (hf : b.first < 65536) : shiftBy b 0 = b := by
  unfold shiftBy
  have e1 : shr32 b.bits 0 = b.bits := by simp [shr32]
  rw [e1, add16_zero _ hf]

theorem shiftBy_first (b : Bitmap) (k : Nat) : (shiftBy b k).first = add16 b.first k := rfl
theorem shiftBy_bits (b : Bitmap) (k : Nat) : (shiftBy b k).bits = shr32 b.bits k := rfl
theorem shiftBy_valid (b : Bitmap) (k : Nat) : (shiftBy b k).valid = b.valid := rfl

/-- the last phase of `set`: `bits |= 1 << (seqno - first)` -/
def markBit (b : Bitmap) (s : Nat) : Bitmap := { b with bits := b.bits ||| bit32 (sub16 s b.first) }
theorem markBit_first (b : Bitmap) (s : Nat) : (markBit b s).first = b.first := rfl
theorem markBit_bits (b : Bitmap) (s : Nat) : (markBit b s).bits = b.bits ||| bit32 (sub16 s b.first) := rfl
theorem markBit_valid (b : Bitmap) (s : Nat) : (markBit b s).valid = b.valid := rfl

/-- `set` takes the reset branch -/
def isReset (b : Bitmap) (s : Nat) : Bool := !b.valid || seqnoInvalid s b.first

theorem set_reset (b : Bitmap) (s : Nat) (h : isReset b s = true) :
    b.set s = { valid := true, first := s, bits := 1 } := by
  unfold isReset at h
  unfold Bitmap.set; rw [if_pos h]

theorem set_behind (b : Bitmap) (s : Nat) (h : isReset b s = false) (hc : Loss.compare b.first s > 0) :
    b.set s = b := by
  unfold isReset at h
  unfold Bitmap.set; rw [if_neg (by rw [h]; decide), if_pos hc]

/-- how far the first phase of `set` (make room so that `seqno` fits in 32 bits) shifts -/
def setShift (b : Bitmap) (s : Nat) : Nat := if sub16 s b.first ≥ 32 then sub16 s b.first - 31 else 0
/-- how far the second phase of `set` (drop the leading run of received packets) shifts -/
def setOnes (b1 : Bitmap) : Nat := if b1.bits % 2 = 1 then tz32 (not32 b1.bits) else 0

theorem set_ahead (b : Bitmap) (s : Nat) (hf : b.first < 65536) (h : isReset b s = false)
    (hc : ¬ Loss.compare b.first s > 0) :
    b.set s = markBit (shiftBy (shiftBy b (setShift b s)) (setOnes (shiftBy b (setShift b s)))) s := by
  unfold isReset at h
  unfold Bitmap.set; rw [if_neg (by rw [h]; decide), if_neg hc]
  have e1 : (if sub16 s b.first ≥ 32 then
        { b with bits := shr32 b.bits (sub16 (sub16 s b.first) 31), first := add16 b.first (sub16 (sub16 s b.first) 31) }
      else b) = shiftBy b (setShift b s) := by
    unfold setShift
    split
    · rename_i hge
      have : sub16 (sub16 s b.first) 31 = sub16 s b.first - 31 := by
        have := sub16_lt s b.first
        generalize sub16 s b.first = d at *
        unfold sub16; omega
      rw [this]; rfl
    · rw [shiftBy_zero b hf]
  simp only
  rw [e1]
  have hf1 : (shiftBy b (setShift b s)).first < 65536 := add16_lt _ _
  generalize shiftBy b (setShift b s) = b1 at *
  have e2 : (if b1.bits % 2 = 1 then
        { b1 with bits := shr32 b1.bits (tz32 (not32 b1.bits)), first := add16 b1.first (tz32 (not32 b1.bits)) }
      else b1) = shiftBy b1 (setOnes b1) := by
    unfold setOnes
    split
    · rfl
    · rw [shiftBy_zero b1 hf1]
  rw [e2]
  rfl


/-- Representation invariant of the bitmap against a ghost: `base` is the unwrapped (absolute)
position of `first`, `hist` the absolute positions of everything stored in the current epoch. -/
structure Core (b : Bitmap) (base : Nat) (hist : List Nat) : Prop where
  bits_lt : b.bits < 4294967296
  first_eq : b.first = base % 65536
  bit_iff : ∀ i, i < 32 → (b.bits.testBit i = true ↔ base + i ∈ hist)
  hist_lt : ∀ p ∈ hist, p < base + 32

theorem Core.first_lt {b base hist} (h : Core b base hist) : b.first < 65536 := by
  rw [h.first_eq]; omega

theorem core_shift (b : Bitmap) (base : Nat) (hist : List Nat) (k : Nat) (h : Core b base hist) :
    Core (shiftBy b k) (base + k) hist := by
  obtain ⟨h1, h2, h3, h4⟩ := h
  refine ⟨by rw [shiftBy_bits]; exact shr32_lt _ _ h1, ?_, ?_, ?_⟩
  · rw [shiftBy_first, h2]; unfold add16; omega
  · intro i hi
    rw [shiftBy_bits, shr32_testBit' _ _ _ h1]
    by_cases hik : i + k < 32
    · rw [h3 _ hik, Nat.add_assoc, Nat.add_comm k i]
    · rw [testBit_ge32 _ _ h1 (by omega)]
      constructor
      · intro hh; cases hh
      · intro hm; have := h4 _ hm; omega
  · intro p hp; have := h4 p hp; omega

/-- storing a packet whose absolute position is behind the window changes nothing -/
theorem core_ignore (b : Bitmap) (base : Nat) (hist : List Nat) (pos : Nat) (h : Core b base hist)
    (hp : pos < base) : Core b base (hist ++ [pos]) := by
  obtain ⟨h1, h2, h3, h4⟩ := h
  refine ⟨h1, h2, ?_, ?_⟩
  · intro i hi
    rw [h3 i hi, List.mem_append, List.mem_singleton]
    constructor
    · exact Or.inl
    · rintro (hm | hm)
      · exact hm
      · omega
  · intro p hp'
    rcases List.mem_append.mp hp' with hm | hm
    · exact h4 p hm
    · simp only [List.mem_singleton] at hm; omega

/-- the last phase of `set`: mark `pos` (either inside the window, or at most 2^16 - 32 behind it) -/
theorem core_mark (b : Bitmap) (base : Nat) (hist : List Nat) (pos s : Nat) (h : Core b base hist)
    (hs : s = pos % 65536) (hup : pos < base + 32) (hlow : base + 32 ≤ pos + 65536) :
    Core (markBit b s) base (hist ++ [pos]) := by
  obtain ⟨h1, h2, h3, h4⟩ := h
  refine ⟨by rw [markBit_bits]; exact or_bit32_lt _ _ h1, by rw [markBit_first]; exact h2, ?_, ?_⟩
  · intro i hi
    rw [markBit_bits, Nat.testBit_or, bit32_testBit, List.mem_append, List.mem_singleton, Bool.or_eq_true, h3 i hi]
    simp only [Bool.and_eq_true, decide_eq_true_eq]
    have hj : (sub16 s b.first < 32 ∧ sub16 s b.first = i) ↔ base + i = pos := by
      rw [hs, h2]; unfold sub16; omega
    rw [hj]
  · intro p hp'
    rcases List.mem_append.mp hp' with hm | hm
    · exact h4 p hm
    · simp only [List.mem_singleton] at hm; omega


theorem setOnes_le (b1 : Bitmap) : setOnes b1 ≤ 32 := by
  unfold setOnes; split
  · exact (tz32_spec _).1
  · omega

/-- the packets the second phase of `set` skips over were all received -/
theorem setOnes_bits (b1 : Bitmap) (j : Nat) (hj : j < setOnes b1) : b1.bits.testBit j = true := by
  unfold setOnes at hj
  split at hj
  · have h := (tz32_spec (not32 b1.bits)).2.1 j hj
    have hle := (tz32_spec (not32 b1.bits)).1
    rw [not32_testBit] at h
    have : j < 32 := by omega
    simpa [this] using h
  · omega

/-- `set` on a bitmap that is not reset, with `seqno` at or after `first`. -/
theorem core_set_ahead (b : Bitmap) (base : Nat) (hist : List Nat) (s : Nat) (h : Core b base hist)
    (hs : s < 65536) (hr : isReset b s = false) (hc : ¬ Loss.compare b.first s > 0) :
    let adv := setShift b s + setOnes (shiftBy b (setShift b s))
    Core (b.set s) (base + adv) (hist ++ [base + sub16 s b.first]) ∧
    (b.set s).first = add16 b.first adv ∧ (b.set s).valid = b.valid ∧
    adv ≤ max 32 (sub16 s b.first + 1) ∧ sub16 s b.first < 32768 := by
  intro adv
  have hf := h.first_lt
  have hd : sub16 s b.first < 32768 := by
    rw [compare_gt_iff] at hc
    by_cases he : b.first = s
    · rw [he, sub16_self _ hs]; omega
    · omega
  have hsh : setShift b s ≤ sub16 s b.first ∧ sub16 s b.first - setShift b s ≤ 31 ∧
      setShift b s ≤ sub16 s b.first + 1 - 32 := by
    unfold setShift; split <;> omega
  have hon := setOnes_le (shiftBy b (setShift b s))
  rw [set_ahead b s hf hr hc]
  have hcore := core_shift _ _ _ (setOnes (shiftBy b (setShift b s))) (core_shift _ _ _ (setShift b s) h)
  have hmark := core_mark _ _ _ (base + sub16 s b.first) s hcore
    (by rw [h.first_eq] ; unfold sub16; omega) (by omega) (by omega)
  refine ⟨?_, ?_, ?_, by omega, hd⟩
  · rw [← Nat.add_assoc]; exact hmark
  · rw [markBit_first, shiftBy_first, shiftBy_first, add16_add16]
  · rw [markBit_valid, shiftBy_valid, shiftBy_valid]

theorem core_reset (s : Nat) (hs : s < 65536) :
    Core { valid := true, first := s, bits := 1 } (65536 + s) [65536 + s] := by
  refine ⟨by show 1 < 4294967296; decide, by simp only; omega, ?_, ?_⟩
  · intro i hi
    simp only [List.mem_singleton]
    have e : (1 : Nat) = 2 ^ 0 := rfl
    rw [e, Nat.testBit_two_pow]
    simp only [decide_eq_true_eq]; omega
  · intro p hp; simp only [List.mem_singleton] at hp; omega

/-- `set` of a seqno up to 256 before `first`: ignored -/
theorem core_set_behind (b : Bitmap) (base : Nat) (hist : List Nat) (s : Nat) (h : Core b base hist)
    (hs : s < 65536) (hr : isReset b s = false) (hc : Loss.compare b.first s > 0) :
    b.set s = b ∧ 1 ≤ sub16 b.first s ∧ sub16 b.first s ≤ 256 ∧
    (sub16 b.first s ≤ base → Core b base (hist ++ [base - sub16 b.first s])) := by
  have hf := h.first_lt
  have hinv : seqnoInvalid s b.first = false := by
    unfold isReset at hr
    cases hq : seqnoInvalid s b.first
    · rfl
    · rw [hq] at hr; simp at hr
  have hn : ¬ (256 < sub16 b.first s ∧ sub16 b.first s ≤ 32768) := by
    intro hh
    have := (seqnoInvalid_iff s b.first hs hf).mpr hh
    rw [hinv] at this; cases this
  rw [compare_gt_iff] at hc
  have hb : 1 ≤ sub16 b.first s ∧ sub16 b.first s ≤ 256 := by
    obtain ⟨hne, hge⟩ := hc
    unfold sub16 at *; omega
  refine ⟨set_behind b s hr (by rw [compare_gt_iff]; exact hc), hb.1, hb.2, ?_⟩
  intro hle
  exact core_ignore b base hist _ h (by omega)

theorem core_get (b : Bitmap) (base : Nat) (hist : List Nat) (next : Nat) (h : Core b base hist) :
    ∃ count, count ≤ 17 ∧ (b.get next).1 = shiftBy b count ∧ Core (b.get next).1 (base + count) hist ∧
      (count = 0 ∨ (¬ Loss.compare b.first next ≥ 0 ∧ count = min (sub16 next b.first) 17)) := by
  by_cases hc : Loss.compare b.first next ≥ 0
  · refine ⟨0, by omega, ?_, ?_, Or.inl rfl⟩
    · rw [get_nop b next hc, shiftBy_zero b h.first_lt]
    · rw [get_nop b next hc]; exact h
  · obtain ⟨h1, -⟩ := get_spec b next h.first_lt hc
    refine ⟨min (sub16 next b.first) 17, Nat.min_le_right _ _, h1, ?_, Or.inr ⟨hc, rfl⟩⟩
    rw [h1]; exact core_shift _ _ _ _ h

end Galene.Lemmas.LossBitmap
