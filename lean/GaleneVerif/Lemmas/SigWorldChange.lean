import GaleneVerif.Lemmas.SigWorldMsg
/-
The sequential special case of an attribute change (C14 on the concrete model): `useraction`/`setdata`
whose broadcast (`broadcastChange`, the model of the detached `go func(clients)`) is not parked by a
blocking mock queues the `change` event for every member within the step, and then preserves the invariant.
-/
namespace Galene.Sig

theorem truthL_setAttr (ms : List (String × UAttr)) (x : String) (a : UAttr) (hx : x ∈ ms.map (·.1)) :
    truthL (ms.map fun p => if p.1 = x then (p.1, a) else p) = uupd (truthL ms) x (some a) := by
  induction ms with
  | nil => simp at hx
  | cons m r ih =>
    funext j
    simp only [List.map_cons, truthL, uupd]
    by_cases hm : m.1 = x
    · simp only [hm, if_true]
      by_cases hj : j = x
      · simp [hj]
      · simp only [hj, if_false]
        by_cases hxr : x ∈ r.map (·.1)
        · rw [ih hxr]; simp [uupd, hj]
        · have hid : (r.map fun p => if p.1 = x then (p.1, a) else p) = r := by
            conv => rhs; rw [← List.map_id r]
            apply List.map_congr_left
            intro p hp
            have : p.1 ≠ x := fun e => hxr (List.mem_map.mpr ⟨p, hp, e⟩)
            simp [this]
          rw [hid]
    · have hxr : x ∈ r.map (·.1) := by
        simp only [List.map_cons, List.mem_cons] at hx
        rcases hx with h | h
        · exact absurd h.symm hm
        · exact h
      simp only [hm, if_false]
      rw [ih hxr]
      by_cases hj : j = m.1
      · have : j ≠ x := fun e => hm (hj.symm.trans e)
        simp [hj]; intro e; exact absurd e hm
      · simp [hj, uupd]

theorem enqAll_ext (a : Action) (l : List Nat) (w : World) :
    Ext w (l.foldl (fun w j => w.enq j a) w) (fun j => List.replicate (l.count j) a) := by
  induction l generalizing w with
  | nil => exact (Ext.refl w).congr (fun j => by simp)
  | cons k l ih =>
    simp only [List.foldl_cons]
    refine ((Ext.enq w k a).trans (ih _)).congr (fun j => ?_)
    rw [List.count_cons]
    by_cases h : j = k
    · subst h; simp [List.replicate_succ]
    · have : ¬ (k = j) := fun e => h e.symm
      simp [h, this]

theorem pend_change (h : Heap) (gn id u : String) (p : PermRef) (d : Dict) (v : UView) :
    pend h gn v (Action.pushClient gn "change" id u p d) = uupd v id (some ⟨some u, resolveH h p, d⟩) := by
  simp [pend, foldEv]

theorem foldl_change (h : Heap) (gn id u : String) (p : PermRef) (d : Dict) (k : Nat) (v : UView) :
    (List.replicate k (Action.pushClient gn "change" id u p d)).foldl (pend h gn) (uupd v id (some ⟨some u, resolveH h p, d⟩)) =
      uupd v id (some ⟨some u, resolveH h p, d⟩) := by
  induction k with
  | zero => rfl
  | succ k ih =>
    rw [List.replicate_succ, List.foldl_cons, pend_change]
    have : uupd (uupd v id (some ⟨some u, resolveH h p, d⟩)) id (some ⟨some u, resolveH h p, d⟩) =
        uupd v id (some ⟨some u, resolveH h p, d⟩) := by
      funext j; simp only [uupd]; split_ifs <;> rfl
    rw [this, ih]

/-- **a data change announced at once preserves the invariant**: member `i` of `gn` replaces its data
and the `change` event is queued for every web member of `gn` in the same step (what
`broadcastChange` does when no blocking mock parks the detached goroutine) -/
theorem setData_inv (w w1 wE : World) (i : Nat) (gn : String) (c : Client) (d' : Dict) (hi : WInv w)
    (hc : w.clients[i]? = some c) (hm : Ref.web i ∈ mem w gn)
    (hget : ∀ j, w1.clients[j]? = if i = j then (w.clients[j]?).map (fun c => { c with data := d' }) else w.clients[j]?)
    (hgroups : w1.groups = w.groups) (hheap : w1.heap = w.heap) (hfix : w1.fix = w.fix) (hcr : w1.crashed = w.crashed)
    (htok : w1.tokens = w.tokens) (hdfr : w1.deferred = w.deferred) (hlog : w1.log = w.log)
    (hX : Ext w1 wE
      (fun j => List.replicate (((mem w gn).filterMap fun r => match r with | .web j => some j | _ => none).count j)
        (.pushClient gn "change" c.id c.username (.alias c.perms) d'))) : WInv wE := by
  have hcg : c.group = some gn := by
    obtain ⟨c', hc', hg⟩ := hi.memb gn i hm
    rw [hc] at hc'; cases hc'; exact hg
  have hmem : ∀ g, mem w1 g = mem w g := mem_of_groups hgroups
  have hid : ∀ r, w1.refId r = w.refId r := by
    intro r
    apply refId_of_get
    intro j; rw [hget]
    split_ifs
    · cases w.clients[j]? <;> rfl
    · rfl
  have hattr : ∀ r, r ≠ Ref.web i → attrOf w1 r = attrOf w r := by
    intro r hr
    cases r with
    | web j =>
      have hij : ¬ (i = j) := fun e => hr (by rw [e])
      have hj := hget j
      rw [if_neg hij] at hj
      cases hcj : w.clients[j]? with
      | none =>
        simp [attrOf, World.refUsername, World.refPerms, World.permsOf, World.refData, World.client?, hj, hcj]
      | some cj =>
        rw [hcj] at hj
        rw [attrOf_web w1 j cj hj, attrOf_web w j cj hcj, hheap]
    | mock id => rfl
    | disk id => rfl
  have hc1 : w1.clients[i]? = some { c with data := d' } := by rw [hget, if_pos rfl, hc]; rfl
  have hattr_i : attrOf w1 (.web i) = ⟨some c.username, w.heap.get c.perms, d'⟩ := by
    rw [attrOf_web w1 i _ hc1, hheap]
  have hpv : ∀ j g, pview w1 j g = pview w j g := by
    intro j g
    unfold pview
    rw [hget, hheap]
    have : written w1 j = written w j := by unfold written; rw [hlog]
    rw [this]
    split_ifs
    · cases w.clients[j]? <;> rfl
    · rfl
  have hs1 : WStruct w1 := by
    refine ⟨?_, ?_, ?_, ?_, ?_, ?_, ?_, ?_, ?_⟩
    · rw [hfix]; exact hi.p12
    · rw [hfix]; exact hi.p18
    · rw [hcr]; exact hi.ok
    · intro g j hmj
      rw [hmem] at hmj
      obtain ⟨cj, hcj, hg⟩ := hi.memb g j hmj
      rw [hget, hcj]
      split_ifs
      · exact ⟨_, rfl, hg⟩
      · exact ⟨_, rfl, hg⟩
    · intro g
      rw [hmem, List.map_congr_left (fun r _ => hid r)]
      exact hi.ids g
    · intro j cj hcj a ha
      rw [hget] at hcj
      rw [hheap]
      by_cases hij : i = j
      · subst hij
        rw [if_pos rfl, hc] at hcj
        cases hcj
        exact hi.tame i c hc a ha
      · rw [if_neg hij] at hcj
        exact hi.tame j cj hcj a ha
    · rw [hdfr]; exact hi.dfr
    · intro g j cj hmj hcj
      rw [hmem] at hmj
      rw [hget] at hcj
      rw [hheap]
      by_cases hij : i = j
      · subst hij
        rw [if_pos rfl, hc] at hcj
        cases hcj
        exact hi.permsR g i c hmj hc
      · rw [if_neg hij] at hcj
        exact hi.permsR g j cj hmj hcj
    · rw [htok, hheap]; exact hi.toksR
  have hpr : InR w.heap c.perms := hi.permsR gn i c hm hc
  refine ⟨hs1.ext hX (by
    intro j a ha
    rw [List.eq_of_mem_replicate ha, hheap]
    exact ⟨rfl, hpr⟩), ?_⟩
  intro g j hmj
  rw [mem_of_groups hX.groups, hmem] at hmj
  obtain ⟨cj, hcj, hgj⟩ := hs1.memb g j (by rw [hmem]; exact hmj)
  rw [hX.pview hcj (fun a ha => (hs1.tame j cj hcj a ha).2), hpv, hi.view g j hmj, hX.truth, hheap]
  by_cases hgg : g = gn
  · subst hgg
    have hjw : j ∈ (mem w g).filterMap fun r => match r with | .web j => some j | _ => none :=
      List.mem_filterMap.mpr ⟨.web j, hmj, rfl⟩
    obtain ⟨k, hk⟩ : ∃ k, ((mem w g).filterMap fun r => match r with | .web j => some j | _ => none).count j = k + 1 :=
      ⟨_, (Nat.succ_pred_eq_of_pos (List.count_pos_iff.mpr hjw)).symm⟩
    simp only [hk]
    rw [List.replicate_succ, List.foldl_cons, pend_change, foldl_change]
    -- the new membership map
    have hidw : w.refId (.web i) = c.id := refId_web w i c hc
    unfold truth
    rw [hmem]
    have hmap : (mem w g).map (fun r => (w1.refId r, attrOf w1 r)) =
        ((mem w g).map fun r => (w.refId r, attrOf w r)).map
          (fun p => if p.1 = c.id then (p.1, ⟨some c.username, resolveH w.heap (.alias c.perms), d'⟩) else p) := by
      rw [List.map_map]
      apply List.map_congr_left
      intro r hr
      simp only [Function.comp]
      by_cases hri : r = .web i
      · subst hri
        rw [hid, hidw, hattr_i]
        simp [resolveH]
      · have hne : w.refId r ≠ c.id := fun e => hri (nodup_map_inj (hi.ids g) hr hm (e.trans hidw.symm))
        rw [hid, hattr r hri, if_neg hne]
    rw [hmap, truthL_setAttr]
    simp only [List.map_map]
    exact List.mem_map.mpr ⟨.web i, hm, hidw⟩
  · have hni : Ref.web i ∉ mem w g := by
      intro h
      obtain ⟨c', hc', hg'⟩ := hi.memb g i h
      rw [hc] at hc'; cases hc'
      rw [hcg] at hg'; cases hg'
      exact hgg rfl
    rw [foldl_other _ _ _ _ _ _ _ _ (fun e => hgg e.symm)]
    unfold truth
    rw [hmem]
    congr 1
    apply List.map_congr_left
    intro r hr
    rw [hid, hattr r (fun e => hni (e ▸ hr))]



theorem broadcastChange_noblock (w : World) (gn : String) (a : Action) (g : Group) (hg : w.group? gn = some g)
    (hnb : ∀ mk ∈ w.mocks, mk.block = false) :
    broadcastChange w gn a =
      (g.members.filterMap fun r => match r with | .web j => some j | _ => none).foldl (fun w j => w.enq j a) w := by
  unfold broadcastChange
  rw [hg]
  simp only []
  split
  · rfl
  · rename_i mid heq
    exfalso
    obtain ⟨r, _, hr⟩ := List.exists_of_findSome?_eq_some heq
    cases r with
    | web j => cases hr
    | disk id => cases hr
    | mock id =>
      simp only [Option.map_eq_some_iff] at hr
      obtain ⟨mk, hmk, _⟩ := hr
      have h1 := List.find?_some hmk
      have h2 := hnb mk (List.mem_of_find?_eq_some hmk)
      simp [h2] at h1

/-- **the effect of `useraction`/`setdata` preserves the invariant when the broadcast is not parked**:
added hypotheses — no mock is blocking (so the detached goroutine of `broadcastChange` runs to
completion within the step: the sequential schedule), and the connection is a member of the group
its `group` field names (true in every reachable state, but only the other direction is part of `WInv`) -/
theorem setOwnData_inv (w : World) (i : Nat) (d : Dict) (c : Client) (gn : String) (hi : WInv w)
    (hc : w.clients[i]? = some c) (hcg : c.group = some gn) (hm : Ref.web i ∈ mem w gn)
    (hnb : ∀ mk ∈ w.mocks, mk.block = false) : WInv (applyEffect w i (.setOwnData d)) := by
  have hcl : w.client? i = some c := hc
  have hc1 : (w.modClient i fun c => { c with data := Dict.merge c.data d }).client? i =
      some { c with data := Dict.merge c.data d } := by
    show (w.modClient i _).clients[i]? = _
    rw [modClient_get, if_pos rfl, hc]; rfl
  obtain ⟨g, hg⟩ : ∃ g, w.group? gn = some g := by
    cases h : w.group? gn with
    | none => simp [mem, h] at hm
    | some g => exact ⟨g, rfl⟩
  have hM : mem w gn = g.members := mem_of_group? hg
  show WInv (broadcastChange (w.modClient i fun c => { c with data := Dict.merge c.data d })
    ((((w.client? i).getD {}).group).getD "") _)
  rw [hcl, hc1]
  simp only [Option.getD_some, hcg]
  rw [broadcastChange_noblock (w.modClient i fun c => { c with data := Dict.merge c.data d }) gn _ g hg hnb]
  refine setData_inv w (w.modClient i fun c => { c with data := Dict.merge c.data d }) _ i gn c (Dict.merge c.data d)
    hi hc hm ?_ rfl rfl rfl rfl rfl rfl rfl ?_
  · intro j
    rw [modClient_get]
    split_ifs with h
    · subst h; rw [hc]; rfl
    · rfl
  · rw [hM]
    exact enqAll_ext _ _ _



theorem handle_setdata (c : Conn) (env : Env) (m : Msg) (ht : m.type = "useraction") (hk : m.kind = "setdata") :
    ∃ e, handle c env m = [e] ∧ (e.covered ∨ (c.group.isSome = true ∧ ∃ d, e = .setOwnData d)) := by
  by_cases h1 : spoofedSource c m = true
  · exact ⟨.fail (.proto "spoofed client id"), by unfold handle; rw [if_pos h1], Or.inl trivial⟩
  by_cases h2 : spoofedUser c m = true
  · exact ⟨.fail (.proto "spoofed username"), by unfold handle; rw [if_neg h1, if_pos h2], Or.inl trivial⟩
  have hh : handle c env m = handleUserAction c env m := by
    unfold handle; rw [if_neg h1, if_neg h2]; simp [ht, mediaTypes]
  rw [hh]
  unfold handleUserAction
  cases hg : c.group with
  | none => exact ⟨_, rfl, Or.inl (errMsg_quiet _ _)⟩
  | some g =>
    simp only [hk, permKinds]
    simp only [String.reduceEq, List.mem_cons, List.not_mem_nil, or_self, if_false, if_true]
    split_ifs
    · exact ⟨_, rfl, Or.inl (errMsg_quiet _ _)⟩
    · split
      · exact ⟨_, rfl, Or.inr ⟨rfl, _, rfl⟩⟩
      · exact ⟨_, rfl, Or.inl (errMsg_quiet _ _)⟩

end Galene.Sig
