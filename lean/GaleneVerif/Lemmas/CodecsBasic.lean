import GaleneVerif.Model.Codecs
/-
Basic facts about the codecs model used by Props/C02 and Props/C12Media:
* `bit x 2^k` as arithmetic,
* a small weakest-precondition calculus `Post` for the `Except Fail` monad of the
  parser models ("did not panic, and a returned value satisfies Q").
-/
namespace Galene.Codecs

/-! ### bit tests as arithmetic -/

theorem and_two_pow_ne_zero (x k : Nat) : (x &&& 2^k != 0) = x.testBit k := by
  rw [Nat.testBit_eq_decide_div_mod_eq]
  have h : x &&& 2^k = (x / 2^k % 2) * 2^k := by
    apply Nat.eq_of_testBit_eq
    intro j
    rw [Nat.testBit_and, Nat.testBit_two_pow, Nat.testBit_mul_two_pow]
    by_cases hj : k = j
    · subst hj; simp [Nat.testBit_eq_decide_div_mod_eq]
    · simp [hj]
      intro h1
      have : 0 < j - k := by omega
      rw [Nat.testBit_eq_decide_div_mod_eq]
      have h2 : x / 2^k % 2 < 2 := Nat.mod_lt _ (by decide)
      have : 2 ≤ 2^(j-k) := by
        calc 2 = 2^1 := rfl
          _ ≤ 2^(j-k) := Nat.pow_le_pow_right (by decide) this
      rw [Nat.div_eq_of_lt (by omega)]; simp
  rw [h]
  have h2 : x / 2^k % 2 < 2 := Nat.mod_lt _ (by decide)
  have hp : 0 < 2^k := Nat.two_pow_pos k
  by_cases h3 : x / 2^k % 2 = 1
  · simp [h3]
  · have : x / 2^k % 2 = 0 := by omega
    simp [this]

/-- bit 7 of a number, as arithmetic -/
theorem bit_128 (x : Nat) : bit x 128 = decide (x / 128 % 2 = 1) := by
  have := and_two_pow_ne_zero x 7
  rw [Nat.testBit_eq_decide_div_mod_eq] at this
  exact this

theorem bit_128_of_lt {x : Nat} (h : x < 128) : bit x 128 = false := by
  rw [bit_128, Nat.div_eq_of_lt h]; rfl

/-- for a byte, bit 7 is set iff the value is at least 128 -/
theorem bit_128_byte {x : Nat} (h : x < 256) : bit x 128 = decide (128 ≤ x) := by
  rw [bit_128]; congr 1; apply propext; omega

theorem or_128_of_lt {y : Nat} (h : y < 128) : 128 ||| y = 128 + y := by
  have := Nat.two_pow_add_eq_or_of_lt (i := 7) (b := y) h 1
  simpa using this.symm

theorem bit_128_or (y : Nat) : bit (128 ||| y) 128 = true := by
  have := and_two_pow_ne_zero (128 ||| y) 7
  rw [Nat.testBit_or] at this
  have h7 : Nat.testBit 128 7 = true := by decide
  rw [h7, Bool.true_or] at this
  exact this

theorem or_128_mod (x : Nat) : (x ||| 128) % 128 = x % 128 := by
  have := Nat.or_mod_two_pow (a := x) (b := 128) (n := 7)
  simpa using this

/-! ### codec names (for the concrete examples; `String.map` does not reduce in the kernel) -/

/-- decide `isCodec` on two string literals -/
macro "codec_lit" : tactic =>
  `(tactic| (unfold isCodec lower; rw [String.map_eq_internal]; simp))

theorem isCodec_VP8_vp8 : isCodec "video/VP8" "video/vp8" = true := by codec_lit
theorem isCodec_vp8_vp8 : isCodec "video/vp8" "video/vp8" = true := by codec_lit
theorem isCodec_vp9_vp8 : isCodec "video/vp9" "video/vp8" = false := by codec_lit
theorem isCodec_vp9_vp9 : isCodec "video/vp9" "video/vp9" = true := by codec_lit
theorem isCodec_av1_vp8 : isCodec "video/AV1" "video/vp8" = false := by codec_lit
theorem isCodec_av1_vp9 : isCodec "video/AV1" "video/vp9" = false := by codec_lit
theorem isCodec_av1_av1 : isCodec "video/AV1" "video/av1" = true := by codec_lit
theorem isCodec_h264_vp8 : isCodec "video/H264" "video/vp8" = false := by codec_lit
theorem isCodec_h264_vp9 : isCodec "video/H264" "video/vp9" = false := by codec_lit
theorem isCodec_h264_av1 : isCodec "video/H264" "video/av1" = false := by codec_lit
theorem isCodec_h264_h264 : isCodec "video/H264" "video/h264" = true := by codec_lit

/-! ### checked index -/

theorem byteAt_eq_ok {b : Bytes} {i x : Nat} : byteAt b i = .ok x ↔ b[i]? = some x := by
  unfold byteAt
  cases h : b[i]? <;> simp [pure, Except.pure, throw, throwThe, MonadExceptOf.throw]

theorem byteAt_of_lt {b : Bytes} {i : Nat} (h : i < b.length) : byteAt b i = .ok b[i] := by
  rw [byteAt_eq_ok]; exact List.getElem?_eq_getElem h

theorem byteAt_panic {b : Bytes} {i : Nat} : byteAt b i = .error .panic ↔ b.length ≤ i := by
  unfold byteAt
  cases h : b[i]? with
  | none => simpa [throw, throwThe, MonadExceptOf.throw] using h
  | some v =>
    have : i < b.length := by
      apply Classical.byContradiction; intro hn
      have : b[i]? = none := by simp; omega
      simp [this] at h
    simp [pure, Except.pure]; omega

/-! ### postconditions in the `Except Fail` monad -/

/-- `Post r Q`: the computation `r` did not panic (it returned a value or the error `err`),
and a returned value satisfies `Q`. -/
def Post {α : Type} (r : R α) (Q : α → Prop) : Prop :=
  match r with
  | .ok a => Q a
  | .error e => e = .err

theorem Post.noPanic {α} {r : R α} {Q : α → Prop} (h : Post r Q) : r ≠ .error .panic := by
  intro h'; rw [h'] at h; cases h

theorem Post.of_ok {α} {r : R α} {Q : α → Prop} {a : α} (h : Post r Q) (h' : r = .ok a) : Q a := by
  rw [h'] at h; exact h

theorem Post.mono {α} {r : R α} {Q Q' : α → Prop} (h : Post r Q) (hq : ∀ a, Q a → Q' a) : Post r Q' := by
  cases r with
  | ok a => exact hq a h
  | error e => exact h

theorem Post.and {α} {r : R α} {Q Q' : α → Prop} (h : Post r Q) (h' : Post r Q') :
    Post r (fun a => Q a ∧ Q' a) := by
  cases r with
  | ok a => exact ⟨h, h'⟩
  | error e => exact h

theorem post_of_noPanic {α} {r : R α} (h : r ≠ .error .panic) : Post r (fun _ => True) := by
  cases r with
  | ok a => trivial
  | error e => cases e with
    | err => rfl
    | panic => exact absurd rfl h

theorem post_intro {α} {r : R α} {Q : α → Prop} (hne : r ≠ .error .panic)
    (h : ∀ a, r = .ok a → Q a) : Post r Q := by
  cases r with
  | ok a => exact h a rfl
  | error e => cases e with
    | err => rfl
    | panic => exact absurd rfl hne

@[simp] theorem post_pure {α} {a : α} {Q : α → Prop} : Post (pure a : R α) Q ↔ Q a := Iff.rfl

@[simp] theorem post_ok {α} {a : α} {Q : α → Prop} : Post (.ok a : R α) Q ↔ Q a := Iff.rfl

@[simp] theorem post_throw {α} {e : Fail} {Q : α → Prop} : Post (throw e : R α) Q ↔ e = .err := Iff.rfl

@[simp] theorem post_bind {α β} {x : R α} {f : α → R β} {Q : β → Prop} :
    Post (x >>= f) Q ↔ Post x (fun a => Post (f a) Q) := by
  cases x with
  | ok a => exact Iff.rfl
  | error e => exact Iff.rfl

@[simp] theorem post_ite {α} {c : Prop} [Decidable c] {a b : R α} {Q : α → Prop} :
    Post (if c then a else b) Q ↔ (c → Post a Q) ∧ (¬ c → Post b Q) := by
  by_cases h : c <;> simp [h]

@[simp] theorem post_byteAt {b : Bytes} {i : Nat} {Q : Nat → Prop} :
    Post (byteAt b i) Q ↔ i < b.length ∧ ∀ x, b[i]? = some x → Q x := by
  unfold byteAt
  by_cases h : i < b.length
  · simp [h]
  · simp [h]

/-! ### postconditions for both outcomes -/

/-- `Post2 r Q E`: a returned value satisfies `Q`, an error satisfies `E`. -/
def Post2 {α : Type} (r : R α) (Q : α → Prop) (E : Fail → Prop) : Prop :=
  match r with
  | .ok a => Q a
  | .error e => E e

theorem Post2.of_ok {α} {r : R α} {Q : α → Prop} {E : Fail → Prop} {a : α}
    (h : Post2 r Q E) (h' : r = .ok a) : Q a := by
  rw [h'] at h; exact h

theorem Post2.of_error {α} {r : R α} {Q : α → Prop} {E : Fail → Prop} {e : Fail}
    (h : Post2 r Q E) (h' : r = .error e) : E e := by
  rw [h'] at h; exact h

@[simp] theorem post2_pure {α} {a : α} {Q : α → Prop} {E : Fail → Prop} :
    Post2 (pure a : R α) Q E ↔ Q a := Iff.rfl

@[simp] theorem post2_throw {α} {e : Fail} {Q : α → Prop} {E : Fail → Prop} :
    Post2 (throw e : R α) Q E ↔ E e := Iff.rfl

@[simp] theorem post2_bind {α β} {x : R α} {f : α → R β} {Q : β → Prop} {E : Fail → Prop} :
    Post2 (x >>= f) Q E ↔ Post2 x (fun a => Post2 (f a) Q E) E := by
  cases x with
  | ok a => exact Iff.rfl
  | error e => exact Iff.rfl

@[simp] theorem post2_ite {α} {c : Prop} [Decidable c] {a b : R α} {Q : α → Prop} {E : Fail → Prop} :
    Post2 (if c then a else b) Q E ↔ (c → Post2 a Q E) ∧ (¬ c → Post2 b Q E) := by
  by_cases h : c <;> simp [h]

/-- for a read that is known to be in range from the context; the out-of-range case is left as the
obligation `E .panic` -/
@[simp] theorem post2_byteAt {b : Bytes} {i : Nat} {Q : Nat → Prop} {E : Fail → Prop} :
    Post2 (byteAt b i) Q E ↔ (b.length ≤ i → E .panic) ∧ ∀ x, b[i]? = some x → Q x := by
  unfold byteAt
  by_cases h : i < b.length
  · simp [h, Post2, pure, Except.pure]
    intro _ h'; omega
  · have : b.length ≤ i := by omega
    simp [this, Post2, throw, throwThe, MonadExceptOf.throw]

end Galene.Codecs
