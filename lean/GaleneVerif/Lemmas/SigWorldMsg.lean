import GaleneVerif.Lemmas.SigWorldStep
import GaleneVerif.Props.C11
/-
Client messages (C14 on the concrete model): which effects preserve the invariant
(`applyEffect_inv`), which messages produce only such effects (`handle_covered`), and hence
`handleMsg_inv`.
-/
namespace Galene.Sig

/-- the effects whose application is shown to preserve the invariant (everything except: `join`,
treated separately; `changePerm`/`setOwnData`, the detached announcements (P17); `record`,
`mintToken`, `editToken`, `publish`) -/
def Effect.covered : Effect → Prop
  | .reply m => m.quiet
  | .deliver _ m => m.quiet
  | .broadcast _ m => m.quiet
  | .consumeFresh => True
  | .histAdd _ => True
  | .histClear .. => True
  | .setLocked .. => True
  | .groupData _ => True
  | .kick .. => True
  | .identify _ => True
  | .unrecord => True
  | .subgroups => True
  | .listTokens _ => True
  | .leave => True
  | .request => True
  | .unpublish _ => True
  | .fail _ => True
  | _ => False

theorem foldl_inv {α : Type} (f : World → α → World) (l : List α) (w : World) (hi : WInv w)
    (h : ∀ w a, WInv w → WInv (f w a)) : WInv (l.foldl f w) := by
  induction l generalizing w with
  | nil => exact hi
  | cons a r ih => simp only [List.foldl_cons]; exact ih _ (h w a hi)

theorem privMsg_quiet (k : String) (v : Val) : (privMsg k v).quiet := by simp [OutMsg.quiet, privMsg]

/-- **every covered effect preserves the invariant** -/
theorem applyEffect_inv (w : World) (i : Nat) (e : Effect) (he : e.covered) (hi : WInv w) : WInv (applyEffect w i e) := by
  unfold applyEffect
  simp only []
  cases e with
  | reply m => exact hi.write i m he
  | deliver dest m =>
    simp only []
    split
    · exact hi.write _ m he
    · exact hi
  | broadcast noecho m =>
    simp only []
    split
    · exact hi
    · refine hi.neutral (neutral_foldl _ _ _ (fun w r => ?_))
      cases r <;> simp only []
      · split_ifs
        · exact Neutral.refl _
        · exact neutral_write _ _ _ he
      · exact Neutral.refl _
      · exact Neutral.refl _
  | consumeFresh => exact hi.neutral (neutral_nextR w _)
  | histAdd en => exact hi.neutral (neutral_modGroup w _ _ (fun _ => ⟨rfl, rfl⟩))
  | histClear id uid => exact hi.neutral (neutral_modGroup w _ _ (fun _ => ⟨rfl, rfl⟩))
  | setLocked l msg =>
    simp only []
    have h1 := hi.neutral (neutral_modGroup w ((((w.client? i).getD {}).group).getD "")
      (fun g => { g with locked := if l then some msg else none }) (fun _ => ⟨rfl, rfl⟩))
    split
    · exact h1
    · exact h1.neutral (neutral_foldl _ _ _ (fun w r => neutral_joinedTo w r _ "change" (by decide)))
  | groupData d =>
    simp only []
    have h1 := hi.neutral (neutral_modGroup w ((((w.client? i).getD {}).group).getD "")
      (fun g => { g with data := Dict.merge g.data d }) (fun _ => ⟨rfl, rfl⟩))
    split
    · exact h1
    · exact h1.neutral (neutral_foldl _ _ _ (fun w r => neutral_joinedTo w r _ "change" (by decide)))
  | kick dest id user msg =>
    simp only []
    split
    · exact hi.neutral (neutral_enq _ _ _ rfl)
    · exact (delClient_inv _ _ _ (hi.neutral (neutral_disks w _))).1
    · exact hi
  | identify dest =>
    simp only []
    split
    · exact hi
    · rename_i r _
      cases r with
      | web j => exact (hi.write _ _ (warnMsg_quiet _ _)).write _ _ (privMsg_quiet _ _)
      | mock id => exact hi.write _ _ (privMsg_quiet _ _)
      | disk id => exact hi.write _ _ (privMsg_quiet _ _)
  | unrecord =>
    simp only []
    split
    · exact hi
    · refine foldl_inv _ _ _ hi (fun w r hw => ?_)
      cases r with
      | web j => exact hw
      | mock id => exact hw
      | disk d => exact (delClient_inv _ _ _ (hw.neutral (neutral_disks w _))).1
  | subgroups => exact hi.write _ _ (by simp [OutMsg.quiet])
  | listTokens g => exact hi.write _ _ (privMsg_quiet _ _)
  | leave => exact leaveGroup_inv w i hi
  | request =>
    simp only []
    split
    · exact hi
    · refine hi.neutral (neutral_foldl _ _ _ (fun w r => ?_))
      cases r <;> simp only []
      · split_ifs
        · exact Neutral.refl _
        · exact neutral_enq _ _ _ rfl
      · exact Neutral.refl _
      · exact Neutral.refl _
  | unpublish id => exact hi.neutral (neutral_delUpConn w i id true)
  | fail err => exact finish_inv w i err hi
  | changePerm _ _ => exact he.elim
  | record => exact he.elim
  | mintToken _ _ _ => exact he.elim
  | editToken _ _ _ => exact he.elim
  | setOwnData _ => exact he.elim
  | join _ _ _ => exact he.elim
  | publish _ _ _ => exact he.elim

/-- the client messages of the step language: everything except `offer`, the group actions
`record`/`maketoken`/`edittoken`, and the user actions that change attributes
(`op`, `unop`, `present`, `unpresent`, `shutup`, `unshutup`, `setdata`) -/
def Msg.covered (m : Msg) : Prop :=
  m.type ≠ "offer" ∧
  (m.type = "groupaction" → m.kind ≠ "record" ∧ m.kind ≠ "maketoken" ∧ m.kind ≠ "edittoken") ∧
  (m.type = "useraction" → m.kind ∉ permKinds ∧ m.kind ≠ "setdata")

instance (m : Msg) : Decidable m.covered := by unfold Msg.covered; infer_instance

macro "cov" h:ident : tactic => `(tactic| (
  repeat' (first | split_ifs at $h:ident | split at $h:ident)
  all_goals mem_cases $h:ident
  all_goals (try (simp_all [Effect.covered, OutMsg.quiet, errReply, errMsg, tokErr, emptyId]; done))))

theorem cov_join (c : Conn) (m : Msg) :
    (∀ e ∈ handleJoin c m, e.covered) ∨ (c.group = none ∧ ∃ g cr d, handleJoin c m = [.join g cr d]) := by
  unfold handleJoin
  split_ifs with h1 h2 h3 h4
  · left; intro e he; cov he
  · left; intro e he; cov he
  · left; intro e he; cov he
  · left; intro e he; cov he
  · right
    refine ⟨?_, _, _, _, rfl⟩
    cases hg : c.group with
    | none => rfl
    | some g => simp [hg] at h4

theorem cov_request (c : Conn) (m : Msg) : ∀ e ∈ handleRequest c m, e.covered := by
  intro e he; unfold handleRequest at he; cov he

theorem cov_media (m : Msg) : ∀ e ∈ handleMedia m, e.covered := by
  intro e he; unfold handleMedia at he; cov he

theorem cov_chat (c : Conn) (env : Env) (m : Msg) (hm : m.type = "chat" ∨ m.type = "usermessage") :
    ∀ e ∈ handleChat c env m, e.covered := by
  have hq : ∀ mm : OutMsg, mm.type = m.type → mm.quiet := by
    intro mm hmm
    rcases hm with h | h <;> simp [OutMsg.quiet, hmm, h]
  intro e he
  unfold handleChat at he
  split at he
  · cov he
  · simp only at he
    repeat' (first | split_ifs at he | split at he)
    all_goals mem_cases he
    all_goals first
      | (simp [Effect.covered, OutMsg.quiet, errReply, errMsg]; done)
      | exact hq _ rfl

theorem cov_groupaction (c : Conn) (env : Env) (m : Msg)
    (hm : m.kind ≠ "record" ∧ m.kind ≠ "maketoken" ∧ m.kind ≠ "edittoken") :
    ∀ e ∈ handleGroupAction c env m, e.covered := by
  intro e he
  unfold handleGroupAction at he
  split at he
  · cov he
  · obtain ⟨hm1, hm2, hm3⟩ := hm
    repeat' (first | split_ifs at he | split at he)
    all_goals (try simp only [ne_eq, not_true_eq_false, and_false, if_false] at he)
    all_goals (try split_ifs at he)
    all_goals (try mem_cases he)
    all_goals (try (simp_all [Effect.covered, OutMsg.quiet, errReply, errMsg, tokErr]))

theorem cov_useraction (c : Conn) (env : Env) (m : Msg) (hm : m.kind ∉ permKinds ∧ m.kind ≠ "setdata") :
    ∀ e ∈ handleUserAction c env m, e.covered := by
  intro e he
  unfold handleUserAction at he
  split at he
  · cov he
  · cov he



/-- what a covered client message can make the handler do: covered effects only, or (from a
connection that is in no group) exactly one `join` -/
theorem handle_covered (c : Conn) (env : Env) (m : Msg) (hm : m.covered) :
    (∀ e ∈ handle c env m, e.covered) ∨ (c.group = none ∧ ∃ g cr d, handle c env m = [.join g cr d]) := by
  obtain ⟨hm1, hm2, hm3⟩ := hm
  by_cases hs1 : spoofedSource c m = true
  · left; intro e he; unfold handle at he; rw [if_pos hs1] at he; mem_cases he; trivial
  by_cases hs2 : spoofedUser c m = true
  · left; intro e he; unfold handle at he; rw [if_neg hs1, if_pos hs2] at he; mem_cases he; trivial
  by_cases hj : m.type = "join"
  · have : handle c env m = handleJoin c m := by unfold handle; rw [if_neg hs1, if_neg hs2, if_pos hj]
    rw [this]
    exact cov_join c m
  · left
    intro e he
    unfold handle at he
    rw [if_neg hs1, if_neg hs2, if_neg hj] at he
    by_cases h : m.type = "request"
    · rw [if_pos h] at he; exact cov_request c m e he
    rw [if_neg h] at he; clear h
    by_cases h : m.type = "requestStream"
    · rw [if_pos h] at he; mem_cases he; trivial
    rw [if_neg h, if_neg hm1] at he; clear h
    by_cases h : m.type ∈ mediaTypes
    · rw [if_pos h] at he; exact cov_media m e he
    rw [if_neg h] at he; clear h
    by_cases h : m.type = "chat" ∨ m.type = "usermessage"
    · rw [if_pos h] at he; exact cov_chat c env m h e he
    rw [if_neg h] at he; clear h
    by_cases h : m.type = "groupaction"
    · rw [if_pos h] at he; exact cov_groupaction c env m (hm2 h) e he
    rw [if_neg h] at he; clear h
    by_cases h : m.type = "useraction"
    · rw [if_pos h] at he; exact cov_useraction c env m (hm3 h) e he
    rw [if_neg h] at he; clear h
    by_cases h : m.type = "pong"
    · rw [if_pos h] at he; cases he
    rw [if_neg h] at he; clear h
    by_cases h : m.type = "ping"
    · rw [if_pos h] at he; mem_cases he; simp [Effect.covered, OutMsg.quiet]
    rw [if_neg h] at he; clear h
    mem_cases he; trivial


/-- **handling a covered client message preserves the invariant**, whatever its fields and
whatever the state of the connection -/
theorem handleMsg_inv (w : World) (i : Nat) (m : Msg) (hm : m.covered) (hi : WInv w) : WInv (handleMsg w i m) := by
  unfold handleMsg
  rcases handle_covered (w.conn i) (w.env i) m hm with h | ⟨hg, g, cr, d, heq⟩
  · refine WInv.flush ?_
    have key : ∀ (es : List Effect) (w : World), WInv w → (∀ e ∈ es, e.covered) →
        WInv (es.foldl (fun w e => if w.crashed then w else applyEffect w i e) w) := by
      intro es
      induction es with
      | nil => intro w hw _; exact hw
      | cons e r ih =>
        intro w hw hc
        simp only [List.foldl_cons]
        refine ih _ ?_ (fun e' he' => hc e' (List.mem_cons_of_mem _ he'))
        split_ifs
        · exact hw
        · exact applyEffect_inv w i e (hc e List.mem_cons_self) hw
    exact key _ w hi h
  · rw [heq]
    simp only [List.foldl_cons, List.foldl_nil, hi.ok, Bool.false_eq_true, if_false]
    refine WInv.flush ?_
    show WInv (joinGroup w i g cr d)
    apply joinGroup_inv w i g cr d hi
    intro g' hm'
    obtain ⟨c, hc, hcg⟩ := hi.memb g' i hm'
    have : (w.conn i).group = c.group := by simp [World.conn, World.client?, hc]
    rw [this, hcg] at hg
    cases hg

end Galene.Sig
