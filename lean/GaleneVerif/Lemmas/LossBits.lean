import GaleneVerif.Model.LossStats
/-
Bit-level facts about the uint32 helpers of the loss-accounting model:
`tz32` (trailing zeros), `not32`, `shr32`, `bit32`, all phrased with `Nat.testBit`.
-/
namespace Galene.Lemmas.LossBits
open Galene.Loss

theorem tzAux_spec (fuel x acc : Nat) :
    acc ≤ tzAux fuel x acc ∧ tzAux fuel x acc ≤ acc + fuel ∧
    (∀ j, j < tzAux fuel x acc - acc → x.testBit j = false) ∧
    (tzAux fuel x acc < acc + fuel → x.testBit (tzAux fuel x acc - acc) = true) := by
  induction fuel generalizing x acc with
  | zero => simp [tzAux]
  | succ n ih =>
    simp only [tzAux]
    split
    · rename_i h
      refine ⟨Nat.le_refl _, by omega, by intro j hj; omega, ?_⟩
      intro _
      simp [Nat.sub_self, Nat.testBit_zero, h]
    · rename_i h
      obtain ⟨i1, i2, i3, i4⟩ := ih (x / 2) (acc + 1)
      refine ⟨by omega, by omega, ?_, ?_⟩
      · intro j hj
        cases j with
        | zero => simp [Nat.testBit_zero, h]
        | succ j => rw [Nat.testBit_succ]; exact i3 j (by omega)
      · intro hlt
        have := i4 (by omega)
        have e : tzAux n (x / 2) (acc + 1) - acc = (tzAux n (x / 2) (acc + 1) - (acc + 1)) + 1 := by omega
        rw [e, Nat.testBit_succ]; exact this

/-- `tz32 x = k`: bits below `k` are clear, and either bit `k` is set or `k = 32`. -/
theorem tz32_spec (x : Nat) :
    tz32 x ≤ 32 ∧ (∀ j, j < tz32 x → x.testBit j = false) ∧ (tz32 x < 32 → x.testBit (tz32 x) = true) := by
  obtain ⟨_, h2, h3, h4⟩ := tzAux_spec 32 x 0
  unfold tz32
  exact ⟨by omega, fun j hj => h3 j (by omega), fun h => by have := h4 (by omega); simpa using this⟩

theorem tz32_odd (x : Nat) (h : x % 2 = 1) : tz32 x = 0 := by
  unfold tz32 tzAux; simp [h]

/-- a non-zero value below 2^32 has fewer than 32 trailing zeros -/
theorem tz32_lt (x : Nat) (hx : x < 4294967296) (h0 : x ≠ 0) : tz32 x < 32 := by
  obtain ⟨h1, h2, _⟩ := tz32_spec x
  apply Decidable.by_contra
  intro hn
  have h32 : tz32 x = 32 := by omega
  apply h0
  apply Nat.eq_of_testBit_eq
  intro i
  rw [Nat.zero_testBit]
  by_cases hi : i < 32
  · exact h2 i (by omega)
  · apply Nat.testBit_lt_two_pow
    calc x < 2 ^ 32 := hx
      _ ≤ 2 ^ i := Nat.pow_le_pow_right (by decide) (by omega)

theorem not32_testBit (x i : Nat) : (not32 x).testBit i = (decide (i < 32) && !x.testBit i) := by
  have e : not32 x = 2 ^ 32 - (x % 2 ^ 32 + 1) := by unfold not32; omega
  rw [e, Nat.testBit_two_pow_sub_succ (Nat.mod_lt _ (by decide)), Nat.testBit_mod_two_pow]
  by_cases hi : i < 32 <;> simp [hi]

theorem not32_lt (x : Nat) : not32 x < 4294967296 := by unfold not32; omega

theorem shr32_testBit (x k i : Nat) : (shr32 x k).testBit i = (decide (k < 32) && x.testBit (i + k)) := by
  unfold shr32
  split
  · rename_i h; simp [h, Nat.testBit_div_two_pow]
  · rename_i h; simp [h]

theorem testBit_ge32 (x i : Nat) (hx : x < 4294967296) (hi : 32 ≤ i) : x.testBit i = false := by
  apply Nat.testBit_lt_two_pow
  calc x < 2 ^ 32 := hx
    _ ≤ 2 ^ i := Nat.pow_le_pow_right (by decide) hi

/-- on 32-bit values the Go shift agrees with the mathematical one for every shift count -/
theorem shr32_testBit' (x k i : Nat) (hx : x < 4294967296) : (shr32 x k).testBit i = x.testBit (i + k) := by
  rw [shr32_testBit]
  by_cases h : k < 32
  · simp [h]
  · simp [h]; exact testBit_ge32 x (i + k) hx (by omega)

theorem shr32_lt (x k : Nat) (hx : x < 4294967296) : shr32 x k < 4294967296 := by
  unfold shr32
  split
  · exact Nat.lt_of_le_of_lt (Nat.div_le_self _ _) hx
  · omega

theorem bit32_testBit (k i : Nat) : (bit32 k).testBit i = (decide (k < 32) && decide (k = i)) := by
  unfold bit32
  split
  · rename_i h; simp [h, Nat.testBit_two_pow]
  · rename_i h; simp [h]

theorem bit32_lt (k : Nat) : bit32 k < 4294967296 := by
  unfold bit32
  split
  · rename_i h
    calc 2 ^ k < 2 ^ 32 := Nat.pow_lt_pow_right (by decide) h
      _ = 4294967296 := by decide
  · omega

theorem or_bit32_lt (x k : Nat) (hx : x < 4294967296) : x ||| bit32 k < 4294967296 :=
  Nat.or_lt_two_pow (n := 32) hx (bit32_lt k)

end Galene.Lemmas.LossBits
