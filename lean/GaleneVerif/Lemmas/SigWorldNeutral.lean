import GaleneVerif.Lemmas.SigWorldBasic
/-
`Neutral w w'`: `w'` is `w` after operations that change no membership, no attribute of a
member, and that add only quiet actions to the queues and quiet messages to the log; the heap may
have grown.  Most of Model/Signalling.lean is neutral (replies, chat, locking, autoLockKick, the
permission lookup of a join, closing streams, …); the invariant `WInv` is preserved by any neutral
change (`WInv.neutral`).
-/
namespace Galene.Sig

/-! ### reading the world after a primitive update -/

theorem group?_modGroup (w : World) (n n' : String) (f : Group → Group) (hf : ∀ g, (f g).name = g.name) :
    (w.modGroup n f).group? n' = if n' = n then (w.group? n').map f else w.group? n' := by
  unfold World.group? World.modGroup
  simp only []
  rw [List.find?_map]
  have hcomp : ((fun g : Group => decide (g.name = n')) ∘ fun g => if g.name = n then f g else g) =
      fun g : Group => decide (g.name = n') := by
    funext g
    simp only [Function.comp]
    split_ifs <;> simp [hf]
  rw [hcomp]
  cases hfd : List.find? (fun g : Group => decide (g.name = n')) w.groups with
  | none => simp
  | some g =>
    have hn : g.name = n' := by simpa using List.find?_some hfd
    by_cases h : n' = n
    · simp [h, hn.trans h]
    · have : ¬ (g.name = n) := fun e => h (hn.symm.trans e)
      simp [h, this]

theorem mem_modGroup (w : World) (n n' : String) (f : Group → Group) (hf : ∀ g, (f g).name = g.name) :
    mem (w.modGroup n f) n' =
      if n' = n then ((w.group? n').map fun g => (f g).members).getD [] else mem w n' := by
  unfold mem
  rw [group?_modGroup w n n' f hf]
  split_ifs
  · cases w.group? n' <;> rfl
  · rfl

theorem isSome_modGroup (w : World) (n n' : String) (f : Group → Group) (hf : ∀ g, (f g).name = g.name) :
    ((w.modGroup n f).group? n').isSome = (w.group? n').isSome := by
  rw [group?_modGroup w n n' f hf]
  split_ifs <;> simp

theorem modClient_get (w : World) (i j : Nat) (f : Client → Client) :
    (w.modClient i f).clients[j]? = if i = j then (w.clients[j]?).map f else w.clients[j]? := by
  unfold World.modClient
  simp only [List.getElem?_modify]
  split_ifs with h
  · cases w.clients[j]? <;> simp
  · cases w.clients[j]? <;> simp

theorem modify_get {l : List Client} (i j : Nat) (f : Client → Client) :
    (l.modify i f)[j]? = if i = j then (l[j]?).map f else l[j]? := by
  simp only [List.getElem?_modify]
  split_ifs with h
  · cases l[j]? <;> simp
  · cases l[j]? <;> simp

theorem mem_of_groups {w w' : World} (h : w'.groups = w.groups) (n : String) : mem w' n = mem w n := by
  unfold mem World.group?; rw [h]

theorem group?_of_groups {w w' : World} (h : w'.groups = w.groups) (n : String) : w'.group? n = w.group? n := by
  unfold World.group?; rw [h]

@[simp] theorem written_write (w : World) (i j : Nat) (m : OutMsg) :
    written (w.write i m) j = if i = j then written w j ++ [m] else written w j := by
  unfold written World.write
  simp only [List.filterMap_append, List.filterMap_cons, List.filterMap_nil, LogItem.to]
  split_ifs <;> simp

@[simp] theorem written_enq (w : World) (i j : Nat) (a : Action) : written (w.enq i a) j = written w j := by
  unfold written World.enq
  simp [List.filterMap_append, World.modClient, LogItem.to]

/-! ### the relation -/

structure Neutral (w w' : World) : Prop where
  fix : w'.fix = w.fix
  crashed : w'.crashed = w.crashed
  tokens : w'.tokens = w.tokens
  heap : ∃ ext, w'.heap = w.heap ++ ext
  mem : ∀ n, mem w' n = mem w n
  grp : ∀ n, (w.group? n).isSome = true → (w'.group? n).isSome = true
  len : w'.clients.length = w.clients.length
  /-- clients: same id; members keep group and attributes; queues grow by quiet actions -/
  cl : ∀ (i : Nat) (c : Client), w.clients[i]? = some c → ∃ c', w'.clients[i]? = some c' ∧ c'.id = c.id ∧
        ((∃ g, Ref.web i ∈ Galene.Sig.mem w g) →
          c'.group = c.group ∧ c'.username = c.username ∧ c'.perms = c.perms ∧ c'.data = c.data) ∧
        ∃ ext, c'.queue = c.queue ++ ext ∧ ∀ a ∈ ext, a.quiet = true
  log : ∃ ext, w'.log = w.log ++ ext ∧ ∀ x ∈ ext, x.quiet
  dfr : (∀ e ∈ w.deferred, e.2.quiet = true) → ∀ e ∈ w'.deferred, e.2.quiet = true

theorem Neutral.refl (w : World) : Neutral w w where
  fix := rfl
  crashed := rfl
  tokens := rfl
  heap := ⟨[], by simp⟩
  mem := fun _ => rfl
  grp := fun _ h => h
  len := rfl
  cl := fun i c hc => ⟨c, hc, rfl, fun _ => ⟨rfl, rfl, rfl, rfl⟩, [], by simp, by simp⟩
  log := ⟨[], by simp, by simp⟩
  dfr := fun h => h

theorem Neutral.trans {w w1 w2 : World} (h1 : Neutral w w1) (h2 : Neutral w1 w2) : Neutral w w2 where
  fix := h2.fix.trans h1.fix
  crashed := h2.crashed.trans h1.crashed
  tokens := h2.tokens.trans h1.tokens
  heap := by
    obtain ⟨e1, h1'⟩ := h1.heap
    obtain ⟨e2, h2'⟩ := h2.heap
    exact ⟨e1 ++ e2, by rw [h2', h1', List.append_assoc]⟩
  mem := fun n => (h2.mem n).trans (h1.mem n)
  grp := fun n hn => h2.grp n (h1.grp n hn)
  len := h2.len.trans h1.len
  cl := by
    intro i c hc
    obtain ⟨c1, hc1, hid1, hat1, ext1, hq1, hx1⟩ := h1.cl i c hc
    obtain ⟨c2, hc2, hid2, hat2, ext2, hq2, hx2⟩ := h2.cl i c1 hc1
    refine ⟨c2, hc2, hid2.trans hid1, ?_, ext1 ++ ext2, by rw [hq2, hq1, List.append_assoc], ?_⟩
    · intro hm
      have hm1 : ∃ g, Ref.web i ∈ Galene.Sig.mem w1 g := by
        obtain ⟨g, hg⟩ := hm
        exact ⟨g, by rw [h1.mem]; exact hg⟩
      obtain ⟨a1, a2, a3, a4⟩ := hat1 hm
      obtain ⟨b1, b2, b3, b4⟩ := hat2 hm1
      exact ⟨b1.trans a1, b2.trans a2, b3.trans a3, b4.trans a4⟩
    · intro a ha
      rcases List.mem_append.mp ha with h | h
      · exact hx1 a h
      · exact hx2 a h
  log := by
    obtain ⟨e1, h1', q1⟩ := h1.log
    obtain ⟨e2, h2', q2⟩ := h2.log
    refine ⟨e1 ++ e2, by rw [h2', h1', List.append_assoc], ?_⟩
    intro x hx
    rcases List.mem_append.mp hx with h | h
    · exact q1 x h
    · exact q2 x h
  dfr := fun h => h2.dfr (h1.dfr h)

/-- groups and clients untouched -/
theorem Neutral.of_frame {w w' : World} (hfix : w'.fix = w.fix) (hcr : w'.crashed = w.crashed)
    (htok : w'.tokens = w.tokens) (hheap : ∃ ext, w'.heap = w.heap ++ ext) (hg : w'.groups = w.groups)
    (hc : w'.clients = w.clients) (hlog : ∃ ext, w'.log = w.log ++ ext ∧ ∀ x ∈ ext, x.quiet)
    (hd : (∀ e ∈ w.deferred, e.2.quiet = true) → ∀ e ∈ w'.deferred, e.2.quiet = true) : Neutral w w' where
  fix := hfix
  crashed := hcr
  tokens := htok
  heap := hheap
  mem := mem_of_groups hg
  grp := fun n h => by rw [group?_of_groups hg]; exact h
  len := by rw [hc]
  cl := fun i c h => ⟨c, by rw [hc]; exact h, rfl, fun _ => ⟨rfl, rfl, rfl, rfl⟩, [], by simp, by simp⟩
  log := hlog
  dfr := hd

/-- one client modified -/
theorem Neutral.of_modify {w w' : World} (i : Nat) (f : Client → Client) (hfix : w'.fix = w.fix)
    (hcr : w'.crashed = w.crashed) (htok : w'.tokens = w.tokens) (hheap : ∃ ext, w'.heap = w.heap ++ ext)
    (hg : w'.groups = w.groups) (hc : w'.clients = w.clients.modify i f)
    (hf : ∀ c, w.clients[i]? = some c → (f c).id = c.id ∧
      ((∃ g, Ref.web i ∈ Galene.Sig.mem w g) →
        (f c).group = c.group ∧ (f c).username = c.username ∧ (f c).perms = c.perms ∧ (f c).data = c.data) ∧
      ∃ ext, (f c).queue = c.queue ++ ext ∧ ∀ a ∈ ext, a.quiet = true)
    (hlog : ∃ ext, w'.log = w.log ++ ext ∧ ∀ x ∈ ext, x.quiet)
    (hd : (∀ e ∈ w.deferred, e.2.quiet = true) → ∀ e ∈ w'.deferred, e.2.quiet = true) : Neutral w w' where
  fix := hfix
  crashed := hcr
  tokens := htok
  heap := hheap
  mem := mem_of_groups hg
  grp := fun n h => by rw [group?_of_groups hg]; exact h
  len := by rw [hc, List.length_modify]
  cl := by
    intro j c hj
    rw [hc, modify_get]
    by_cases hij : i = j
    · subst hij
      rw [if_pos rfl, hj]
      exact ⟨f c, rfl, hf c hj⟩
    · rw [if_neg hij]
      exact ⟨c, hj, rfl, fun _ => ⟨rfl, rfl, rfl, rfl⟩, [], by simp, by simp⟩
  log := hlog
  dfr := hd

/-! ### primitives -/

theorem neutral_write (w : World) (i : Nat) (m : OutMsg) (hm : m.quiet) : Neutral w (w.write i m) :=
  Neutral.of_frame rfl rfl rfl ⟨[], by simp [World.write]⟩ rfl rfl
    ⟨[.write i m], rfl, by intro x hx; simp only [List.mem_singleton] at hx; subst hx; exact hm⟩ (fun h => h)

theorem neutral_enq (w : World) (i : Nat) (a : Action) (ha : a.quiet = true) : Neutral w (w.enq i a) :=
  Neutral.of_modify i (fun c => { c with queue := c.queue ++ [a] }) rfl rfl rfl ⟨[], by simp [World.enq, World.modClient]⟩
    rfl rfl
    (fun c _ => ⟨rfl, fun _ => ⟨rfl, rfl, rfl, rfl⟩, [a], rfl, by simp [ha]⟩)
    ⟨[.enq i a _], rfl,
      by intro x hx; simp only [List.mem_singleton] at hx; subst hx; trivial⟩ (fun h => h)

/-- a change of a client that touches neither id, group, attributes nor queue -/
theorem neutral_modClient (w : World) (i : Nat) (f : Client → Client)
    (hf : ∀ c, (f c).id = c.id ∧ (f c).group = c.group ∧ (f c).username = c.username ∧ (f c).perms = c.perms ∧
      (f c).data = c.data ∧ (f c).queue = c.queue) : Neutral w (w.modClient i f) :=
  Neutral.of_modify i f rfl rfl rfl ⟨[], by simp [World.modClient]⟩ rfl rfl
    (fun c _ => ⟨(hf c).1, fun _ => ⟨(hf c).2.1, (hf c).2.2.1, (hf c).2.2.2.1, (hf c).2.2.2.2.1⟩, [],
      by simp [(hf c).2.2.2.2.2], by simp⟩)
    ⟨[], by simp [World.modClient], by simp⟩ (fun h => h)

/-- any change of a client that is in no group, as long as id and queue stay -/
theorem neutral_modClient_nm (w : World) (i : Nat) (f : Client → Client) (hnm : ∀ g, Ref.web i ∉ mem w g)
    (hf : ∀ c, (f c).id = c.id ∧ (f c).queue = c.queue) : Neutral w (w.modClient i f) :=
  Neutral.of_modify i f rfl rfl rfl ⟨[], by simp [World.modClient]⟩ rfl rfl
    (fun c _ => ⟨(hf c).1, fun ⟨g, hg⟩ => absurd hg (hnm g), [], by simp [(hf c).2], by simp⟩)
    ⟨[], by simp [World.modClient], by simp⟩ (fun h => h)

theorem neutral_modGroup (w : World) (n : String) (f : Group → Group)
    (hf : ∀ g, (f g).name = g.name ∧ (f g).members = g.members) : Neutral w (w.modGroup n f) where
  fix := rfl
  crashed := rfl
  tokens := rfl
  heap := ⟨[], by simp [World.modGroup]⟩
  mem := by
    intro n'
    rw [mem_modGroup w n n' f (fun g => (hf g).1)]
    split_ifs
    · unfold Galene.Sig.mem
      cases w.group? n' <;> simp [(hf _).2]
    · rfl
  grp := fun n' h => by rw [isSome_modGroup w n n' f (fun g => (hf g).1)]; exact h
  len := rfl
  cl := fun i c h => ⟨c, h, rfl, fun _ => ⟨rfl, rfl, rfl, rfl⟩, [], by simp, by simp⟩
  log := ⟨[], by simp [World.modGroup], by simp⟩
  dfr := fun h => h

/-- a new group without members -/
theorem neutral_newGroup (w : World) (g : Group) (hm : g.members = []) :
    Neutral w { w with groups := w.groups ++ [g] } where
  fix := rfl
  crashed := rfl
  tokens := rfl
  heap := ⟨[], by simp⟩
  mem := by
    intro n
    unfold Galene.Sig.mem World.group?
    simp only [List.find?_append]
    cases hfd : List.find? (fun g : Group => decide (g.name = n)) w.groups with
    | some g0 => simp
    | none =>
      by_cases hn : g.name = n
      · simp [hn, hm]
      · simp [hn]
  grp := by
    intro n h
    unfold World.group? at h ⊢
    simp only [List.find?_append]
    cases hfd : List.find? (fun g : Group => decide (g.name = n)) w.groups with
    | some g0 => simp
    | none => rw [hfd] at h; simp at h
  len := rfl
  cl := fun i c h => ⟨c, h, rfl, fun _ => ⟨rfl, rfl, rfl, rfl⟩, [], by simp, by simp⟩
  log := ⟨[], by simp, by simp⟩
  dfr := fun h => h

theorem neutral_heap (w : World) (ext : Heap) : Neutral w { w with heap := w.heap ++ ext } :=
  Neutral.of_frame rfl rfl rfl ⟨ext, rfl⟩ rfl rfl ⟨[], by simp, by simp⟩ (fun h => h)

theorem neutral_defer (w : World) (i : Nat) (a : Action) (ha : a.quiet = true) :
    Neutral w { w with deferred := w.deferred ++ [(i, a)] } :=
  Neutral.of_frame rfl rfl rfl ⟨[], by simp⟩ rfl rfl ⟨[], by simp, by simp⟩
    (fun h e he => by
      rcases List.mem_append.mp he with h' | h'
      · exact h e h'
      · simp only [List.mem_singleton] at h'; subst h'; exact ha)

theorem neutral_nextR (w : World) (n : Nat) : Neutral w { w with nextR := n } :=
  Neutral.of_frame rfl rfl rfl ⟨[], by simp⟩ rfl rfl ⟨[], by simp, by simp⟩ (fun h => h)

theorem neutral_disks (w : World) (d : List Disk) : Neutral w { w with disks := d } :=
  Neutral.of_frame rfl rfl rfl ⟨[], by simp⟩ rfl rfl ⟨[], by simp, by simp⟩ (fun h => h)

theorem neutral_undefer (w : World) : Neutral w { w with deferred := [] } :=
  Neutral.of_frame rfl rfl rfl ⟨[], by simp⟩ rfl rfl ⟨[], by simp, by simp⟩ (fun _ e he => by cases he)

theorem neutral_foldl {α : Type} (f : World → α → World) (l : List α) (w : World)
    (h : ∀ w a, Neutral w (f w a)) : Neutral w (l.foldl f w) := by
  induction l generalizing w with
  | nil => exact Neutral.refl w
  | cons a r ih => simp only [List.foldl_cons]; exact (h w a).trans (ih _)

/-! ### derived operations -/

theorem neutral_joinedTo (w : World) (r : Ref) (g k : String) (hk : k ≠ "join") : Neutral w (w.joinedTo r g k) := by
  cases r <;> simp only [World.joinedTo]
  · exact neutral_enq _ _ _ (by simp [Action.quiet, hk])
  · exact Neutral.refl _
  · exact Neutral.refl _

theorem neutral_flush (w : World) (hd : ∀ e ∈ w.deferred, e.2.quiet = true) : Neutral w w.flush := by
  unfold World.flush
  have key : ∀ (l : List (Nat × Action)) (w : World), (∀ e ∈ l, e.2.quiet = true) →
      Neutral w (l.foldl (fun w e => w.enq e.1 e.2) w) := by
    intro l
    induction l with
    | nil => intro w _; exact Neutral.refl w
    | cons e r ih =>
      intro w h
      simp only [List.foldl_cons]
      exact (neutral_enq w e.1 e.2 (h e List.mem_cons_self)).trans (ih _ (fun e' he' => h e' (List.mem_cons_of_mem _ he')))
  exact (key w.deferred w hd).trans (neutral_undefer _)

theorem neutral_autoLockKick (w : World) (gn : String) : Neutral w (autoLockKick w gn) := by
  unfold autoLockKick
  split
  · exact Neutral.refl _
  · rename_i g hg
    have hlock : ∀ w : World, Neutral w (g.members.foldl (fun w r => w.joinedTo r gn "change")
        (w.modGroup gn (fun g => { g with locked := some "this group is locked" }))) := by
      intro w
      refine Neutral.trans ?_ (neutral_foldl _ _ _ (fun w r => neutral_joinedTo w r gn "change" (by decide)))
      exact neutral_modGroup w gn _ (fun g => ⟨rfl, rfl⟩)
    have hkick : ∀ w : World, Neutral w (g.members.foldl (fun w r => match r with
          | .web i => { w with deferred := w.deferred ++ [(i, .kick "" none "there are no operators in this group")] }
          | _ => w) w) := by
      intro w
      refine neutral_foldl _ _ _ (fun w r => ?_)
      cases r
      · exact neutral_defer w _ _ rfl
      · exact Neutral.refl _
      · exact Neutral.refl _
    split_ifs
    all_goals first
      | exact Neutral.refl _
      | exact (hlock w).trans (hkick _)
      | exact hlock w
      | exact hkick w

theorem neutral_addGroup (w : World) (n : String) : Neutral w (addGroup w n).1 := by
  unfold addGroup
  split_ifs
  · exact Neutral.refl _
  · split
    · exact neutral_autoLockKick w n
    · split
      · exact Neutral.refl _
      · exact (neutral_newGroup w _ rfl).trans (neutral_autoLockKick _ n)

theorem alloc_spec (h : Heap) (l : List String) :
    (∃ ext, (h.alloc l).1 = h ++ ext) ∧ InR (h.alloc l).1 (h.alloc l).2 := by
  unfold Heap.alloc
  split_ifs
  · exact ⟨⟨[], by simp⟩, InR_nil _⟩
  · exact ⟨⟨[l], rfl⟩, Or.inr (by simp)⟩

theorem allocCap_spec (h : Heap) (l : List String) (c : Nat) :
    (∃ ext, (h.allocCap l c).1 = h ++ ext) ∧ InR (h.allocCap l c).1 (h.allocCap l c).2 := by
  unfold Heap.allocCap
  exact ⟨⟨_, rfl⟩, Or.inr (by simp)⟩

theorem neutral_setHeap (w : World) (h' : Heap) (hh : ∃ ext, h' = w.heap ++ ext) : Neutral w { w with heap := h' } := by
  obtain ⟨ext, rfl⟩ := hh
  exact neutral_heap w ext

theorem specPerms_spec (w : World) (g : Group) (u : String) (p : PermSpec) :
    Neutral w (specPerms w g u p).1 ∧ InR (specPerms w g u p).1.heap (specPerms w g u p).2 := by
  unfold specPerms
  split
  · rename_i l
    exact ⟨neutral_setHeap w _ (alloc_spec w.heap l).1, (alloc_spec w.heap l).2⟩
  · simp only []
    split_ifs
    all_goals first
      | exact ⟨Neutral.refl _, InR_nil _⟩
      | exact ⟨neutral_setHeap w _ (allocCap_spec w.heap _ _).1, (allocCap_spec w.heap _ _).2⟩

theorem getPermission_spec (w : World) (g : Group) (cr : Creds) (ht : ∀ t ∈ w.tokens, InR w.heap t.perms)
    (w' : World) (r : Except JoinErr (String × Slice)) (hgp : getPermission w g cr = (w', r)) :
    Neutral w w' ∧ ∀ u s, r = .ok (u, s) → InR w'.heap s := by
  unfold getPermission at hgp
  simp only [] at hgp
  have hfind : ∀ t, List.find? (fun t : Token => decide (t.id = cr.token)) w.tokens = some t → InR w.heap t.perms :=
    fun t h => ht t (List.mem_of_find?_eq_some h)
  repeat' (first | split_ifs at hgp | split at hgp)
  all_goals (simp only [Prod.mk.injEq] at hgp; obtain ⟨rfl, rfl⟩ := hgp)
  all_goals refine ⟨?_, ?_⟩
  all_goals first
    | exact Neutral.refl _
    | exact neutral_setHeap w _ (alloc_spec _ _).1
    | exact (specPerms_spec _ _ _ _).1
    | (intro u s h; cases h; done)
    | (intro u s h
       simp only [Except.ok.injEq, Prod.mk.injEq] at h
       obtain ⟨_, rfl⟩ := h
       first
         | exact (alloc_spec _ _).2
         | exact (specPerms_spec _ _ _ _).2
         | (apply hfind; assumption))

theorem joinFailMsg_quiet (g u : String) (e : JoinErr) : (joinFailMsg g u e).quiet := by
  cases e <;> simp [OutMsg.quiet, joinFailMsg]

theorem neutral_joinFail (w : World) (i : Nat) (g : String) (e : JoinErr) : Neutral w (joinFail w i g e) :=
  neutral_write w i _ (joinFailMsg_quiet _ _ _)

theorem neutral_delUpConn (w : World) (i : Nat) (id : String) (push : Bool) : Neutral w (delUpConn w i id push).1 := by
  unfold delUpConn
  split
  · exact Neutral.refl _
  · split
    · exact Neutral.refl _
    · simp only []
      have h0 : Neutral w (w.modClient i fun c => { c with up := c.up.filter fun x => x.1 ≠ id }) :=
        neutral_modClient w i _ (fun c => ⟨rfl, rfl, rfl, rfl, rfl, rfl⟩)
      split
      · exact h0
      · split
        · exact h0
        · refine h0.trans (neutral_foldl _ _ _ (fun w r => ?_))
          cases r <;> simp only []
          · split_ifs
            · exact Neutral.refl _
            · exact neutral_enq _ _ _ rfl
          · exact Neutral.refl _
          · exact Neutral.refl _

theorem warnMsg_quiet (id t : String) : (warnMsg id t).quiet := by simp [OutMsg.quiet, warnMsg]

theorem errMsg_quiet (id t : String) : (errMsg id t).quiet := by simp [OutMsg.quiet, errMsg]

theorem neutral_wallOps (w : World) (gn t : String) : Neutral w (wallOps w gn t) := by
  unfold wallOps
  split
  · exact Neutral.refl _
  · refine neutral_foldl _ _ _ (fun w r => ?_)
    cases r <;> simp only []
    · split_ifs
      · exact neutral_write _ _ _ (warnMsg_quiet _ _)
      · exact Neutral.refl _
    · exact Neutral.refl _
    · exact Neutral.refl _

/-! ### the invariant is preserved by neutral changes -/

theorem written_of_log_ext {w w' : World} (lx : List LogItem) (hl : w'.log = w.log ++ lx) (hq : ∀ x ∈ lx, x.quiet)
    (i : Nat) : ∃ mx, written w' i = written w i ++ mx ∧ ∀ m ∈ mx, m.quiet := by
  refine ⟨lx.filterMap (LogItem.to i), ?_, ?_⟩
  · unfold written; rw [hl, List.filterMap_append]
  · intro m hm
    obtain ⟨x, hx, hxm⟩ := List.mem_filterMap.mp hm
    cases x with
    | write j m' =>
      simp only [LogItem.to] at hxm
      split_ifs at hxm
      cases hxm
      exact hq _ hx
    | enq j a r => simp [LogItem.to] at hxm

/-- the list a client is heading for, after its queue and the log have been extended -/
theorem pview_ext {w w' : World} {i : Nat} {c c' : Client} (g : String) (hc : w.clients[i]? = some c)
    (hc' : w'.clients[i]? = some c') (ext : List Action) (hq : c'.queue = c.queue ++ ext)
    (hx : Heap) (hh : w'.heap = w.heap ++ hx) (hal : ∀ a ∈ c.queue, a.aliasOK w.heap)
    (lx : List LogItem) (hl : w'.log = w.log ++ lx) (hlq : ∀ x ∈ lx, x.quiet) :
    pview w' i g = ext.foldl (pend w'.heap g) (pview w i g) := by
  obtain ⟨mx, hw, hmq⟩ := written_of_log_ext lx hl hlq i
  unfold pview
  rw [hc, hc']
  simp only []
  rw [hq, List.foldl_append, hw, viewOf_append, foldl_viewStep_quiet g mx _ hmq, hh, foldl_pend_append _ hal]

theorem refId_web (w : World) (i : Nat) (c : Client) (h : w.clients[i]? = some c) : w.refId (.web i) = c.id := by
  simp [World.refId, World.client?, h]

theorem attrOf_web (w : World) (i : Nat) (c : Client) (h : w.clients[i]? = some c) :
    attrOf w (.web i) = ⟨some c.username, w.heap.get c.perms, c.data⟩ := by
  simp [attrOf, World.refUsername, World.refPerms, World.permsOf, World.refData, World.client?, h]

/-- ids and attributes of members do not change -/
theorem neutral_ref_eq {w w' : World} (h : Neutral w w') (hi : WStruct w) {g : String} {r : Ref} (hr : r ∈ mem w g) :
    w'.refId r = w.refId r ∧ attrOf w' r = attrOf w r := by
  cases r with
  | web i =>
    obtain ⟨c, hc, _⟩ := hi.memb g i hr
    obtain ⟨c', hc', hid, hat, _⟩ := h.cl i c hc
    obtain ⟨_, a2, a3, a4⟩ := hat ⟨g, hr⟩
    obtain ⟨ext, hext⟩ := h.heap
    rw [refId_web w i c hc, refId_web w' i c' hc', attrOf_web w i c hc, attrOf_web w' i c' hc', hid, a2, a3, a4, hext,
      InR.get_append (hi.permsR g i c hr hc)]
    exact ⟨rfl, rfl⟩
  | mock id => exact ⟨rfl, rfl⟩
  | disk id => exact ⟨rfl, rfl⟩

theorem truth_congr {w w' : World} {g : String} (hm : mem w' g = mem w g)
    (hr : ∀ r ∈ mem w g, w'.refId r = w.refId r ∧ attrOf w' r = attrOf w r) : truth w' g = truth w g := by
  unfold truth
  rw [hm]
  congr 1
  apply List.map_congr_left
  intro r hr'
  rw [(hr r hr').1, (hr r hr').2]

theorem WStruct.neutral {w w' : World} (hi : WStruct w) (h : Neutral w w') : WStruct w' where
  p12 := by rw [h.fix]; exact hi.p12
  p18 := by rw [h.fix]; exact hi.p18
  ok := by rw [h.crashed]; exact hi.ok
  memb := by
    intro g i hm
    rw [h.mem] at hm
    obtain ⟨c, hc, hg⟩ := hi.memb g i hm
    obtain ⟨c', hc', _, hat, _⟩ := h.cl i c hc
    exact ⟨c', hc', by rw [(hat ⟨g, hm⟩).1]; exact hg⟩
  ids := by
    intro g
    rw [h.mem]
    have : (mem w g).map w'.refId = (mem w g).map w.refId :=
      List.map_congr_left (fun r hr => (neutral_ref_eq h hi hr).1)
    rw [this]
    exact hi.ids g
  tame := by
    intro i c' hc' a ha
    have hlt : i < w.clients.length := by
      rw [← h.len]
      exact (List.getElem?_eq_some_iff.mp hc').1
    obtain ⟨c, hc⟩ : ∃ c, w.clients[i]? = some c := ⟨w.clients[i], List.getElem?_eq_getElem hlt⟩
    obtain ⟨c'', hc'', _, _, ext, hq, hx⟩ := h.cl i c hc
    rw [hc'] at hc''
    cases hc''
    obtain ⟨hext, hh⟩ := h.heap
    rw [hq] at ha
    rcases List.mem_append.mp ha with ha | ha
    · exact ⟨(hi.tame i c hc a ha).1, by rw [hh]; exact aliasOK_append (hi.tame i c hc a ha).2 _⟩
    · exact ⟨quiet_tame a (hx a ha), quiet_aliasOK _ a (hx a ha)⟩
  dfr := h.dfr hi.dfr
  permsR := by
    intro g i c' hm hc'
    rw [h.mem] at hm
    obtain ⟨c, hc, hg⟩ := hi.memb g i hm
    obtain ⟨c'', hc'', _, hat, _⟩ := h.cl i c hc
    rw [hc'] at hc''
    cases hc''
    obtain ⟨hext, hh⟩ := h.heap
    rw [(hat ⟨g, hm⟩).2.2.1, hh]
    exact (hi.permsR g i c hm hc).append _
  toksR := by
    intro t ht
    rw [h.tokens] at ht
    obtain ⟨hext, hh⟩ := h.heap
    rw [hh]
    exact (hi.toksR t ht).append _

theorem WInv.neutral {w w' : World} (hi : WInv w) (h : Neutral w w') : WInv w' where
  toWStruct := hi.toWStruct.neutral h
  view := by
    intro g i hm
    rw [h.mem] at hm
    obtain ⟨c, hc, hg⟩ := hi.memb g i hm
    obtain ⟨c', hc', _, _, ext, hq, hx⟩ := h.cl i c hc
    obtain ⟨hext, hh⟩ := h.heap
    obtain ⟨lx, hl, hlq⟩ := h.log
    rw [pview_ext g hc hc' ext hq hext hh (fun a ha => (hi.tame i c hc a ha).2) lx hl hlq,
      foldl_pend_quiet _ _ _ _ hx, hi.view g i hm]
    exact (truth_congr (h.mem g) (fun r hr => neutral_ref_eq h hi.toWStruct hr)).symm

end Galene.Sig
