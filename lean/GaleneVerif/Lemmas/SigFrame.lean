import GaleneVerif.Model.Signalling
import Mathlib.Tactic.SplitIfs
/-
Frame lemmas for the world model: which functions of Model/Signalling.lean
leave the `crashed` flag (the image of a Go nil dereference) and the repair
flags alone.  Only two places set `crashed`: the `publish` branch of
`applyEffect` (newUpConn on a nil group) and the `pushClient` branch of
`handleAction` (c.group.Name() on a nil group).
-/
namespace Galene.Sig

/-- the part of the world the crash analysis looks at -/
def World.cf (w : World) : Bool × Fixes := (w.crashed, w.fix)

theorem foldl_cf {α : Type} (f : World → α → World) (l : List α) (w : World)
    (h : ∀ w a, (f w a).cf = w.cf) : (l.foldl f w).cf = w.cf := by
  induction l generalizing w with
  | nil => rfl
  | cons a r ih => simp only [List.foldl_cons]; rw [ih, h]

@[simp] theorem modClient_cf (w : World) (i : Nat) (f : Client → Client) : (w.modClient i f).cf = w.cf := rfl
@[simp] theorem modGroup_cf (w : World) (n : String) (f : Group → Group) : (w.modGroup n f).cf = w.cf := rfl
@[simp] theorem write_cf (w : World) (i : Nat) (m : OutMsg) : (w.write i m).cf = w.cf := rfl
@[simp] theorem enq_cf (w : World) (i : Nat) (a : Action) : (w.enq i a).cf = w.cf := rfl

@[simp] theorem flush_cf (w : World) : w.flush.cf = w.cf := by
  unfold World.flush
  show (List.foldl _ w w.deferred).cf = w.cf
  exact foldl_cf _ _ _ (fun w e => enq_cf w e.1 e.2)

@[simp] theorem pushClientTo_cf (w : World) (r : Ref) (a : Action) : (w.pushClientTo r a).cf = w.cf := by
  cases r <;> simp [World.pushClientTo]

@[simp] theorem joinedTo_cf (w : World) (r : Ref) (g k : String) : (w.joinedTo r g k).cf = w.cf := by
  cases r <;> simp [World.joinedTo]

/-- close a goal `(… w …).cf = w.cf` built from folds, lets and the basic operations -/
macro "cf_step" : tactic => `(tactic| (
  first
    | rfl
    | (simp only [modClient_cf, modGroup_cf, write_cf, enq_cf, flush_cf, pushClientTo_cf, joinedTo_cf]; done)
    | (rw [foldl_cf])
    | (intro w r; cases r <;> first | rfl | simp)
    | (intro w r; first | rfl | simp)))

@[simp] theorem autoLockKick_cf (w : World) (gn : String) : (autoLockKick w gn).cf = w.cf := by
  unfold autoLockKick
  split
  · rfl
  · split_ifs
    all_goals (try simp only [])
    all_goals (repeat' cf_step)

@[simp] theorem addGroup_cf (w : World) (n : String) : (addGroup w n).1.cf = w.cf := by
  unfold addGroup
  split_ifs
  · rfl
  · split
    · simp
    · split
      · rfl
      · simp only []
        rw [autoLockKick_cf]; rfl

@[simp] theorem specPerms_cf (w : World) (g : Group) (u : String) (p : PermSpec) : (specPerms w g u p).1.cf = w.cf := by
  unfold specPerms
  split
  · rfl
  · simp only []
    split_ifs <;> rfl

@[simp] theorem getPermission_cf (w : World) (g : Group) (cr : Creds) : (getPermission w g cr).1.cf = w.cf := by
  unfold getPermission
  simp only []
  repeat' (first | split_ifs | split)
  all_goals first
    | rfl
    | (simp only [specPerms_cf]; done)
    | (rename_i h; rw [← specPerms_cf w g _ _]; simp [h])

@[simp] theorem delUpConn_cf (w : World) (i : Nat) (id : String) (push : Bool) : (delUpConn w i id push).1.cf = w.cf := by
  unfold delUpConn
  split
  · rfl
  · split
    · rfl
    · simp only []
      split
      · rfl
      · split
        · rfl
        · show World.cf (List.foldl _ _ _) = w.cf
          rw [foldl_cf]
          · rfl
          · intro w r
            cases r <;> simp only []
            split_ifs <;> simp

@[simp] theorem delClient_cf (w : World) (r : Ref) (gn : String) : (delClient w r gn).cf = w.cf := by
  unfold delClient
  split
  · rfl
  · split_ifs
    · rfl
    · simp only []
      rw [foldl_cf]
      · simp
      · intro w cc; simp

@[simp] theorem leaveGroup_cf (w : World) (i : Nat) : (leaveGroup w i).cf = w.cf := by
  unfold leaveGroup
  split
  · rfl
  · split
    · rfl
    · simp only []
      rw [modClient_cf, delClient_cf, foldl_cf]
      intro w u; simp

@[simp] theorem finish_cf (w : World) (i : Nat) (e : CloseErr) : (finish w i e).cf = w.cf := by
  unfold finish
  simp only []
  split <;> simp

@[simp] theorem broadcastChange_cf (w : World) (gn : String) (a : Action) : (broadcastChange w gn a).cf = w.cf := by
  unfold broadcastChange
  split
  · rfl
  · simp only []
    split
    · rw [foldl_cf]; intro w j; simp
    · show (List.foldl _ w _).cf = w.cf
      rw [foldl_cf]; intro w j; simp

@[simp] theorem wallOps_cf (w : World) (gn t : String) : (wallOps w gn t).cf = w.cf := by
  unfold wallOps
  split
  · rfl
  · rw [foldl_cf]
    intro w r
    cases r <;> simp only []
    split_ifs <;> simp

@[simp] theorem joinFail_cf (w : World) (i : Nat) (g : String) (e : JoinErr) : (joinFail w i g e).cf = w.cf := rfl

@[simp] theorem insertClient_cf (w : World) (i : Nat) (gn : String) (g : Group) (u : String) (p : Slice) :
    (insertClient w i gn g u p).cf = w.cf := by
  unfold insertClient
  simp only []
  have e0 : ∀ w : World, (if w.fix.p10 = true then w.modClient i fun c => { c with username := u, perms := p }
      else w).cf = w.cf := by
    intro w; split_ifs <;> simp
  split_ifs
  all_goals (simp only [write_cf, leaveGroup_cf, modClient_cf])
  all_goals (rw [foldl_cf])
  all_goals first
    | (simp only [enq_cf, modGroup_cf, modClient_cf]; done)
    | (intro w r; simp; done)
    | skip

@[simp] theorem admission_cf (w : World) (i : Nat) (gn : String) (g : Group) (u : String) (p : Slice) :
    (admission w i gn g u p).cf = w.cf := by
  unfold admission
  simp only []
  split_ifs <;> simp

@[simp] theorem joinGroup_cf (w : World) (i : Nat) (g : String) (cr : Creds) (d : Dict) :
    (joinGroup w i g cr d).cf = w.cf := by
  unfold joinGroup
  simp only []
  split
  · next w1 e h1 =>
    have e1 : w1.cf = w.cf := by
      have := addGroup_cf (w.modClient i fun c => { c with data := d }) g
      rw [h1] at this; simpa using this
    simp [e1]
  · next w1 h1 =>
    have e1 : w1.cf = w.cf := by
      have := addGroup_cf (w.modClient i fun c => { c with data := d }) g
      rw [h1] at this; simpa using this
    split
    · simp [e1]
    · next gr hgr =>
      split
      · next w2 e h2 =>
        have e2 : w2.cf = w.cf := by
          have := getPermission_cf w1 gr cr
          rw [h2] at this; simpa [e1] using this
        simp [e2]
      · next w2 username perms h2 =>
        have e2 : w2.cf = w.cf := by
          have := getPermission_cf w1 gr cr
          rw [h2] at this; simpa [e1] using this
        rw [admission_cf]
        split_ifs <;> simp [e2]

end Galene.Sig
