import GaleneVerif.Model.DownTrack
/-
Lemmas for C04: the layer word of the down track.

1. `pack`/`unpack` round trip (`unpack_pack`, `pack_lt`, `unpack_small`).
2. Pure layer-record versions of the model's functions: `adjL` (adjustLayer, driven by the
   direction `dir C s` of the rate check), `bumpL` (a new top layer appears), `tidL`/`sidL`
   (the temporal/spatial switch rules of `Write`), and their composition `stepL`.
3. Refinement: `layerStep` is definitionally `phase3 ∘ phase2 ∘ phase1` (`layerStep_eq`); each
   phase keeps "the returned layer is `unpack` of the returned word" and changes nothing but the
   word (`layerStep_coh`, for all flags), and for flags < 16 the result is `stepL`
   (`layerStep_val`).  `adjustLayer` is `adjL` (`adjustLayer_spec`).
4. The invariant `Inv` and its preservation by each pure phase.
5. Relational specifications `*_rel` of the phases, combined by `grind` (macros `stepL_grind`,
   `stepL_grind_inv`) into the facts about `stepL` that `Props/C04.lean` lifts.
6. `layerStep` neither reads nor writes the packet map (`layerStep_pm`).
-/
namespace Galene.Props.C04
open Galene Galene.Codecs Galene.Down

/-! ### the packed word -/

/-- the six numeric fields fit in four bits -/
def Small (l : Layer) : Prop :=
  l.sid < 16 ∧ l.wantedSid < 16 ∧ l.maxSid < 16 ∧ l.tid < 16 ∧ l.wantedTid < 16 ∧ l.maxTid < 16

instance (l : Layer) : Decidable (Small l) := by unfold Small; infer_instance

theorem unpack_small (w : Nat) : Small (unpack w) := by
  unfold Small unpack
  simp only
  omega

theorem pack_lt (l : Layer) : pack l < 2^32 := by
  unfold pack
  split <;> omega

theorem unpack_pack (l : Layer) (h : Small l) : unpack (pack l) = l := by
  obtain ⟨sid, wsid, msid, tid, wtid, mtid, lim⟩ := l
  obtain ⟨h1, h2, h3, h4, h5, h6⟩ := h
  simp only at h1 h2 h3 h4 h5 h6
  unfold unpack pack
  cases lim <;> simp <;> omega

/-- the layer record stored in the atomic word -/
def L (s : State) : Layer := unpack s.word

theorem L_small (s : State) : Small (L s) := unpack_small _

/-! ### `adjustLayer` on layer records -/

/-- outcome of the rate check of `adjustLayer` -/
inductive Dir | up | down | stay deriving DecidableEq, Repr

/-- the rate check of `adjustLayer`: depends on the rate estimate, the bitrate ceiling and REMB only -/
def dir (C : Consts) (s : State) : Dir :=
  if s.rate * 8 < (getMax C s * 7 % M64) / 8 then .up
  else if s.rate * 8 > (getMax C s * 3 % M64) / 2 then .down else .stay

/-- `adjustLayer` on a layer record, given the outcome of the rate check -/
def adjL (d : Dir) (layer : Layer) : Layer :=
  match d with
  | .up =>
    if layer.limitSid && layer.wantedSid ≠ 0 then { layer with wantedSid := 0 }
    else if !layer.limitSid && layer.sid < layer.maxSid then { layer with wantedSid := layer.sid + 1 }
    else if layer.tid < layer.maxTid then { layer with wantedTid := layer.tid + 1 }
    else layer
  | .down =>
    if layer.tid > 0 then { layer with wantedTid := layer.tid - 1 }
    else if layer.sid > 0 then { layer with wantedSid := if layer.limitSid then 0 else layer.sid - 1 }
    else layer
  | .stay => layer

/-- the non-layer fields agree -/
def SameRest (s s' : State) : Prop :=
  s'.pm = s.pm ∧ s'.maxBitrate = s.maxBitrate ∧ s'.remb = s.remb ∧ s'.rate = s.rate


theorem L_setword (s : State) (l : Layer) (h : Small l) : L { s with word := pack l } = l :=
  unpack_pack l h

theorem adjL_small (d : Dir) (l : Layer) (h : Small l) : Small (adjL d l) := by
  unfold Small at *
  unfold adjL
  cases d <;> simp only
  · split
    · simp only; omega
    · split
      · rename_i h1; simp only [Bool.and_eq_true, decide_eq_true_eq] at h1; simp only; omega
      · split
        · simp only; omega
        · exact h
  · split
    · simp only; omega
    · split
      · split <;> simp only <;> omega
      · exact h
  · exact h

theorem sameRest_setword (s : State) (w : Nat) : SameRest s { s with word := w } := ⟨rfl, rfl, rfl, rfl⟩
theorem sameRest_refl (s : State) : SameRest s s := ⟨rfl, rfl, rfl, rfl⟩

theorem adjustLayer_cases (C : Consts) (s : State) :
    (adjustLayer C s = s ∧ adjL (dir C s) (L s) = L s) ∨
    (adjustLayer C s = { s with word := pack (adjL (dir C s) (L s)) }) := by
  unfold adjustLayer dir adjL L
  simp only
  by_cases h1 : s.rate * 8 < getMax C s * 7 % M64 / 8
  · simp only [h1, if_true]
    split
    · exact Or.inr rfl
    · split
      · exact Or.inr rfl
      · split
        · exact Or.inr rfl
        · exact Or.inl ⟨rfl, rfl⟩
  · simp only [h1, if_false]
    by_cases h2 : s.rate * 8 > getMax C s * 3 % M64 / 2
    · simp only [h2, if_true]
      split
      · exact Or.inr rfl
      · split
        · exact Or.inr rfl
        · exact Or.inl ⟨rfl, rfl⟩
    · simp only [h2, if_false]
      exact Or.inl ⟨trivial, trivial⟩

/-- `adjustLayer` is `adjL` on the stored layer and changes nothing but the word -/
theorem adjustLayer_spec (C : Consts) (s : State) :
    L (adjustLayer C s) = adjL (dir C s) (L s) ∧ SameRest s (adjustLayer C s) := by
  rcases adjustLayer_cases C s with ⟨h1, h2⟩ | h
  · rw [h1, h2]; exact ⟨rfl, sameRest_refl s⟩
  · rw [h]; exact ⟨L_setword s _ (adjL_small _ _ (L_small s)), sameRest_setword s _⟩


theorem sameRest_trans {a b c : State} (h1 : SameRest a b) (h2 : SameRest b c) : SameRest a c := by
  unfold SameRest at *
  obtain ⟨a1, a2, a3, a4⟩ := h1
  obtain ⟨b1, b2, b3, b4⟩ := h2
  exact ⟨b1.trans a1, b2.trans a2, b3.trans a3, b4.trans a4⟩

/-! ### `Write`'s layer bookkeeping on layer records -/

/-- a packet of a layer above `maxTid`/`maxSid`: raise the maxima; a receiver at the top follows -/
def bumpL (layer : Layer) (flags : Flags) : Layer :=
  let layer :=
    if flags.tid > layer.maxTid then
      let l := if layer.tid = layer.maxTid then { layer with wantedTid := flags.tid, tid := flags.tid } else layer
      { l with maxTid := flags.tid }
    else layer
  let layer :=
    if flags.sid > layer.maxSid then
      let l := if layer.sid = layer.maxSid && !layer.limitSid
               then { layer with wantedSid := flags.sid, sid := flags.sid } else layer
      { l with maxSid := flags.sid }
    else layer
  layer

/-- the temporal switch rule -/
def tidL (layer : Layer) (flags : Flags) : Layer :=
  if flags.start && layer.tid ≠ layer.wantedTid then
    if flags.keyframe then { layer with tid := layer.wantedTid }
    else if layer.wantedTid < layer.tid then { layer with tid := layer.wantedTid }
    else if flags.tidUpSync && flags.tid ≤ layer.wantedTid then { layer with tid := flags.tid }
    else layer
  else layer

/-- the spatial switch rule; the Boolean is "request a keyframe" -/
def sidL (layer : Layer) (flags : Flags) : Layer × Bool :=
  if flags.start && layer.sid ≠ layer.wantedSid then
    if flags.keyframe then ({ layer with sid := layer.wantedSid }, false)
    else (layer, true)
  else (layer, false)

/-- the packet's layer is above the highest seen so far -/
def newTop (layer : Layer) (flags : Flags) : Bool :=
  flags.tid > layer.maxTid || flags.sid > layer.maxSid

/-- the whole bookkeeping of `Write` on a layer record: resulting layer and keyframe request -/
def stepL (d : Dir) (layer : Layer) (flags : Flags) : Layer × Bool :=
  let l1 := if newTop layer flags then adjL d (bumpL layer flags) else layer
  sidL (tidL l1 flags) flags

/-! ### the three phases of `layerStep` and the refinement -/

/-- first `let` of `layerStep`: new top layer and `adjustLayer` -/
def phase1 (C : Consts) (s : State) (flags : Flags) : State × Layer :=
  let layer := unpack s.word
  if flags.tid > layer.maxTid || flags.sid > layer.maxSid then
    let s := adjustLayer C { s with word := pack (bumpL layer flags) }
    (s, unpack s.word)
  else (s, layer)

/-- second `let` of `layerStep`: the temporal rule -/
def phase2 (p : State × Layer) (flags : Flags) : State × Layer :=
  match p with
  | (s, layer) =>
    if flags.start && layer.tid ≠ layer.wantedTid then
      if flags.keyframe then
        let l := { layer with tid := layer.wantedTid }; ({ s with word := pack l }, l)
      else if layer.wantedTid < layer.tid then
        let l := { layer with tid := layer.wantedTid }; ({ s with word := pack l }, l)
      else if flags.tidUpSync && flags.tid ≤ layer.wantedTid then
        let l := { layer with tid := flags.tid }; ({ s with word := pack l }, l)
      else (s, layer)
    else (s, layer)

/-- the final `if` of `layerStep`: the spatial rule -/
def phase3 (p : State × Layer) (flags : Flags) : State × Layer × Bool :=
  match p with
  | (s, layer) =>
    if flags.start && layer.sid ≠ layer.wantedSid then
      if flags.keyframe then
        let l := { layer with sid := layer.wantedSid }; ({ s with word := pack l }, l, false)
      else (s, layer, true)
    else (s, layer, false)

theorem layerStep_eq (C : Consts) (s : State) (flags : Flags) :
    layerStep C s flags = phase3 (phase2 (phase1 C s flags) flags) flags := rfl


theorem bumpL_small (l : Layer) (flags : Flags) (h : Small l) (hf : flags.tid < 16 ∧ flags.sid < 16) :
    Small (bumpL l flags) := by
  unfold Small at *
  unfold bumpL
  simp only
  split <;> split <;> (try split) <;> (try split) <;> (try simp only) <;> omega

theorem tidL_small (l : Layer) (flags : Flags) (h : Small l) : Small (tidL l flags) := by
  unfold Small at *
  unfold tidL
  split
  · split
    · simp only; omega
    · split
      · simp only; omega
      · split
        · rename_i h1; simp only [Bool.and_eq_true, decide_eq_true_eq] at h1; simp only; omega
        · exact h
  · exact h

theorem sidL_small (l : Layer) (flags : Flags) (h : Small l) : Small (sidL l flags).1 := by
  unfold Small at *
  unfold sidL
  split
  · split
    · simp only; omega
    · exact h
  · exact h

theorem phase1_pos (C : Consts) (s : State) (flags : Flags) (h : newTop (L s) flags = true) :
    phase1 C s flags =
      (adjustLayer C { s with word := pack (bumpL (L s) flags) },
       L (adjustLayer C { s with word := pack (bumpL (L s) flags) })) := by
  unfold newTop L at h
  unfold phase1 L
  simp only [h, if_true]

theorem phase1_neg (C : Consts) (s : State) (flags : Flags) (h : newTop (L s) flags = false) :
    phase1 C s flags = (s, L s) := by
  unfold newTop L at h
  unfold phase1 L
  simp only [h, if_false, Bool.false_eq_true]


theorem dir_setword (C : Consts) (s : State) (w : Nat) : dir C { s with word := w } = dir C s := rfl

theorem phase1_val (C : Consts) (s : State) (flags : Flags) (hf : flags.tid < 16 ∧ flags.sid < 16) :
    (phase1 C s flags).2 = (if newTop (L s) flags then adjL (dir C s) (bumpL (L s) flags) else L s) := by
  cases h : newTop (L s) flags
  · rw [phase1_neg C s flags h]; rfl
  · rw [phase1_pos C s flags h]
    have ha := adjustLayer_spec C { s with word := pack (bumpL (L s) flags) }
    rw [L_setword s _ (bumpL_small _ _ (L_small _) hf), dir_setword] at ha
    exact ha.1

/-- the layer returned by phase 1 is the stored one and only the word changes, for all flags -/
theorem phase1_coh (C : Consts) (s : State) (flags : Flags) :
    L (phase1 C s flags).1 = (phase1 C s flags).2 ∧ SameRest s (phase1 C s flags).1 := by
  cases h : newTop (L s) flags
  · rw [phase1_neg C s flags h]; exact ⟨rfl, sameRest_refl s⟩
  · rw [phase1_pos C s flags h]
    have ha := adjustLayer_spec C { s with word := pack (bumpL (L s) flags) }
    exact ⟨rfl, sameRest_trans (sameRest_setword s _) ha.2⟩

theorem phase2_cases (s : State) (l : Layer) (flags : Flags) :
    (phase2 (s, l) flags = (s, l) ∧ tidL l flags = l) ∨
    phase2 (s, l) flags = ({ s with word := pack (tidL l flags) }, tidL l flags) := by
  unfold phase2 tidL
  simp only
  split
  · split
    · exact Or.inr rfl
    · split
      · exact Or.inr rfl
      · split
        · exact Or.inr rfl
        · exact Or.inl ⟨rfl, rfl⟩
  · exact Or.inl ⟨rfl, rfl⟩

theorem phase3_cases (s : State) (l : Layer) (flags : Flags) :
    (phase3 (s, l) flags = (s, sidL l flags) ∧ (sidL l flags).1 = l) ∨
    phase3 (s, l) flags = ({ s with word := pack (sidL l flags).1 }, sidL l flags) := by
  unfold phase3 sidL
  simp only
  split
  · split
    · exact Or.inr rfl
    · exact Or.inl ⟨rfl, rfl⟩
  · exact Or.inl ⟨rfl, rfl⟩

theorem phase2_spec (p : State × Layer) (flags : Flags) (h : L p.1 = p.2) :
    (phase2 p flags).2 = tidL p.2 flags ∧ L (phase2 p flags).1 = (phase2 p flags).2
    ∧ SameRest p.1 (phase2 p flags).1 := by
  obtain ⟨s, l⟩ := p
  simp only at h
  have hs : Small l := h ▸ L_small s
  rcases phase2_cases s l flags with ⟨h1, h2⟩ | h1
  · rw [h1, h2]; exact ⟨rfl, h, sameRest_refl s⟩
  · rw [h1]; exact ⟨rfl, L_setword s _ (tidL_small l flags hs), sameRest_setword s _⟩

theorem phase3_spec (p : State × Layer) (flags : Flags) (h : L p.1 = p.2) :
    (phase3 p flags).2 = sidL p.2 flags ∧ L (phase3 p flags).1 = (phase3 p flags).2.1
    ∧ SameRest p.1 (phase3 p flags).1 := by
  obtain ⟨s, l⟩ := p
  simp only at h
  have hs : Small l := h ▸ L_small s
  rcases phase3_cases s l flags with ⟨h1, h2⟩ | h1
  · rw [h1]; exact ⟨rfl, h.trans h2.symm, sameRest_refl s⟩
  · rw [h1]; exact ⟨rfl, L_setword s _ (sidL_small l flags hs), sameRest_setword s _⟩

/-- for ALL flags (no size hypothesis): the layer used for the drop decision is the stored
one, and only the layer word changes -/
theorem layerStep_coh (C : Consts) (s : State) (flags : Flags) :
    L (layerStep C s flags).1 = (layerStep C s flags).2.1 ∧ SameRest s (layerStep C s flags).1 := by
  rw [layerStep_eq]
  obtain ⟨a2, a3⟩ := phase1_coh C s flags
  obtain ⟨b1, b2, b3⟩ := phase2_spec (phase1 C s flags) flags a2
  obtain ⟨c1, c2, c3⟩ := phase3_spec (phase2 (phase1 C s flags) flags) flags b2
  exact ⟨c2, sameRest_trans a3 (sameRest_trans b3 c3)⟩

/-- **Refinement of `layerStep`** (flags within the 4-bit fields): the returned layer and
keyframe request are those of the pure `stepL`. -/
theorem layerStep_val (C : Consts) (s : State) (flags : Flags) (hf : flags.tid < 16 ∧ flags.sid < 16) :
    (layerStep C s flags).2 = stepL (dir C s) (L s) flags := by
  rw [layerStep_eq]
  have a1 := phase1_val C s flags hf
  obtain ⟨a2, a3⟩ := phase1_coh C s flags
  obtain ⟨b1, b2, b3⟩ := phase2_spec (phase1 C s flags) flags a2
  obtain ⟨c1, c2, c3⟩ := phase3_spec (phase2 (phase1 C s flags) flags) flags b2
  rw [c1, b1, a1]; rfl

/-! ### the invariant -/

/-- the selected and wanted layers are at most the highest seen, and a limited receiver wants
spatial layer 0 -/
def Inv (l : Layer) : Prop :=
  Small l ∧ l.sid ≤ l.maxSid ∧ l.tid ≤ l.maxTid ∧ l.wantedSid ≤ l.maxSid ∧ l.wantedTid ≤ l.maxTid
    ∧ (l.limitSid = true → l.wantedSid = 0)

instance (l : Layer) : Decidable (Inv l) := by unfold Inv; infer_instance

theorem adjL_inv (d : Dir) (l : Layer) (h : Inv l) : Inv (adjL d l) := by
  obtain ⟨sid, wsid, msid, tid, wtid, mtid, lim⟩ := l
  unfold Inv Small adjL at *
  cases d <;> cases lim <;> simp at * <;> (repeat' split) <;> (try simp at *) <;> (try omega)


theorem adjL_frame (d : Dir) (l : Layer) :
    ∃ ws wt, adjL d l = { l with wantedSid := ws, wantedTid := wt } := by
  unfold adjL
  cases d <;> simp only
  · split
    · exact ⟨_, _, rfl⟩
    · split
      · exact ⟨_, _, rfl⟩
      · split
        · exact ⟨_, _, rfl⟩
        · exact ⟨_, _, rfl⟩
  · split
    · exact ⟨_, _, rfl⟩
    · split
      · exact ⟨_, _, rfl⟩
      · exact ⟨_, _, rfl⟩
  · exact ⟨_, _, rfl⟩

theorem bumpL_inv (l : Layer) (flags : Flags) (h : Inv l) (hf : flags.tid < 16 ∧ flags.sid < 16) :
    Inv (bumpL l flags) := by
  obtain ⟨sid, wsid, msid, tid, wtid, mtid, lim⟩ := l
  unfold Inv Small bumpL at *
  cases lim <;> simp at * <;> (repeat' split) <;> (try simp at *) <;> (try omega)

theorem tidL_inv (l : Layer) (flags : Flags) (h : Inv l) : Inv (tidL l flags) := by
  obtain ⟨sid, wsid, msid, tid, wtid, mtid, lim⟩ := l
  unfold Inv Small tidL at *
  cases lim <;> simp at * <;> (repeat' split) <;> (try simp at *) <;> (try omega)

theorem sidL_inv (l : Layer) (flags : Flags) (h : Inv l) : Inv (sidL l flags).1 := by
  obtain ⟨sid, wsid, msid, tid, wtid, mtid, lim⟩ := l
  unfold Inv Small sidL at *
  cases lim <;> simp at * <;> (repeat' split) <;> (try simp at *) <;> (try omega)


theorem stepL_inv (d : Dir) (l : Layer) (flags : Flags) (h : Inv l) (hf : flags.tid < 16 ∧ flags.sid < 16) :
    Inv (stepL d l flags).1 := by
  unfold stepL
  simp only
  split
  · exact sidL_inv _ _ (tidL_inv _ _ (adjL_inv _ _ (bumpL_inv _ _ h hf)))
  · exact sidL_inv _ _ (tidL_inv _ _ h)


/-! ### relational specifications of the phases -/

theorem bumpL_rel (l : Layer) (flags : Flags) :
    (bumpL l flags).limitSid = l.limitSid
    ∧ (bumpL l flags).maxSid = max l.maxSid flags.sid
    ∧ (bumpL l flags).maxTid = max l.maxTid flags.tid
    ∧ (((bumpL l flags).sid = l.sid ∧ (bumpL l flags).wantedSid = l.wantedSid) ∨
        (l.sid = l.maxSid ∧ flags.sid > l.maxSid ∧ l.limitSid = false ∧
          (bumpL l flags).sid = flags.sid ∧ (bumpL l flags).wantedSid = flags.sid))
    ∧ (((bumpL l flags).tid = l.tid ∧ (bumpL l flags).wantedTid = l.wantedTid) ∨
        (l.tid = l.maxTid ∧ flags.tid > l.maxTid ∧
          (bumpL l flags).tid = flags.tid ∧ (bumpL l flags).wantedTid = flags.tid))
    ∧ (l.sid = l.maxSid → flags.sid > l.maxSid → l.limitSid = false → (bumpL l flags).sid = flags.sid)
    ∧ (l.tid = l.maxTid → flags.tid > l.maxTid → (bumpL l flags).tid = flags.tid) := by
  obtain ⟨sid, wsid, msid, tid, wtid, mtid, lim⟩ := l
  unfold bumpL
  cases lim <;> simp at * <;> (repeat' split) <;> (try simp at *) <;> (try omega)

theorem adjL_rel (d : Dir) (l : Layer) :
    (adjL d l).sid = l.sid ∧ (adjL d l).tid = l.tid ∧ (adjL d l).maxSid = l.maxSid
    ∧ (adjL d l).maxTid = l.maxTid ∧ (adjL d l).limitSid = l.limitSid := by
  obtain ⟨ws, wt, he⟩ := adjL_frame d l
  rw [he]; exact ⟨rfl, rfl, rfl, rfl, rfl⟩

theorem tidL_rel (l : Layer) (flags : Flags) :
    (tidL l flags).sid = l.sid ∧ (tidL l flags).wantedSid = l.wantedSid ∧ (tidL l flags).maxSid = l.maxSid
    ∧ (tidL l flags).wantedTid = l.wantedTid ∧ (tidL l flags).maxTid = l.maxTid
    ∧ (tidL l flags).limitSid = l.limitSid
    ∧ ((tidL l flags).tid = l.tid ∨
       (flags.start = true ∧
         ((flags.keyframe = true ∧ (tidL l flags).tid = l.wantedTid) ∨
          ((tidL l flags).tid = l.wantedTid ∧ l.wantedTid < l.tid) ∨
          (flags.tidUpSync = true ∧ flags.tid ≤ l.wantedTid ∧ l.tid < l.wantedTid ∧
            (tidL l flags).tid = flags.tid)))) := by
  obtain ⟨sid, wsid, msid, tid, wtid, mtid, lim⟩ := l
  unfold tidL
  simp only
  (repeat' split) <;> (try simp at *) <;> (try omega) <;> grind

theorem sidL_rel (l : Layer) (flags : Flags) :
    (sidL l flags).1.tid = l.tid ∧ (sidL l flags).1.wantedSid = l.wantedSid ∧ (sidL l flags).1.maxSid = l.maxSid
    ∧ (sidL l flags).1.wantedTid = l.wantedTid ∧ (sidL l flags).1.maxTid = l.maxTid
    ∧ (sidL l flags).1.limitSid = l.limitSid
    ∧ ((sidL l flags).1.sid = l.sid ∨
       (flags.start = true ∧ flags.keyframe = true ∧ (sidL l flags).1.sid = l.wantedSid))
    ∧ (flags.start = true → flags.keyframe = true → (sidL l flags).1.sid = l.wantedSid) := by
  obtain ⟨sid, wsid, msid, tid, wtid, mtid, lim⟩ := l
  unfold sidL
  simp only
  (repeat' split) <;> (try simp at *) <;> (try omega) <;> grind



/-- proof pattern for facts about `stepL`: bring in the relational specs of the phases
and let `grind` combine them -/
macro "stepL_grind" d:ident l:ident flags:ident : tactic => `(tactic|
  (unfold stepL at *
   simp only at *
   by_cases hn : newTop $l $flags = true
   · simp only [if_pos hn] at *
     unfold newTop at hn
     simp only [Bool.or_eq_true, decide_eq_true_eq] at hn
     have hb := bumpL_rel $l $flags
     have ha := adjL_rel $d (bumpL $l $flags)
     have ht := tidL_rel (adjL $d (bumpL $l $flags)) $flags
     have hs := sidL_rel (tidL (adjL $d (bumpL $l $flags)) $flags) $flags
     grind
   · simp only [if_neg hn] at *
     unfold newTop at hn
     simp only [Bool.or_eq_true, decide_eq_true_eq, not_or, Nat.not_lt] at hn
     have ht := tidL_rel $l $flags
     have hs := sidL_rel (tidL $l $flags) $flags
     grind))

theorem stepL_sid (d : Dir) (l : Layer) (flags : Flags)
    (hne : (stepL d l flags).1.sid ≠ l.sid) :
    (flags.start = true ∧ flags.keyframe = true) ∨
    (l.sid = l.maxSid ∧ flags.sid > l.maxSid ∧ l.limitSid = false ∧ (stepL d l flags).1.sid = flags.sid) := by
  stepL_grind d l flags

theorem stepL_tid_down (d : Dir) (l : Layer) (flags : Flags)
    (hlt : (stepL d l flags).1.tid < l.tid) : flags.start = true := by
  stepL_grind d l flags

theorem stepL_limit (d : Dir) (l : Layer) (flags : Flags) :
    (stepL d l flags).1.limitSid = l.limitSid := by
  stepL_grind d l flags

theorem stepL_maxSid (d : Dir) (l : Layer) (flags : Flags) :
    (stepL d l flags).1.maxSid = max l.maxSid flags.sid := by
  stepL_grind d l flags

theorem stepL_maxTid (d : Dir) (l : Layer) (flags : Flags) :
    (stepL d l flags).1.maxTid = max l.maxTid flags.tid := by
  stepL_grind d l flags


theorem stepL_follow_sid (d : Dir) (l : Layer) (flags : Flags)
    (h1 : l.sid = l.maxSid) (h2 : flags.sid > l.maxSid) (h3 : l.limitSid = false)
    (h4 : ¬ (flags.start = true ∧ flags.keyframe = true)) :
    (stepL d l flags).1.sid = flags.sid := by
  stepL_grind d l flags

theorem stepL_follow_tid (d : Dir) (l : Layer) (flags : Flags)
    (h1 : l.tid = l.maxTid) (h2 : flags.tid > l.maxTid) (h4 : flags.start = false) :
    (stepL d l flags).1.tid = flags.tid := by
  stepL_grind d l flags

/-- same, with the invariant of the intermediate layers available -/
macro "stepL_grind_inv" d:ident l:ident flags:ident hi:ident hf:ident : tactic => `(tactic|
  (unfold stepL at *
   simp only at *
   by_cases hn : newTop $l $flags = true
   · simp only [if_pos hn] at *
     unfold newTop at hn
     simp only [Bool.or_eq_true, decide_eq_true_eq] at hn
     have hb := bumpL_rel $l $flags
     have ha := adjL_rel $d (bumpL $l $flags)
     have ht := tidL_rel (adjL $d (bumpL $l $flags)) $flags
     have hs := sidL_rel (tidL (adjL $d (bumpL $l $flags)) $flags) $flags
     have hai := adjL_inv $d _ (bumpL_inv $l $flags $hi $hf)
     unfold Inv Small at hai $hi:ident
     grind
   · simp only [if_neg hn] at *
     unfold newTop at hn
     simp only [Bool.or_eq_true, decide_eq_true_eq, not_or, Nat.not_lt] at hn
     have ht := tidL_rel $l $flags
     have hs := sidL_rel (tidL $l $flags) $flags
     unfold Inv Small at $hi:ident
     grind))

theorem stepL_tid_up (d : Dir) (l : Layer) (flags : Flags) (hi : Inv l) (hf : flags.tid < 16 ∧ flags.sid < 16)
    (hgt : (stepL d l flags).1.tid > l.tid) :
    (flags.start = true ∧ flags.keyframe = true) ∨
    (flags.start = true ∧ flags.tidUpSync = true ∧ flags.tid ≤ (stepL d l flags).1.wantedTid ∧
      (stepL d l flags).1.tid = flags.tid) ∨
    (l.tid = l.maxTid ∧ flags.tid > l.maxTid ∧
      ((stepL d l flags).1.tid = flags.tid ∨ (flags.start = true ∧ (stepL d l flags).1.tid < flags.tid))) := by
  stepL_grind_inv d l flags hi hf

theorem stepL_low_kf (d : Dir) (l : Layer) (flags : Flags) (hi : Inv l) (hf : flags.tid < 16 ∧ flags.sid < 16)
    (hl : l.limitSid = true) (hs : flags.start = true) (hk : flags.keyframe = true) :
    (stepL d l flags).1.sid = 0 := by
  stepL_grind_inv d l flags hi hf

theorem stepL_low_stay (d : Dir) (l : Layer) (flags : Flags) (hi : Inv l) (hf : flags.tid < 16 ∧ flags.sid < 16)
    (hl : l.limitSid = true) (h0 : l.sid = 0) :
    (stepL d l flags).1.sid = 0 := by
  stepL_grind_inv d l flags hi hf

/-! ### `layerStep` and the packet map -/

/-- does the temporal rule of `Write` store a new word? -/
def tidCh (l : Layer) (f : Flags) : Bool :=
  f.start && l.tid ≠ l.wantedTid && (f.keyframe || l.wantedTid < l.tid || (f.tidUpSync && f.tid ≤ l.wantedTid))

theorem phase2_eq (s : State) (l : Layer) (f : Flags) :
    phase2 (s, l) f = (if tidCh l f then { s with word := pack (tidL l f) } else s, tidL l f) := by
  unfold phase2 tidL tidCh
  simp only
  split
  · rename_i h1
    split
    · rename_i h2
      simp only [h1, h2, Bool.true_or, Bool.and_true, if_true]
    · rename_i h2
      split
      · rename_i h3
        simp only [h1, h2, h3, decide_true, Bool.true_or, Bool.or_true, Bool.and_true, if_true]
      · rename_i h3
        split
        · rename_i h4
          simp only [h1, h4, Bool.or_true, Bool.and_true, if_true]
        · rename_i h4
          simp only [h1, h2, h3, h4, decide_false, Bool.or_false, Bool.and_false, Bool.false_eq_true, if_false]
  · rename_i h1
    simp only [h1, Bool.false_and, Bool.false_eq_true, if_false]


/-- does the spatial rule of `Write` store a new word? -/
def sidCh (l : Layer) (f : Flags) : Bool := f.start && l.sid ≠ l.wantedSid && f.keyframe

theorem phase3_eq (s : State) (l : Layer) (f : Flags) :
    phase3 (s, l) f = (if sidCh l f then { s with word := pack (sidL l f).1 } else s, sidL l f) := by
  unfold phase3 sidL sidCh
  simp only
  split
  · rename_i h1
    split
    · rename_i h2
      simp only [h1, h2, Bool.and_true, if_true]
    · rename_i h2
      simp only [h1, h2, Bool.and_false, Bool.false_eq_true, if_false]
  · rename_i h1
    simp only [h1, Bool.false_and, Bool.false_eq_true, if_false]

theorem adjustLayer_pm (C : Consts) (s : State) (x : PacketMap.State) :
    adjustLayer C { s with pm := x } = { adjustLayer C s with pm := x } := by
  unfold adjustLayer
  simp only
  have hg : getMax C { s with pm := x } = getMax C s := rfl
  rw [hg]
  (repeat' split) <;> rfl

theorem phase1_pm (C : Consts) (s : State) (x : PacketMap.State) (f : Flags) :
    phase1 C { s with pm := x } f = ({ (phase1 C s f).1 with pm := x }, (phase1 C s f).2) := by
  have hL : L { s with pm := x } = L s := rfl
  cases h : newTop (L s) f
  · rw [phase1_neg C s f h, phase1_neg C { s with pm := x } f (hL ▸ h)]; rfl
  · rw [phase1_pos C s f h, phase1_pos C { s with pm := x } f (hL ▸ h), hL]
    have := adjustLayer_pm C { s with word := pack (bumpL (L s) f) } x
    simp only at this ⊢
    rw [this]
    rfl

theorem phase2_pm (s : State) (l : Layer) (x : PacketMap.State) (f : Flags) :
    phase2 ({ s with pm := x }, l) f = ({ (phase2 (s, l) f).1 with pm := x }, (phase2 (s, l) f).2) := by
  rw [phase2_eq, phase2_eq]
  split <;> rfl

theorem phase3_pm (s : State) (l : Layer) (x : PacketMap.State) (f : Flags) :
    phase3 ({ s with pm := x }, l) f = ({ (phase3 (s, l) f).1 with pm := x }, (phase3 (s, l) f).2) := by
  rw [phase3_eq, phase3_eq]
  split <;> rfl

/-- `layerStep` neither reads nor writes the packet map -/
theorem layerStep_pm (C : Consts) (s : State) (x : PacketMap.State) (f : Flags) :
    layerStep C { s with pm := x } f = ({ (layerStep C s f).1 with pm := x }, (layerStep C s f).2) := by
  rw [layerStep_eq, layerStep_eq, phase1_pm]
  generalize phase1 C s f = p1
  obtain ⟨s1, l1⟩ := p1
  rw [phase2_pm]
  generalize phase2 (s1, l1) f = p2
  obtain ⟨s2, l2⟩ := p2
  rw [phase3_pm]


end Galene.Props.C04

